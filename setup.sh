#!/bin/sh
# Builds the framework from files on disk only (offline).
set -e
cd "$(dirname "$0")"
export GOFLAGS=-mod=mod GOPROXY=off GOSUMDB=off GOTOOLCHAIN=local
mkdir -p build evidence replays
cp /repo/go.sum harness/go.sum
(cd harness && go build -tags verif -o ../build/harness .)
./build/harness gen coq /repo || true
(cd coq && coq_makefile -f _CoqProject -o Makefile >/dev/null && timeout 3000 make -j16)
(cd coq/Extract && coqc -Q .. SQLair Extract.v && ocamlfind ocamlopt -O3 -w -a modelrun.mli modelrun.ml driver.ml -o ../../build/modelrun 2>/dev/null)
echo setup done
