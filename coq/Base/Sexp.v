(* A minimal s-expression reader/printer used for the case files exchanged
   with the Go harness.  Definitions only. *)
From Coq Require Import Ascii String.
From SQLair.Base Require Import Bytes.

Inductive sexp :=
| Atom (s : str)
| SList (l : list sexp).

Definition lit (x : string) : str := map N_of_ascii (list_ascii_of_string x).

Definition flush (atom : option str) (stack : list (list sexp)) : list (list sexp) :=
  match atom, stack with
  | Some a, top :: r => (Atom (rev a) :: top) :: r
  | _, _ => stack
  end.

Fixpoint sx_loop (s : str) (atom : option str) (stack : list (list sexp)) : option (list sexp) :=
  match s with
  | [] =>
      match flush atom stack with
      | [top] => Some (rev top)
      | _ => None
      end
  | c :: s' =>
      if N.eqb c 40 then sx_loop s' None ([] :: flush atom stack)
      else if N.eqb c 41 then
        match flush atom stack with
        | top :: next :: r => sx_loop s' None ((SList (rev top) :: next) :: r)
        | _ => None
        end
      else if N.eqb c 32 then sx_loop s' None (flush atom stack)
      else sx_loop s' (Some (c :: match atom with Some a => a | None => [] end)) stack
  end.

Definition read_sexps (s : str) : option (list sexp) := sx_loop s None [[]].

(* hex atoms are written x<hex> so that the empty string is the atom "x" *)
Definition xhex (s : str) : str := 120%N :: hex_of s.
Definition unxhex (a : str) : option str :=
  match a with
  | 120%N :: h => unhex h
  | _ => None
  end.

Definition atom_nat (a : str) : option nat :=
  option_map N.to_nat (atoi_digits a 0%N).
Definition atom_N (a : str) : option N := atoi_digits a 0%N.

Definition sp : str := [32%N].
Definition paren (l : list str) : str := [40%N] ++ concat_sep sp l ++ [41%N].
