(* unicode/utf8.DecodeRuneInString, transcribed from the Go standard library
   (first-byte table + accept ranges). Definitions only. *)
From SQLair.Base Require Import Bytes.
Local Open Scope N_scope.

Definition rune_error : N := 65533. (* U+FFFD *)

Definition inr (lo hi x : N) : bool := N.leb lo x && N.leb x hi.

(* decode_rune s = (rune, size). size = 0 only for the empty string. Invalid or
   truncated encodings give (rune_error, 1). *)
Definition decode_rune (s : str) : N * nat :=
  match s with
  | [] => (rune_error, 0%nat)
  | s0 :: t =>
      if N.ltb s0 128 then (s0, 1%nat)
      else if N.ltb s0 194 then (rune_error, 1%nat)          (* 0x80..0xC1 *)
      else if N.leb s0 223 then                               (* 0xC2..0xDF: 2 bytes *)
        match t with
        | s1 :: _ => if inr 128 191 s1 then ((s0 - 192) * 64 + (s1 - 128), 2%nat)
                     else (rune_error, 1%nat)
        | _ => (rune_error, 1%nat)
        end
      else if N.leb s0 239 then                               (* 0xE0..0xEF: 3 bytes *)
        match t with
        | s1 :: s2 :: _ =>
            let lo := if N.eqb s0 224 then 160 else 128 in
            let hi := if N.eqb s0 237 then 159 else 191 in
            if inr lo hi s1 then
              if inr 128 191 s2 then
                ((s0 - 224) * 4096 + (s1 - 128) * 64 + (s2 - 128), 3%nat)
              else (rune_error, 1%nat)
            else (rune_error, 1%nat)
        | _ => (rune_error, 1%nat)
        end
      else if N.leb s0 244 then                               (* 0xF0..0xF4: 4 bytes *)
        match t with
        | s1 :: s2 :: s3 :: _ =>
            let lo := if N.eqb s0 240 then 144 else 128 in
            let hi := if N.eqb s0 244 then 143 else 191 in
            if inr lo hi s1 then
              if inr 128 191 s2 then
                if inr 128 191 s3 then
                  ((s0 - 240) * 262144 + (s1 - 128) * 4096 + (s2 - 128) * 64 + (s3 - 128), 4%nat)
                else (rune_error, 1%nat)
              else (rune_error, 1%nat)
            else (rune_error, 1%nat)
        | _ => (rune_error, 1%nat)
        end
      else (rune_error, 1%nat)                                (* 0xF5..0xFF *)
  end.
