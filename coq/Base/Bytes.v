(* Byte strings: a Go string is modelled as the list of its bytes (N < 256).
   Definitions only. *)
From Coq Require Export List NArith Bool Arith Lia.
Export ListNotations.

Definition str := list N.

Fixpoint str_eqb (a b : str) : bool :=
  match a, b with
  | [], [] => true
  | x :: a', y :: b' => N.eqb x y && str_eqb a' b'
  | _, _ => false
  end.

(* Byte-lexicographic order: what Go's < on strings and sort.Strings use. *)
Fixpoint str_ltb (a b : str) : bool :=
  match a, b with
  | [], [] => false
  | [], _ :: _ => true
  | _ :: _, [] => false
  | x :: a', y :: b' => N.ltb x y || (N.eqb x y && str_ltb a' b')
  end.

Definition str_leb (a b : str) : bool := negb (str_ltb b a).

(* ASCII lower-casing of one byte (used for the case-insensitive keywords). *)
Definition lower (b : N) : N :=
  if (N.leb 65 b && N.leb b 90)%bool then (b + 32)%N else b.

Fixpoint prefix_fold (kw s : str) : bool :=
  (* [kw] (ASCII) is a case-insensitive prefix of [s] *)
  match kw, s with
  | [], _ => true
  | k :: kw', x :: s' => N.eqb (lower k) (lower x) && prefix_fold kw' s'
  | _ :: _, [] => false
  end.

Fixpoint has_prefix (p s : str) : bool :=
  match p, s with
  | [], _ => true
  | k :: p', x :: s' => N.eqb k x && has_prefix p' s'
  | _ :: _, [] => false
  end.

Definition mem_N (x : N) (l : list N) : bool := existsb (N.eqb x) l.

(* insertion sort on byte strings: the model of sort.Strings *)
Fixpoint insert_str (x : str) (l : list str) : list str :=
  match l with
  | [] => [x]
  | y :: l' => if str_leb x y then x :: l else y :: insert_str x l'
  end.
Definition sort_strs (l : list str) : list str := fold_right insert_str [] l.

(* hex *)
Definition hexdigit (n : N) : N := if N.ltb n 10 then (48 + n)%N else (87 + n)%N.
Fixpoint hex_of (s : str) : str :=
  match s with
  | [] => []
  | b :: s' => hexdigit (N.div b 16) :: hexdigit (N.modulo b 16) :: hex_of s'
  end.
Definition unhexdigit (c : N) : option N :=
  if (N.leb 48 c && N.leb c 57)%bool then Some (c - 48)%N
  else if (N.leb 97 c && N.leb c 102)%bool then Some (c - 87)%N
  else None.
Fixpoint unhex (s : str) : option str :=
  match s with
  | [] => Some []
  | a :: b :: s' =>
      match unhexdigit a, unhexdigit b, unhex s' with
      | Some x, Some y, Some r => Some ((x * 16 + y)%N :: r)
      | _, _, _ => None
      end
  | _ => None
  end.

(* strconv.Itoa for non-negative numbers and the inverse used by Atoi. *)
Fixpoint itoa_fuel (fuel : nat) (n : N) (acc : str) : str :=
  match fuel with
  | O => acc
  | S f =>
      let acc' := (48 + N.modulo n 10)%N :: acc in
      if N.ltb n 10 then acc' else itoa_fuel f (N.div n 10) acc'
  end.
Definition itoa (n : N) : str := itoa_fuel (S (N.to_nat (N.log2 n))) n [].
Definition itoa_nat (n : nat) : str := itoa (N.of_nat n).

Definition is_dec (c : N) : bool := (N.leb 48 c && N.leb c 57)%bool.
Fixpoint atoi_digits (s : str) (acc : N) : option N :=
  match s with
  | [] => Some acc
  | c :: s' => if is_dec c then atoi_digits s' (acc * 10 + (c - 48))%N else None
  end.
(* strconv.Atoi restricted to what matters: optional sign, then >=1 digits.
   Returns (negative?, magnitude). Overflow (> 2^63) is not modelled: the
   column names that reach it are driver supplied and < 2^63 whenever sqlair
   generated them. *)
Definition atoi (s : str) : option (bool * N) :=
  match s with
  | [] => None
  | 43 :: (_ :: _) as d => option_map (fun n => (false, n)) (atoi_digits (tl s) 0)
  | 45 :: (_ :: _) as d => option_map (fun n => (true, n)) (atoi_digits (tl s) 0)
  | _ => option_map (fun n => (false, n)) (atoi_digits s 0)
  end%N.

Fixpoint concat_sep (sep : str) (l : list str) : str :=
  match l with
  | [] => []
  | [x] => x
  | x :: l' => x ++ sep ++ concat_sep sep l'
  end.
