(* C13 — Rows and connections are released on every path, including failures.
   Property theorems only; proofs are in Proofs/IterProofs.v.  "released" =
   the iterator holds no rows and the result set, if one was opened, has been
   closed at the driver exactly once (database/sql returns the connection to
   the pool in the same step: environment specification). *)
From SQLair.Base Require Import Bytes.
From SQLair.Model Require Import Iter.
From SQLair.Proofs Require Import IterProofs.

(* Query.Get and Query.Run, for every result script (any rows, a fetch failure
   at any position, a failing driver close, a run error, a cancelled context),
   every query error and every argument list. *)
Theorem C13_get_releases :
  forall qerr hasout run c,
    fresh_run run -> released_opt (gr_iter (query_get qerr hasout run c)).
Proof. exact get_releases. Qed.
Print Assumptions C13_get_releases.

(* Query.GetAll, including every early return inside its loop. *)
Theorem C13_getall_releases :
  forall qerr hasout run c,
    fresh_run run -> released_opt (gar_iter (query_getall qerr hasout run c)).
Proof. exact getall_releases. Qed.
Print Assumptions C13_getall_releases.

(* Iterator: after any sequence of Next / Get / Close calls and cancellations,
   of any length, a Close leaves everything released. *)
Theorem C13_close_releases :
  forall qerr hasout run ops,
    fresh_run run ->
    released (fst (iter_run (query_iter qerr hasout run) (ops ++ [OpClose]))).
Proof. exact close_releases. Qed.
Print Assumptions C13_close_releases.

(* non-vacuity: a result set with a fetch failure after one row *)
Example C13_applies :
  let r := {| r_pending := [{| row_id := 1; row_ok := true |}; {| row_id := 2; row_ok := true |}];
              r_fail := Some (1, 7); r_close_err := None; r_more := false; r_closed := false; r_lasterr := None;
              r_hiteof := false; r_ctxdone := false; r_current := None; r_driver_closes := 0 |} in
  fresh_run (RunRows r) /\
  gar_err (query_getall None true (RunRows r)
             {| ga_outcome := None; ga_bad_slice := None; ga_has_slices := true; ga_bad_elem := None;
                ga_dests := GValid |}) = Some (ErrDriver 7).
Proof. split; [repeat split|vm_compute; reflexivity]. Qed.

(* ------------------------------------------------------------------------
   The connection pool (Model/Pool.v; proofs in Proofs/PoolProofs.v).
   Environment fact, checked by the differential run against
   sql.DB.Stats().InUse: a result set holds its pooled connection from the
   moment the query is run until the result set is closed; a statement without
   result set and a failed run hold nothing afterwards.
   conns_held i = 1 if the iterator's result set exists and is not closed.
   A call is Query.Get / Query.Run (CGet), Query.GetAll (CGetAll) or an
   iterator session Query.Iter; ops; Close (CIter), each with the result
   script the driver plays for it. *)
From SQLair.Model Require Import Pool.
From SQLair.Proofs Require Import PoolProofs.

(* When a call returns it holds no connection: for every result script (any
   rows, a fetch failure at any position, a failing driver close, a run error,
   a cancelled context, further result sets), every query error, every argument
   list, every sequence of iterator calls before the final Close. *)
Theorem C13_call_holds_nothing :
  forall c, call_fresh c -> call_held c = 0.
Proof. exact call_holds_nothing. Qed.
Print Assumptions C13_call_holds_nothing.

(* No sequence of calls, failed or not, can exhaust the pool: with capacity 1
   (or more) no call ever blocks and the pool ends with nothing in use. *)
Theorem C13_no_exhaustion :
  forall cap calls, 1 <= cap -> Forall call_fresh calls ->
    exists n, pool_run cap calls = Some n /\ n = 0.
Proof. exact no_exhaustion. Qed.
Print Assumptions C13_no_exhaustion.

(* the same from any level: the number of connections in use is unchanged by
   any sequence of calls *)
Theorem C13_pool_level_invariant :
  forall cap calls n, n < cap -> Forall call_fresh calls -> pool_run_from cap n calls = Some n.
Proof. exact pool_level_invariant. Qed.
Print Assumptions C13_pool_level_invariant.

(* The statement is not vacuous, and "Iterator.Close must be run" is an
   obligation of the application: Iter; Next over two rows WITHOUT Close holds
   a connection, the pool of capacity 1 then has 1 in use and every further
   call that runs a statement blocks; the same session with Close holds none. *)
Theorem C13_close_is_needed :
  conns_held (session_no_close None true (RunRows two_rows) [OpNext]) = 1 /\
  pool_acquire 1 0 true (conns_held (session_no_close None true (RunRows two_rows) [OpNext])) = Some 1 /\
  (forall c, call_runs c = true -> pool_step 1 1 c = None) /\
  call_held (CIter None true (RunRows two_rows) [OpNext]) = 0.
Proof. exact close_is_needed. Qed.
Print Assumptions C13_close_is_needed.

(* in general: any plain result with at least one row *)
Theorem C13_abandoned_holds :
  forall hasout r x rest, reading r -> r_pending r = x :: rest ->
    conns_held (session_no_close None hasout (RunRows r) [OpNext]) = 1.
Proof. exact abandoned_holds. Qed.
Print Assumptions C13_abandoned_holds.

(* a sequence with every kind of failure on a pool of capacity 1 *)
Example C13_pool_applies :
  let r := {| r_pending := [{| row_id := 1; row_ok := true |}; {| row_id := 2; row_ok := false |};
                            {| row_id := 3; row_ok := true |}];
              r_fail := Some (2, 7); r_close_err := Some 5; r_more := true; r_closed := false;
              r_lasterr := None; r_hiteof := false; r_ctxdone := false; r_current := None;
              r_driver_closes := 0 |} in
  let calls :=
    [CGet None true (RunRows r) {| g_outcome := None; g_dests := Some GValid |};
     CGetAll None true (RunRows r)
       {| ga_outcome := None; ga_bad_slice := None; ga_has_slices := true; ga_bad_elem := None;
          ga_dests := GValid |};
     CIter None true (RunRows r) [OpNext; OpCancel; OpGet GValid];
     CGet (Some (ErrQuery 1)) true (RunErr ErrCtx) {| g_outcome := None; g_dests := None |};
     CGet None true (RunErr (ErrDriver 3)) {| g_outcome := None; g_dests := Some (GInvalid 1) |};
     CIter None false (RunResult 3) [OpGet GOutcome]] in
  Forall call_fresh calls /\ pool_run 1 calls = Some 0.
Proof.
  split; [|vm_compute; reflexivity].
  repeat (constructor; try (unfold call_fresh, fresh_run, fresh_rows; cbn; tauto)).
Qed.
