(* C13 — Rows and connections are released on every path, including failures.
   Property theorems only; proofs are in Proofs/IterProofs.v.  "released" =
   the iterator holds no rows and the result set, if one was opened, has been
   closed at the driver exactly once (database/sql returns the connection to
   the pool in the same step: environment specification). *)
From SQLair.Base Require Import Bytes.
From SQLair.Model Require Import Iter.
From SQLair.Proofs Require Import IterProofs.

(* Query.Get and Query.Run, for every result script (any rows, a fetch failure
   at any position, a failing driver close, a run error, a cancelled context),
   every query error and every argument list. *)
Theorem C13_get_releases :
  forall qerr hasout run c,
    fresh_run run -> released_opt (gr_iter (query_get qerr hasout run c)).
Proof. exact get_releases. Qed.
Print Assumptions C13_get_releases.

(* Query.GetAll, including every early return inside its loop. *)
Theorem C13_getall_releases :
  forall qerr hasout run c,
    fresh_run run -> released_opt (gar_iter (query_getall qerr hasout run c)).
Proof. exact getall_releases. Qed.
Print Assumptions C13_getall_releases.

(* Iterator: after any sequence of Next / Get / Close calls and cancellations,
   of any length, a Close leaves everything released. *)
Theorem C13_close_releases :
  forall qerr hasout run ops,
    fresh_run run ->
    released (fst (iter_run (query_iter qerr hasout run) (ops ++ [OpClose]))).
Proof. exact close_releases. Qed.
Print Assumptions C13_close_releases.

(* non-vacuity: a result set with a fetch failure after one row *)
Example C13_applies :
  let r := {| r_pending := [{| row_id := 1; row_ok := true |}; {| row_id := 2; row_ok := true |}];
              r_fail := Some (1, 7); r_close_err := None; r_more := false; r_closed := false; r_lasterr := None;
              r_hiteof := false; r_ctxdone := false; r_current := None; r_driver_closes := 0 |} in
  fresh_run (RunRows r) /\
  gar_err (query_getall None true (RunRows r)
             {| ga_outcome := None; ga_bad_slice := None; ga_has_slices := true; ga_bad_elem := None;
                ga_dests := GValid |}) = Some (ErrDriver 7).
Proof. split; [repeat split|vm_compute; reflexivity]. Qed.
