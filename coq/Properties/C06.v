(* C06 — Row values land in the designated field or key, whatever the column
   order.  Property theorems only; proofs are in Proofs/ScanAlgebra.v,
   Proofs/ScanProofs.v, Proofs/ScanOrder.v and Proofs/ScanFields.v.
   Environment (specified in Model/Scan.v, validated by the differential run):
   database/sql's convertAssign, as [conv]. *)
From Coq Require Import String Permutation.
From SQLair.Base Require Import Bytes Sexp.
From SQLair.Model Require Import GenConsts Reflect TypeInfo Bind Scan.
From SQLair.Proofs Require Import ScanAlgebra ScanProofs ScanOrder ScanFields ScanRow ScanExample.

(* 1. Every error of the argument and column checks (an SBind error) is
   returned before anything is written: rows.Scan / OnSuccess never produce
   one, and when Get reports one no destination was touched. *)
Theorem C06_no_partial_mapping :
  forall env outputs cols cells args,
    (forall tgs m pend m1 e, rows_scan_cells env tgs cells m pend <> (m1, SErr (SBind e))) /\
    (forall e, snd (scan_row env outputs cols cells args) = Some (SBind e) ->
       fst (scan_row env outputs cols cells args) = None /\ scan_args env outputs cols args = BErr e) /\
    (forall e, scan_args env outputs cols args = BErr e ->
       scan_row env outputs cols cells args = (None, Some (SBind e))).
Proof.
  intros env outputs cols cells args. split; [|split].
  - intros tgs m pend m1 e. apply rows_scan_cells_no_bind.
  - exact (scan_row_no_partial env outputs cols cells args).
  - exact (scan_row_bind_err env outputs cols cells args).
Qed.
Print Assumptions C06_no_partial_mapping.

(* 2a. What ScanArgs computes from the columns: [seen] is the list of the
   aliases' indices, [used] the destination types of the outputs they name,
   one target per column, TForeign exactly for the columns that carry no
   generated alias. *)
Theorem C06_scan_targets_spec :
  forall env outputs m cols tgs seen used,
    scan_targets env outputs m cols [] [] [] = BOk (tgs, seen, used) ->
    seen = rev (filter_map marker_index cols) /\
    used = rev (filter_map (col_argtype outputs) cols) /\
    Forall2 (col_target_rel env outputs m) cols tgs /\
    (forall j c tg, nth_error cols j = Some c -> nth_error tgs j = Some tg ->
       (tg = TForeign <-> marker_index c = None)).
Proof. exact scan_targets_spec. Qed.
Print Assumptions C06_scan_targets_spec.

(* 2b. An expected column (the alias of output i) that is missing from the
   result makes ScanArgs fail. *)
Theorem C06_missing_column :
  forall env outputs cols args i,
    i < length outputs -> (forall c, In c cols -> marker_index c <> Some i) ->
    exists e, scan_args env outputs cols args = BErr e.
Proof. exact scan_args_missing_column. Qed.
Print Assumptions C06_missing_column.

(* ... with sqlair's "missing column" error when the earlier checks pass *)
Theorem C06_missing_column_error :
  forall env outputs cols args i m tgs seen used,
    i < length outputs -> (forall c, In c cols -> marker_index c <> Some i) ->
    validate_outputs env args [] = BOk m -> length outputs <= length cols ->
    scan_targets env outputs m cols [] [] [] = BOk (tgs, seen, used) ->
    scan_args env outputs cols args = BErr EOutputColumnMissing.
Proof. exact scan_args_missing_column_err. Qed.
Print Assumptions C06_missing_column_error.

(* 3. A supplied destination that no column of the statement uses, and a
   column whose destination was not supplied, make ScanArgs fail. *)
Theorem C06_unused_destination :
  forall env outputs cols args m t v,
    validate_outputs env args [] = BOk m -> In (t, v) m ->
    (forall c i l, In c cols -> marker_index c = Some i -> nth_error outputs i = Some l ->
       loc_argtype l <> t) ->
    exists e, scan_args env outputs cols args = BErr e.
Proof. exact scan_args_unused_destination. Qed.
Print Assumptions C06_unused_destination.

Theorem C06_missing_destination :
  forall env outputs cols args m c i l,
    validate_outputs env args [] = BOk m ->
    In c cols -> marker_index c = Some i -> nth_error outputs i = Some l ->
    t2v_get m (loc_argtype l) = None ->
    exists e, scan_args env outputs cols args = BErr e.
Proof. exact scan_args_missing_destination. Qed.
Print Assumptions C06_missing_destination.

(* 4. Get/set algebra of the destinations. *)
Theorem C06_set_succeeds_iff_get :
  forall v p x, (exists v', set_by_index v p x = Some v') <-> (exists y, field_by_index v p = Some y).
Proof.
  intros v p x. split.
  - intros [v' H]. eapply sbi_some_readable. exact H.
  - intros [y H]. eapply sbi_succeeds. exact H.
Qed.
Print Assumptions C06_set_succeeds_iff_get.

Theorem C06_get_set_same :
  forall v p x v', set_by_index v p x = Some v' -> field_by_index v' p = Some x.
Proof. intros v p x v'. apply get_set_same. Qed.
Print Assumptions C06_get_set_same.

Theorem C06_get_set_other :
  forall v p q x v', incomparable p q -> set_by_index v p x = Some v' ->
    field_by_index v' q = field_by_index v q.
Proof. intros v p q x v'. apply get_set_other. Qed.
Print Assumptions C06_get_set_other.

Theorem C06_map_set :
  forall es k x,
    assoc_str k (map_set es k x) = Some x /\
    (forall k', k' <> k -> assoc_str k' (map_set es k x) = assoc_str k' es).
Proof. intros es k x. split; [apply assoc_map_set_same|intros k'; apply assoc_map_set_other]. Qed.
Print Assumptions C06_map_set.

Theorem C06_t2v_set :
  forall m t v,
    (t2v_get m t <> None -> t2v_get (t2v_set m t v) t = Some v) /\
    (forall t', t <> t' -> t2v_get (t2v_set m t v) t' = t2v_get m t') /\
    map fst (t2v_set m t v) = map fst m.
Proof.
  intros m t v. split; [apply t2v_get_set_same|]. split; [intros t'; apply t2v_get_set_other|apply t2v_set_keys].
Qed.
Print Assumptions C06_t2v_set.

(* 5. Lands and frame.  [read_target m tg] reads the place a target denotes,
   [stored env tg c] is the value the cell gives there.  With pairwise
   independent targets (different destination types, or the same struct and
   index paths neither leading through the other, or the same map and
   different keys), every non-foreign target holds the value of its own cell
   afterwards, every place independent of all targets reads as before, and
   destinations no target belongs to are unchanged.
   [key_targets_are_maps]: the destination of a map-key output is a map value;
   the model's values are untyped, so this is a hypothesis here, discharged for
   well-typed arguments by C06_key_targets_are_maps. *)
Theorem C06_lands_and_frame :
  forall env outputs cols args cells m tgs m1 pend m',
    scan_args env outputs cols args = BOk (m, tgs) ->
    rows_scan_cells env tgs cells m [] = (m1, SOk pend) ->
    m' = fold_left apply_pending pend m1 ->
    length cells = length tgs ->
    targets_independent tgs ->
    key_targets_are_maps m tgs ->
    (forall j tg c, nth_error tgs j = Some tg -> nth_error cells j = Some c -> tg <> TForeign ->
       exists x, stored env tg c = Some x /\ read_target m' tg = Some x) /\
    (forall l, (forall tg lt, In tg tgs -> target_loc tg = Some lt -> loc_indep lt l) ->
       read_loc m' l = read_loc m l) /\
    (forall t, (forall tg, In tg tgs -> target_argtype tg <> Some t) -> t2v_get m' t = t2v_get m t) /\
    map fst m' = map fst m.
Proof. exact lands_and_frame. Qed.
Print Assumptions C06_lands_and_frame.

Theorem C06_key_targets_are_maps :
  forall env outputs cols args m tgs,
    scan_args env outputs cols args = BOk (m, tgs) ->
    Forall (arg_map_wf env) args ->
    (forall mt k, In (LMapKey mt k) outputs -> t_kind (tget env mt) = KMap) ->
    key_targets_are_maps m tgs.
Proof. exact key_targets_are_maps_wf. Qed.
Print Assumptions C06_key_targets_are_maps.

(* LocateScanTarget: a field that is neither a pointer nor a Scanner is
   scanned through a proxy, the others directly *)
Theorem C06_locate_field :
  forall env f m tg,
    locate_scan_target env (LField f) m = BOk tg ->
    exists s y ft,
      t2v_get m (sf_struct f) = Some s /\ field_by_index s (sf_index f) = Some y /\
      type_by_index env (sf_struct f) (sf_index f) = Some ft /\
      ((tg = TProxyField (sf_struct f) (sf_index f) ft /\
        kind_eqb (t_kind (tget env ft)) KPtr = false /\ t_scanner (tget env ft) = false) \/
       (tg = TDirect (sf_struct f) (sf_index f) ft /\
        (kind_eqb (t_kind (tget env ft)) KPtr = true \/ t_scanner (tget env ft) = true))).
Proof. exact locate_field_ok. Qed.
Print Assumptions C06_locate_field.

(* 6. NULL: a plain struct field (proxy) gets its zero value, a pointer field
   gets nil, a Scanner gets the raw value whatever the cell. *)
Theorem C06_null :
  forall env t p ft,
    stored env (TProxyField t p ft) CNull = Some (zero_val scan_fuel env ft) /\
    (forall n, t_scanner (tget env ft) = false -> t_kind (tget env ft) = KOther n ->
       zero_val scan_fuel env ft = VLeaf 0 true) /\
    (t_scanner (tget env ft) = false -> t_kind (tget env ft) = KPtr ->
       stored env (TDirect t p ft) CNull = Some VNilPtr) /\
    (t_scanner (tget env ft) = true ->
       forall c, stored env (TDirect t p ft) c = Some (leaf_of c)).
Proof.
  intros env t p ft. split; [reflexivity|]. split; [intros n; apply zero_val_scalar|].
  split; [apply conv_null_ptr|intros H c; apply conv_scanner; exact H].
Qed.
Print Assumptions C06_null.

(* A conversion error (the other error Get can report for a row) is NOT
   covered by "no partial mapping": the fields scanned directly (pointer and
   Scanner fields) of the columns before the failing one have been written,
   plain fields and map keys (copied by OnSuccess) have not. *)
Theorem C06_conv_error_partial :
  forall env outputs cols cells args m1,
    scan_row env outputs cols cells args = (Some m1, Some SConv) ->
    exists m tgs, scan_args env outputs cols args = BOk (m, tgs) /\
      exists k tc,
        nth_error (combine tgs cells) k = Some tc /\ ~ cell_ok env tc /\
        Forall (cell_ok env) (firstn k (combine tgs cells)) /\
        m1 = apply_writes m (filter_map (direct_write env) (firstn k (combine tgs cells))).
Proof. exact scan_row_conv_error. Qed.
Print Assumptions C06_conv_error_partial.

(* 7. Column order.  The same (column, value) pairs in another order: Get
   succeeds as well and leaves the same destinations — up to the order in
   which new keys were added to a map ([t2v_eqv]: same types, equal struct
   values, maps with the same nil-ness and the same entry under every key),
   and structurally the same when no target is a map key. *)
Theorem C06_order_independent :
  forall env outputs cols cells cols' cells' args m1,
    length cells = length cols -> length cells' = length cols' ->
    Permutation (combine cols cells) (combine cols' cells') ->
    scan_row env outputs cols cells args = (Some m1, None) ->
    (forall m tgs, scan_args env outputs cols args = BOk (m, tgs) -> targets_independent tgs) ->
    exists m2, scan_row env outputs cols' cells' args = (Some m2, None) /\ t2v_eqv m1 m2 /\
      ((forall m tgs mt k et, scan_args env outputs cols args = BOk (m, tgs) -> ~ In (TProxyKey mt k et) tgs) ->
       m1 = m2).
Proof. exact scan_row_order_independent. Qed.
Print Assumptions C06_order_independent.

(* the ScanArgs half: same destinations, and each column keeps its target *)
Theorem C06_scan_args_order_independent :
  forall env outputs cols cols' args m tgs,
    Permutation cols cols' ->
    scan_args env outputs cols args = BOk (m, tgs) ->
    tgs = map (fun c => fst (step_of env outputs m c)) cols /\
    scan_args env outputs cols' args = BOk (m, map (fun c => fst (step_of env outputs m c)) cols').
Proof. exact scan_args_perm. Qed.
Print Assumptions C06_scan_args_order_independent.

(* The literal statement (structurally equal destinations) is FALSE in the
   model: two columns that add new keys to one map leave the association list
   in insertion order (SELECT &M.k, &M.i into a map without k and i). *)
Theorem C06_order_independent_literal_fails : ~ order_independent_statement.
Proof. exact order_independent_statement_false. Qed.
Print Assumptions C06_order_independent_literal_fails.

(* 8. Typing side: the index paths getStructFields gives to the tagged fields
   of a struct (through embedded structs) are pairwise incomparable; members
   under different tags are independent places; and the targets of a row are
   independent when the statement's outputs are and no alias comes twice. *)
Theorem C06_struct_fields_incomparable :
  forall fuel env emb t fields f1 f2,
    get_struct_fields fuel env emb t = BOk fields ->
    In f1 fields -> In f2 fields -> sf_index f1 <> sf_index f2 ->
    incomparable (sf_index f1) (sf_index f2).
Proof. exact struct_fields_incomparable. Qed.
Print Assumptions C06_struct_fields_incomparable.

Theorem C06_struct_members_independent :
  forall fuel env emb t fields tag1 tag2 f1 f2,
    get_struct_fields fuel env emb t = BOk fields ->
    find_tag tag1 fields = Some f1 -> find_tag tag2 fields = Some f2 -> tag1 <> tag2 ->
    loc_indep (LocField (sf_struct f1) (sf_index f1)) (LocField (sf_struct f2) (sf_index f2)).
Proof. exact struct_members_independent. Qed.
Print Assumptions C06_struct_members_independent.

Theorem C06_targets_independent :
  forall env outputs cols args m tgs,
    scan_args env outputs cols args = BOk (m, tgs) ->
    NoDup (filter_map marker_index cols) ->
    outputs_independent outputs ->
    targets_independent tgs.
Proof. exact targets_independent_from_outputs. Qed.
Print Assumptions C06_targets_independent.

(* End to end, on the outputs of the statement and the result columns: the
   value under the alias of output i is stored in the member output i denotes
   (converted by database/sql; NULL gives a plain field its zero value), every
   place independent of the members the statement names keeps its value, and
   destinations the statement does not name are unchanged. *)
Theorem C06_get_row_lands :
  forall env outputs cols cells args m',
    scan_row env outputs cols cells args = (Some m', None) ->
    length cells = length cols ->
    NoDup (filter_map marker_index cols) ->
    outputs_independent outputs ->
    Forall (arg_map_wf env) args ->
    (forall mt k, In (LMapKey mt k) outputs -> t_kind (tget env mt) = KMap) ->
    exists m,
      validate_outputs env args [] = BOk m /\ map fst m' = map fst m /\
      (forall j c cell i l,
         nth_error cols j = Some c -> nth_error cells j = Some cell ->
         marker_index c = Some i -> nth_error outputs i = Some l ->
         exists lc x, locator_loc l = Some lc /\ output_value env l cell = Some x /\ read_loc m' lc = Some x) /\
      (forall lc, (forall l lo, In l outputs -> locator_loc l = Some lo -> loc_indep lo lc) ->
         read_loc m' lc = read_loc m lc) /\
      (forall t, (forall l, In l outputs -> loc_argtype l <> t) -> t2v_get m' t = t2v_get m t).
Proof. exact get_row_lands. Qed.
Print Assumptions C06_get_row_lands.

(* Non-vacuity.  S{A int `a`; P *int `p`; Emb{E int `e`}; N NullInt `n`} and
   M map[string]any; the columns arrive permuted, with a foreign column; NULL
   for a, j, p and n. *)
Example C06_applies :
  scan_row ex_env ex_outputs ex_cols ex_cells ex_args =
    (Some [(3, VStruct [VLeaf 0 true; VNilPtr; VStruct [VLeaf 12 false]; VLeaf 0 true]);
           (6, VMap false [(lit "j", VLeaf 0 true); (lit "x", VLeaf 105 false); (lit "k", VLeaf 14 false)])],
     None) /\
  (exists m tgs, scan_args ex_env ex_outputs ex_cols ex_args = BOk (m, tgs) /\
     targets_independentb tgs = true /\ key_targets_are_maps m tgs /\
     nth_error tgs 1 = Some (TProxyField 3 [2; 0] 0) /\ nth_error tgs 2 = Some TForeign).
Proof.
  split; [vm_compute; reflexivity|]. eexists _, _. split; [vm_compute; reflexivity|].
  split; [vm_compute; reflexivity|]. split; [|split; reflexivity].
  intros mt k et H. simpl in H.
  repeat (destruct H as [H|H]; [inversion H; subst; eexists _, _; vm_compute; reflexivity|]). destruct H.
Qed.

(* a missing column, an unused destination, a missing destination *)
Example C06_errors :
  scan_row ex_env ex_outputs
    [marker_name 4; marker_name 2; lit "foreign"; marker_name 0; marker_name 5; marker_name 1; lit "x"]
    ex_cells ex_args = (None, Some (SBind EOutputColumnMissing)) /\
  scan_row ex_env [ex_field "a"] [marker_name 0] [CInt 1] ex_args = (None, Some (SBind EOutputArgUnused)) /\
  scan_row ex_env ex_outputs ex_cols ex_cells [AVal 4 (VPtr ex_s)] = (None, Some (SBind EArgMissing)).
Proof. vm_compute. auto. Qed.

(* the same row with its columns in another order; the alias of an output is
   what identifies it (marker_roundtrip, Proofs/BindFacts.v) *)
Example C06_other_order :
  scan_row ex_env ex_outputs (rev ex_cols) (rev ex_cells) ex_args =
    (Some [(3, VStruct [VLeaf 0 true; VNilPtr; VStruct [VLeaf 12 false]; VLeaf 0 true]);
           (6, VMap false [(lit "j", VLeaf 0 true); (lit "x", VLeaf 105 false); (lit "k", VLeaf 14 false)])],
     None).
Proof. vm_compute. reflexivity. Qed.

(* the hypotheses of C06_get_row_lands hold for that row *)
Example C06_get_row_lands_applies :
  length ex_cells = length ex_cols /\
  NoDup (filter_map marker_index ex_cols) /\
  outputs_independent ex_outputs /\
  Forall (arg_map_wf ex_env) ex_args /\
  (forall mt k, In (LMapKey mt k) ex_outputs -> t_kind (tget ex_env mt) = KMap).
Proof.
  split; [reflexivity|]. split; [|split; [|split]].
  - vm_compute. repeat (constructor; [simpl; intuition discriminate|]). constructor.
  - apply outputs_independentb_spec. vm_compute. reflexivity.
  - repeat constructor; simpl; try discriminate; intros; try discriminate; eexists _, _; reflexivity.
  - intros mt k H. vm_compute in H.
    repeat (destruct H as [H|H]; [inversion H; subst; reflexivity|]). destruct H.
Qed.
