(* C16 - Statements are immutable: deterministic, independent of map iteration
   order and of what ran before.
   Property theorems only; proofs are in Proofs/. *)
From Coq Require Import Permutation.
From SQLair.Base Require Import Bytes.
From SQLair.Model Require Import GenConsts Reflect TypeInfo Parser Bind ArgCache.
From SQLair.Proofs Require Import TotalityProofs ValidateProofs DeterminismProofs ExampleEnv.

(* ------------------------------------------- (a) map iteration order -- *)
(* Wherever the Go code ranges over a Go map, the model folds forallb/existsb
   over an association list in insertion order.  These verdicts do not depend
   on the order. *)

Theorem C16_forallb_order :
  forall (A : Type) (f : A -> bool) m m', Permutation m m' -> forallb f m = forallb f m'.
Proof. exact @forallb_perm. Qed.
Print Assumptions C16_forallb_order.

Theorem C16_existsb_order :
  forall (A : Type) (f : A -> bool) m m', Permutation m m' -> existsb f m = existsb f m'.
Proof. exact @existsb_perm. Qed.
Print Assumptions C16_existsb_order.

(* checkAllArgsUsed in BindInputs: over the TypeToValue map and the argUsed set *)
Theorem C16_args_used_check_order :
  forall (m m' : t2v) (used used' : list tid),
    Permutation m m' -> Permutation used used' ->
    forallb (fun '(t, _) => existsb (Nat.eqb t) used) m =
    forallb (fun '(t, _) => existsb (Nat.eqb t) used') m'.
Proof. exact args_used_check_perm. Qed.
Print Assumptions C16_args_used_check_order.

(* checkAllArgsUsed in BindTypes: over the argInfo map and the argUsed set *)
Theorem C16_samples_used_check_order :
  forall (infos infos' : arginfos) (used used' : list str),
    Permutation infos infos' -> Permutation used used' ->
    forallb (fun '(name, _) => existsb (str_eqb name) used) infos =
    forallb (fun '(name, _) => existsb (str_eqb name) used') infos'.
Proof. exact samples_used_check_perm. Qed.
Print Assumptions C16_samples_used_check_order.

(* valueNotFoundError: over the TypeToValue map *)
Theorem C16_value_not_found_order :
  forall env m m' t, Permutation m m' -> value_not_found env m t = value_not_found env m' t.
Proof. exact value_not_found_perm. Qed.
Print Assumptions C16_value_not_found_order.

(* lookups in a map with distinct keys, hence LocateParams *)
Theorem C16_lookup_order :
  forall m m' t, NoDup (map fst m) -> Permutation m m' -> t2v_get m t = t2v_get m' t.
Proof. exact t2v_get_perm. Qed.
Print Assumptions C16_lookup_order.

Theorem C16_locate_params_order :
  forall env l m m',
    NoDup (map fst m) -> Permutation m m' -> locate_params env l m = locate_params env l m'.
Proof.
  intros env l m m' ND P. apply locate_params_same. apply perm_same_store; assumption.
Qed.
Print Assumptions C16_locate_params_order.

(* BindInputs is validation followed by a function of the validated store ... *)
Theorem C16_bind_inputs_factors :
  forall env tbe args,
    bind_inputs env tbe args = bbind (validate_inputs env args []) (bind_validated env tbe).
Proof. exact bind_inputs_unfold. Qed.
Print Assumptions C16_bind_inputs_factors.

(* ... which does not depend on the order in which the store holds the arguments *)
Theorem C16_store_order_irrelevant :
  forall env tbe m m',
    NoDup (map fst m) -> Permutation m m' -> bind_validated env tbe m = bind_validated env tbe m'.
Proof. exact store_order_irrelevant. Qed.
Print Assumptions C16_store_order_irrelevant.

(* hence the order of the arguments of Query does not matter when both orders
   pass validation *)
Theorem C16_argument_order_irrelevant :
  forall env tbe args args' m m',
    Permutation args args' ->
    validate_inputs env args [] = BOk m -> validate_inputs env args' [] = BOk m' ->
    bind_inputs env tbe args = bind_inputs env tbe args'.
Proof. exact argument_order_irrelevant. Qed.
Print Assumptions C16_argument_order_irrelevant.

(* ------------------------------------------------- (b) the type cache -- *)

(* every getArgInfo call in any sequence of calls starting from the empty
   cache returns what the computation without the cache returns *)
Theorem C16_cache_transparent :
  forall env ts, snd (get_arg_infos_c env [] ts) = map (get_arg_info env) ts.
Proof. exact cache_transparent. Qed.
Print Assumptions C16_cache_transparent.

(* the result of Prepare does not depend on what was prepared before *)
Theorem C16_prepare_history_irrelevant :
  forall env before es samples after,
    nth (length before) (snd (prepares_c env [] (before ++ (es, samples) :: after))) (BErr EInternal)
    = bind_types env es samples.
Proof. exact prepare_history_irrelevant. Qed.
Print Assumptions C16_prepare_history_irrelevant.

(* --------------------------------------- (c) the statement is a value -- *)

(* Running a statement on other arguments before does not change what it
   gives for these arguments.  Trivial by construction in the model: the
   content is that the model, which has this shape, agrees with the
   implementation under the differential run, in which statements are reused. *)
Theorem C16_query_history_irrelevant :
  forall env tbe before args after,
    nth (length before) (map (bind_inputs env tbe) (before ++ args :: after)) (BErr EInternal)
    = bind_inputs env tbe args.
Proof. exact query_history_irrelevant. Qed.
Print Assumptions C16_query_history_irrelevant.

(* ------------------------------------------------------------ examples -- *)

Example C16_ex_store_order :
  bind_validated ex_env ex_select_tbe [(3, ex_map); (6, ex_ints)] =
  bind_validated ex_env ex_select_tbe [(6, ex_ints); (3, ex_map)] /\
  is_ok (bind_validated ex_env ex_select_tbe [(3, ex_map); (6, ex_ints)]) = true.
Proof. split; vm_compute; reflexivity. Qed.

Example C16_ex_argument_order :
  bind_inputs ex_env ex_select_tbe [AVal 6 ex_ints; AVal 3 ex_map] =
  bind_inputs ex_env ex_select_tbe ex_select_args.
Proof. vm_compute. reflexivity. Qed.

(* Person and M are cached, the slice type Ints and the failing Loop are not *)
Example C16_ex_cache :
  map fst (fst (get_arg_infos_c ex_env [] [2; 3; 2; 6; 9; 2; 3])) = [3; 2] /\
  snd (get_arg_infos_c ex_env [] [2; 3; 2; 6; 9; 2; 3]) = map (get_arg_info ex_env) [2; 3; 2; 6; 9; 2; 3].
Proof. split; vm_compute; reflexivity. Qed.

Example C16_ex_prepares :
  snd (prepares_c ex_env [] [(ex_insert, ex_insert_samples); (ex_select, ex_select_samples);
                             (ex_insert, ex_insert_samples)])
  = [BOk ex_insert_tbe; BOk ex_select_tbe; BOk ex_insert_tbe].
Proof. vm_compute. reflexivity. Qed.
