(* C07 — Prepare accepts exactly the statements that are well-typed for the
   samples.  Prepare succeeds iff every type named in the query has exactly
   one sample (matched by unqualified type name, case-sensitively), every
   sample is named by the query, every struct member referenced exists as a
   db tag, each syntactic form is applied to a suitable kind (slice syntax to
   named slices, asterisk to structs or to a map with explicit columns,
   members to structs or maps), column and destination counts agree, and no
   field or key is the destination of two output columns.
   The theorems below are the necessary conditions of acceptance.
   Property theorems only; proofs are in Proofs/. *)
From Coq Require Import String.
From SQLair.Base Require Import Bytes.
From SQLair.Model Require Import GenConsts Reflect TypeInfo Parser Bind.
From SQLair.Proofs Require Import BindFacts TotalityProofs BindTypesProofs ExampleEnv.

(* (a) If the samples are accepted, no two of them have the same type name. *)
Theorem C07_samples_unique :
  forall env samples infos,
    generate_arg_info env samples [] = BOk infos -> NoDup (map fst infos).
Proof.
  intros env samples infos H. eapply generate_arg_info_nodup; [|exact H]. constructor.
Qed.
Print Assumptions C07_samples_unique.

(* samples are matched by unqualified type name: what is found under a name is
   the information of a sample whose type has exactly that name, of that kind *)
Theorem C07_samples_by_name :
  forall env samples infos n a,
    generate_arg_info env samples [] = BOk infos -> assoc_str n infos = Some a ->
    exists t, In (Some t) samples /\ t_name (tget env t) = n /\ ai_type a = t /\
      match a with
      | StructInfo _ _ _ => t_kind (tget env t) = KStruct
      | MapInfo _ => t_kind (tget env t) = KMap /\ t_keystr (tget env t) = true
      | SliceInfo _ => t_kind (tget env t) = KSlice
      end.
Proof. exact infos_from_samples. Qed.
Print Assumptions C07_samples_by_name.

(* (b) every type named in an accepted statement has a sample *)
Theorem C07_named_types_have_samples :
  forall env es samples tbe infos,
    bind_types env es samples = BOk tbe -> generate_arg_info env samples [] = BOk infos ->
    forall n, In n (flat_map type_names es) -> In n (map fst infos).
Proof. exact named_types_have_samples. Qed.
Print Assumptions C07_named_types_have_samples.

(* (c) every sample is named by an accepted statement *)
Theorem C07_samples_are_named :
  forall env es samples tbe infos,
    bind_types env es samples = BOk tbe -> generate_arg_info env samples [] = BOk infos ->
    forall n, In n (map fst infos) -> In n (flat_map type_names es).
Proof. exact samples_are_named. Qed.
Print Assumptions C07_samples_are_named.

(* (d) an input $T.m: m is a db tag of the struct T, or T is a map; never a slice *)
Theorem C07_member_inputs_typed :
  forall env es samples tbe infos,
    bind_types env es samples = BOk tbe -> generate_arg_info env samples [] = BOk infos ->
    forall r ma, In (MemberIn r ma) es ->
    exists a, assoc_str (tname ma) infos = Some a /\ member_ok a (mname ma).
Proof. exact member_inputs_typed. Qed.
Print Assumptions C07_member_inputs_typed.

(* (d) slice syntax $S[:] is applied to a (named) slice type only *)
Theorem C07_slice_inputs_typed :
  forall env es samples tbe infos,
    bind_types env es samples = BOk tbe -> generate_arg_info env samples [] = BOk infos ->
    forall r t, In (SliceIn r t) es -> exists st, assoc_str t infos = Some (SliceInfo st).
Proof. exact slice_inputs_typed. Qed.
Print Assumptions C07_slice_inputs_typed.

(* (d) destinations: &T.m is a tag of the struct T or a key of the map T; &T.*
   is a struct with tags, or - with explicit columns only - every column is a
   tag of the struct T or T is a map *)
Theorem C07_output_targets_typed :
  forall env es samples tbe infos,
    bind_types env es samples = BOk tbe -> generate_arg_info env samples [] = BOk infos ->
    forall r cols targets, In (Output r cols targets) es ->
    forall t, In t targets ->
    exists a, assoc_str (tname t) infos = Some a /\
      (is_star (mname t) = false -> member_ok a (mname t)) /\
      (is_star (mname t) = true ->
         (exists tg tags fields, a = StructInfo tg tags fields /\ tags <> []) \/
         (cols <> [] /\ starCountColumns cols = 0 /\
          forall c, In c cols -> member_ok a (columnName c))).
Proof. exact output_targets_typed. Qed.
Print Assumptions C07_output_targets_typed.

(* (e) no field or key is the destination of two output columns, across all
   output expressions of the statement *)
Theorem C07_outputs_distinct :
  forall env es samples tbe,
    bind_types env es samples = BOk tbe ->
    NoDup (map (loc_identifier env) (out_locators tbe)).
Proof. exact outputs_distinct. Qed.
Print Assumptions C07_outputs_distinct.

(* (f) column and destination counts agree *)
Theorem C07_output_counts_agree :
  forall env es samples tbe,
    bind_types env es samples = BOk tbe ->
    forall r cols targets, In (Output r cols targets) es ->
    starCountColumns cols = 0 -> starCountTypes targets = 0 -> cols <> [] ->
    length cols = length targets.
Proof. exact output_counts_agree. Qed.
Print Assumptions C07_output_counts_agree.

Theorem C07_basic_insert_counts_agree :
  forall env es samples tbe,
    bind_types env es samples = BOk tbe ->
    forall r cols vals, In (BasicIns r cols vals) es -> length cols = length vals.
Proof. exact basic_insert_counts_agree. Qed.
Print Assumptions C07_basic_insert_counts_agree.

(* Completeness at the sample level: the samples are accepted iff each one on
   its own is acceptable (not nil; a struct, map or slice; named; a map has
   string keys; the fields of a struct can be analysed and no db tag occurs
   twice) and no two samples have the same type name. *)
Theorem C07_samples_accepted_iff :
  forall env samples, is_ok (generate_arg_info env samples []) = samples_ok env samples.
Proof. exact samples_accepted_iff. Qed.
Print Assumptions C07_samples_accepted_iff.

(* ------------------------------------------------------------ examples -- *)
Local Open Scope string_scope.
(* ex_select:  SELECT &Person.* FROM t WHERE id = $M.id AND n IN ($Ints[:])
   with samples Person (struct, tags id and name), M (map), Ints (slice) *)

Example C07_ex_accepts :
  is_ok (bind_types ex_env ex_select ex_select_samples) = true /\
  map fst (ok_or [] (generate_arg_info ex_env ex_select_samples [])) = [s "Person"; s "M"; s "Ints"] /\
  flat_map type_names ex_select = [s "Person"; s "M"; s "Ints"] /\
  length (out_locators ex_select_tbe) = 2.
Proof. repeat split; vm_compute; reflexivity. Qed.

Definition ex_out (cols : list column) (targets : list macc) : list expr :=
  [Bypass (s "SELECT "); Output (s "...") cols targets; Bypass (s " FROM t")].

Example C07_ex_missing_sample :
  bind_types ex_env ex_select [Some 2; Some 3] = BErr ETypeMissing.
Proof. vm_compute. reflexivity. Qed.
Example C07_ex_unused_sample :
  bind_types ex_env ex_insert [Some 2; Some 3] = BErr EUnusedSample.
Proof. vm_compute. reflexivity. Qed.
Example C07_ex_same_name_samples :   (* types 2 and 11 are both called Person *)
  bind_types ex_env ex_insert [Some 2; Some 11] = BErr ESameNameSample.
Proof. vm_compute. reflexivity. Qed.
Example C07_ex_no_such_tag :
  bind_types ex_env (ex_out [] [ma "Person" "address"]) [Some 2] = BErr ENoTag.
Proof. vm_compute. reflexivity. Qed.
Example C07_ex_slice_syntax_on_struct :
  bind_types ex_env [SliceIn (s "$Person[:]") (s "Person")] [Some 2] = BErr ESliceSyntaxStruct.
Proof. vm_compute. reflexivity. Qed.
Example C07_ex_map_asterisk :
  bind_types ex_env (ex_out [] [ma "M" "*"]) [Some 3] = BErr EMapAsterisk.
Proof. vm_compute. reflexivity. Qed.
Example C07_ex_map_asterisk_with_columns :
  is_ok (bind_types ex_env (ex_out [BasicCol [] (s "a"); BasicCol [] (s "b")] [ma "M" "*"]) [Some 3]) = true.
Proof. vm_compute. reflexivity. Qed.
Example C07_ex_counts_differ :
  bind_types ex_env (ex_out [BasicCol [] (s "a"); BasicCol [] (s "b")] [ma "Person" "id"]) [Some 2]
  = BErr EMismatchColsTypes.
Proof. vm_compute. reflexivity. Qed.
Example C07_ex_destination_twice :
  bind_types ex_env (ex_out [] [ma "Person" "id"; ma "Person" "*"]) [Some 2] = BErr EMultipleOutputs.
Proof. vm_compute. reflexivity. Qed.

Example C07_ex_samples_ok :
  samples_ok ex_env ex_select_samples = true /\
  samples_ok ex_env [Some 2; Some 11] = false /\    (* two types called Person *)
  samples_ok ex_env [Some 2; None] = false /\       (* nil *)
  samples_ok ex_env [Some 4] = false /\             (* pointer *)
  samples_ok ex_env [Some 5] = false /\             (* unnamed slice *)
  samples_ok ex_env [Some 9] = false.               (* embeds itself *)
Proof. repeat split; vm_compute; reflexivity. Qed.
