(* C07 — Prepare accepts exactly the statements that are well-typed for the
   samples.  Prepare succeeds iff every type named in the query has exactly
   one sample (matched by unqualified type name, case-sensitively), every
   sample is named by the query, every struct member referenced exists as a
   db tag, each syntactic form is applied to a suitable kind (slice syntax to
   named slices, asterisk to structs or to a map with explicit columns,
   members to structs or maps), column and destination counts agree, and no
   field or key is the destination of two output columns.
   The theorems below are the necessary conditions of acceptance.
   Property theorems only; proofs are in Proofs/. *)
From Coq Require Import String.
From SQLair.Base Require Import Bytes.
From SQLair.Model Require Import GenConsts Reflect TypeInfo Parser Bind.
From SQLair.Proofs Require Import BindFacts TotalityProofs BindTypesProofs ExampleEnv.

(* (a) If the samples are accepted, no two of them have the same type name. *)
Theorem C07_samples_unique :
  forall env samples infos,
    generate_arg_info env samples [] = BOk infos -> NoDup (map fst infos).
Proof.
  intros env samples infos H. eapply generate_arg_info_nodup; [|exact H]. constructor.
Qed.
Print Assumptions C07_samples_unique.

(* samples are matched by unqualified type name: what is found under a name is
   the information of a sample whose type has exactly that name, of that kind *)
Theorem C07_samples_by_name :
  forall env samples infos n a,
    generate_arg_info env samples [] = BOk infos -> assoc_str n infos = Some a ->
    exists t, In (Some t) samples /\ t_name (tget env t) = n /\ ai_type a = t /\
      match a with
      | StructInfo _ _ _ => t_kind (tget env t) = KStruct
      | MapInfo _ => t_kind (tget env t) = KMap /\ t_keystr (tget env t) = true
      | SliceInfo _ => t_kind (tget env t) = KSlice
      end.
Proof. exact infos_from_samples. Qed.
Print Assumptions C07_samples_by_name.

(* (b) every type named in an accepted statement has a sample *)
Theorem C07_named_types_have_samples :
  forall env es samples tbe infos,
    bind_types env es samples = BOk tbe -> generate_arg_info env samples [] = BOk infos ->
    forall n, In n (flat_map type_names es) -> In n (map fst infos).
Proof. exact named_types_have_samples. Qed.
Print Assumptions C07_named_types_have_samples.

(* (c) every sample is named by an accepted statement *)
Theorem C07_samples_are_named :
  forall env es samples tbe infos,
    bind_types env es samples = BOk tbe -> generate_arg_info env samples [] = BOk infos ->
    forall n, In n (map fst infos) -> In n (flat_map type_names es).
Proof. exact samples_are_named. Qed.
Print Assumptions C07_samples_are_named.

(* (d) an input $T.m: m is a db tag of the struct T, or T is a map; never a slice *)
Theorem C07_member_inputs_typed :
  forall env es samples tbe infos,
    bind_types env es samples = BOk tbe -> generate_arg_info env samples [] = BOk infos ->
    forall r ma, In (MemberIn r ma) es ->
    exists a, assoc_str (tname ma) infos = Some a /\ member_ok a (mname ma).
Proof. exact member_inputs_typed. Qed.
Print Assumptions C07_member_inputs_typed.

(* (d) slice syntax $S[:] is applied to a (named) slice type only *)
Theorem C07_slice_inputs_typed :
  forall env es samples tbe infos,
    bind_types env es samples = BOk tbe -> generate_arg_info env samples [] = BOk infos ->
    forall r t, In (SliceIn r t) es -> exists st, assoc_str t infos = Some (SliceInfo st).
Proof. exact slice_inputs_typed. Qed.
Print Assumptions C07_slice_inputs_typed.

(* (d) destinations: &T.m is a tag of the struct T or a key of the map T; &T.*
   is a struct with tags, or - with explicit columns only - every column is a
   tag of the struct T or T is a map *)
Theorem C07_output_targets_typed :
  forall env es samples tbe infos,
    bind_types env es samples = BOk tbe -> generate_arg_info env samples [] = BOk infos ->
    forall r cols targets, In (Output r cols targets) es ->
    forall t, In t targets ->
    exists a, assoc_str (tname t) infos = Some a /\
      (is_star (mname t) = false -> member_ok a (mname t)) /\
      (is_star (mname t) = true ->
         (exists tg tags fields, a = StructInfo tg tags fields /\ tags <> []) \/
         (cols <> [] /\ starCountColumns cols = 0 /\
          forall c, In c cols -> member_ok a (columnName c))).
Proof. exact output_targets_typed. Qed.
Print Assumptions C07_output_targets_typed.

(* (e) no field or key is the destination of two output columns, across all
   output expressions of the statement *)
Theorem C07_outputs_distinct :
  forall env es samples tbe,
    bind_types env es samples = BOk tbe ->
    NoDup (map (loc_identifier env) (out_locators tbe)).
Proof. exact outputs_distinct. Qed.
Print Assumptions C07_outputs_distinct.

(* (f) column and destination counts agree *)
Theorem C07_output_counts_agree :
  forall env es samples tbe,
    bind_types env es samples = BOk tbe ->
    forall r cols targets, In (Output r cols targets) es ->
    starCountColumns cols = 0 -> starCountTypes targets = 0 -> cols <> [] ->
    length cols = length targets.
Proof. exact output_counts_agree. Qed.
Print Assumptions C07_output_counts_agree.

Theorem C07_basic_insert_counts_agree :
  forall env es samples tbe,
    bind_types env es samples = BOk tbe ->
    forall r cols vals, In (BasicIns r cols vals) es -> length cols = length vals.
Proof. exact basic_insert_counts_agree. Qed.
Print Assumptions C07_basic_insert_counts_agree.

(* Completeness at the sample level: the samples are accepted iff each one on
   its own is acceptable (not nil; a struct, map or slice; named; a map has
   string keys; the fields of a struct can be analysed and no db tag occurs
   twice) and no two samples have the same type name. *)
Theorem C07_samples_accepted_iff :
  forall env samples, is_ok (generate_arg_info env samples []) = samples_ok env samples.
Proof. exact samples_accepted_iff. Qed.
Print Assumptions C07_samples_accepted_iff.

(* ------------------------------------------------------------ examples -- *)
Local Open Scope string_scope.
(* ex_select:  SELECT &Person.* FROM t WHERE id = $M.id AND n IN ($Ints[:])
   with samples Person (struct, tags id and name), M (map), Ints (slice) *)

Example C07_ex_accepts :
  is_ok (bind_types ex_env ex_select ex_select_samples) = true /\
  map fst (ok_or [] (generate_arg_info ex_env ex_select_samples [])) = [s "Person"; s "M"; s "Ints"] /\
  flat_map type_names ex_select = [s "Person"; s "M"; s "Ints"] /\
  length (out_locators ex_select_tbe) = 2.
Proof. repeat split; vm_compute; reflexivity. Qed.

Definition ex_out (cols : list column) (targets : list macc) : list expr :=
  [Bypass (s "SELECT "); Output (s "...") cols targets; Bypass (s " FROM t")].

Example C07_ex_missing_sample :
  bind_types ex_env ex_select [Some 2; Some 3] = BErr ETypeMissing.
Proof. vm_compute. reflexivity. Qed.
Example C07_ex_unused_sample :
  bind_types ex_env ex_insert [Some 2; Some 3] = BErr EUnusedSample.
Proof. vm_compute. reflexivity. Qed.
Example C07_ex_same_name_samples :   (* types 2 and 11 are both called Person *)
  bind_types ex_env ex_insert [Some 2; Some 11] = BErr ESameNameSample.
Proof. vm_compute. reflexivity. Qed.
Example C07_ex_no_such_tag :
  bind_types ex_env (ex_out [] [ma "Person" "address"]) [Some 2] = BErr ENoTag.
Proof. vm_compute. reflexivity. Qed.
Example C07_ex_slice_syntax_on_struct :
  bind_types ex_env [SliceIn (s "$Person[:]") (s "Person")] [Some 2] = BErr ESliceSyntaxStruct.
Proof. vm_compute. reflexivity. Qed.
Example C07_ex_map_asterisk :
  bind_types ex_env (ex_out [] [ma "M" "*"]) [Some 3] = BErr EMapAsterisk.
Proof. vm_compute. reflexivity. Qed.
Example C07_ex_map_asterisk_with_columns :
  is_ok (bind_types ex_env (ex_out [BasicCol [] (s "a"); BasicCol [] (s "b")] [ma "M" "*"]) [Some 3]) = true.
Proof. vm_compute. reflexivity. Qed.
Example C07_ex_counts_differ :
  bind_types ex_env (ex_out [BasicCol [] (s "a"); BasicCol [] (s "b")] [ma "Person" "id"]) [Some 2]
  = BErr EMismatchColsTypes.
Proof. vm_compute. reflexivity. Qed.
Example C07_ex_destination_twice :
  bind_types ex_env (ex_out [] [ma "Person" "id"; ma "Person" "*"]) [Some 2] = BErr EMultipleOutputs.
Proof. vm_compute. reflexivity. Qed.

Example C07_ex_samples_ok :
  samples_ok ex_env ex_select_samples = true /\
  samples_ok ex_env [Some 2; Some 11] = false /\    (* two types called Person *)
  samples_ok ex_env [Some 2; None] = false /\       (* nil *)
  samples_ok ex_env [Some 4] = false /\             (* pointer *)
  samples_ok ex_env [Some 5] = false /\             (* unnamed slice *)
  samples_ok ex_env [Some 9] = false.               (* embeds itself *)
Proof. repeat split; vm_compute; reflexivity. Qed.

(* ======================================================================
   The converse: Prepare accepts EXACTLY the well-typed statements.
   [well_typed] (Proofs/WellTyped.v) is a declarative reading of the property
   text, clause by clause, on the parsed statement [es] and the information
   [infos] derived from the samples; no builder state is involved:
   - per expression ([expr_ok]): $T.m - T has a sample and m is a db tag of
     the struct T / T is a map; $S[:] - S is a slice sample; the asterisk INSERT -
     every source is $T.* with T a struct with tags, or $T.m;
     "(c1, ..) VALUES" - the sources are $T.* (struct with tags, or at most
     ONE map) or $T.m, and every listed column has exactly one provider
     ([providers]: $T.* adds to the providers of each tag of T, $T.m replaces
     the providers of m) or none and then there is a map; "(c..) VALUES (v..)"
     - equal counts, every $T.m typed; outputs - generated columns: every
     destination is &T.* (struct with tags) or &T.m; explicit columns into
     one &T.*: every column is a member of T (so T may be a map); explicit
     columns pairwise: equal counts, every &T.m typed;
   - every sample name occurs among the type names of the statement;
   - the destination identifiers "T.tag" / "M.key" of all output expressions
     ([dest_ids], in textual order, &T.* = all tags sorted) are distinct.
   ====================================================================== *)
From SQLair.Proofs Require Import WellTyped WellTypedProofs.

(* for accepted samples, as booleans *)
Theorem C07_prepare_iff_bool :
  forall env samples infos es,
    generate_arg_info env samples [] = BOk infos ->
    is_ok (bind_types env es samples) = well_typed env infos es.
Proof. exact prepare_iff_bool. Qed.
Print Assumptions C07_prepare_iff_bool.

(* the same on the builder: binding all expressions, then checkAllArgsUsed *)
Theorem C07_iff :
  forall env samples infos es,
    generate_arg_info env samples [] = BOk infos ->
    match bind_exprs env {| b_infos := infos; b_used := []; b_outused := []; b_exprs := [] |} es with
    | BOk b => forallb (fun '(name, _) => existsb (str_eqb name) (b_used b)) (b_infos b)
    | BErr _ => false
    end = well_typed env infos es.
Proof. exact WellTypedProofs.C07_iff. Qed.
Print Assumptions C07_iff.

Theorem C07_prepare_iff :
  forall env es samples,
    is_ok (bind_types env es samples) = true <->
    exists infos, generate_arg_info env samples [] = BOk infos /\ well_typed env infos es = true.
Proof. exact prepare_iff. Qed.
Print Assumptions C07_prepare_iff.

(* together with C07_samples_accepted_iff *)
Theorem C07_prepare_iff_samples :
  forall env es samples,
    is_ok (bind_types env es samples) =
    samples_ok env samples &&
    match generate_arg_info env samples [] with
    | BOk infos => well_typed env infos es
    | BErr _ => false
    end.
Proof. exact prepare_iff_samples. Qed.
Print Assumptions C07_prepare_iff_samples.

(* one expression: it is accepted iff it is locally well typed and its
   destination identifiers are not yet taken and pairwise distinct; the
   acceptance does not depend on b_used; afterwards the identifiers have been
   added to b_outused and the type names to b_used *)
Theorem C07_bind_expr_iff :
  forall env b e,
    infos_inv env (b_infos b) ->
    is_ok (bind_expr env b e) =
    expr_ok (b_infos b) e && fresh_all (expr_dest_ids (b_infos b) e) (b_outused b) /\
    forall b1, bind_expr env b e = BOk b1 ->
      b_infos b1 = b_infos b /\
      b_outused b1 = List.app (rev (expr_dest_ids (b_infos b) e)) (b_outused b) /\
      forall n, In n (b_used b1) <-> In n (type_names e) \/ In n (b_used b).
Proof.
  intros env b e INV. pose proof (bind_expr_spec env b e INV) as S. unfold spec in S.
  destruct (bind_expr env b e) as [b1|er]; cbn [is_ok].
  - destruct S as [O [F ST]]. rewrite O, F. split; [reflexivity|].
    intros b2 E. injection E as <-. exact ST.
  - rewrite S. split; [reflexivity|]. intros b1 E. discriminate E.
Qed.
Print Assumptions C07_bind_expr_iff.

(* ---------------------------------------------- examples: well_typed -- *)

Definition infos_of (samples : list (option tid)) : arginfos :=
  ok_or [] (generate_arg_info ex_env samples []).
Definition wt (es : list expr) (samples : list (option tid)) : bool :=
  well_typed ex_env (infos_of samples) es.
Definition prepares (es : list expr) (samples : list (option tid)) : bool :=
  is_ok (bind_types ex_env es samples).
Definition col (x : string) : column := BasicCol [] (s x).
Definition ex_cols (cols : list column) (sources : list macc) : list expr :=
  [Bypass (s "INSERT INTO t "); ColumnsIns (s "...") cols sources].

(* accepted *)
Example C07_wt_select :
  wt ex_select ex_select_samples = true /\ prepares ex_select ex_select_samples = true /\
  dest_ids ex_env (infos_of ex_select_samples) ex_select = [s "Person.id"; s "Person.name"].
Proof. repeat split; vm_compute; reflexivity. Qed.
Example C07_wt_insert : wt ex_insert ex_insert_samples = true /\ prepares ex_insert ex_insert_samples = true.
Proof. split; vm_compute; reflexivity. Qed.

(* a type named in the statement has no sample: the SliceIn clause fails *)
Example C07_wt_unknown_type :
  wt ex_select [Some 2; Some 3] = false /\ prepares ex_select [Some 2; Some 3] = false /\
  expr_ok (infos_of [Some 2; Some 3]) (SliceIn (s "$Ints[:]") (s "Ints")) = false.
Proof. repeat split; vm_compute; reflexivity. Qed.

(* a sample that the statement does not name: only the global clause fails *)
Example C07_wt_unused_sample :
  wt ex_insert [Some 2; Some 3] = false /\ prepares ex_insert [Some 2; Some 3] = false /\
  forallb (expr_ok (infos_of [Some 2; Some 3])) ex_insert = true /\
  all_samples_named (infos_of [Some 2; Some 3]) ex_insert = false.
Proof. repeat split; vm_compute; reflexivity. Qed.

(* matching is case sensitive *)
Example C07_wt_case_sensitive :
  wt [MemberIn (s "$person.id") (ma "person" "id")] [Some 2] = false /\
  prepares [MemberIn (s "$person.id") (ma "person" "id")] [Some 2] = false.
Proof. split; vm_compute; reflexivity. Qed.

(* a member that is not a db tag of the struct *)
Example C07_wt_missing_tag :
  wt (ex_out [] [ma "Person" "address"]) [Some 2] = false /\
  prepares (ex_out [] [ma "Person" "address"]) [Some 2] = false /\
  has_member (infos_of [Some 2]) (ma "Person" "address") = false /\
  has_member (infos_of [Some 2]) (ma "Person" "name") = true.
Proof. repeat split; vm_compute; reflexivity. Qed.

(* slice syntax on a struct; member syntax on a slice *)
Example C07_wt_slice_on_struct :
  wt [SliceIn (s "$Person[:]") (s "Person")] [Some 2] = false /\
  prepares [SliceIn (s "$Person[:]") (s "Person")] [Some 2] = false /\
  wt [MemberIn (s "$Ints.x") (ma "Ints" "x")] [Some 6] = false /\
  prepares [MemberIn (s "$Ints.x") (ma "Ints" "x")] [Some 6] = false.
Proof. repeat split; vm_compute; reflexivity. Qed.

(* &M.* with a map: only with explicit columns *)
Example C07_wt_map_asterisk :
  wt (ex_out [] [ma "M" "*"]) [Some 3] = false /\ prepares (ex_out [] [ma "M" "*"]) [Some 3] = false /\
  wt (ex_out [col "a"; col "b"] [ma "M" "*"]) [Some 3] = true /\
  prepares (ex_out [col "a"; col "b"] [ma "M" "*"]) [Some 3] = true /\
  dest_ids ex_env (infos_of [Some 3]) (ex_out [col "a"; col "b"] [ma "M" "*"]) = [s "M.a"; s "M.b"].
Proof. repeat split; vm_compute; reflexivity. Qed.

(* $M.* in an asterisk INSERT is not allowed; in an INSERT with columns it is *)
Example C07_wt_map_in_insert :
  wt [AsteriskIns (s "...") [ma "M" "*"]] [Some 3] = false /\
  prepares [AsteriskIns (s "...") [ma "M" "*"]] [Some 3] = false /\
  wt (ex_cols [col "id"; col "zip"] [ma "Person" "*"; ma "M" "*"]) [Some 2; Some 3] = true /\
  prepares (ex_cols [col "id"; col "zip"] [ma "Person" "*"; ma "M" "*"]) [Some 2; Some 3] = true.
Proof. repeat split; vm_compute; reflexivity. Qed.

(* counts *)
Example C07_wt_counts :
  wt (ex_out [col "a"; col "b"] [ma "Person" "id"]) [Some 2] = false /\
  prepares (ex_out [col "a"; col "b"] [ma "Person" "id"]) [Some 2] = false /\
  wt (ex_out [col "a"; col "b"] [ma "Person" "id"; ma "Person" "name"]) [Some 2] = true /\
  prepares (ex_out [col "a"; col "b"] [ma "Person" "id"; ma "Person" "name"]) [Some 2] = true /\
  wt [BasicIns (s "...") [col "a"; col "b"] [VMem (ma "Person" "id")]] [Some 2] = false /\
  prepares [BasicIns (s "...") [col "a"; col "b"] [VMem (ma "Person" "id")]] [Some 2] = false.
Proof. repeat split; vm_compute; reflexivity. Qed.

(* the same destination twice: every expression is fine on its own, the
   global clause fails; also across two output expressions *)
Example C07_wt_destination_twice :
  wt (ex_out [] [ma "Person" "id"; ma "Person" "*"]) [Some 2] = false /\
  prepares (ex_out [] [ma "Person" "id"; ma "Person" "*"]) [Some 2] = false /\
  forallb (expr_ok (infos_of [Some 2])) (ex_out [] [ma "Person" "id"; ma "Person" "*"]) = true /\
  dest_ids ex_env (infos_of [Some 2]) (ex_out [] [ma "Person" "id"; ma "Person" "*"])
    = [s "Person.id"; s "Person.id"; s "Person.name"] /\
  wt (List.app (ex_out [] [ma "Person" "id"]) (ex_out [col "id"] [ma "Person" "*"])) [Some 2] = false /\
  prepares (List.app (ex_out [] [ma "Person" "id"]) (ex_out [col "id"] [ma "Person" "*"])) [Some 2] = false.
Proof. repeat split; vm_compute; reflexivity. Qed.

(* "(c, ..) VALUES (...)": exactly one provider per listed column.  $T.*
   adds a provider for every tag of T; a later $T.m REPLACES the providers
   of column m; a map takes the columns nobody provides *)
Example C07_wt_providers :
  (* id provided twice *)
  wt (ex_cols [col "id"] [ma "Person" "id"; ma "Person" "*"]) [Some 2] = false /\
  prepares (ex_cols [col "id"] [ma "Person" "id"; ma "Person" "*"]) [Some 2] = false /\
  providers (infos_of [Some 2]) (s "id") [ma "Person" "id"; ma "Person" "*"]
    = [ma "Person" "id"; ma "Person" "*"] /\
  (* the member source replaces what $Person.* provided *)
  wt (ex_cols [col "id"] [ma "Person" "*"; ma "Person" "id"]) [Some 2] = true /\
  prepares (ex_cols [col "id"] [ma "Person" "*"; ma "Person" "id"]) [Some 2] = true /\
  providers (infos_of [Some 2]) (s "id") [ma "Person" "*"; ma "Person" "id"] = [ma "Person" "id"] /\
  (* no provider and no map *)
  wt (ex_cols [col "id"; col "zip"] [ma "Person" "*"]) [Some 2] = false /\
  prepares (ex_cols [col "id"; col "zip"] [ma "Person" "*"]) [Some 2] = false /\
  (* two maps *)
  wt (ex_cols [col "a"] [ma "M" "*"; ma "M" "*"]) [Some 3] = false /\
  prepares (ex_cols [col "a"] [ma "M" "*"; ma "M" "*"]) [Some 3] = false.
Proof. repeat split; vm_compute; reflexivity. Qed.
