(* C07 — Prepare accepts exactly the statements that are well-typed for the
   samples.  Property theorems only; proofs are in Proofs/. *)
From SQLair.Base Require Import Bytes.
From SQLair.Model Require Import GenConsts Reflect TypeInfo Bind.
From SQLair.Proofs Require Import BindFacts.

(* If the samples are accepted, no two of them have the same type name. *)
Theorem C07_samples_unique :
  forall env samples infos,
    generate_arg_info env samples [] = BOk infos -> NoDup (map fst infos).
Proof.
  intros env samples infos H. eapply generate_arg_info_nodup; [|exact H]. constructor.
Qed.
Print Assumptions C07_samples_unique.
