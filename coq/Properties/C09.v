(* C09 — A cached prepared statement is only used for the SQL and DB it was
   prepared for.  Property theorems only; proofs are in Proofs/CacheProofs.v.
   A history is any list of operations of Model/Cache.v: any number of
   threads, Statements and DBs, steps at driver-call granularity in any
   interleaving, reference drops and garbage-collection steps anywhere. *)
From SQLair.Base Require Import Bytes.
From SQLair.Model Require Import Cache.
From SQLair.Proofs Require Import CacheProofs.

(* Every execution of every history goes through a driver statement that was
   prepared for exactly this call's Statement, on this call's DB, from exactly
   the SQL generated for this call's arguments. *)
Theorem C09_coherent :
  forall ops t ds ctx tx closed,
    In (EvExec t ds ctx tx closed) (w_log (run w0 ops)) ->
    let w := run w0 ops in
    ds_stmt (hget w ds) = th_s (tget w t) /\ ds_db (hget w ds) = th_d (tget w t) /\
    ds_sql (hget w ds) = th_q (tget w t) /\ closed = false /\ ctx = th_ctx (tget w t) /\ tx = th_tx (tget w t).
Proof. exact exec_coherent. Qed.
Print Assumptions C09_coherent.

(* Every driver-level prepare is for the DB and SQL of the call that issued it. *)
Theorem C09_prepare_coherent :
  forall ops t d q ctx ds,
    In (EvPrepare t d q ctx ds) (w_log (run w0 ops)) ->
    let w := run w0 ops in
    d = th_d (tget w t) /\ q = th_q (tget w t) /\ ctx = th_ctx (tget w t) /\
    ds_stmt (hget w ds) = th_s (tget w t) /\ ds_db (hget w ds) = d /\ ds_sql (hget w ds) = q.
Proof. exact prepare_coherent. Qed.
Print Assumptions C09_prepare_coherent.

(* Reuse: once a call has stored its statement, a lookup for the same
   Statement, DB and SQL hits (no second prepare). *)
Theorem C09_reuse :
  forall w t ds, Inv w -> th_phase (tget w t) = PPrepared ds ->
    lookup (step w (Store t)) (th_s (tget w t)) (th_d (tget w t)) (th_q (tget w t)) = Some ds.
Proof. exact lookup_after_store. Qed.
Print Assumptions C09_reuse.

Theorem C09_invariant_everywhere : forall ops, Inv (run w0 ops).
Proof. exact inv_reachable. Qed.
Print Assumptions C09_invariant_everywhere.

(* non-vacuity: two threads race on one Statement with two shapes; the first
   one's statement is evicted between its Store and its Exec *)
Example C09_applies :
  let ops := [NewStmt; NewDB; Begin 0 0 7 false 1; Begin 0 0 8 false 2; Prepare 0 true; Prepare 1 true;
              Store 0; Store 1; Exec 0; Exec 1] in
  w_log (run w0 ops) =
  [EvPrepare 0 0 7 1 0; EvPrepare 1 0 8 2 1; EvExec 0 0 1 false false; EvExec 1 1 2 false false] /\
  ds_evicted (hget (run w0 ops) 0) = true.
Proof. vm_compute. auto. Qed.
