(* C01 — SQL outside SQLair expressions reaches the driver byte-for-byte.
   Property theorems only; proofs are in Proofs/. *)
From SQLair.Base Require Import Bytes.
From SQLair.Model Require Import Parser.
From SQLair.Proofs Require Import ParserTiling.

(* Every byte of an accepted query is in exactly one segment, in order: the
   segments' source texts concatenate to the query, for every byte string. *)
Theorem C01_tiling :
  forall (inp : str) (segs : list expr),
    parse inp = Ok segs -> concat (map raw_of segs) = inp.
Proof. exact parse_tiling. Qed.
Print Assumptions C01_tiling.

(* Non-vacuity: "a&$M.x" (the F1 input) is accepted with an expression. *)
Example C01_tiling_applies :
  parse [97; 38; 36; 77; 46; 120]%N =
  Ok [Bypass [97; 38]%N; MemberIn [36; 77; 46; 120]%N {| tname := [77]%N; mname := [120]%N |}].
Proof. vm_compute. reflexivity. Qed.
