(* C01 — SQL outside SQLair expressions reaches the driver byte-for-byte.
   Property theorems only; proofs are in Proofs/. *)
From Coq Require Import String.
From SQLair.Base Require Import Bytes.
From SQLair.Model Require Import Reflect TypeInfo Parser Bind.
From SQLair.Proofs Require Import ParserTiling ParserSigil SqlShape ExampleEnv.

(* Every byte of an accepted query is in exactly one segment, in order: the
   segments' source texts concatenate to the query, for every byte string. *)
Theorem C01_tiling :
  forall (inp : str) (segs : list expr),
    parse inp = Ok segs -> concat (map raw_of segs) = inp.
Proof. exact parse_tiling. Qed.
Print Assumptions C01_tiling.

(* Non-vacuity: "a&$M.x" (the F1 input) is accepted with an expression. *)
Example C01_tiling_applies :
  parse [97; 38; 36; 77; 46; 120]%N =
  Ok [Bypass [97; 38]%N; MemberIn [36; 77; 46; 120]%N {| tname := [77]%N; mname := [120]%N |}].
Proof. vm_compute. reflexivity. Qed.

(* The segmentation is canonical: a bypass chunk is never empty and the segment
   that follows it, if any, is an expression (two bypass chunks are never
   adjacent). *)
Theorem C01_segments_canonical :
  forall inp segs,
    parse inp = Ok segs ->
    (forall i c, nth_error segs i = Some (Bypass c) -> c <> []) /\
    (forall i c e, nth_error segs i = Some (Bypass c) -> nth_error segs (S i) = Some e ->
       is_bypass e = false).
Proof. exact parse_canonical_nth. Qed.
Print Assumptions C01_segments_canonical.

(* Prepare turns the segments into typed expressions one for one, in order: a
   bypass segment becomes a bypass with the same text, nothing else becomes a
   bypass, and an expression segment becomes an input, insert or output. *)
Theorem C01_one_texpr_per_segment :
  forall env segs samples tbe,
    bind_types env segs samples = BOk tbe ->
    length tbe = length segs /\
    (forall i c, nth_error segs i = Some (Bypass c) -> nth_error tbe i = Some (TBypass c)) /\
    (forall i c, nth_error tbe i = Some (TBypass c) -> nth_error segs i = Some (Bypass c)) /\
    (forall i e, nth_error segs i = Some e -> is_bypass e = false ->
       exists te, nth_error tbe i = Some te /\
         ((exists l, te = TInput l) \/ (exists cols, te = TInsert cols) \/
          (exists ocs, te = TOutput ocs))).
Proof. exact one_texpr_per_segment. Qed.
Print Assumptions C01_one_texpr_per_segment.

(* Adding a typed expression to the query only appends to the SQL written so
   far; these appended tokens are the expansion of the expression.  A bypass
   appends its text and nothing else. *)
Theorem C01_add_to_query_appends :
  forall env m q e q',
    add_to_query env m q e = BOk q' ->
    exists toks, q_sql q' = q_sql q ++ toks /\ (forall c, e = TBypass c -> toks = [TText c]).
Proof. exact add_to_query_appends. Qed.
Print Assumptions C01_add_to_query_appends.

Theorem C01_render_app : forall a b, render (a ++ b) = render a ++ render b.
Proof. exact render_app. Qed.
Print Assumptions C01_render_app.

(* The tokens of the primed query are the expansions of its typed expressions,
   one group per expression, in order. *)
Theorem C01_tokens_per_texpr :
  forall env tbe args pq,
    bind_inputs env tbe args = BOk pq ->
    exists tokss, pq_toks pq = concat tokss /\
      Forall2 (fun e toks => forall c, e = TBypass c -> toks = [TText c]) tbe tokss.
Proof. exact bind_inputs_tokens. Qed.
Print Assumptions C01_tokens_per_texpr.

(* The SQL handed to the driver is the query (= the concatenation of the source
   texts of its segments) with the source text of segment i replaced by the
   expansion number i; the expansion of a bypass segment is its own text.  So
   every byte outside a SQLair expression is sent exactly once, in order,
   whatever precedes or follows an expression. *)
Theorem C01_sql_shape :
  forall env inp segs samples tbe args pq,
    parse inp = Ok segs ->
    bind_types env segs samples = BOk tbe ->
    bind_inputs env tbe args = BOk pq ->
    exists exps : list str,
      length exps = length segs /\
      pq_sql pq = concat exps /\
      (forall i c, nth_error segs i = Some (Bypass c) -> nth_error exps i = Some c) /\
      inp = concat (map raw_of segs).
Proof. exact sql_shape. Qed.
Print Assumptions C01_sql_shape.

(* "SELECT &Person.* FROM t WHERE x&$M.id /* $M.z */": the text before, between
   and after the two expressions (including the '&' glued to the second one and
   the comment that looks like an expression) is sent as it is. *)
Example C01_sql_shape_applies :
  let inp := s "SELECT &Person.* FROM t WHERE x&$M.id /* $M.z */" in
  exists segs tbe pq,
    parse inp = Ok segs /\
    bind_types ex_env segs [Some 2; Some 3] = BOk tbe /\
    bind_inputs ex_env tbe [AVal 3 ex_map] = BOk pq /\
    segs = [Bypass (s "SELECT "); Output (s "&Person.*") [] [ma "Person" "*"];
            Bypass (s " FROM t WHERE x&"); MemberIn (s "$M.id") (ma "M" "id");
            Bypass (s " /* $M.z */")] /\
    pq_sql pq = concat [s "SELECT "; s "id AS _sqlair_0, name AS _sqlair_1";
                        s " FROM t WHERE x&"; s "@sqlair_0"; s " /* $M.z */"] /\
    pq_sql pq = s "SELECT id AS _sqlair_0, name AS _sqlair_1 FROM t WHERE x&@sqlair_0 /* $M.z */".
Proof.
  eexists. eexists. eexists.
  split; [vm_compute; reflexivity|]. split; [vm_compute; reflexivity|].
  split; [vm_compute; reflexivity|]. split; [vm_compute; reflexivity|].
  split; vm_compute; reflexivity.
Qed.

(* A query in which the parser finds no SQLair expression is sent unchanged. *)
Theorem C01_no_expression_unchanged :
  forall env inp segs samples tbe args pq,
    parse inp = Ok segs ->
    bind_types env segs samples = BOk tbe ->
    bind_inputs env tbe args = BOk pq ->
    (forall e, In e segs -> exists c, e = Bypass c) ->
    pq_sql pq = inp.
Proof. exact no_expression_unchanged_in. Qed.
Print Assumptions C01_no_expression_unchanged.

(* Every SQLair expression the parser recognises contains a '$' or a '&'. *)
Theorem C01_expr_has_sigil :
  forall inp segs,
    parse inp = Ok segs ->
    forall e, In e segs -> is_bypass e = false ->
      exists b, In b (raw_of e) /\ (b = 36%N \/ b = 38%N).
Proof. exact expr_has_sigil_in. Qed.
Print Assumptions C01_expr_has_sigil.

(* Hence an accepted query without '$' and '&' is a single bypass segment
   (no segment at all when it is empty) ... *)
Theorem C01_no_sigil_no_expression :
  forall inp segs,
    (forall b, In b inp -> b <> 36%N /\ b <> 38%N) ->
    parse inp = Ok segs ->
    segs = [Bypass inp] \/ (inp = [] /\ segs = []).
Proof. exact no_sigil_no_expression. Qed.
Print Assumptions C01_no_sigil_no_expression.

(* ... and is sent unchanged. *)
Theorem C01_no_sigil_unchanged :
  forall env inp segs samples tbe args pq,
    (forall b, In b inp -> b <> 36%N /\ b <> 38%N) ->
    parse inp = Ok segs ->
    bind_types env segs samples = BOk tbe ->
    bind_inputs env tbe args = BOk pq ->
    pq_sql pq = inp.
Proof. exact no_sigil_unchanged. Qed.
Print Assumptions C01_no_sigil_unchanged.

(* Non-vacuity: a plain statement with a literal and a comment is accepted,
   prepared and primed, and is one bypass. *)
Example C01_no_sigil_applies :
  let inp := s "SELECT 'a*b', (x) FROM t -- done" in
  exists tbe pq,
    parse inp = Ok [Bypass inp] /\
    bind_types ex_env [Bypass inp] [] = BOk tbe /\
    bind_inputs ex_env tbe [] = BOk pq /\ pq_sql pq = inp.
Proof.
  eexists. eexists.
  split; [vm_compute; reflexivity|]. split; [vm_compute; reflexivity|].
  split; vm_compute; reflexivity.
Qed.
