(* C15 — Get/GetAll: first row, ErrNoRows iff empty, all-or-nothing slices,
   Outcome.  Property theorems only; proofs are in Proofs/IterProofs.v. *)
From SQLair.Base Require Import Bytes.
From SQLair.Model Require Import Iter.
From SQLair.Model Require Import GenConsts Reflect TypeInfo Bind Scan.
From SQLair.Proofs Require Import IterProofs GetAllValues.

(* GetAll leaves the caller's slices unchanged whenever it returns an error:
   for every result script, fault, query error and argument list. *)
Theorem C15_all_or_nothing :
  forall qerr hasout run c,
    gar_err (query_getall qerr hasout run c) <> None ->
    gar_appended (query_getall qerr hasout run c) = None.
Proof. exact getall_all_or_nothing. Qed.
Print Assumptions C15_all_or_nothing.

(* On a result read without incident GetAll appends exactly one element per
   row, in row order (old ++ rows); ErrNoRows exactly when there is no row. *)
Theorem C15_getall_appends :
  forall r c, reading r ->
    ga_outcome c <> Some false -> ga_bad_slice c = None -> ga_bad_elem c = None -> ga_dests c = GValid ->
    let res := query_getall None true (RunRows r) c in
    match r_pending r with
    | [] => gar_err res = Some ErrNoRows /\ gar_appended res = None
    | _ => gar_err res = None /\ gar_appended res = Some (map row_id (r_pending r))
    end.
Proof. exact getall_appends. Qed.
Print Assumptions C15_getall_appends.

(* Get stores the first row; ErrNoRows, destinations untouched, exactly when
   the result of a statement with outputs is empty. *)
Theorem C15_get_first_or_norows :
  forall r c, reading r -> g_outcome c = None -> g_dests c = Some GValid ->
    let res := query_get None true (RunRows r) c in
    match r_pending r with
    | [] => gr_err res = Some ErrNoRows /\ gr_row res = None
    | x :: _ => gr_err res = None /\ gr_row res = Some (row_id x)
    end.
Proof. exact get_first_or_norows. Qed.
Print Assumptions C15_get_first_or_norows.

(* Without output expressions Get returns nil and fills a supplied Outcome with
   the driver's result. *)
Theorem C15_exec_outcome :
  forall id,
    let res := query_get None false (RunResult id) {| g_outcome := Some true; g_dests := None |} in
    gr_err res = None /\ gr_outcome res = Some (Some id).
Proof. exact get_exec_outcome. Qed.
Print Assumptions C15_exec_outcome.

(* Value level (Model/Scan.v): GetAll scans every row into fresh elements, one
   per destination slice (a new struct, a new struct behind a pointer, a new
   map), and appends exactly one element per row, in row order; the element of
   row i is what that row alone gives (C06 says where each value lands). *)
Theorem C15_getall_values :
  forall env outputs cols elems rows news,
    getall_rows env outputs cols elems rows [] = SOk news ->
    length news = length rows /\ Forall2 (row_elements env outputs cols elems) rows news.
Proof. exact getall_values. Qed.
Print Assumptions C15_getall_values.

Theorem C15_getall_rows_independent :
  forall env outputs cols elems rows news i cells vals,
    getall_rows env outputs cols elems rows [] = SOk news ->
    nth_error rows i = Some cells -> nth_error news i = Some vals ->
    row_elements env outputs cols elems cells vals.
Proof. exact getall_rows_independent. Qed.
Print Assumptions C15_getall_rows_independent.

(* a row that cannot be stored (missing column, conversion failure, nil embedded
   pointer in the fresh element) makes the whole call fail: nothing is appended *)
Theorem C15_getall_row_error :
  forall env outputs cols elems pre cells post acc e d,
    Forall (fun c => exists m, scan_row env outputs cols c (map (fresh_arg env) elems) = (Some m, None)) pre ->
    scan_row env outputs cols cells (map (fresh_arg env) elems) = (d, Some e) ->
    getall_rows env outputs cols elems (pre ++ cells :: post) acc = SErr e.
Proof. exact getall_row_error. Qed.
Print Assumptions C15_getall_row_error.
