(* C03 — Every input placeholder is bound to exactly the value its expression
   names.  Property theorems only; proofs are in Proofs/. *)
From SQLair.Base Require Import Bytes.
From SQLair.Model Require Import GenConsts Reflect TypeInfo Bind.
From SQLair.Proofs Require Import ItoaFacts BindFacts.

(* Distinct placeholder numbers give distinct argument names (strconv.Itoa is
   injective), and every placeholder token renders as "@" ++ that name: the
   correspondence between placeholders in the SQL text and named arguments is
   the correspondence between their numbers. *)
Theorem C03_names_injective : forall a b, arg_name a = arg_name b -> a = b.
Proof. exact arg_name_inj. Qed.
Print Assumptions C03_names_injective.

Theorem C03_placeholder_text :
  forall t n, tok_num t = Some n -> render_tok t = sql_param_at ++ arg_name n.
Proof. exact render_placeholder. Qed.
Print Assumptions C03_placeholder_text.

(* Each occurrence of a standalone input ($T.member, $S[:]) gets its own
   placeholders: k values give k fresh consecutive numbers, written in order,
   bound to the k values in element order; none for k = 0. *)
Theorem C03_standalone :
  forall q vals,
    let q' := add_inputs q vals in
    q_inputCount q' = q_inputCount q + length vals /\
    nums (q_sql q') = nums (q_sql q) ++ seq (q_inputCount q) (length vals) /\
    q_named q' = q_named q ++ map (fun '(i, v) => (arg_name i, v))
                                 (combine (seq (q_inputCount q) (length vals)) vals) /\
    q_outputs q' = q_outputs q /\ q_argUsed q' = q_argUsed q.
Proof. exact add_inputs_spec. Qed.
Print Assumptions C03_standalone.

Example C03_standalone_applies :
  nums (q_sql (add_inputs qb_init [VLeaf 7 false; VLeaf 8 false])) = [0; 1].
Proof. vm_compute. reflexivity. Qed.
