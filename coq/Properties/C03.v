(* C03 — Every input placeholder is bound to exactly the value its expression
   names.  Property theorems only; proofs are in Proofs/. *)
From Coq Require Import Permutation.
From SQLair.Base Require Import Bytes.
From SQLair.Model Require Import GenConsts Reflect TypeInfo Bind.
From SQLair.Proofs Require Import ItoaFacts BindFacts InsertProofs BindInputsProofs
  StructFieldsProofs ExampleData.

(* Distinct placeholder numbers give distinct argument names (strconv.Itoa is
   injective), and every placeholder token renders as "@" ++ that name: the
   correspondence between placeholders in the SQL text and named arguments is
   the correspondence between their numbers. *)
Theorem C03_names_injective : forall a b, arg_name a = arg_name b -> a = b.
Proof. exact arg_name_inj. Qed.
Print Assumptions C03_names_injective.

Theorem C03_placeholder_text :
  forall t n, tok_num t = Some n -> render_tok t = sql_param_at ++ arg_name n.
Proof. exact render_placeholder. Qed.
Print Assumptions C03_placeholder_text.

(* Each occurrence of a standalone input ($T.member, $S[:]) gets its own
   placeholders: k values give k fresh consecutive numbers, written in order,
   bound to the k values in element order; none for k = 0. *)
Theorem C03_standalone :
  forall q vals,
    let q' := add_inputs q vals in
    q_inputCount q' = q_inputCount q + length vals /\
    nums (q_sql q') = nums (q_sql q) ++ seq (q_inputCount q) (length vals) /\
    q_named q' = q_named q ++ map (fun '(i, v) => (arg_name i, v))
                                 (combine (seq (q_inputCount q) (length vals)) vals) /\
    q_outputs q' = q_outputs q /\ q_argUsed q' = q_argUsed q.
Proof. exact add_inputs_spec. Qed.
Print Assumptions C03_standalone.

Example C03_standalone_applies :
  nums (q_sql (add_inputs qb_init [VLeaf 7 false; VLeaf 8 false])) = [0; 1].
Proof. vm_compute. reflexivity. Qed.

(* (a) For every query built without error (INSERTs with bulk, single, literal
   and omitted columns included) the placeholders of the SQL and the named
   arguments correspond one to one: no duplicate names, a placeholder for
   every argument, an argument for every placeholder. *)
Theorem C03_bijection :
  forall env tbe args pq,
    bind_inputs env tbe args = BOk pq ->
    NoDup (map fst (pq_params pq)) /\
    (forall n, In n (nums (pq_toks pq)) <-> In (arg_name n) (map fst (pq_params pq))) /\
    (forall name, In name (map fst (pq_params pq)) -> exists n, name = arg_name n).
Proof. exact bind_inputs_bijection. Qed.
Print Assumptions C03_bijection.

(* ... and more precisely, with k arguments, the names are sqlair_0 ..
   sqlair_(k-1) in some order and the placeholder numbers are 0 .. k-1. *)
Theorem C03_bijection_exact :
  forall env tbe args pq,
    bind_inputs env tbe args = BOk pq ->
    Permutation (map fst (pq_params pq)) (map arg_name (seq 0 (length (pq_params pq)))) /\
    forall n, In n (nums (pq_toks pq)) <-> n < length (pq_params pq).
Proof. exact bind_inputs_perm. Qed.
Print Assumptions C03_bijection_exact.

(* two INSERTs over a slice of three Persons (bulk id/st, omitted name, a
   literal, a single-valued map key repeated in every row): 14 arguments *)
Example C03_bijection_applies :
  exists pq,
    bind_inputs ex_env [ex_insert; ex_insert]
      [ex_people [person 1 2 3 4 true; person 5 6 7 8 true; person 9 10 11 12 true]; AVal 4 ex_map]
      = BOk pq /\
    nums (pq_toks pq) = [0; 3; 4; 1; 3; 5; 2; 3; 6; 7; 10; 11; 8; 10; 12; 9; 10; 13] /\
    length (pq_params pq) = 14.
Proof. eexists. split; [vm_compute; reflexivity|]. split; vm_compute; reflexivity. Qed.

(* (b) Outside an INSERT every occurrence of an input expression gets its own
   placeholders, numbered in textual order, and the arguments are the values
   of the occurrences in textual order. *)
Theorem C03_order :
  forall env m es q q',
    add_all env m q es = BOk q' -> Forall not_insert es ->
    let vals := flat_map (input_values env m) es in
    q_inputCount q' = q_inputCount q + length vals /\
    nums (q_sql q') = nums (q_sql q) ++ seq (q_inputCount q) (length vals) /\
    q_named q' = q_named q ++ named_from (q_inputCount q) vals.
Proof. exact add_all_order. Qed.
Print Assumptions C03_order.

Theorem C03_order_query :
  forall env tbe args pq,
    bind_inputs env tbe args = BOk pq -> Forall not_insert tbe ->
    exists m, validate_inputs env args [] = BOk m /\
      nums (pq_toks pq) = seq 0 (length (pq_params pq)) /\
      pq_params pq = named_from 0 (flat_map (input_values env m) tbe).
Proof. exact bind_inputs_order. Qed.
Print Assumptions C03_order_query.

Example C03_order_applies :
  exists pq, bind_inputs ex_env ex_query ex_args = BOk pq /\ Forall not_insert ex_query /\
    map snd (pq_params pq) = [L 50 false; L 60 false; L 61 false; L 62 false].
Proof.
  eexists. split; [vm_compute; reflexivity|]. split; [repeat constructor|vm_compute; reflexivity].
Qed.

(* $S[:] : the elements of the slice, in order; none for an empty slice *)
Theorem C03_slice_values :
  forall env m st nl elems,
    t2v_get m st = Some (VSlice nl elems) ->
    locate_params env (LSlice st) m =
      BOk {| p_vals := elems; p_omit := false; p_bulk := false; p_argtype := st |}.
Proof. exact locate_slice. Qed.
Print Assumptions C03_slice_values.

(* (c) $T.member: the index path that getStructFields recorded for the db tag
   leads to the value an independent search for that tag finds in the struct
   value: fields in order, a tagged exported field matches by tag name, an
   embedded struct having the tag is searched through its (non-nil) pointer.
   With a nil embedded pointer on the way both sides are None. *)
Theorem C03_member_value :
  forall env fuel t fields m f v,
    get_struct_fields fuel env [] t = BOk fields ->
    find_tag m fields = Some f ->
    value_conforms env fuel t v ->
    field_by_index v (sf_index f) = lookup_tag env fuel t m v.
Proof. exact member_value. Qed.
Print Assumptions C03_member_value.

(* the tag name getStructFields records is the part before the first comma *)
Theorem C03_tag_name :
  forall tag name omit, parse_tag tag = BOk (name, omit) -> name = tag_name tag.
Proof. exact parse_tag_name. Qed.
Print Assumptions C03_tag_name.

(* the type has the tag (also through embedded structs) iff discovery found it *)
Theorem C03_member_found :
  forall env fuel t fields m,
    get_struct_fields fuel env [] t = BOk fields ->
    has_tag env fuel t m = is_some (find_tag m fields).
Proof. exact member_has_tag. Qed.
Print Assumptions C03_member_found.

Theorem C03_member_located :
  forall env fuel t fields m f mm v,
    get_struct_fields fuel env [] t = BOk fields ->
    find_tag m fields = Some f ->
    t2v_get mm t = Some v ->
    value_conforms env fuel t v ->
    locate_params env (LField f) mm =
      match lookup_tag env fuel t m v with
      | Some x => BOk {| p_vals := [x]; p_omit := is_zero x && sf_omit f; p_bulk := false;
                         p_argtype := t |}
      | None => BErr ENilEmbedded
      end.
Proof. exact locate_member. Qed.
Print Assumptions C03_member_located.

Example C03_member_applies :
  exists fields f,
    get_struct_fields ex_fuel ex_env [] 0 = BOk fields /\ find_tag s_street fields = Some f /\
    sf_index f = [2; 0] /\
    value_conforms ex_env ex_fuel 0 (person 1 2 3 4 false) /\
    lookup_tag ex_env ex_fuel 0 s_street (person 1 2 3 4 false) = Some (L 3 false) /\
    value_conforms ex_env ex_fuel 0 person_nil /\
    lookup_tag ex_env ex_fuel 0 s_street person_nil = None /\
    lookup_tag ex_env ex_fuel 0 s_z person_nil = Some (L 4 false).
Proof.
  eexists. eexists. split; [vm_compute; reflexivity|]. split; [vm_compute; reflexivity|].
  split; [reflexivity|].
  split; [cbn; repeat split; right; eexists; split; [reflexivity|]; repeat split|].
  split; [vm_compute; reflexivity|].
  split; [cbn; repeat split; left; reflexivity|]. split; vm_compute; reflexivity.
Qed.

(* $M.key: the value stored under that key *)
Theorem C03_map_value :
  forall env mt key mm nl entries v,
    t2v_get mm mt = Some (VMap nl entries) ->
    ((exists p, locate_params env (LMapKey mt key) mm = BOk p /\ p_vals p = [v]) <->
     assoc_str key entries = Some v).
Proof. exact locate_mapkey. Qed.
Print Assumptions C03_map_value.
