(* C11 — Prepared statements are released exactly once when Statement or DB go
   away.  Property theorems only; proofs are in Proofs/CacheProofs.v. *)
From SQLair.Base Require Import Bytes.
From SQLair.Model Require Import Cache.
From SQLair.Proofs Require Import CacheProofs.

(* The two index maps always describe the same set of (Statement, DB) pairs, so
   the unchecked map accesses of both finalizers never hit a missing entry ... *)
Theorem C11_index_consistent :
  forall ops s d, w_index (run w0 ops) d s = true <-> w_cache (run w0 ops) s d <> None.
Proof. exact index_consistent. Qed.
Print Assumptions C11_index_consistent.

(* ... and no finalizer (or Store) ever panics on a missing map entry. *)
Theorem C11_no_panic : forall ops n, ~ In (EvPanic n) (w_log (run w0 ops)).
Proof. exact no_panic. Qed.
Print Assumptions C11_no_panic.

(* No driver statement is closed twice, in any history. *)
Theorem C11_close_at_most_once :
  forall ops ds, ds < length (w_heap (run w0 ops)) -> ds_closes (hget (run w0 ops) ds) <= 1.
Proof. exact close_at_most_once. Qed.
Print Assumptions C11_close_at_most_once.

(* Quiescence: when nothing is in flight and the collector has nothing left to
   do, a dropped Statement / DB has no entry in either map and every driver
   statement ever prepared is either cached for a Statement and a DB that are
   both still referenced (and open), or has been closed exactly once. *)
Theorem C11_quiescent_released :
  forall w, Inv w -> quiescent w ->
    (forall s d, w_sref w s = false -> w_cache w s d = None /\ w_index w d s = false /\ w_sentry w s = false) /\
    (forall s d, w_dref w d = false -> w_cache w s d = None /\ w_index w d s = false /\ w_dentry w d = false) /\
    (forall ds, ds < length (w_heap w) ->
       (w_cache w (ds_stmt (hget w ds)) (ds_db (hget w ds)) = Some ds /\
        w_sref w (ds_stmt (hget w ds)) = true /\ w_dref w (ds_db (hget w ds)) = true /\
        ds_closes (hget w ds) = 0) \/
       ds_closes (hget w ds) = 1).
Proof. exact quiescent_released. Qed.
Print Assumptions C11_quiescent_released.

(* non-vacuity: three shapes on one pair, everything dropped, collected *)
Example C11_applies :
  let ops := [NewStmt; NewDB; Begin 0 0 1 false 0; Prepare 0 true; Store 0; Exec 0; Finish 0;
              Begin 0 0 2 false 0; Prepare 1 true; Store 1; Exec 1; Finish 1;
              Begin 0 0 3 false 0; Prepare 2 true; Store 2; Exec 2; Finish 2;
              DropStmt 0; DropDB 0; GCStmt 0; GCDB 0; GCDs 0; GCDs 1] in
  map ds_closes (w_heap (run w0 ops)) = [1; 1; 1].
Proof. vm_compute. reflexivity. Qed.
