(* C12 — TX statements run on the transaction's connection; nothing runs after
   it ends.  Property theorems only; proofs are in Proofs/TxProofs.v.
   PARTIAL: the linearisability of database/sql's Tx (a statement racing with
   Commit either runs before it or gets ErrTxDone) is assumed in the model
   (each database/sql call is an atomic step); that a statement executed
   through sql.Tx runs on the connection BEGIN was sent on is database/sql's
   and is validated by the differential run (connection identity in the driver
   log).  Atomicity of the effects is the database's. *)
From SQLair.Base Require Import Bytes.
From SQLair.Model Require Import Tx.
From SQLair.Proofs Require Import TxProofs.

(* For every interleaving of Query / run / Commit / Rollback steps of any
   number of threads: at most one finisher reaches the driver; exactly as many
   calls report success as finish events exist (so of n concurrent
   Commit/Rollback calls exactly one succeeds once one has reached the driver);
   every event is on the transaction's connection; nothing is sent after the
   COMMIT / ROLLBACK. *)
Theorem C12_discipline :
  forall conn ops,
    let w := xrun (x0 conn) ops in
    count is_finish (x_log w) <= 1 /\
    count succeeded (x_threads w) = count is_finish (x_log w) /\
    (forall e, In e (x_log w) -> ev_conn e = conn) /\
    (forall l1 e l2, x_log w = l1 ++ e :: l2 -> is_finish e = true -> l2 = []).
Proof. exact tx_discipline. Qed.
Print Assumptions C12_discipline.

(* After Commit or Rollback has come back from database/sql, every further
   Commit, Rollback and query on that TX, including a Query object created
   earlier, fails with ErrTXDone and sends nothing to the driver. *)
Theorem C12_after_done :
  forall w o, J w -> x_finished w = true ->
    x_log (xstep w o) = x_log w /\ x_finished (xstep w o) = true /\
    match o with
    | TBuild t => xget w t = TIdle -> t < length (x_threads w) -> xget (xstep w o) t = TBuilt false
    | TRun t => forall ok, xget w t = TBuilt ok -> xget (xstep w o) t = TRan (Some TxDone)
    | TCommitCAS t => xget w t = TIdle -> t < length (x_threads w) ->
                      xget (xstep w o) t = TReturned true (Some TxDone)
    | TRollbackCAS t => xget w t = TIdle -> t < length (x_threads w) ->
                        xget (xstep w o) t = TReturned false (Some TxDone)
    | _ => True
    end.
Proof. exact tx_after_done. Qed.
Print Assumptions C12_after_done.

Theorem C12_invariant_everywhere : forall conn ops, J (xrun (x0 conn) ops).
Proof. intros conn ops. apply j_run. apply j_x0. Qed.
Print Assumptions C12_invariant_everywhere.

(* non-vacuity: Commit races Rollback; a query built earlier runs in between *)
Example C12_applies :
  let ops := [TSpawn; TSpawn; TSpawn; TBuild 0; TCommitCAS 1; TRollbackCAS 2; TRun 0; TFinishCall 1; TRun 0] in
  x_log (xrun (x0 3) ops) = [TEvExec 0 3; TEvCommit 1 3] /\
  x_threads (xrun (x0 3) ops) = [TRan None; TReturned true None; TReturned false (Some TxDone)].
Proof. vm_compute. auto. Qed.
