(* C02 - String literals and comments are opaque to expression parsing.
   Property theorems only; proofs are in Proofs/ParserLex.v (per-function
   synchronisation lemmas) and Proofs/ParserLexMain.v (main loop).

   The specification is a byte-level automaton [lexq] (Proofs/ParserLex.v)
   that is independent of the parser: in state Normal a single quote (39)
   enters InS and a double quote (34) enters InD; inside a quote the same
   quote byte leaves it (a doubled quote leaves and re-enters: the SQL
   escape); two minus signs enter InLine up to, not including, the next
   newline; slash-star enters InBlock up to the first star-slash; SeenMinus,
   SeenSlash and InBlockStar are the one-byte lookahead states.
   [unclosed q] holds for InS and InD; [normal_like q] for Normal, SeenMinus
   and SeenSlash, i.e. outside every literal and comment. *)
From SQLair.Base Require Import Bytes.
From SQLair.Model Require Import Parser.
From SQLair.Proofs Require Import ParserLex ParserLexMain.

(* A literal that is never closed makes Prepare fail; it is never silently
   accepted: if the automaton ends inside a quote, parse returns an error. *)
Theorem C02_unclosed_rejected :
  forall (inp : str),
    unclosed (lex_state_at_end inp) = true -> exists e, parse inp = Err e.
Proof. exact parse_unclosed_rejected. Qed.
Print Assumptions C02_unclosed_rejected.

(* The same, contrapositive: every accepted query ends outside a quote. *)
Theorem C02_accepted_closed :
  forall (inp : str) (segs : list expr),
    parse inp = Ok segs -> unclosed (lex_state_at_end inp) = false.
Proof. exact parse_ok_closed. Qed.
Print Assumptions C02_accepted_closed.

(* No expression starts or ends strictly inside a literal or a comment: for
   every expression segment [e] of an accepted query, preceded by the segments
   [s1] (whose source texts form the prefix [pre] of the query, by C01), the
   automaton is outside literals and comments after [pre], and is in state
   Normal after [pre ++ raw_of e]. *)
Theorem C02_boundaries :
  forall (inp : str) (segs s1 : list expr) (e : expr) (s2 : list expr),
    parse inp = Ok segs -> segs = s1 ++ e :: s2 -> is_bypass e = false ->
    (let pre := concat (map raw_of s1) in
     inp = pre ++ raw_of e ++ concat (map raw_of s2) /\
     normal_like (lexq Normal pre) = true /\
     lexq Normal (pre ++ raw_of e) = Normal).
Proof. exact parse_boundaries_full. Qed.
Print Assumptions C02_boundaries.

(* The same read the other way round: a segment that starts or ends strictly
   inside a literal or a comment is never an expression. *)
Theorem C02_inside_is_bypass :
  forall (inp : str) (segs s1 : list expr) (e : expr) (s2 : list expr),
    parse inp = Ok segs -> segs = s1 ++ e :: s2 ->
    normal_like (lexq Normal (concat (map raw_of s1))) = false \/
    normal_like (lexq Normal (concat (map raw_of s1) ++ raw_of e)) = false ->
    is_bypass e = true.
Proof. exact parse_inside_is_bypass. Qed.
Print Assumptions C02_inside_is_bypass.

(* Non-vacuity. *)

(* [quote]$M.x[quote] $M.y : the quoted text is bypassed, the expression after
   it is found *)
Example C02_quoted_is_bypassed :
  parse [39; 36; 77; 46; 120; 39; 32; 36; 77; 46; 121]%N =
  Ok [Bypass [39; 36; 77; 46; 120; 39; 32]%N;
      MemberIn [36; 77; 46; 121]%N {| tname := [77]%N; mname := [121]%N |}].
Proof. vm_compute. reflexivity. Qed.

(* a line comment and a block comment containing $M.x, followed by $M.y:
   the comments are bypassed *)
Example C02_comment_is_bypassed :
  parse [45; 45; 32; 36; 77; 46; 120; 10; 36; 77; 46; 121]%N =
  Ok [Bypass [45; 45; 32; 36; 77; 46; 120; 10]%N;
      MemberIn [36; 77; 46; 121]%N {| tname := [77]%N; mname := [121]%N |}]
  /\
  parse [47; 42; 32; 36; 77; 46; 120; 32; 42; 47; 36; 77; 46; 121]%N =
  Ok [Bypass [47; 42; 32; 36; 77; 46; 120; 32; 42; 47]%N;
      MemberIn [36; 77; 46; 121]%N {| tname := [77]%N; mname := [121]%N |}].
Proof. vm_compute. split; reflexivity. Qed.

(* x-[quote] : the automaton ends inside a quote, and parse fails (missing
   quote) *)
Example C02_unclosed_applies :
  unclosed (lex_state_at_end [120; 45; 39]%N) = true /\
  parse [120; 45; 39]%N = Err (errorAt EMissingQuote [] 1 3).
Proof. vm_compute. split; reflexivity. Qed.

(* the automaton: a doubled quote does not end a literal; a quote inside a
   comment does not open one; a lone minus is harmless *)
Example C02_automaton :
  lexq Normal [39; 105; 116; 39; 39; 115; 39]%N = Normal /\
  lexq Normal [39; 105; 116; 39; 39; 115]%N = InS /\
  lexq Normal [47; 42; 32; 39; 32; 42; 47]%N = Normal /\
  lexq Normal [45; 45; 32; 39]%N = InLine /\
  lexq Normal [97; 45; 36]%N = Normal /\
  lexq Normal [97; 45]%N = SeenMinus.
Proof. vm_compute. repeat split; reflexivity. Qed.
