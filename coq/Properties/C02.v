(* C02 - String literals and comments are opaque to expression parsing.
   Property theorems only; proofs are in Proofs/ParserLex.v (per-function
   synchronisation lemmas) and Proofs/ParserLexMain.v (main loop).

   The specification is a byte-level automaton [lexq] (Proofs/ParserLex.v)
   that is independent of the parser: in state Normal a single quote (39)
   enters InS and a double quote (34) enters InD; inside a quote the same
   quote byte leaves it (a doubled quote leaves and re-enters: the SQL
   escape); two minus signs enter InLine up to, not including, the next
   newline; slash-star enters InBlock up to the first star-slash; SeenMinus,
   SeenSlash and InBlockStar are the one-byte lookahead states.
   [unclosed q] holds for InS and InD; [normal_like q] for Normal, SeenMinus
   and SeenSlash, i.e. outside every literal and comment. *)
From SQLair.Base Require Import Bytes.
From SQLair.Model Require Import Parser.
From SQLair.Proofs Require Import ParserLex ParserLexMain.

(* A literal that is never closed makes Prepare fail; it is never silently
   accepted: if the automaton ends inside a quote, parse returns an error. *)
Theorem C02_unclosed_rejected :
  forall (inp : str),
    unclosed (lex_state_at_end inp) = true -> exists e, parse inp = Err e.
Proof. exact parse_unclosed_rejected. Qed.
Print Assumptions C02_unclosed_rejected.

(* The same, contrapositive: every accepted query ends outside a quote. *)
Theorem C02_accepted_closed :
  forall (inp : str) (segs : list expr),
    parse inp = Ok segs -> unclosed (lex_state_at_end inp) = false.
Proof. exact parse_ok_closed. Qed.
Print Assumptions C02_accepted_closed.

(* No expression starts or ends strictly inside a literal or a comment: for
   every expression segment [e] of an accepted query, preceded by the segments
   [s1] (whose source texts form the prefix [pre] of the query, by C01), the
   automaton is outside literals and comments after [pre], and is in state
   Normal after [pre ++ raw_of e]. *)
Theorem C02_boundaries :
  forall (inp : str) (segs s1 : list expr) (e : expr) (s2 : list expr),
    parse inp = Ok segs -> segs = s1 ++ e :: s2 -> is_bypass e = false ->
    (let pre := concat (map raw_of s1) in
     inp = pre ++ raw_of e ++ concat (map raw_of s2) /\
     normal_like (lexq Normal pre) = true /\
     lexq Normal (pre ++ raw_of e) = Normal).
Proof. exact parse_boundaries_full. Qed.
Print Assumptions C02_boundaries.

(* The same read the other way round: a segment that starts or ends strictly
   inside a literal or a comment is never an expression. *)
Theorem C02_inside_is_bypass :
  forall (inp : str) (segs s1 : list expr) (e : expr) (s2 : list expr),
    parse inp = Ok segs -> segs = s1 ++ e :: s2 ->
    normal_like (lexq Normal (concat (map raw_of s1))) = false \/
    normal_like (lexq Normal (concat (map raw_of s1) ++ raw_of e)) = false ->
    is_bypass e = true.
Proof. exact parse_inside_is_bypass. Qed.
Print Assumptions C02_inside_is_bypass.

(* Non-vacuity. *)

(* [quote]$M.x[quote] $M.y : the quoted text is bypassed, the expression after
   it is found *)
Example C02_quoted_is_bypassed :
  parse [39; 36; 77; 46; 120; 39; 32; 36; 77; 46; 121]%N =
  Ok [Bypass [39; 36; 77; 46; 120; 39; 32]%N;
      MemberIn [36; 77; 46; 121]%N {| tname := [77]%N; mname := [121]%N |}].
Proof. vm_compute. reflexivity. Qed.

(* a line comment and a block comment containing $M.x, followed by $M.y:
   the comments are bypassed *)
Example C02_comment_is_bypassed :
  parse [45; 45; 32; 36; 77; 46; 120; 10; 36; 77; 46; 121]%N =
  Ok [Bypass [45; 45; 32; 36; 77; 46; 120; 10]%N;
      MemberIn [36; 77; 46; 121]%N {| tname := [77]%N; mname := [121]%N |}]
  /\
  parse [47; 42; 32; 36; 77; 46; 120; 32; 42; 47; 36; 77; 46; 121]%N =
  Ok [Bypass [47; 42; 32; 36; 77; 46; 120; 32; 42; 47]%N;
      MemberIn [36; 77; 46; 121]%N {| tname := [77]%N; mname := [121]%N |}].
Proof. vm_compute. split; reflexivity. Qed.

(* x-[quote] : the automaton ends inside a quote, and parse fails (missing
   quote) *)
Example C02_unclosed_applies :
  unclosed (lex_state_at_end [120; 45; 39]%N) = true /\
  parse [120; 45; 39]%N = Err (errorAt EMissingQuote [] 1 3).
Proof. vm_compute. split; reflexivity. Qed.

(* the automaton: a doubled quote does not end a literal; a quote inside a
   comment does not open one; a lone minus is harmless *)
Example C02_automaton :
  lexq Normal [39; 105; 116; 39; 39; 115; 39]%N = Normal /\
  lexq Normal [39; 105; 116; 39; 39; 115]%N = InS /\
  lexq Normal [47; 42; 32; 39; 32; 42; 47]%N = Normal /\
  lexq Normal [45; 45; 32; 39]%N = InLine /\
  lexq Normal [97; 45; 36]%N = Normal /\
  lexq Normal [97; 45]%N = SeenMinus.
Proof. vm_compute. repeat split; reflexivity. Qed.

(* ------------------------------------------------------------------------
   Second sentence of C02: text inside an expression - the arguments of a
   function-call column, the literal values of an INSERT - is passed through
   unchanged.  Proofs in Proofs/ParserInner.v (parser) and
   Proofs/OutputColumns.v (binding and SQL generation). *)
From SQLair.Model Require Import GenConsts Reflect TypeInfo Bind.
From SQLair.Proofs Require Import ParserExt ParserTiling ParserDepth ParserInner InsertProofs
  BindInputsProofs OutputColumns ExampleEnv.

(* Parentheses are specified by the automaton extended with a depth
   (Proofs/ParserDepth.v): [drun sc (Some (q, d)) bs] runs over the bytes bs from
   automaton state q and depth d.  A '(' read outside literals and comments
   increments the depth, a ')' read outside decrements it; a ')' at depth 0
   makes the run fail (None); with sc = true (literal mode) a ',' read outside
   at depth 0 makes it fail as well.  All other bytes only step the automaton.
   So  drun false (Some (Normal, 0)) body = Some (q, 0)  says: every ')' of body
   that is outside literals and comments matches an earlier '(' of body, and
   every '(' is closed. *)

(* A function-call column f of an output expression whose source text is raw
   (which follows the text pre of the query, by C01): f is a contiguous piece
   of raw; the automaton is outside literals and comments where f starts and in
   state Normal where f ends; f ends with ')'; and f on its own is lexically
   closed (the automaton started on f ends in Normal), so every quote or
   comment opened in the arguments is closed in the arguments. *)
Theorem C02_function_column_verbatim :
  forall (inp : str) (segs s1 : list expr) raw cols targets (s2 : list expr) (f : str),
    parse inp = Ok segs -> segs = s1 ++ Output raw cols targets :: s2 -> In (FuncCol f) cols ->
    (let pre := concat (map raw_of s1) in
     exists a b, raw = a ++ f ++ b /\
       normal_like (lexq Normal (pre ++ a)) = true /\
       lexq Normal (pre ++ a ++ f) = Normal /\
       lexq Normal f = Normal /\
       (exists p, f = p ++ [41%N]) /\
       (* identifier, then a group that ends at the matching parenthesis *)
       exists id body q1 q2, f = id ++ [40%N] ++ body ++ [41%N] /\
         drun false (Some (Normal, 0)) id = Some (q1, 0) /\ normal_like q1 = true /\
         drun false (Some (Normal, 0)) body = Some (q2, 0) /\ normal_like q2 = true).
Proof.
  intros inp segs s1 raw cols targets s2 f P D I pre.
  pose proof (parse_inner _ _ _ _ _ P D) as X. cbn [seg_inner] in X.
  destruct (X f I) as [a [b [E [H1 [H2 [H3 [H4 H5]]]]]]]. exists a, b.
  rewrite <- app_assoc in H2. repeat (split; [assumption|]). exact H5.
Qed.
Print Assumptions C02_function_column_verbatim.

(* the same for the function-call columns of an INSERT column list *)
Theorem C02_insert_function_column_verbatim :
  forall (inp : str) (segs s1 : list expr) (e : expr) cols (s2 : list expr) (f : str),
    parse inp = Ok segs -> segs = s1 ++ e :: s2 ->
    (exists raw vals, e = BasicIns raw cols vals) \/ (exists raw srcs, e = ColumnsIns raw cols srcs) ->
    In (FuncCol f) cols ->
    (let pre := concat (map raw_of s1) in
     exists a b, raw_of e = a ++ f ++ b /\
       normal_like (lexq Normal (pre ++ a)) = true /\
       lexq Normal (pre ++ a ++ f) = Normal /\
       lexq Normal f = Normal /\
       (exists p, f = p ++ [41%N]) /\
       exists id body q1 q2, f = id ++ [40%N] ++ body ++ [41%N] /\
         drun false (Some (Normal, 0)) id = Some (q1, 0) /\ normal_like q1 = true /\
         drun false (Some (Normal, 0)) body = Some (q2, 0) /\ normal_like q2 = true).
Proof.
  intros inp segs s1 e cols s2 f P D K I pre.
  pose proof (parse_inner _ _ _ _ _ P D) as X.
  assert (Y : piece pre (raw_of e) f func_piece).
  { destruct K as [[raw [vals ->]]|[raw [srcs ->]]]; cbn [seg_inner raw_of] in *.
    - exact (proj1 X f I).
    - exact (X f I). }
  destruct Y as [a [b [E [H1 [H2 [H3 [H4 H5]]]]]]]. exists a, b. rewrite <- app_assoc in H2.
  repeat (split; [assumption|]). exact H5.
Qed.
Print Assumptions C02_insert_function_column_verbatim.

(* A literal value of an INSERT.  The statement asked for - the automaton is
   in state Normal where the literal ends - is FALSE in the model (and in the
   Go code): the literal "1 -" of  (c1, c2) VALUES ($T.a, 1 -)  ends in the
   lookahead state SeenMinus (a '-' that might open a comment); likewise a
   literal ending in '/'.  The lookahead is harmless because the next byte is
   the ',' or ')' that ended the literal. *)
Definition C02_insert_literal_verbatim_statement : Prop :=
  forall (inp : str) (segs s1 : list expr) raw cols vals (s2 : list expr) (s : str),
    parse inp = Ok segs -> segs = s1 ++ BasicIns raw cols vals :: s2 -> In (VLit s) vals ->
    (let pre := concat (map raw_of s1) in
     exists a b, raw = a ++ s ++ b /\
       normal_like (lexq Normal (pre ++ a)) = true /\
       lexq Normal (pre ++ a ++ s) = Normal).

Lemma lex_step_minus_not_normal q : lex_step q 45%N <> Normal.
Proof. destruct q; discriminate. Qed.

Theorem C02_insert_literal_verbatim_counterexample : ~ C02_insert_literal_verbatim_statement.
Proof.
  intros St.
  (* (c1, c2) VALUES ($T.a, 1 -) *)
  pose (inp := [40; 99; 49; 44; 32; 99; 50; 41; 32; 86; 65; 76; 85; 69; 83; 32; 40; 36; 84; 46; 97;
                44; 32; 49; 32; 45; 41]%N).
  assert (P : parse inp = Ok [BasicIns inp [BasicCol [] [99; 49]%N; BasicCol [] [99; 50]%N]
                                [VMem {| tname := [84%N]; mname := [97%N] |}; VLit [49; 32; 45]%N]])
    by (vm_compute; reflexivity).
  destruct (St inp _ [] _ _ _ [] [49; 32; 45]%N P eq_refl) as [a [b [_ [_ H]]]].
  { right. left. reflexivity. }
  cbn [map concat app] in H.
  change [49; 32; 45]%N with ([49; 32] ++ [45])%N in H. rewrite app_assoc, lexq_app in H.
  exact (lex_step_minus_not_normal _ H).
Qed.
Print Assumptions C02_insert_literal_verbatim_counterexample.

(* The strongest true variant: a literal value s of an INSERT is a contiguous
   piece of the source text; the automaton is outside literals and comments
   where s starts and where s ends (Normal, or the harmless lookahead states
   after '-' or '/'); the byte after s is the top-level ',' or ')' that ended
   it, after which the automaton is in Normal; and s on its own is lexically
   closed: every literal or comment opened in s is closed in s. *)
Theorem C02_insert_literal_verbatim_partial :
  forall (inp : str) (segs s1 : list expr) raw cols vals (s2 : list expr) (s : str),
    parse inp = Ok segs -> segs = s1 ++ BasicIns raw cols vals :: s2 -> In (VLit s) vals ->
    (let pre := concat (map raw_of s1) in
     exists a c t, raw = a ++ s ++ c :: t /\ (c = 44%N \/ c = 41%N) /\
       normal_like (lexq Normal (pre ++ a)) = true /\
       normal_like (lexq Normal (pre ++ a ++ s)) = true /\
       lexq Normal (pre ++ a ++ s ++ [c]) = Normal /\
       normal_like (lexq Normal s) = true /\
       (* s is a run of whole literals, whole comments, balanced groups and
          other bytes: no unmatched ')' and no ',' at depth 0 *)
       exists q', drun true (Some (Normal, 0)) s = Some (q', 0)).
Proof.
  intros inp segs s1 raw cols vals s2 s P D I pre. subst pre.
  pose proof (parse_inner _ _ _ _ _ P D) as X. cbn [seg_inner] in X.
  destruct (proj2 X s I) as [a [b [E [H1 [H2 [H3 [[t H4] H5]]]]]]].
  rewrite <- app_assoc in H2.
  assert (K : forall c, (c = 44%N \/ c = 41%N) -> lexq Normal (concat (map raw_of s1) ++ a ++ s ++ [c]) = Normal).
  { intros c Hc. rewrite !app_assoc, lexq_app, <- !app_assoc. cbn [lexq fold_left].
    destruct (lexq Normal (concat (map raw_of s1) ++ a ++ s)); try discriminate H2; destruct Hc; subst c; reflexivity. }
  destruct H4 as [H4|H4]; subst b; exists a; eexists; exists t;
    (split; [exact E|]); (split; [auto|]); auto 7.
Qed.
Print Assumptions C02_insert_literal_verbatim_partial.

(* Binding and SQL generation pass both kinds of inner text through unchanged:
   in a query that was parsed, prepared and bound, the text of every
   function-call column of an output expression is the column text of an output
   token "f AS _sqlair_n" of the generated SQL; and every literal value of an
   INSERT is a text cell of every generated tuple, at the position of its
   column in the generated column list. *)
Theorem C02_inner_text_reaches_sql :
  forall env (inp : str) (segs : list expr) samples tbe args pq,
    parse inp = Ok segs ->
    bind_types env segs samples = BOk tbe -> bind_inputs env tbe args = BOk pq ->
    (forall raw cols targets f, In (Output raw cols targets) segs -> In (FuncCol f) cols ->
       exists n, In (TOut f n) (pq_toks pq)) /\
    (forall raw cols vals i s, In (BasicIns raw cols vals) segs -> nth_error vals i = Some (VLit s) ->
       exists c pre names rows post j,
         nth_error cols i = Some c /\
         pq_toks pq = pre ++ write_insert names rows ++ post /\ rows <> [] /\
         nth_error names j = Some (columnName c) /\
         Forall (fun row => nth_error row j = Some (TText s)) rows).
Proof.
  intros env inp segs samples tbe args pq P BT BI.
  destruct (inner_text_reaches_sql _ _ _ _ _ _ BT BI) as [H1 H2]. split; [|exact H2].
  intros raw cols targets f Ie If. eapply H1; [exact Ie|exact If|].
  destruct (in_split _ _ Ie) as [s1 [s2 D]].
  pose proof (parse_inner _ _ _ _ _ P D) as X. cbn [seg_inner] in X.
  destruct (X f If) as [a [b [_ Fp]]]. eapply func_piece_not_star. exact Fp.
Qed.
Print Assumptions C02_inner_text_reaches_sql.

(* the depth automaton:  a, ')' /* ) */  is balanced;  )  is not;  1, 2  fails
   in literal mode only;  f(1, 2)  is fine in literal mode *)
Example C02_depth_automaton :
  drun false (Some (Normal, 0)) [97; 44; 32; 39; 41; 39; 32; 47; 42; 32; 41; 32; 42; 47]%N = Some (Normal, 0) /\
  drun false (Some (Normal, 0)) [41]%N = None /\
  drun false (Some (Normal, 0)) [40; 40; 41]%N = Some (Normal, 1) /\
  drun false (Some (Normal, 0)) [49; 44; 32; 50]%N = Some (Normal, 0) /\
  drun true (Some (Normal, 0)) [49; 44; 32; 50]%N = None /\
  drun true (Some (Normal, 0)) [102; 40; 49; 44; 32; 50; 41]%N = Some (Normal, 0).
Proof. vm_compute. repeat split; reflexivity. Qed.

From Coq Require Import String.

(* Non-vacuity.  max(id, ')' /* ) */) AS &M.k : the quote and the comment in
   the arguments contain closing parentheses; the column reaches the SQL
   unchanged. *)
Example C02_function_column_applies :
  let inp := s "SELECT max(id, ')' /* ) */) AS &M.k FROM t" in
  let f := s "max(id, ')' /* ) */)" in
  exists segs tbe pq,
    parse inp = Ok segs /\
    segs = [Bypass (s "SELECT "); Output (s "max(id, ')' /* ) */) AS &M.k") [FuncCol f] [ma "M" "k"];
            Bypass (s " FROM t")] /\
    bind_types ex_env segs [Some 3] = BOk tbe /\
    bind_inputs ex_env tbe [] = BOk pq /\
    pq_toks pq = [TText (s "SELECT "); TOut f 0; TText (s " FROM t")].
Proof.
  eexists. eexists. eexists. split; [vm_compute; reflexivity|]. split; [reflexivity|].
  split; [vm_compute; reflexivity|]. split; vm_compute; reflexivity.
Qed.

(* (id, name) VALUES ($Person.id, f('(' , "q""q") -- c [newline] ) : the
   literal value contains a quoted parenthesis, a doubled quote and a line
   comment; it reaches the generated tuple unchanged. *)
Example C02_insert_literal_applies :
  let nl := String (Ascii.ascii_of_nat 10) EmptyString in
  let inp := s ("INSERT INTO t (id, name) VALUES ($Person.id, f('(' , ""q""""q"") -- c" ++ nl ++ " )") in
  let lit := s ("f('(' , ""q""""q"") -- c" ++ nl ++ " ") in
  exists raw tbe pq,
    parse inp = Ok [Bypass (s "INSERT INTO t ");
                    BasicIns raw [BasicCol [] (s "id"); BasicCol [] (s "name")]
                             [VMem (ma "Person" "id"); VLit lit]] /\
    bind_types ex_env [Bypass (s "INSERT INTO t ");
                    BasicIns raw [BasicCol [] (s "id"); BasicCol [] (s "name")]
                             [VMem (ma "Person" "id"); VLit lit]] [Some 2] = BOk tbe /\
    bind_inputs ex_env tbe [AVal 2 (person 1 10)] = BOk pq /\
    pq_toks pq = [TText (s "INSERT INTO t ")] ++
                 write_insert [s "id"; s "name"] [[TParam 0; TText lit]].
Proof.
  eexists. eexists. eexists. split; [vm_compute; reflexivity|].
  split; [vm_compute; reflexivity|]. split; vm_compute; reflexivity.
Qed.
