(* C19 — Parse errors report an in-range, translation-invariant line and
   column.  Property theorems only; proofs are in Proofs/ParserPos.v,
   Proofs/ParserNoFuel.v and Proofs/ParserShift.v. *)
From SQLair.Base Require Import Bytes.
From SQLair.Model Require Import Parser.
From SQLair.Proofs Require Import ParserPos ParserNoFuel ParserPositioned ParserShift.

(* Every parse error names a position: no error comes out of [parse] without a
   line and a column (true since fix F15; before it the error for an asterisk
   input among INSERT literals had none).  For every byte string. *)
Theorem C19_every_error_positioned :
  forall (inp : str) (e : perr), parse inp = Err e -> positioned e = true.
Proof. exact parse_error_positioned. Qed.
Print Assumptions C19_every_error_positioned.

(* In range: the line of a positioned error is a line of the query
   (lines as in strings.Split(query, "\n")) and its column is a column of that
   line or the position just behind its last byte.  For every byte string. *)
Theorem C19_in_range :
  forall (inp : str) (e : perr),
    parse inp = Err e -> positioned e = true ->
    1 <= ecol e /\ 1 <= eline e /\ eline e <= nlines inp /\
    ecol e <= length (nth (eline e - 1) (lines_of inp) []) + 1.
Proof. exact parse_error_in_range. Qed.
Print Assumptions C19_in_range.

(* ... so, without the side condition: every error of every rejected query. *)
Theorem C19_every_error_in_range :
  forall (inp : str) (e : perr),
    parse inp = Err e ->
    1 <= ecol e /\ 1 <= eline e /\ eline e <= nlines inp /\
    ecol e <= length (nth (eline e - 1) (lines_of inp) []) + 1.
Proof.
  intros inp e H. exact (parse_error_in_range inp e H (parse_error_positioned inp e H)).
Qed.
Print Assumptions C19_every_error_in_range.

(* ... and the shifted error is the same error k lines further down (every
   error is positioned, so [shift_err] always moves the line). *)
Theorem C19_shift_every_error :
  forall (inp : str) (k : nat) (e : perr),
    parse inp = Err e ->
    parse (repeat 10%N k ++ inp) =
      Err {| eline := eline e + k; ecol := ecol e; ekind_of := ekind_of e;
             epayload := epayload e; positioned := true |}.
Proof.
  intros inp k e H. rewrite (parse_shift_err inp k e H).
  pose proof (parse_error_positioned inp e H) as P.
  destruct e as [l c kd pl ps]. cbn in P. subst ps.
  destruct (shift_err_spec k l c kd pl) as [E _]. rewrite E. reflexivity.
Qed.
Print Assumptions C19_shift_every_error.

(* Translation invariance, errors: k newlines in front of a rejected query
   move the reported line k lines down; kind, payload and column are the same
   (see C19_shift_err_spec for [shift_err]).  For every byte string and k. *)
Theorem C19_shift_error :
  forall (inp : str) (k : nat) (e : perr),
    parse inp = Err e -> parse (repeat 10%N k ++ inp) = Err (shift_err k e).
Proof. exact parse_shift_err. Qed.
Print Assumptions C19_shift_error.

(* The model-only error kind [EFuel] ("the Go loop would not terminate") never
   comes out of [parse]: the fuel of the model is sufficient. *)
Theorem C19_no_fuel_error :
  forall (inp : str) (e : perr), parse inp = Err e -> ekind_of e <> EFuel.
Proof. exact parse_no_fuel. Qed.
Print Assumptions C19_no_fuel_error.

(* Translation invariance, acceptance: an accepted query stays accepted and
   its expressions are the same. *)
Theorem C19_shift_accept :
  forall (inp : str) (k : nat) (segs : list expr),
    parse inp = Ok segs ->
    exists segs', parse (repeat 10%N k ++ inp) = Ok segs' /\
      filter (fun s => negb (is_bypass s)) segs' = filter (fun s => negb (is_bypass s)) segs.
Proof. exact parse_shift_ok. Qed.
Print Assumptions C19_shift_accept.

(* [shift_err k] adds k to the line of a positioned error and does nothing else. *)
Theorem C19_shift_err_spec :
  forall (k l c : nat) (kd : ekind) (p : str),
    shift_err k {| eline := l; ecol := c; ekind_of := kd; epayload := p; positioned := true |} =
      {| eline := l + k; ecol := c; ekind_of := kd; epayload := p; positioned := true |} /\
    shift_err k {| eline := l; ecol := c; ekind_of := kd; epayload := p; positioned := false |} =
      {| eline := l; ecol := c; ekind_of := kd; epayload := p; positioned := false |}.
Proof. exact shift_err_spec. Qed.
Print Assumptions C19_shift_err_spec.

(* Non-vacuity: "(a,b) AS\n&M.x" is rejected with a positioned error on line 2
   (of 2), column 1 (line 2 has 4 bytes). *)
Example C19_applies :
  let inp := [40; 97; 44; 98; 41; 32; 65; 83; 10; 38; 77; 46; 120]%N in
  (parse inp, nlines inp, length (nth 1 (lines_of inp) [])) =
  (Err {| eline := 2; ecol := 1; ekind_of := EMissingParensAS; epayload := [];
          positioned := true |}, 2, 4).
Proof. vm_compute. reflexivity. Qed.

(* ... and with three newlines in front the same error is reported on line 5. *)
Example C19_shift_applies :
  parse (repeat 10%N 3 ++ [40; 97; 44; 98; 41; 32; 65; 83; 10; 38; 77; 46; 120]%N) =
  Err {| eline := 5; ecol := 1; ekind_of := EMissingParensAS; epayload := []; positioned := true |}.
Proof. vm_compute. reflexivity. Qed.
