(* C10 — A prepared statement is never closed underneath a user that still
   holds it.  Property theorems only; proofs are in Proofs/CacheProofs.v.
   PARTIAL: the theorem is about the reachability specification of Go's
   garbage collector written into Model/Cache.v (a finalizer runs only when no
   user handle, no Query closure, no frame of a running call and no Iterator
   references the object); Go's actual liveness analysis and finalizer timing
   are runtime behaviour the model cannot exhibit. *)
From SQLair.Base Require Import Bytes.
From SQLair.Model Require Import Cache.
From SQLair.Proofs Require Import CacheProofs.

(* No closed driver statement is ever executed: in every history, with
   garbage-collection steps, reference drops and evictions by concurrent calls
   at any position, every execution event used a statement that was open. *)
Theorem C10_no_closed_exec :
  forall ops t ds ctx tx closed,
    In (EvExec t ds ctx tx closed) (w_log (run w0 ops)) -> closed = false.
Proof. intros ops t ds ctx tx closed H. apply (exec_coherent ops t ds ctx tx closed H). Qed.
Print Assumptions C10_no_closed_exec.

(* The statement a running call holds (looked up, prepared or stored, not yet
   executed) is open in every reachable state. *)
Theorem C10_held_statement_open :
  forall ops t ds, t < length (w_threads (run w0 ops)) -> active (run w0 ops) t ds ->
    ds_closes (hget (run w0 ops) ds) = 0.
Proof. intros ops t ds Ht A. destruct (inv_reachable ops). eauto. Qed.
Print Assumptions C10_held_statement_open.

(* non-vacuity: the Statement and DB handles are dropped and collected while
   an Iterator is still open (the Query object dropped too): nothing is closed
   before the statement has been executed *)
Example C10_applies :
  let ops := [NewStmt; NewDB; Begin 0 0 7 false 0; DropStmt 0; DropDB 0; GCStmt 0; GCDB 0;
              Prepare 0 true; Store 0; GCStmt 0; Exec 0; DropQuery 0; GCStmt 0] in
  w_log (run w0 ops) = [EvPrepare 0 0 7 0 0; EvExec 0 0 0 false false; EvClose 0].
Proof. vm_compute. reflexivity. Qed.
