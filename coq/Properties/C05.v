(* C05 — Output expressions expand to exactly the designated, uniquely aliased
   columns.  Property theorems only; proofs are in Proofs/. *)
From SQLair.Base Require Import Bytes.
From SQLair.Model Require Import GenConsts Reflect TypeInfo Bind.
From SQLair.Proofs Require Import BindFacts.

(* The alias generated for output number n identifies n (markerIndex is a left
   inverse of markerName), so aliases of distinct outputs are distinct. *)
Theorem C05_alias_identifies : forall n, marker_index (marker_name n) = Some n.
Proof. exact marker_roundtrip. Qed.
Print Assumptions C05_alias_identifies.

Theorem C05_alias_unique : forall a b, marker_name a = marker_name b -> a = b.
Proof. exact marker_name_inj. Qed.
Print Assumptions C05_alias_unique.

Example C05_alias_applies : marker_index (marker_name 12) = Some 12.
Proof. vm_compute. reflexivity. Qed.
