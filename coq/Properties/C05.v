(* C05 — Output expressions expand to exactly the designated, uniquely aliased
   columns.  Property theorems only; proofs are in Proofs/. *)
From Coq Require Import Permutation Sorted.
From SQLair.Base Require Import Bytes.
From SQLair.Model Require Import GenConsts Reflect TypeInfo Parser Bind.
From SQLair.Proofs Require Import BindFacts InsertProofs BindInputsProofs SortFacts
  StructFieldsProofs BindTypesFacts ExampleData.

(* The alias generated for output number n identifies n (markerIndex is a left
   inverse of markerName) for every n a Go int can hold (max_int = 2^63-1: the
   output counter is an int, and strconv.Atoi reports a range error beyond it),
   so aliases of distinct outputs are distinct. *)
Theorem C05_alias_identifies : forall n,
  (N.of_nat n <= max_int)%N -> marker_index (marker_name n) = Some n.
Proof. exact marker_roundtrip. Qed.
Print Assumptions C05_alias_identifies.

(* beyond it the name is not an alias at all: a result column with such a name
   is a foreign column (and can never index the outputs) *)
Theorem C05_alias_range : forall n,
  (max_int < N.of_nat n)%N -> marker_index (marker_name n) = None.
Proof. exact marker_overflow. Qed.
Print Assumptions C05_alias_range.

Theorem C05_alias_unique : forall a b, marker_name a = marker_name b -> a = b.
Proof. exact marker_name_inj. Qed.
Print Assumptions C05_alias_unique.

Example C05_alias_applies : marker_index (marker_name 12) = Some 12.
Proof. vm_compute. reflexivity. Qed.

(* (a) An output expression writes exactly its columns, comma separated, each
   aliased with the next free output number, and appends its locators to the
   outputs; nothing else changes. *)
Theorem C05_write_output :
  forall env m q ocs q',
    add_to_query env m q (TOutput ocs) = BOk q' ->
    q_sql q' = q_sql q ++
      comma_list (map (fun '(i, c) => [TOut c (q_outputCount q + i)])
                      (combine (seq 0 (length ocs)) (map fst ocs))) /\
    q_outputCount q' = q_outputCount q + length ocs /\
    q_outputs q' = q_outputs q ++ map snd ocs /\
    q_named q' = q_named q /\ q_inputCount q' = q_inputCount q /\ q_argUsed q' = q_argUsed q.
Proof. exact add_output_spec. Qed.
Print Assumptions C05_write_output.

(* Globally: the output columns of the SQL are exactly the columns of the
   output expressions in textual order; their aliases are 0 .. k-1, each once,
   in textual order; alias n belongs to the n-th output locator. *)
Theorem C05_aliases :
  forall env tbe args pq,
    bind_inputs env tbe args = BOk pq ->
    pq_outputs pq = map snd (out_cols tbe) /\
    outs (pq_toks pq) = combine (map fst (out_cols tbe)) (seq 0 (length (pq_outputs pq))) /\
    map snd (outs (pq_toks pq)) = seq 0 (length (pq_outputs pq)) /\
    map fst (outs (pq_toks pq)) = map fst (out_cols tbe).
Proof. exact bind_inputs_outputs. Qed.
Print Assumptions C05_aliases.

Example C05_aliases_applies :
  exists pq, bind_inputs ex_env ex_query ex_args = BOk pq /\
    outs (pq_toks pq) = [(s_id, 0); (s_name, 1)] /\
    pq_outputs pq = [LField (ex_fld s_id); LField (ex_fld s_name)].
Proof. eexists. split; [vm_compute; reflexivity|]. split; vm_compute; reflexivity. Qed.

(* (b) sort.Strings: a sorted permutation w.r.t. the byte-lexicographic order,
   which is a total order *)
Theorem C05_sorted :
  forall l, Permutation l (sort_strs l) /\ StronglySorted str_le (sort_strs l) /\
            Sorted str_le (sort_strs l).
Proof.
  intros l. exact (conj (sort_strs_perm l) (conj (sort_strs_sorted l) (sort_strs_locally_sorted l))).
Qed.
Print Assumptions C05_sorted.

Theorem C05_order_total :
  (forall a, str_leb a a = true) /\
  (forall a b, str_leb a b = true \/ str_leb b a = true) /\
  (forall a b c, str_leb a b = true -> str_leb b c = true -> str_leb a c = true) /\
  (forall a b, str_leb a b = true -> str_leb b a = true -> a = b).
Proof. exact (conj str_leb_refl (conj str_leb_total (conj str_leb_trans str_leb_antisym))). Qed.
Print Assumptions C05_order_total.

(* &T.* / $T.*: exactly one member per db tag, in that order, each the field
   carrying the tag; every field exactly once *)
Theorem C05_all_members :
  forall t fields,
    has_dup_tag [] fields = false -> fields <> [] ->
    exists ms,
      get_all_struct_members (StructInfo t (sort_strs (map sf_tag fields)) fields) = BOk ms /\
      map fst ms = sort_strs (map sf_tag fields) /\
      Forall (fun '(tag, l) => exists f, l = LField f /\ In f fields /\ sf_tag f = tag) ms /\
      Permutation (map snd ms) (map LField fields).
Proof. exact all_members. Qed.
Print Assumptions C05_all_members.

Example C05_sorted_applies :
  sort_strs (map sf_tag ex_fields) = [s_id; s_name; s_street; s_z] /\
  has_dup_tag [] ex_fields = false /\ ex_fields <> [].
Proof. split; [vm_compute; reflexivity|]. split; [vm_compute; reflexivity|]. vm_compute. discriminate. Qed.

(* (c) a query has outputs iff some output expression has a column *)
Theorem C05_has_outputs :
  forall env tbe args pq,
    bind_inputs env tbe args = BOk pq ->
    (has_outputs pq = true <-> exists ocs, In (TOutput ocs) tbe /\ ocs <> []).
Proof. exact bind_inputs_has_outputs. Qed.
Print Assumptions C05_has_outputs.

Example C05_has_outputs_applies :
  exists pq, bind_inputs ex_env ex_query ex_args = BOk pq /\ has_outputs pq = true.
Proof. eexists. split; vm_compute; reflexivity. Qed.

(* (d) No wildcard survives in the generated columns: every column written for
   an output expression is free of a trailing '*', i.e. it is not "*" and does
   not end in ".*".  The star forms are expanded to db tags, and parseTag
   accepts no tag ending in '*' (a quoted tag such as "*" keeps its quotes). *)
Theorem C05_no_wildcard :
  forall env b raw cols targets b',
    wf_infos (b_infos b) ->
    Forall (fun c => columnName c = star \/ no_star_end (columnName c)) cols ->
    Forall (fun t => mname t = star \/ no_star_end (mname t)) targets ->
    bind_expr env b (Output raw cols targets) = BOk b' ->
    exists ocs, b_infos b' = b_infos b /\ b_exprs b' = b_exprs b ++ [TOutput ocs] /\
                Forall clean_oc ocs.
Proof. exact output_no_wildcard. Qed.
Print Assumptions C05_no_wildcard.

Theorem C05_no_star_end_means :
  forall s, no_star_end s -> s <> [42%N] /\ forall p, s <> p ++ [46%N; 42%N].
Proof. exact no_star_end_spec. Qed.
Print Assumptions C05_no_star_end_means.

Theorem C05_tag_never_star :
  forall raw name omit, parse_tag raw = BOk (name, omit) -> no_star_end name.
Proof. exact parse_tag_last. Qed.
Print Assumptions C05_tag_never_star.

(* "p.* AS &Person.*" *)
Example C05_no_wildcard_applies :
  exists infos b',
    generate_arg_info ex_env [Some 0] [] = BOk infos /\
    bind_expr ex_env {| b_infos := infos; b_used := []; b_outused := []; b_exprs := [] |}
      (Output [] [BasicCol [112%N] star] [{| tname := [80%N]; mname := star |}]) = BOk b' /\
    map (fun e => match e with TOutput ocs => map fst ocs | _ => [] end) (b_exprs b') =
      [[[112; 46; 105; 100]; [112; 46; 110; 97; 109; 101]; [112; 46; 115; 116]; [112; 46; 122]]]%N.
Proof. eexists. eexists. split; [vm_compute; reflexivity|]. split; vm_compute; reflexivity. Qed.

(* (d, continued) The name hypotheses of C05_no_wildcard hold for everything
   the parser produces.  '*' is not a name character; an identifier is a run of
   name characters or a quoted literal (which ends with its quote), so it never
   ends in '*'; parseIdentifierAsterisk returns "*" or an identifier; a
   function-call column ends with ')'. *)
From SQLair.Proofs Require Import ParserNames.

Theorem C05_star_not_name_char : isNameChar 42 = false.
Proof. exact star_not_namechar. Qed.
Print Assumptions C05_star_not_name_char.

Theorem C05_identifier_no_star :
  forall st st' id, parseIdentifier st = (st', Ok id) -> no_star_end id.
Proof. exact parseIdentifier_name. Qed.
Print Assumptions C05_identifier_no_star.

Theorem C05_identifier_asterisk :
  forall st st' id, parseIdentifierAsterisk st = (st', Ok id) -> id = star \/ no_star_end id.
Proof. exact parseIdentifierAsterisk_name. Qed.
Print Assumptions C05_identifier_asterisk.

Theorem C05_parser_names_no_star :
  forall inp segs,
    parse inp = Ok segs ->
    forall raw cols targets, In (Output raw cols targets) segs ->
      Forall (fun c => columnName c = star \/ no_star_end (columnName c)) cols /\
      Forall (fun t => mname t = star \/ no_star_end (mname t)) targets.
Proof. exact parser_names_no_star. Qed.
Print Assumptions C05_parser_names_no_star.

(* End to end: in a query that was parsed and prepared, no typed output
   expression has a column that is "*" or ends in '*'. *)
Theorem C05_no_wildcard_parsed :
  forall env inp segs samples tbe,
    parse inp = Ok segs ->
    bind_types env segs samples = BOk tbe ->
    forall ocs, In (TOutput ocs) tbe -> Forall clean_oc ocs.
Proof. exact no_wildcard_parsed. Qed.
Print Assumptions C05_no_wildcard_parsed.

(* "SELECT p.* AS &P.*, count(*) AS &M.n, t."a*" AS &M.q FROM t": the three
   output expressions are accepted; the columns written are the db tags of P,
   the function call, and the quoted name. *)
Example C05_no_wildcard_parsed_applies :
  let inp := [83; 69; 76; 69; 67; 84; 32; 112; 46; 42; 32; 65; 83; 32; 38; 80; 46; 42; 44; 32;
              99; 111; 117; 110; 116; 40; 42; 41; 32; 65; 83; 32; 38; 77; 46; 110; 44; 32;
              116; 46; 34; 97; 42; 34; 32; 65; 83; 32; 38; 77; 46; 113; 32; 70; 82; 79; 77; 32;
              116]%N in
  exists segs tbe,
    parse inp = Ok segs /\ bind_types ex_env segs [Some 0; Some 4] = BOk tbe /\
    map (fun e => match e with Output _ cols _ => map columnName cols | _ => [] end) segs =
      [[]; [star]; []; [[99; 111; 117; 110; 116; 40; 42; 41]]; []; [[34; 97; 42; 34]]; []]%N /\
    map (fun e => match e with TOutput ocs => map fst ocs | _ => [] end) tbe =
      [[]; [[112; 46; 105; 100]; [112; 46; 110; 97; 109; 101]; [112; 46; 115; 116]; [112; 46; 122]];
       []; [[99; 111; 117; 110; 116; 40; 42; 41]]; []; [[116; 46; 34; 97; 42; 34]]; []]%N.
Proof.
  eexists. eexists. split; [vm_compute; reflexivity|]. split; [vm_compute; reflexivity|].
  split; vm_compute; reflexivity.
Qed.

(* ------------------------------------------------------------------------
   The column texts.  Proofs in Proofs/OutputColumns.v. *)
Set Warnings "-comment-terminator-in-string".
(* The next comment resynchronises coqdep: unlike coqc it does not see that the
   parenthesised star in the comment of the last example is inside a string,
   and would otherwise miss the Require below.  "*)" *)
Set Warnings "comment-terminator-in-string".
From SQLair.Proofs Require Import OutputColumns.

(* "tbl.* AS &T.*" and "tbl.* AS (&T.*, &M.k, ...)": the generated columns
   are, for the targets in order, the db tags of T in byte-lexicographic order
   (for &T.* ) or the member (for &M.k), each prefixed with "tbl."; for the
   bare "* AS ..." (tbl empty) they are the tags / members themselves.
   [source_columns infos t] is the sorted tag list of the struct for t = T.*
   and [mname t] otherwise (Proofs/BindTypesFacts.v). *)
Theorem C05_table_prefix :
  forall env b raw tbl targets b',
    wf_infos (b_infos b) ->
    bind_expr env b (Output raw [BasicCol tbl star] targets) = BOk b' ->
    exists ocs, b_infos b' = b_infos b /\ b_exprs b' = b_exprs b ++ [TOutput ocs] /\
      let names := flat_map (source_columns (b_infos b)) targets in
      map fst ocs = map (new_output_column tbl) names /\
      (tbl <> [] -> map fst ocs = map (fun name => tbl ++ [46%N] ++ name) names) /\
      (tbl = [] -> map fst ocs = names).
Proof.
  intros env b raw tbl targets b' W H.
  destruct (output_star_form _ _ _ _ _ _ W (or_intror (ex_intro _ tbl eq_refl)) H) as [ocs [E1 [E2 M]]].
  exists ocs. split; [exact E1|]. split; [exact E2|]. cbn [tableName] in M. cbv zeta.
  split; [exact M|]. split.
  - intros NE. rewrite M. apply map_ext. intros name. apply new_output_column_prefixed. exact NE.
  - intros ->. rewrite M. rewrite <- (map_id (flat_map _ targets)) at 2. apply map_ext. reflexivity.
Qed.
Print Assumptions C05_table_prefix.

(* the same for the form without columns, "&T.*" / "&M.k": bare names *)
Theorem C05_no_columns_bare :
  forall env b raw targets b',
    wf_infos (b_infos b) ->
    bind_expr env b (Output raw [] targets) = BOk b' ->
    exists ocs, b_infos b' = b_infos b /\ b_exprs b' = b_exprs b ++ [TOutput ocs] /\
      map fst ocs = flat_map (source_columns (b_infos b)) targets.
Proof.
  intros env b raw targets b' W H.
  destruct (output_star_form _ _ _ _ _ _ W (or_introl eq_refl) H) as [ocs [E1 [E2 M]]].
  exists ocs. split; [exact E1|]. split; [exact E2|]. rewrite M.
  rewrite <- (map_id (flat_map _ targets)) at 2. apply map_ext. reflexivity.
Qed.
Print Assumptions C05_no_columns_bare.

(* The column as written: "t.c" for a qualified column, "c" for a bare one,
   the source text for a function call ... *)
Theorem C05_column_as_written :
  forall c, new_output_column (tableName c) (columnName c) = columnString c.
Proof. exact new_output_column_string. Qed.
Print Assumptions C05_column_as_written.

Theorem C05_column_string_cases :
  (forall t c, t <> [] -> columnString (BasicCol t c) = t ++ [46%N] ++ c) /\
  (forall c, columnString (BasicCol [] c) = c) /\
  (forall raw, columnString (FuncCol raw) = raw).
Proof.
  split; [|split]; try reflexivity. intros t c NE. destruct t; [congruence|reflexivity].
Qed.
Print Assumptions C05_column_string_cases.

(* ... and in the forms with explicit columns, "(c1, c2) AS (&T.* )" and the
   pairwise "(c1, c2) AS (&T.a, &M.b)" / "c AS &T.a" (at least one column, no
   star column), the generated columns are exactly the columns as written, in
   order. *)
Theorem C05_explicit_columns_verbatim :
  forall env b raw cols targets b',
    cols <> [] -> starCountColumns cols = 0 ->
    bind_expr env b (Output raw cols targets) = BOk b' ->
    exists ocs, b_infos b' = b_infos b /\ b_exprs b' = b_exprs b ++ [TOutput ocs] /\
      map fst ocs = map columnString cols.
Proof. exact explicit_columns. Qed.
Print Assumptions C05_explicit_columns_verbatim.

(* every accepted output expression is of one of the three kinds above *)
Theorem C05_output_forms :
  forall env b raw cols targets b',
    bind_expr env b (Output raw cols targets) = BOk b' ->
    cols = [] \/ (exists c, cols = [c] /\ columnName c = star) \/
    (cols <> [] /\ starCountColumns cols = 0).
Proof. exact output_star_count. Qed.
Print Assumptions C05_output_forms.

(* (p.id, max(z)) AS (&P.id, &M.k) : the columns as written *)
Example C05_explicit_columns_applies :
  exists infos b',
    generate_arg_info ex_env [Some 0; Some 4] [] = BOk infos /\
    bind_expr ex_env {| b_infos := infos; b_used := []; b_outused := []; b_exprs := [] |}
      (Output [] [BasicCol [112%N] s_id; FuncCol [109; 97; 120; 40; 122; 41]%N]
                 [{| tname := [80%N]; mname := s_id |}; {| tname := [77%N]; mname := s_k |}]) = BOk b' /\
    map (fun e => match e with TOutput ocs => map fst ocs | _ => [] end) (b_exprs b') =
      [[[112; 46; 105; 100]; [109; 97; 120; 40; 122; 41]]]%N.
Proof. eexists. eexists. split; [vm_compute; reflexivity|]. split; vm_compute; reflexivity. Qed.

(* "p.* AS (&P.*, &M.k)": prefix on every generated column, tags sorted *)
Example C05_table_prefix_applies :
  exists infos b',
    generate_arg_info ex_env [Some 0; Some 4] [] = BOk infos /\
    flat_map (source_columns infos) [{| tname := [80%N]; mname := star |}; {| tname := [77%N]; mname := s_k |}] =
      [s_id; s_name; s_street; s_z; s_k] /\
    bind_expr ex_env {| b_infos := infos; b_used := []; b_outused := []; b_exprs := [] |}
      (Output [] [BasicCol [112%N] star]
                 [{| tname := [80%N]; mname := star |}; {| tname := [77%N]; mname := s_k |}]) = BOk b' /\
    map (fun e => match e with TOutput ocs => map fst ocs | _ => [] end) (b_exprs b') =
      [[[112; 46; 105; 100]; [112; 46; 110; 97; 109; 101]; [112; 46; 115; 116]; [112; 46; 122];
        [112; 46; 107]]]%N.
Proof.
  eexists. eexists. split; [vm_compute; reflexivity|]. split; [vm_compute; reflexivity|].
  split; vm_compute; reflexivity.
Qed.
