(* C17 — Insert-select round trip against a SQL engine preserves values.
   Rows written with SQLair insert expressions (single, bulk, omitempty) and
   read back with SQLair output expressions through a database come back equal
   to what was inserted, for all supported field kinds.

   The database is the miniature engine of Model/MiniSql.v (a table is a list
   of rows, a row maps column names to driver values, a column an INSERT does
   not mention is NULL) together with [to_cell], what database/sql hands to
   the driver for a parameter value.  That SQLite accepts the generated text
   is checked by running it (harness); this file is the model-level theorem.
   Property theorems only; proofs are in Proofs/. *)
From Coq Require Import String.
From SQLair.Base Require Import Bytes Sexp.
From SQLair.Model Require Import GenConsts Reflect TypeInfo Parser Bind Scan MiniSql.
From SQLair.Proofs Require Import BindFacts InsertView PathFacts RoundTrip RoundTripMain
  StructFields C17Proofs C17Refine.

(* One field.  The driver value of a well-formed value of a storable type
   (a scalar kind, bool, a sql.Scanner leaf, or a pointer to one of these) --
   or NULL when the column was omitted, which happens only for zero values --
   is scanned back to exactly that value. *)
Theorem C17_field_value_roundtrip :
  forall env ft fv (om : bool),
    storable env ft = true -> fits env ft fv = true -> (om = true -> is_zero fv = true) ->
    exists c, to_cell fv = Some c /\ scan_value env ft (if om then CNull else c) = Some fv.
Proof. exact field_value_roundtrip. Qed.
Print Assumptions C17_field_value_roundtrip.

(* In the round-trip theorems the number of columns of the type fits a Go int
   ([max_int] = 2^63-1: the aliases _sqlair_<n> are read back with
   strconv.Atoi, which rejects larger numbers; no Go struct type has that many
   fields).

   Single insert.  [ms] is what `$T.*` / `&T.*` expand to (the tagged fields
   in sorted tag order); [star_insert ms] are the typed columns of
   `(*) VALUES ($T.*)`.  Binding the value v gives columns = the tags whose
   field is not (omitempty and zero), one tuple of driver values; inserting it
   into the empty table, selecting the tags and scanning the row under the
   aliases _sqlair_0.. into a destination holding ANY v0 (of which only the
   embedded pointers on the paths must be allocated) succeeds, and every
   tagged field of the result holds what was inserted. *)
Theorem C17_roundtrip_single :
  forall env t pt tags fields ms v v0 cnt used,
    get_arg_info env t = BOk (StructInfo t tags fields) ->
    get_all_struct_members (StructInfo t tags fields) = BOk ms ->
    (N.of_nat (length ms) <= max_int)%N ->
    t_kind (tget env pt) = KPtr -> t_elem (tget env pt) = t ->
    (forall f, In f fields -> field_ok env t v f) ->
    (forall f, In f fields -> field_by_index v0 (sf_index f) <> None) ->
    exists bcs cnt' used' tuple cells v',
      bind_cols env [(t, v)] cnt used (star_insert ms) false 1 [] = BOk (bcs, cnt', used', 1) /\
      insert_columns bcs =
        map sf_tag (filter (fun f => negb (is_zero (fval v f) && sf_omit f)) (tag_fields tags fields)) /\
      opt_all (opt_all to_cell) (insert_tuples bcs 1) = Some [tuple] /\
      mini_select (map fst ms) (mini_insert (insert_columns bcs) [tuple] []) = [cells] /\
      scan_row env (map snd ms) (map marker_name (seq 0 (length ms))) cells [AVal pt (VPtr v0)]
        = (Some [(t, v')], None) /\
      forall f, In f fields -> field_by_index v' (sf_index f) = field_by_index v (sf_index f).
Proof. exact roundtrip_single. Qed.
Print Assumptions C17_roundtrip_single.

(* Bulk insert of a slice ([]T or []*T, [bulk_slice_type]) of k struct values
   by one statement (an omitempty column is dropped iff the field is zero in
   every element; [no_mix]: it is zero in all or in none -- a mix is rejected
   by sqlair, see C17_example_mix_rejected), read back row by row: row i gives
   back element i, in order. *)
Theorem C17_roundtrip_bulk :
  forall env t st pt tags fields ms nl vs cnt used,
    get_arg_info env t = BOk (StructInfo t tags fields) ->
    get_all_struct_members (StructInfo t tags fields) = BOk ms ->
    (N.of_nat (length ms) <= max_int)%N ->
    t_kind (tget env pt) = KPtr -> t_elem (tget env pt) = t ->
    bulk_slice_type env t st ->
    vs <> [] -> Forall is_struct_val vs ->
    (forall e f, In e vs -> In f fields -> field_ok env t e f) ->
    (forall f, In f fields -> no_mix vs f) ->
    exists bcs cnt' used' tuples rows,
      bind_cols env [(st, VSlice nl vs)] cnt used (star_insert ms) false 1 []
        = BOk (bcs, cnt', used', length vs) /\
      insert_columns bcs =
        map sf_tag (filter (fun f => negb (om_bulk vs f)) (tag_fields tags fields)) /\
      opt_all (opt_all to_cell) (insert_tuples bcs (length vs)) = Some tuples /\
      mini_select (map fst ms) (mini_insert (insert_columns bcs) tuples []) = rows /\
      length rows = length vs /\
      forall i e cells v0,
        nth_error vs i = Some e -> nth_error rows i = Some cells ->
        (forall f, In f fields -> field_by_index v0 (sf_index f) <> None) ->
        exists v',
          scan_row env (map snd ms) (map marker_name (seq 0 (length ms))) cells [AVal pt (VPtr v0)]
            = (Some [(t, v')], None) /\
          forall f, In f fields -> field_by_index v' (sf_index f) = field_by_index e (sf_index f).
Proof. exact roundtrip_bulk. Qed.
Print Assumptions C17_roundtrip_bulk.

(* ... and a mix is rejected: if some omitempty field is zero in one element
   and non-zero in another, binding the slice fails with EMixZero. *)
Theorem C17_bulk_mix_rejected :
  forall env t st tags fields ms nl vs cnt used,
    get_arg_info env t = BOk (StructInfo t tags fields) ->
    get_all_struct_members (StructInfo t tags fields) = BOk ms ->
    bulk_slice_type env t st ->
    vs <> [] -> Forall is_struct_val vs ->
    (forall e f, In e vs -> In f fields -> field_by_index e (sf_index f) <> None) ->
    (exists f, In f fields /\ mixedb vs f = true) ->
    bind_cols env [(st, VSlice nl vs)] cnt used (star_insert ms) false 1 [] = BErr EMixZero.
Proof. exact bulk_mix_rejected. Qed.
Print Assumptions C17_bulk_mix_rejected.

(* The structured view is what the token-level model of addToQuery
   generates: writeInsert(columns, rows) with row r, column c the placeholder
   (or literal) of the c-th non-omitted column, and the named arguments
   [insert_named] appended in row-major order. *)
Theorem C17_insert_refinement :
  forall env m q cols q',
    add_to_query env m q (TInsert cols) = BOk q' ->
    exists bcs cnt used numRows,
      bind_cols env m (q_inputCount q) (q_argUsed q) cols false 1 [] = BOk (bcs, cnt, used, numRows) /\
      q_sql q' = q_sql q ++ write_insert (insert_columns bcs) (insert_toks bcs numRows) /\
      q_named q' = q_named q ++ insert_named bcs numRows /\
      q_inputCount q' = cnt /\ q_argUsed q' = used /\
      q_outputs q' = q_outputs q /\ q_outputCount q' = q_outputCount q.
Proof. exact add_to_query_insert. Qed.
Print Assumptions C17_insert_refinement.

(* ... and the placeholders are bound to the values of the view: in the named
   arguments after the expression, the placeholder of row r / column bc is the
   value [bc_value bc r] (= entry of [insert_tuples]).  [fresh_from]: no
   argument numbered inputCount or more has been named yet; it holds initially
   and is preserved by every expression (C17_bind_inputs_fresh). *)
Theorem C17_insert_refinement_values :
  forall env m q cols q',
    add_to_query env m q (TInsert cols) = BOk q' ->
    fresh_from (q_inputCount q) (q_named q) ->
    exists bcs cnt used numRows,
      bind_cols env m (q_inputCount q) (q_argUsed q) cols false 1 [] = BOk (bcs, cnt, used, numRows) /\
      q_sql q' = q_sql q ++ write_insert (insert_columns bcs) (insert_toks bcs numRows) /\
      (forall r bc, r < numRows -> In bc (live bcs) -> bc_vals bc <> [] ->
         tok_value (q_named q') (ph bc r) = Some (bc_value bc r)) /\
      fresh_from (q_inputCount q') (q_named q').
Proof. exact add_to_query_insert_values. Qed.
Print Assumptions C17_insert_refinement_values.

Theorem C17_bind_inputs_fresh :
  forall env m es q',
    add_all env m qb_init es = BOk q' -> fresh_from (q_inputCount q') (q_named q').
Proof. intros env m es q' H. exact (add_all_fresh env m es qb_init q' H qb_init_fresh). Qed.
Print Assumptions C17_bind_inputs_fresh.

(* The generated INSERT (columns, rows of placeholders, named arguments) and
   the hand-written `INSERT INTO t (cols) VALUES (?, ..), ..` with the same
   values as arguments denote the same insert (columns and tuples of driver
   values), provided no column is a literal. *)
Theorem C17_equiv_handwritten :
  forall env m q cols q',
    add_to_query env m q (TInsert cols) = BOk q' ->
    fresh_from (q_inputCount q) (q_named q) ->
    exists bcs cnt used numRows,
      bind_cols env m (q_inputCount q) (q_argUsed q) cols false 1 [] = BOk (bcs, cnt, used, numRows) /\
      q_sql q' = q_sql q ++ write_insert (insert_columns bcs) (insert_toks bcs numRows) /\
      ((forall bc, In bc (live bcs) -> bc_vals bc <> []) ->
       generated_insert (insert_columns bcs) (insert_toks bcs numRows) (q_named q') =
       handwritten_insert (insert_columns bcs) (insert_tuples bcs numRows)).
Proof. exact equiv_handwritten. Qed.
Print Assumptions C17_equiv_handwritten.

(* What the two expressions bind to: `(*) VALUES ($T.*)` to the typed insert
   over the members of T, `&T.*` to the typed output over the same members
   with the tags as columns; the select list of the tokens of an output
   expression pairs the columns with the aliases _sqlair_<n>. *)
Theorem C17_asterisk_expansion :
  forall env b raw T a ms,
    assoc_str T (b_infos b) = Some a -> get_all_struct_members a = BOk ms ->
    exists b1,
      bind_expr env b (AsteriskIns raw [{| tname := T; mname := star |}])
        = BOk (add_expr b1 (TInsert (star_insert ms))) /\
      b_exprs b1 = b_exprs b.
Proof. exact asterisk_expansion. Qed.
Print Assumptions C17_asterisk_expansion.

Theorem C17_output_expansion :
  forall env b raw T a ms b',
    assoc_str T (b_infos b) = Some a -> get_all_struct_members a = BOk ms ->
    bind_expr env b (Output raw [] [{| tname := T; mname := star |}]) = BOk b' ->
    b_exprs b' = b_exprs b ++ [TOutput ms].
Proof. exact output_expansion. Qed.
Print Assumptions C17_output_expansion.

Theorem C17_select_list :
  forall n cols,
    select_list (write_output n cols) = combine cols (map marker_name (seq n (length cols))).
Proof. exact select_list_write_output. Qed.
Print Assumptions C17_select_list.

(* The single round trip stated on the generated statements: the tokens and
   named arguments addToQuery produces for the insert expression (at any
   point of a statement under construction), the select list of the tokens of
   the output expression. *)
Theorem C17_roundtrip_single_statement :
  forall env t pt tags fields ms v v0 q,
    get_arg_info env t = BOk (StructInfo t tags fields) ->
    get_all_struct_members (StructInfo t tags fields) = BOk ms ->
    (N.of_nat (length ms) <= max_int)%N ->
    t_kind (tget env pt) = KPtr -> t_elem (tget env pt) = t ->
    (forall f, In f fields -> field_ok env t v f) ->
    (forall f, In f fields -> field_by_index v0 (sf_index f) <> None) ->
    fresh_from (q_inputCount q) (q_named q) ->
    exists qi cols rows tuple cells v',
      add_to_query env [(t, v)] q (TInsert (star_insert ms)) = BOk qi /\
      q_sql qi = q_sql q ++ write_insert cols rows /\
      generated_insert cols rows (q_named qi) = Some (cols, [tuple]) /\
      (let sl := select_list (write_output 0 (map fst ms)) in
       mini_select (map fst sl) (mini_insert cols [tuple] []) = [cells] /\
       scan_row env (map snd ms) (map snd sl) cells [AVal pt (VPtr v0)] = (Some [(t, v')], None)) /\
      forall f, In f fields -> field_by_index v' (sf_index f) = field_by_index v (sf_index f).
Proof. exact roundtrip_single_statement. Qed.
Print Assumptions C17_roundtrip_single_statement.

(* ------------------------------------------------------------ examples -- *)

(* A concrete round trip, end to end through the model of sqlair: Parser,
   BindTypes, BindInputs, the statement the typed insert expression denotes,
   the engine, ScanArgs / rows.Scan / OnSuccess.  The struct T has a plain
   field, an omitempty field that is zero (omitted, read back as NULL), a
   pointer field that is nil (sent as NULL), an embedded struct, and an
   omitempty pointer to a zero value (not zero: kept).

     type Inner struct { Z int `db:"z"` }
     type T struct { ID int `db:"id"`; Name string `db:"name,omitempty"`; P *int `db:"p"`
                     Inner; Q *int `db:"q, omitempty"` }                                  *)
Definition mk (k : kind) (name : string) (fs : list field) (el : tid) : tdef :=
  {| t_kind := k; t_name := lit name; t_fields := fs; t_elem := el; t_keystr := false; t_scanner := false |}.
Definition fld (name : string) (anon : bool) (tag : string) (t : tid) : field :=
  {| f_name := lit name; f_exported := true; f_anon := anon; f_tag := lit tag; f_type := t |}.

Definition ex_env : tenv :=
  [ mk (KOther (lit "int")) "int" [] 0;
    mk (KOther (lit "string")) "string" [] 0;
    mk KPtr "" [] 0;
    mk KStruct "Inner" [fld "Z" false "z" 0] 0;
    mk KStruct "T" [fld "ID" false "id" 0; fld "Name" false "name,omitempty" 1; fld "P" false "p" 2;
                    fld "Inner" true "" 3; fld "Q" false "q, omitempty" 2] 0;
    mk KPtr "" [] 4;
    mk KSlice "" [] 4;
    mk KSlice "" [] 5 ].
Definition ex_T : tid := 4.
Definition ex_ptrT : tid := 5.
Definition ex_sliceT : tid := 6.
Definition ex_slicePtrT : tid := 7.

Definition ex_v : val := VStruct [VLeaf 7 false; VLeaf 0 true; VNilPtr; VStruct [VLeaf 9 false]; VPtr (VLeaf 0 true)].
Definition ex_v2 : val := VStruct [VLeaf 8 false; VLeaf 0 true; VPtr (VLeaf 5 false); VStruct [VLeaf 0 true]; VPtr (VLeaf 6 false)].
Definition ex_v0 : val := VStruct [VLeaf 1 false; VLeaf 2 false; VPtr (VLeaf 3 false); VStruct [VLeaf 4 false]; VNilPtr].
Definition ex_ins : str := lit "INSERT INTO t (*) VALUES ($T.*)".
Definition ex_sel : str := lit "SELECT &T.* FROM t".

Example C17_example_single :
  run_roundtrip ex_env ex_ins ex_sel [Some ex_T] [AVal ex_T ex_v] [AVal ex_ptrT (VPtr ex_v0)]
  = Some [(Some [(ex_T, ex_v)], None)].
Proof. vm_compute. reflexivity. Qed.

Example C17_example_bulk :
  run_roundtrip ex_env ex_ins ex_sel [Some ex_T] [AVal ex_sliceT (VSlice false [ex_v; ex_v2])]
    [AVal ex_ptrT (VPtr ex_v0); AVal ex_ptrT (VPtr ex_v0)]
  = Some [(Some [(ex_T, ex_v)], None); (Some [(ex_T, ex_v2)], None)].
Proof. vm_compute. reflexivity. Qed.

(* the same with a slice of pointers, []*T *)
Example C17_example_bulk_ptrs :
  run_roundtrip ex_env ex_ins ex_sel [Some ex_T]
    [AVal ex_slicePtrT (VSlice false [VPtr ex_v; VPtr ex_v2])]
    [AVal ex_ptrT (VPtr ex_v0); AVal ex_ptrT (VPtr ex_v0)]
  = Some [(Some [(ex_T, ex_v)], None); (Some [(ex_T, ex_v2)], None)].
Proof. vm_compute. reflexivity. Qed.

(* an omitempty field (q) that is zero in one element and not in the other:
   the bulk insert is rejected *)
Example C17_example_mix_rejected :
  match parse ex_ins with
  | Ok ia =>
      match bind_types ex_env ia [Some ex_T] with
      | BOk te =>
          bind_inputs ex_env te
            [AVal ex_sliceT (VSlice false
               [ex_v; VStruct [VLeaf 8 false; VLeaf 0 true; VNilPtr; VStruct [VLeaf 0 true]; VNilPtr]])]
          = BErr EMixZero
      | _ => False
      end
  | _ => False
  end.
Proof. vm_compute. reflexivity. Qed.

(* Outside the hypotheses the round trip can lose a value: a field of type
   **int holding a pointer to a nil *int is sent as NULL and comes back as a
   nil **int ([storable] excludes pointers to pointers). *)
Example C17_counterexample_ptr_ptr :
  let env := [ mk (KOther (lit "int")) "int" [] 0; mk KPtr "" [] 0; mk KPtr "" [] 1;
               mk KStruct "U" [fld "PP" false "pp" 2] 0; mk KPtr "" [] 3 ] in
  run_roundtrip env (lit "INSERT INTO t (*) VALUES ($U.*)") (lit "SELECT &U.* FROM t") [Some 3]
    [AVal 3 (VStruct [VPtr VNilPtr])] [AVal 4 (VPtr (VStruct [VNilPtr]))]
  = Some [(Some [(3, VStruct [VNilPtr])], None)].
Proof. vm_compute. reflexivity. Qed.

(* the statement BindInputs generates is the structured view, concretely *)
Example C17_example_tokens :
  match parse ex_ins with
  | Ok ia =>
      match bind_types ex_env ia [Some ex_T] with
      | BOk ([_; TInsert cols] as te) =>
          match bind_inputs ex_env te [AVal ex_T ex_v], bind_cols ex_env [(ex_T, ex_v)] 0 [] cols false 1 [] with
          | BOk pq, BOk (bcs, _, _, n) =>
              pq_toks pq = TText (lit "INSERT INTO t ") :: write_insert (insert_columns bcs) (insert_toks bcs n) /\
              insert_columns bcs = [lit "id"; lit "p"; lit "q"; lit "z"] /\
              map (map (tok_value (pq_params pq))) (insert_toks bcs n) = map (map Some) (insert_tuples bcs n) /\
              pq_sql pq = lit "INSERT INTO t (id, p, q, z) VALUES (@sqlair_0, @sqlair_1, @sqlair_2, @sqlair_3)"
          | _, _ => False
          end
      | _ => False
      end
  | _ => False
  end.
Proof. vm_compute. repeat split; reflexivity. Qed.

(* the hypotheses of the theorems hold of this instance: not vacuous *)
Example C17_example_hypotheses :
  exists tags fields ms,
    get_arg_info ex_env ex_T = BOk (StructInfo ex_T tags fields) /\
    get_all_struct_members (StructInfo ex_T tags fields) = BOk ms /\
    t_kind (tget ex_env ex_ptrT) = KPtr /\ t_elem (tget ex_env ex_ptrT) = ex_T /\
    bulk_slice_type ex_env ex_T ex_sliceT /\
    (forall e f, In e [ex_v; ex_v2] -> In f fields -> field_ok ex_env ex_T e f) /\
    (forall f, In f fields -> no_mix [ex_v; ex_v2] f) /\
    (forall f, In f fields -> field_by_index ex_v0 (sf_index f) <> None).
Proof.
  eexists. eexists. eexists.
  split; [vm_compute; reflexivity|]. split; [vm_compute; reflexivity|].
  split; [reflexivity|]. split; [reflexivity|]. split; [left; reflexivity|].
  split; [|split].
  - intros e f He Hf. unfold field_ok.
    repeat (destruct He as [He|He]; [subst e|]); try contradiction;
    repeat (destruct Hf as [Hf|Hf]; [subst f|]); try contradiction;
    (eexists; eexists; split; [vm_compute; reflexivity|]; split; [vm_compute; reflexivity|];
     split; vm_compute; reflexivity).
  - intros f Hf. unfold no_mix. intros O.
    repeat (destruct Hf as [Hf|Hf]; [subst f|]); try contradiction; try discriminate O.
    + left. intros e He. repeat (destruct He as [He|He]; [subst e|]); try contradiction; reflexivity.
    + right. intros e He. repeat (destruct He as [He|He]; [subst e|]); try contradiction; reflexivity.
  - intros f Hf.
    repeat (destruct Hf as [Hf|Hf]; [subst f|]); try contradiction; vm_compute; discriminate.
Qed.
