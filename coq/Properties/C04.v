(* C04 — INSERT expansion is rectangular and row-faithful.
   Property theorems only; proofs are in Proofs/. *)
From Coq Require Import Permutation.
From SQLair.Base Require Import Bytes.
From SQLair.Model Require Import GenConsts Reflect TypeInfo Parser Bind.
From SQLair.Proofs Require Import BindFacts InsertProofs BindInputsProofs SortFacts
  StructFieldsProofs BindTypesFacts ExampleData.

(* (a) Every generated tuple has exactly as many values as there are columns
   in the column list (the non-omitted columns), and there is one tuple per
   row. *)
Theorem C04_rectangular :
  forall bcs rows named rowsSQL named',
    insert_rows bcs rows [] named = BOk (rowsSQL, named') ->
    Forall (fun r => length r = length (live bcs)) rowsSQL /\ length rowsSQL = length rows.
Proof.
  intros bcs rows named rowsSQL named' H.
  apply (insert_rows_rect bcs rows [] named rowsSQL named' (Forall_nil _)) in H. exact H.
Qed.
Print Assumptions C04_rectangular.

Example C04_rectangular_applies :
  exists r n, insert_rows
    [{| bc_vals := [VLeaf 1 false; VLeaf 2 false]; bc_first := 0; bc_omit := false; bc_bulk := true;
        bc_argtype := Some 0; bc_literal := []; bc_column := [97]%N |};
     {| bc_vals := []; bc_first := 0; bc_omit := false; bc_bulk := false;
        bc_argtype := None; bc_literal := [49]%N; bc_column := [98]%N |}] [0; 1] [] [] = BOk (r, n)
    /\ length r = 2.
Proof. eexists. eexists. split; [vm_compute; reflexivity|reflexivity]. Qed.

(* (b) The tuples as a function of (row, column): the cell of column bc in row
   r is its literal, its single placeholder (the same in every row), or the
   placeholder bc_first + r of its r-th bulk value; over the non-omitted
   columns only.  The named arguments are created row by row; a single value
   is named once, in row 0.  (Holds for every successful insert_rows; the
   shape hypothesis is only needed for success, see C04_cells_total.) *)
Theorem C04_cells :
  forall bcs n named rowsSQL named',
    insert_rows bcs (seq 0 n) [] named = BOk (rowsSQL, named') ->
    rowsSQL = map (fun r => map (fun bc => cell bc r) (live bcs)) (seq 0 n) /\
    named' = named ++ flat_map (fun r => flat_map (fun bc => cell_arg bc r) (live bcs)) (seq 0 n).
Proof. intros bcs n named rowsSQL named'. exact (insert_rows_spec bcs (seq 0 n) [] named rowsSQL named'). Qed.
Print Assumptions C04_cells.

Theorem C04_cells_total :
  forall bcs n named,
    (forall bc, In bc (live bcs) -> well_shaped n bc) ->
    exists res, insert_rows bcs (seq 0 n) [] named = BOk res.
Proof. intros bcs n named W. exact (insert_rows_total n bcs (seq 0 n) [] named W (seq_lt_all 0 n)). Qed.
Print Assumptions C04_cells_total.

(* the arguments of one well shaped column, over all rows: its values, each
   exactly once, under the consecutive names starting at bc_first *)
Theorem C04_column_arguments :
  forall n bc,
    well_shaped n bc -> 1 <= n ->
    flat_map (fun r => cell_arg bc r) (seq 0 n) =
    map (fun '(i, v) => (arg_name i, v))
        (combine (seq (bc_first bc) (length (bc_vals bc))) (bc_vals bc)).
Proof. exact col_args. Qed.
Print Assumptions C04_column_arguments.

(* what the column loop guarantees: every column is bound from its typed
   column with the count threaded through, the placeholder ranges of the
   non-omitted columns are consecutive, every column is well shaped for the
   number of rows, every bulk column has exactly numRows values, and numRows
   is the length of the bulk slices, or 1 when no column is bulk *)
Theorem C04_shape :
  forall env m cols cnt used bcs cnt' used' numRows,
    bind_cols env m cnt used cols false 1 [] = BOk (bcs, cnt', used', numRows) ->
    bound_all env m cnt cols bcs /\ laid cnt bcs /\ cnt' = cnt + sumw bcs /\
    map bc_column bcs = map tcol_column cols /\
    Forall (well_shaped numRows) bcs /\ 1 <= numRows /\
    (forall bc, In bc bcs -> bc_bulk bc = true -> length (bc_vals bc) = numRows) /\
    ((exists bc, In bc bcs /\ bc_bulk bc = true) \/ numRows = 1).
Proof. exact bind_cols_top. Qed.
Print Assumptions C04_shape.

(* (c) The values of a bulk struct field: the field of every element of the
   slice, in element order.  With omitempty the column is omitted iff all of
   them are zero; a mix of zero and non-zero is an error; so is an empty
   slice. *)
Theorem C04_values :
  forall env f m st ss,
    t2v_get m (sf_struct f) = None -> locate_bulk env m (sf_struct f) = Some (st, ss) ->
    match slice_elems ss with
    | [] => locate_params env (LField f) m = BErr ESliceLen0
    | e :: elems =>
        forall v vs, map (elem_field f) (e :: elems) = map Some (v :: vs) ->
          locate_params env (LField f) m =
            if sf_omit f && negb (forallb (fun x => Bool.eqb (is_zero x) (is_zero v)) vs)
            then BErr EMixZero
            else BOk {| p_vals := v :: vs; p_omit := sf_omit f && is_zero v; p_bulk := true;
                        p_argtype := st |}
    end.
Proof. exact locate_field_bulk. Qed.
Print Assumptions C04_values.

Theorem C04_values_ok :
  forall env f m p,
    t2v_get m (sf_struct f) = None -> locate_params env (LField f) m = BOk p ->
    exists st ss, locate_bulk env m (sf_struct f) = Some (st, ss) /\
      map (elem_field f) (slice_elems ss) = map Some (p_vals p) /\
      p_vals p <> [] /\ p_bulk p = true /\ p_argtype p = st /\
      (p_omit p = true <-> sf_omit f = true /\ forall x, In x (p_vals p) -> is_zero x = true) /\
      (sf_omit f = true -> p_omit p = false -> forall x, In x (p_vals p) -> is_zero x = false).
Proof. exact locate_field_bulk_ok. Qed.
Print Assumptions C04_values_ok.

(* the bulk loop itself *)
Theorem C04_field_bulk :
  forall f e elems v vs acc,
    elem_field f e = Some v -> map (elem_field f) elems = map Some vs ->
    field_bulk f (e :: elems) true false acc =
      if sf_omit f && negb (forallb (fun x => Bool.eqb (is_zero x) (is_zero v)) vs) then BErr EMixZero
      else BOk (acc ++ v :: vs, sf_omit f && is_zero v).
Proof. exact field_bulk_first. Qed.
Print Assumptions C04_field_bulk.

(* a bound column carries exactly what LocateParams found *)
Theorem C04_bound_column :
  forall env m cnt c bc cnt',
    bind_col env m cnt c = BOk (bc, cnt') ->
    bound_from env m cnt c bc /\ cnt' = cnt + width bc /\ bc_column bc = tcol_column c /\
    (width bc = 0 \/ bc_first bc = cnt) /\
    (bc_bulk bc = true -> 1 <= length (bc_vals bc)) /\
    (bc_bulk bc = false -> length (bc_vals bc) <= 1).
Proof. exact bind_col_spec. Qed.
Print Assumptions C04_bound_column.

Theorem C04_omit_explicit :
  forall env m cnt input column p,
    locate_params env input m = BOk p -> p_omit p = true ->
    bind_col env m cnt (TCIns input column true) = BErr EOmitExplicit.
Proof. exact bind_col_omit_explicit. Qed.
Print Assumptions C04_omit_explicit.

Theorem C04_mismatch_bulk :
  forall env m cnt used c rest numRows acc bc cnt',
    bind_col env m cnt c = BOk (bc, cnt') -> bc_bulk bc = true ->
    length (bc_vals bc) <> numRows ->
    bind_cols env m cnt used (c :: rest) true numRows acc = BErr EMismatchBulk.
Proof. exact bind_cols_mismatch. Qed.
Print Assumptions C04_mismatch_bulk.

Example C04_values_applies :
  exists p,
    locate_params ex_env (LField (ex_fld s_street))
      [(3, VSlice false [person 1 2 3 4 false; person 5 6 7 8 false])] = BOk p /\
    p_vals p = [L 3 false; L 7 false] /\ p_bulk p = true /\
    locate_params ex_env (LField (ex_fld s_name))
      [(3, VSlice false [person 1 2 3 4 true; person 5 6 7 8 false])] = BErr EMixZero /\
    locate_params ex_env (LField (ex_fld s_name)) [(3, VSlice false [])] = BErr ESliceLen0.
Proof. eexists. split; [vm_compute; reflexivity|]. repeat split; vm_compute; reflexivity. Qed.

(* (d) The whole effect of an INSERT on the query: the column list is the
   columns of the non-omitted bound columns, and the same non-omitted columns
   make up every tuple: an omitted column disappears from both. *)
Theorem C04_columns :
  forall env m q cols q',
    add_to_query env m q (TInsert cols) = BOk q' ->
    exists bcs numRows,
      bind_cols env m (q_inputCount q) (q_argUsed q) cols false 1 [] =
        BOk (bcs, q_inputCount q', q_argUsed q', numRows) /\
      q_sql q' = q_sql q ++
        write_insert (map bc_column (live bcs))
                     (map (fun r => map (fun bc => cell bc r) (live bcs)) (seq 0 numRows)) /\
      q_named q' = q_named q ++
        flat_map (fun r => flat_map (fun bc => cell_arg bc r) (live bcs)) (seq 0 numRows) /\
      q_outputs q' = q_outputs q /\ q_outputCount q' = q_outputCount q.
Proof. exact add_insert_spec. Qed.
Print Assumptions C04_columns.

(* the arguments an INSERT creates: for every non-omitted column its values
   (as LocateParams found them, see C04_shape / bound_all), each once, the i-th
   under the name of placeholder bc_first + i; in row-major order of creation *)
Theorem C04_arguments :
  forall env m q cols q',
    add_to_query env m q (TInsert cols) = BOk q' ->
    exists bcs numRows new,
      bind_cols env m (q_inputCount q) (q_argUsed q) cols false 1 [] =
        BOk (bcs, q_inputCount q', q_argUsed q', numRows) /\
      q_named q' = q_named q ++ new /\
      Permutation new (flat_map (fun bc => named_from (bc_first bc) (bc_vals bc)) (live bcs)).
Proof. exact add_insert_arguments. Qed.
Print Assumptions C04_arguments.

(* the bulk loop over a slice of maps: the value under the key in every map *)
Theorem C04_values_map :
  forall key elems acc vals,
    mapkey_bulk key elems acc = BOk vals ->
    exists vs, map (elem_key key) elems = map Some vs /\ vals = acc ++ vs.
Proof. exact mapkey_bulk_spec. Qed.
Print Assumptions C04_values_map.

(* the columns of "(*) VALUES ($T.*, $M.key, ...)": for $T.* all db tags of T
   in byte-lexicographic order, for a member that member *)
Theorem C04_asterisk_columns :
  forall sources b cols0 b1 cols,
    wf_infos (b_infos b) ->
    asterisk_sources b sources cols0 = BOk (b1, cols) ->
    b_infos b1 = b_infos b /\
    map tcol_column cols = map tcol_column cols0 ++ flat_map (source_columns (b_infos b)) sources.
Proof. exact asterisk_columns. Qed.
Print Assumptions C04_asterisk_columns.

(* the infos GenerateArgInfo builds are well formed *)
Theorem C04_infos_wf :
  forall env samples infos, generate_arg_info env samples [] = BOk infos -> wf_infos infos.
Proof. intros env samples infos. exact (generate_arg_info_wf env samples [] infos (Forall_nil _)). Qed.
Print Assumptions C04_infos_wf.

Example C04_columns_applies :
  exists infos b1 cols,
    generate_arg_info ex_env [Some 0; Some 4] [] = BOk infos /\
    asterisk_sources {| b_infos := infos; b_used := []; b_outused := []; b_exprs := [] |}
      [{| tname := [80%N]; mname := star |}; {| tname := [77%N]; mname := s_k |}] [] = BOk (b1, cols) /\
    map tcol_column cols = [s_id; s_name; s_street; s_z; s_k].
Proof. eexists. eexists. eexists. split; [vm_compute; reflexivity|]. split; vm_compute; reflexivity. Qed.

Example C04_omitted_applies :
  exists q', add_to_query ex_env [(3, VSlice false [person 1 2 3 4 true; person 5 6 7 8 true]); (4, ex_map)]
               qb_init ex_insert = BOk q' /\
    render (q_sql q') =
      [40; 105; 100; 44; 32; 99; 44; 32; 107; 44; 32; 115; 116; 41; 32; 86; 65; 76; 85; 69; 83; 32;
       40; 64; 115; 113; 108; 97; 105; 114; 95; 48; 44; 32; 49; 44; 32; 64; 115; 113; 108; 97; 105; 114; 95; 50; 44; 32;
       64; 115; 113; 108; 97; 105; 114; 95; 51; 41; 44; 32;
       40; 64; 115; 113; 108; 97; 105; 114; 95; 49; 44; 32; 49; 44; 32; 64; 115; 113; 108; 97; 105; 114; 95; 50; 44; 32;
       64; 115; 113; 108; 97; 105; 114; 95; 52; 41]%N.
Proof. eexists. split; vm_compute; reflexivity. Qed.
