(* C04 — INSERT expansion is rectangular and row-faithful.
   Property theorems only; proofs are in Proofs/. *)
From SQLair.Base Require Import Bytes.
From SQLair.Model Require Import GenConsts Reflect TypeInfo Bind.
From SQLair.Proofs Require Import BindFacts.

(* Every generated tuple has exactly as many values as there are columns in the
   column list (the non-omitted columns), and there is one tuple per row. *)
Theorem C04_rectangular :
  forall bcs rows named rowsSQL named',
    insert_rows bcs rows [] named = BOk (rowsSQL, named') ->
    Forall (fun r => length r = length (live bcs)) rowsSQL /\ length rowsSQL = length rows.
Proof.
  intros bcs rows named rowsSQL named' H.
  apply (insert_rows_rect bcs rows [] named rowsSQL named' (Forall_nil _)) in H. exact H.
Qed.
Print Assumptions C04_rectangular.

Example C04_rectangular_applies :
  exists r n, insert_rows
    [{| bc_vals := [VLeaf 1 false; VLeaf 2 false]; bc_first := 0; bc_omit := false; bc_bulk := true;
        bc_argtype := Some 0; bc_literal := []; bc_column := [97]%N |};
     {| bc_vals := []; bc_first := 0; bc_omit := false; bc_bulk := false;
        bc_argtype := None; bc_literal := [49]%N; bc_column := [98]%N |}] [0; 1] [] [] = BOk (r, n)
    /\ length r = 2.
Proof. eexists. eexists. split; [vm_compute; reflexivity|reflexivity]. Qed.
