(* C08 - Query arguments are validated before anything reaches the driver.
   Query accepts for each input type of the statement exactly one argument,
   given as T or *T or - for members used inside an insert expression - []T or
   []*T, and rejects a missing argument, an argument whose type the statement
   does not use as input, two arguments of one type, a type together with its
   slice, nil pointers and nil maps, a map lacking a referenced key, and a
   different type that merely has the same name.  When arguments are rejected,
   no statement is prepared or executed.
   Property theorems only; proofs are in Proofs/. *)
From SQLair.Base Require Import Bytes.
From SQLair.Model Require Import GenConsts Reflect TypeInfo Parser Bind Iter.
From SQLair.Proofs Require Import TotalityProofs ValidateProofs ExampleEnv.

(* ---------------------------------------------------------- rejections -- *)

(* an error found in the arguments is the result of BindInputs whatever the
   statement is: the statement is not looked at *)
Theorem C08_validation_first :
  forall env tbe args e, validate_inputs env args [] = BErr e -> bind_inputs env tbe args = BErr e.
Proof. exact bind_inputs_validate_err. Qed.
Print Assumptions C08_validation_first.

Theorem C08_reject_nil :
  forall env tbe args, In ANil args -> exists e, bind_inputs env tbe args = BErr e.
Proof. exact reject_nil. Qed.
Print Assumptions C08_reject_nil.

Theorem C08_reject_nil_first :
  forall env tbe rest, bind_inputs env tbe (ANil :: rest) = BErr ENilArg.
Proof. exact reject_nil_first. Qed.
Print Assumptions C08_reject_nil_first.

Theorem C08_reject_nil_pointer :
  forall env tbe args t,
    In (AVal t VNilPtr) args -> t_kind (tget env t) = KPtr ->
    exists e, bind_inputs env tbe args = BErr e.
Proof. exact reject_nil_pointer. Qed.
Print Assumptions C08_reject_nil_pointer.

Theorem C08_reject_nil_pointer_first :
  forall env tbe rest t,
    t_kind (tget env t) = KPtr -> bind_inputs env tbe (AVal t VNilPtr :: rest) = BErr ENilPointer.
Proof. exact reject_nil_pointer_first. Qed.
Print Assumptions C08_reject_nil_pointer_first.

Theorem C08_reject_nil_map :
  forall env tbe args t entries,
    In (AVal t (VMap true entries)) args -> t_kind (tget env t) = KMap ->
    exists e, bind_inputs env tbe args = BErr e.
Proof. exact reject_nil_map. Qed.
Print Assumptions C08_reject_nil_map.

Theorem C08_reject_nil_map_first :
  forall env tbe rest t entries,
    t_kind (tget env t) = KMap ->
    bind_inputs env tbe (AVal t (VMap true entries) :: rest) = BErr ENilMap.
Proof. exact reject_nil_map_first. Qed.
Print Assumptions C08_reject_nil_map_first.

(* two arguments of one type (T and T, T and *T, ...) anywhere in the list *)
Theorem C08_reject_duplicate :
  forall env tbe l1 a1 l2 a2 l3,
    arg_type env a1 = arg_type env a2 ->
    exists e, bind_inputs env tbe (l1 ++ a1 :: l2 ++ a2 :: l3) = BErr e.
Proof. exact reject_duplicate. Qed.
Print Assumptions C08_reject_duplicate.

Theorem C08_reject_duplicate_adjacent :
  forall env tbe t v v' rest,
    is_struct_or_map (t_kind (tget env t)) = true -> t_name (tget env t) <> [] ->
    validate_value env (AVal t v) = BOk tt -> validate_value env (AVal t v') = BOk tt ->
    slice_of env t = None -> ptr_to env t = None ->
    bind_inputs env tbe (AVal t v :: AVal t v' :: rest) = BErr EDupArg.
Proof. exact reject_duplicate_adjacent. Qed.
Print Assumptions C08_reject_duplicate_adjacent.

(* a type together with its slice []T or []*T, in either order *)
Theorem C08_reject_type_and_slice :
  forall env tbe args t v st sv,
    In (AVal t v) args -> In (AVal st sv) args ->
    is_struct_or_map (t_kind (tget env t)) = true -> bulk_type env t st ->
    exists e, bind_inputs env tbe args = BErr e.
Proof. exact reject_type_and_slice. Qed.
Print Assumptions C08_reject_type_and_slice.

(* an argument whose type no input of the statement is located in: rejected,
   with "not used" once everything else is fine *)
Theorem C08_reject_unused :
  forall env tbe args m t,
    validate_inputs env args [] = BOk m -> In t (map (arg_type env) args) ->
    ~ located env m (flat_map input_locators tbe) t ->
    (exists e, bind_inputs env tbe args = BErr e) /\
    (forall q, add_all env m qb_init tbe = BOk q -> bind_inputs env tbe args = BErr ENotUsed).
Proof. exact reject_unused. Qed.
Print Assumptions C08_reject_unused.

(* a missing argument: an input of the statement for whose type there is
   neither an argument nor a slice argument *)
Theorem C08_reject_missing :
  forall env tbe args l,
    In l (flat_map input_locators tbe) ->
    ~ In (loc_argtype l) (map (arg_type env) args) ->
    (forall st, bulk_type env (loc_argtype l) st -> ~ In st (map (arg_type env) args)) ->
    exists e, bind_inputs env tbe args = BErr e.
Proof. exact reject_missing. Qed.
Print Assumptions C08_reject_missing.

(* ... reported as such when it is the first input that fails; the error is
   ESameNameArg exactly when some argument's type has the missing type's name
   (a different type that merely has the same name), else EArgMissing *)
Theorem C08_reject_missing_first :
  forall env args m pre q l post,
    validate_inputs env args [] = BOk m -> add_all env m qb_init pre = BOk q ->
    ~ In (loc_argtype l) (map (arg_type env) args) ->
    (forall st, bulk_type env (loc_argtype l) st -> ~ In st (map (arg_type env) args)) ->
    bind_inputs env (pre ++ TInput l :: post) args = BErr (value_not_found env m (loc_argtype l)).
Proof. exact reject_missing_first. Qed.
Print Assumptions C08_reject_missing_first.

Theorem C08_missing_or_same_name :
  forall env m t,
    (value_not_found env m t = ESameNameArg /\
     exists t', In t' (map fst m) /\ t_name (tget env t') = t_name (tget env t)) \/
    (value_not_found env m t = EArgMissing /\
     forall t', In t' (map fst m) -> t_name (tget env t') <> t_name (tget env t)).
Proof. exact value_not_found_cases. Qed.
Print Assumptions C08_missing_or_same_name.

(* a map argument (M or *M) lacking a key the statement refers to *)
Theorem C08_reject_map_no_key :
  forall env tbe args t v mt mv key,
    In (LMapKey mt key) (flat_map input_locators tbe) ->
    In (AVal t v) args -> indirect env t v = (mt, mv) -> map_index mv key = None ->
    exists e, bind_inputs env tbe args = BErr e.
Proof. exact reject_map_no_key. Qed.
Print Assumptions C08_reject_map_no_key.

Theorem C08_reject_map_no_key_first :
  forall env args m pre q post t v mt mv key,
    validate_inputs env args [] = BOk m -> add_all env m qb_init pre = BOk q ->
    In (AVal t v) args -> indirect env t v = (mt, mv) -> map_index mv key = None ->
    bind_inputs env (pre ++ TInput (LMapKey mt key) :: post) args = BErr EMapNoKey.
Proof. exact reject_map_no_key_first. Qed.
Print Assumptions C08_reject_map_no_key_first.

(* ---------------------------------------------------------- acceptance -- *)

(* accepted arguments are stored one entry per argument, in order, each under
   its indirected type (T for T and *T), of kind struct, map or slice, and no
   two under one type *)
Theorem C08_accept_shape :
  forall env args m,
    validate_inputs env args [] = BOk m ->
    NoDup (map fst m) /\ length m = length args /\ Forall2 (entry_of env) args m /\
    map fst m = map (arg_type env) args.
Proof. exact validate_inputs_accepts. Qed.
Print Assumptions C08_accept_shape.

(* when BindInputs succeeds every input of the statement found its argument
   and every argument is the argument of some input of the statement *)
Theorem C08_accept_exact :
  forall env tbe args pq,
    bind_inputs env tbe args = BOk pq ->
    exists m, validate_inputs env args [] = BOk m /\
      (forall l, In l (flat_map input_locators tbe) -> exists p, locate_params env l m = BOk p) /\
      (forall t, In t (map (arg_type env) args) -> located env m (flat_map input_locators tbe) t).
Proof. exact bind_inputs_accepts. Qed.
Print Assumptions C08_accept_exact.

(* ------------------------------------------------------------- silence -- *)

(* When the Query carries the error of BindInputs, Get, GetAll and the
   iterator return it and the result of running the statement is never
   consulted: nothing depends on [run]. *)
Theorem C08_silent_get :
  forall e hasout c run1 run2,
    query_get (Some e) hasout run1 c = query_get (Some e) hasout run2 c /\
    gr_err (query_get (Some e) hasout run1 c) = Some e /\
    gr_iter (query_get (Some e) hasout run1 c) = None.
Proof. exact silent_get. Qed.
Print Assumptions C08_silent_get.

Theorem C08_silent_getall :
  forall e hasout c run1 run2,
    query_getall (Some e) hasout run1 c = query_getall (Some e) hasout run2 c /\
    gar_err (query_getall (Some e) hasout run1 c) = Some e /\
    gar_appended (query_getall (Some e) hasout run1 c) = None /\
    gar_iter (query_getall (Some e) hasout run1 c) = None.
Proof. exact silent_getall. Qed.
Print Assumptions C08_silent_getall.

Theorem C08_silent_iter :
  forall e hasout ops run1 run2,
    query_iter (Some e) hasout run1 = query_iter (Some e) hasout run2 /\
    it_rows (query_iter (Some e) hasout run1) = None /\
    snd (iter_close (query_iter (Some e) hasout run1)) = Some e /\
    snd (iter_run (query_iter (Some e) hasout run1) ops) = map (silent_out e) ops /\
    iter_rows_now (fst (iter_run (query_iter (Some e) hasout run1) ops)) = None.
Proof. exact silent_iter. Qed.
Print Assumptions C08_silent_iter.

(* ------------------------------------------------------------ examples -- *)
(* ex_select:  SELECT &Person.* FROM t WHERE id = $M.id AND n IN ($Ints[:])
   ex_insert:  INSERT INTO t ( * ) VALUES ($Person.* ) *)

Example C08_ex_accept : is_ok (bind_inputs ex_env ex_select_tbe ex_select_args) = true.
Proof. vm_compute. reflexivity. Qed.
Example C08_ex_accept_pointer :
  is_ok (bind_inputs ex_env ex_insert_tbe [AVal 4 (VPtr (person 1 2))]) = true.
Proof. vm_compute. reflexivity. Qed.
Example C08_ex_accept_slice_of_pointers :
  is_ok (bind_inputs ex_env ex_insert_tbe [AVal 7 (VSlice false [VPtr (person 1 2)])]) = true.
Proof. vm_compute. reflexivity. Qed.
Example C08_ex_nil : bind_inputs ex_env ex_select_tbe [AVal 3 ex_map; ANil] = BErr ENilArg.
Proof. vm_compute. reflexivity. Qed.
Example C08_ex_nil_pointer : bind_inputs ex_env ex_select_tbe [AVal 4 VNilPtr] = BErr ENilPointer.
Proof. vm_compute. reflexivity. Qed.
Example C08_ex_nil_map : bind_inputs ex_env ex_select_tbe [AVal 3 (VMap true [])] = BErr ENilMap.
Proof. vm_compute. reflexivity. Qed.
Example C08_ex_duplicate :   (* M and *M *)
  bind_inputs ex_env ex_select_tbe [AVal 3 ex_map; AVal 6 ex_ints; AVal 8 (VPtr ex_map)] = BErr EDupArg.
Proof. vm_compute. reflexivity. Qed.
Example C08_ex_unused :
  bind_inputs ex_env ex_select_tbe (ex_select_args ++ [AVal 2 (person 1 2)]) = BErr ENotUsed.
Proof. vm_compute. reflexivity. Qed.
Example C08_ex_missing : bind_inputs ex_env ex_select_tbe [AVal 3 ex_map] = BErr EArgMissing.
Proof. vm_compute. reflexivity. Qed.
Example C08_ex_map_no_key :
  bind_inputs ex_env ex_select_tbe [AVal 3 (VMap false []); AVal 6 ex_ints] = BErr EMapNoKey.
Proof. vm_compute. reflexivity. Qed.
Example C08_ex_type_and_slice :
  bind_inputs ex_env ex_insert_tbe [AVal 2 (person 1 2); AVal 5 (VSlice false [person 1 2])]
  = BErr ETypeAndSlice /\
  bind_inputs ex_env ex_insert_tbe [AVal 5 (VSlice false [person 1 2]); AVal 4 (VPtr (person 1 2))]
  = BErr ETypeAndSlice /\
  bulk_type ex_env 2 5 /\ bulk_type ex_env 2 7.
Proof.
  split; [vm_compute; reflexivity|]. split; [vm_compute; reflexivity|].
  split; [left; vm_compute; reflexivity|right; exists 4; split; vm_compute; reflexivity].
Qed.
Example C08_ex_same_name :   (* type 11 is another struct type called Person *)
  bind_inputs ex_env ex_insert_tbe [AVal 11 (VStruct [VLeaf 1 false])] = BErr ESameNameArg.
Proof. vm_compute. reflexivity. Qed.
Example C08_ex_silent :
  forall run,
    snd (iter_run (query_iter (Some (ErrQuery 1)) true run) [OpNext; OpGet GValid; OpClose])
    = [OutBool false; OutErr (Some (ErrQuery 1)) StNothing; OutErr (Some (ErrQuery 1)) StNothing].
Proof. intros run. reflexivity. Qed.
