(* C14 — Iterator protocol: ordered rows, idempotent Close, no swallowed errors.
   Property theorems only; proofs are in Proofs/IterProofs.v. *)
From SQLair.Base Require Import Bytes.
From SQLair.Model Require Import Iter.
From SQLair.Proofs Require Import IterProofs.

(* Every Close call in a call sequence (any length, any interleaving with
   Next, Get and cancellation) returns the same result. *)
Theorem C14_close_idempotent :
  forall ops i, wf_iter i ->
    forall e1 e2, In e1 (run_closes i ops) -> In e2 (run_closes i ops) -> e1 = e2.
Proof. exact close_idempotent. Qed.
Print Assumptions C14_close_idempotent.

(* After exhaustion, an error, Close or cancellation, Next returns false
   forever. *)
Theorem C14_next_false_sticky :
  forall ops i, wf_iter i -> ended i ->
    Forall (fun b => b = false) (next_outs (combine ops (snd (iter_run i ops)))).
Proof. exact next_false_sticky. Qed.
Print Assumptions C14_next_false_sticky.

Theorem C14_next_false_ends :
  forall i i', wf_iter i -> iter_next i = (i', false) -> ended i'.
Proof. exact next_false_ended. Qed.
Print Assumptions C14_next_false_ends.

(* Get before the first Next is an error unless it fetches the Outcome; Get
   after the end is an error. *)
Theorem C14_get_guards :
  forall i a,
    (it_started i = false -> a <> GOutcome -> snd (fst (iter_get i a)) <> None) /\
    (wf_iter i -> it_started i = true -> ended i ->
     (forall r, it_rows i = Some r -> r_more r = false) -> snd (fst (iter_get i a)) <> None).
Proof. exact get_guards. Qed.
Print Assumptions C14_get_guards.

(* Rows are delivered in driver order, each exactly once: the loop
   (Next; Get)* over a plain result yields exactly the scripted rows. *)
Theorem C14_order :
  forall n fuel r i c acc any,
    length (r_pending r) = n -> n < fuel -> reading r -> live_iter i r ->
    ga_bad_elem c = None -> ga_dests c = GValid ->
    exists i' r', getall_loop fuel i c acc any =
                  (i', None, acc ++ map row_id (r_pending r), any || negb (Nat.eqb n 0)) /\
                  live_iter i' r' /\ r_closed r' = true /\ rows_err r' = None /\ r_close_err r' = None.
Proof. exact getall_loop_plain. Qed.
Print Assumptions C14_order.

(* An error that ends the iteration early is recorded by the rows (a failed
   fetch; a cancellation while rows remain) and is what Close returns. *)
Theorem C14_fetch_failure_recorded :
  forall r r' e, wf_rows r -> r_closed r = false -> r_fail r = Some (0, e) ->
    rows_next r = (r', false) -> recorded r' (ErrDriver e).
Proof. exact fetch_failure_recorded. Qed.
Print Assumptions C14_fetch_failure_recorded.

Theorem C14_cancel_recorded :
  forall r, wf_rows r -> r_closed r = false -> recorded (rows_cancel r) ErrCtx.
Proof. exact cancel_recorded. Qed.
Print Assumptions C14_cancel_recorded.

Theorem C14_close_surfaces :
  forall i r x, wf_iter i -> it_rows i = Some r -> recorded r x ->
    snd (iter_close i) = Some x.
Proof. exact close_surfaces. Qed.
Print Assumptions C14_close_surfaces.

(* non-vacuity (the F4 scenario): one row, then the driver fails; Close reports it, twice *)
Example C14_applies :
  let r := {| r_pending := [{| row_id := 1; row_ok := true |}]; r_fail := Some (1, 9);
              r_close_err := None; r_more := false; r_closed := false; r_lasterr := None; r_hiteof := false; r_ctxdone := false;
              r_current := None; r_driver_closes := 0 |} in
  snd (iter_run (query_iter None true (RunRows r)) [OpNext; OpNext; OpClose; OpClose]) =
  [OutBool true; OutBool false; OutErr (Some (ErrDriver 9)) StNothing; OutErr (Some (ErrDriver 9)) StNothing].
Proof. vm_compute. reflexivity. Qed.
