(* C14 — Iterator protocol: ordered rows, idempotent Close, no swallowed errors.
   Property theorems only; proofs are in Proofs/IterProofs.v. *)
From SQLair.Base Require Import Bytes.
From SQLair.Model Require Import Iter.
From SQLair.Proofs Require Import IterProofs.

(* Every Close call in a call sequence (any length, any interleaving with
   Next, Get and cancellation) returns the same result. *)
Theorem C14_close_idempotent :
  forall ops i, wf_iter i ->
    forall e1 e2, In e1 (run_closes i ops) -> In e2 (run_closes i ops) -> e1 = e2.
Proof. exact close_idempotent. Qed.
Print Assumptions C14_close_idempotent.

(* After exhaustion, an error, Close or cancellation, Next returns false
   forever. *)
Theorem C14_next_false_sticky :
  forall ops i, wf_iter i -> ended i ->
    Forall (fun b => b = false) (next_outs (combine ops (snd (iter_run i ops)))).
Proof. exact next_false_sticky. Qed.
Print Assumptions C14_next_false_sticky.

Theorem C14_next_false_ends :
  forall i i', wf_iter i -> iter_next i = (i', false) -> ended i'.
Proof. exact next_false_ended. Qed.
Print Assumptions C14_next_false_ends.

(* Get before the first Next is an error unless it fetches the Outcome; Get
   after the end is an error. *)
Theorem C14_get_guards :
  forall i a,
    (it_started i = false -> a <> GOutcome -> snd (fst (iter_get i a)) <> None) /\
    (wf_iter i -> it_started i = true -> ended i ->
     (forall r, it_rows i = Some r -> r_more r = false) -> snd (fst (iter_get i a)) <> None).
Proof. exact get_guards. Qed.
Print Assumptions C14_get_guards.

(* Rows are delivered in driver order, each exactly once: the loop
   (Next; Get)* over a plain result yields exactly the scripted rows. *)
Theorem C14_order :
  forall n fuel r i c acc any,
    length (r_pending r) = n -> n < fuel -> reading r -> live_iter i r ->
    ga_bad_elem c = None -> ga_dests c = GValid ->
    exists i' r', getall_loop fuel i c acc any =
                  (i', None, acc ++ map row_id (r_pending r), any || negb (Nat.eqb n 0)) /\
                  live_iter i' r' /\ r_closed r' = true /\ rows_err r' = None /\ r_close_err r' = None.
Proof. exact getall_loop_plain. Qed.
Print Assumptions C14_order.

(* An error that ends the iteration early is recorded by the rows (a failed
   fetch; a cancellation while rows remain) and is what Close returns. *)
Theorem C14_fetch_failure_recorded :
  forall r r' e, wf_rows r -> r_closed r = false -> r_fail r = Some (0, e) ->
    rows_next r = (r', false) -> recorded r' (ErrDriver e).
Proof. exact fetch_failure_recorded. Qed.
Print Assumptions C14_fetch_failure_recorded.

Theorem C14_cancel_recorded :
  forall r, wf_rows r -> r_closed r = false -> recorded (rows_cancel r) ErrCtx.
Proof. exact cancel_recorded. Qed.
Print Assumptions C14_cancel_recorded.

Theorem C14_close_surfaces :
  forall i r x, wf_iter i -> it_rows i = Some r -> recorded r x ->
    snd (iter_close i) = Some x.
Proof. exact close_surfaces. Qed.
Print Assumptions C14_close_surfaces.

(* non-vacuity (the F4 scenario): one row, then the driver fails; Close reports it, twice *)
Example C14_applies :
  let r := {| r_pending := [{| row_id := 1; row_ok := true |}]; r_fail := Some (1, 9);
              r_close_err := None; r_more := false; r_closed := false; r_lasterr := None; r_hiteof := false; r_ctxdone := false;
              r_current := None; r_driver_closes := 0 |} in
  snd (iter_run (query_iter None true (RunRows r)) [OpNext; OpNext; OpClose; OpClose]) =
  [OutBool true; OutBool false; OutErr (Some (ErrDriver 9)) StNothing; OutErr (Some (ErrDriver 9)) StNothing].
Proof. vm_compute. reflexivity. Qed.

(* ------------------------------------------------------------------------
   Rows in driver order for ARBITRARY call sequences (Model/Pool.v: history,
   nexts_true, trace, delivered, made_current; proofs in Proofs/IterOrder.v).
   history i ops  = the calls with what each returned;
   nexts_true h   = the number of Next calls that returned true;
   trace h        = an entry (k, id) for every Get with valid destinations that
                    succeeded: id is the row the destinations received, k the
                    number of Next calls that had returned true before;
   made_current   = (model state) the row each successful Next made current. *)
From SQLair.Model Require Import Pool.
From SQLair.Proofs Require Import IterOrder.

(* For every sequence of Next, Get (valid / invalid destinations / Outcome),
   Close and cancellations of the context, in any order and number, on the
   iterator of a query whose result is read without incident:
   (i)  the rows made current by the successive Next = true results are a
        prefix of the driver's rows: in driver order, none skipped, none
        repeated, never more than the driver has;
   (ii) every successful Get with valid destinations delivers the row made
        current by the most recent Next = true: with k successful Next calls
        before it, it is the k-th row of the driver and k >= 1.  So a row is
        delivered twice only by calling Get twice without Next, and no row is
        delivered before it was fetched. *)
Theorem C14_rows_in_order :
  forall hasout r ops,
    reading r ->
    let ids := map row_id (r_pending r) in
    let i0 := query_iter None hasout (RunRows r) in
    let h := history i0 ops in
    nexts_true h <= length ids /\
    made_current i0 ops = firstn (nexts_true h) ids /\
    Forall (fun '(k, id) => exists j, k = S j /\ nth_error ids j = Some id) (trace h).
Proof. exact rows_in_order. Qed.
Print Assumptions C14_rows_in_order.

(* hence the positions of the delivered rows never go back (any history) *)
Theorem C14_delivery_never_goes_back :
  forall h, nondecreasing (map fst (trace h)).
Proof. intros h. exact (trace_positions_nondecreasing h 0). Qed.
Print Assumptions C14_delivery_never_goes_back.

(* and the loop "for iter.Next() { iter.Get(...) }" delivers every row of the
   driver, in order, each exactly once *)
Theorem C14_read_all_complete :
  forall hasout r, reading r ->
    delivered (history (query_iter None hasout (RunRows r)) (read_all (length (r_pending r)))) =
    map row_id (r_pending r).
Proof. exact read_all_complete. Qed.
Print Assumptions C14_read_all_complete.

(* non-vacuity: Get before Next, Get twice, Next without Get, a Get the
   destinations of which are rejected, the end, Get and Next after Close *)
Example C14_order_applies :
  let r := {| r_pending := [{| row_id := 11; row_ok := true |}; {| row_id := 12; row_ok := true |};
                            {| row_id := 13; row_ok := true |}];
              r_fail := None; r_close_err := None; r_more := false; r_closed := false; r_lasterr := None;
              r_hiteof := false; r_ctxdone := false; r_current := None; r_driver_closes := 0 |} in
  let ops := [OpGet GValid; OpNext; OpGet GValid; OpGet GValid; OpGet GOutcome; OpNext; OpNext;
              OpGet (GInvalid 1); OpGet GValid; OpNext; OpGet GValid; OpClose; OpGet GValid; OpNext] in
  let i0 := query_iter None true (RunRows r) in
  reading r /\
  trace (history i0 ops) = [(1, 11); (1, 11); (3, 13)] /\
  nexts_true (history i0 ops) = 3 /\ made_current i0 ops = [11; 12; 13].
Proof. split; [repeat split|vm_compute; auto]. Qed.
