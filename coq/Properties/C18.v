(* C18 - No panic, crash or hang: errors instead.
   In the model EInternal stands for sqlair's "internal error" returns (states
   the code believes unreachable) and EModelFuel for "the Go recursion would
   not terminate".  Property theorems only; proofs are in Proofs/. *)
From SQLair.Base Require Import Bytes.
From SQLair.Model Require Import GenConsts Reflect TypeInfo Parser Bind.
From SQLair.Proofs Require Import ParserFuel TotalityProofs ExampleEnv.

(* (p) Parsing terminates for every byte string: every loop of the parser
   consumes input, so the fuel (one more than the length of the unread input,
   per loop) is never exhausted; the result is a segment list or a parse
   error. *)
Theorem C18_parse_total :
  forall inp, (exists segs, parse inp = Ok segs) \/ (exists e, parse inp = Err e /\ ekind_of e <> EFuel).
Proof. exact parse_total. Qed.
Print Assumptions C18_parse_total.

(* (a) The walk over embedded structs terminates for every type environment
   and every type, however the types embed each other: the fuel, one more
   than the number of types, is never exhausted. *)
Theorem C18_struct_walk_terminates :
  forall env t, get_struct_fields (S (length env)) env [] t <> BErr EModelFuel.
Proof. exact get_struct_fields_terminates. Qed.
Print Assumptions C18_struct_walk_terminates.

Theorem C18_arg_info_terminates :
  forall env t, get_arg_info env t <> BErr EModelFuel.
Proof. exact get_arg_info_no_fuel. Qed.
Print Assumptions C18_arg_info_terminates.

(* (b) Prepare never reports an internal error and never hangs, whatever the
   statement and the samples are. *)
Theorem C18_prepare_no_internal :
  forall env es samples,
    bind_types env es samples <> BErr EInternal /\ bind_types env es samples <> BErr EModelFuel.
Proof. exact prepare_no_internal. Qed.
Print Assumptions C18_prepare_no_internal.

(* (c) Query on a prepared statement never reports an internal error and never
   hangs, whatever the arguments are. *)
Theorem C18_query_no_internal :
  forall env es samples tbe,
    bind_types env es samples = BOk tbe ->
    forall args,
      bind_inputs env tbe args <> BErr EInternal /\ bind_inputs env tbe args <> BErr EModelFuel.
Proof. exact query_no_internal. Qed.
Print Assumptions C18_query_no_internal.

(* a struct that embeds itself through a pointer is an error, not a hang *)
Example C18_self_embedding_is_an_error : get_arg_info ex_env 9 = BErr ESelfEmbed.
Proof. vm_compute. reflexivity. Qed.

(* the hypothesis of (c) is satisfiable, with a bulk insert of three rows *)
Example C18_query_applies :
  bind_types ex_env ex_insert ex_insert_samples = BOk ex_insert_tbe /\
  is_ok (bind_inputs ex_env ex_insert_tbe ex_insert_bulk_args) = true.
Proof. split; vm_compute; reflexivity. Qed.

(* the hypothesis matters: a hand-made typed expression with a slice locator
   inside an insert, which Prepare never builds, does reach the internal error *)
Example C18_query_needs_prepare :
  bind_inputs ex_env [TInsert [TCIns (LSlice 6) [110%N] true]] [AVal 6 ex_ints] = BErr EInternal.
Proof. vm_compute. reflexivity. Qed.
