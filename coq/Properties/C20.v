(* C20 — The caller's context governs preparation and execution; cancelled
   runs nothing.  Property theorems only; proofs are in Proofs/CacheProofs.v.
   PARTIAL: "a context that is done on entry makes database/sql return its
   error before any driver call" is database/sql's behaviour, written into the
   model (Prepare/Exec/TxDirect steps are guarded by the cancellation set) and
   validated by the differential run on the real database/sql. *)
From SQLair.Base Require Import Bytes.
From SQLair.Model Require Import Cache.
From SQLair.Proofs Require Import CacheProofs.

(* The context the driver sees when the statement is prepared on the DB and
   when it is executed is the one given to Query, for every call of every
   history (cached or not, DB or TX, whatever else runs concurrently). *)
Theorem C20_same_ctx_exec :
  forall ops t ds ctx tx closed,
    In (EvExec t ds ctx tx closed) (w_log (run w0 ops)) -> ctx = th_ctx (tget (run w0 ops) t).
Proof. intros ops t ds ctx tx closed H. apply (exec_coherent ops t ds ctx tx closed H). Qed.
Print Assumptions C20_same_ctx_exec.

Theorem C20_same_ctx_prepare :
  forall ops t d q ctx ds,
    In (EvPrepare t d q ctx ds) (w_log (run w0 ops)) -> ctx = th_ctx (tget (run w0 ops) t).
Proof. intros ops t d q ctx ds H. apply (prepare_coherent ops t d q ctx ds H). Qed.
Print Assumptions C20_same_ctx_prepare.

(* Once a context is done, no later step of any history sends anything to the
   driver under that context. *)
Theorem C20_cancelled_runs_nothing :
  forall ops w c, w_cancelled w c = true ->
    forall e, In e (skipn (length (w_log w)) (w_log (run w ops))) -> ev_ctx e <> Some c.
Proof. exact cancelled_runs_nothing. Qed.
Print Assumptions C20_cancelled_runs_nothing.

Example C20_applies :
  w_log (run w0 [NewStmt; NewDB; Cancel 5; Begin 0 0 1 false 5; Prepare 0 true; Store 0; Exec 0;
                 Begin 0 0 1 false 6; Prepare 1 true; Store 1; Exec 1]) =
  [EvPrepare 1 0 1 6 0; EvExec 1 0 6 false false].
Proof. vm_compute. reflexivity. Qed.
