(* Model of cache.go and of the run closures of DB.Query / TX.Query
   (sqlair.go), as a labelled transition system.

   A history is any list of operations of any number of threads, Statements and
   DBs: threads execute the run closure as atomic steps at driver-call
   granularity (Begin = build the Query + the RLock'ed lookup with the SQL
   comparison; Prepare = db.sqldb.PrepareContext; Store = the Lock'ed section of
   driverPrepareStmt; Exec = QueryContext/ExecContext; Finish = the Iterator is
   closed and dropped), interleaved arbitrarily with NewStmt / NewDB, with
   reference drops and with garbage-collection steps.  A GC step runs the
   finalizer of ONE object and is enabled only if the object is unreachable:
   this reachability rule is the environment specification of Go's GC
   (DESIGN.md, C10).  Disabled operations leave the world unchanged, so every
   list of operations is a history.  Definitions only. *)
From SQLair.Base Require Import Bytes.

Record dstmt := {
  ds_stmt : nat;          (* ghost: Statement it was prepared for *)
  ds_db : nat;            (* ghost: DB it was prepared on *)
  ds_sql : nat;           (* the SQL string, by identity *)
  ds_closes : nat;        (* how often sql.Stmt.Close was called on it *)
  ds_evicted : bool;      (* a finalizer was set on it (evicted from the cache) *)
  ds_finalized : bool     (* that finalizer has run *)
}.

Inductive phase :=
| PHit (ds : nat)         (* lookupStmt returned the cached driverStmt *)
| PMiss                   (* lookupStmt missed *)
| PPrepared (ds : nat)    (* PrepareContext returned, not stored yet *)
| PStored (ds : nat)
| PIterating (ds : nat)   (* executed; an Iterator holds ds *)
| PFinished.              (* returned (result consumed, error, or direct TX execution) *)

Record thread := {
  th_s : nat; th_d : nat; th_q : nat;    (* Statement, DB, generated SQL of this call *)
  th_tx : bool;                          (* issued through a TX on that DB *)
  th_ctx : nat;                          (* the caller's context, by identity *)
  th_query_held : bool;                  (* the Query object (its closure holds s and db) is still referenced *)
  th_phase : phase
}.

Inductive event :=
| EvPrepare (t : nat) (d q : nat) (ctx : nat) (ds : nat)   (* driver-level prepare on DB d *)
| EvExec (t : nat) (ds : nat) (ctx : nat) (tx : bool) (closed : bool)
| EvTxDirect (t : nat) (d q : nat) (ctx : nat)             (* tx.QueryContext(sql) without the cache *)
| EvClose (ds : nat)
| EvPanic (what : nat).      (* a Go map/nil access that would panic: 1 Store on a missing entry, 2 DB finalizer *)

Record world := {
  w_heap : list dstmt;
  w_cache : nat -> nat -> option nat;    (* stmtDBCache[s][d] *)
  w_sentry : nat -> bool;                (* stmtDBCache has the key s *)
  w_index : nat -> nat -> bool;          (* dbStmtCache[d][s] *)
  w_dentry : nat -> bool;                (* dbStmtCache has the key d *)
  w_ns : nat; w_nd : nat;                (* stmtIDCount, dbIDCount *)
  w_sref : nat -> bool;                  (* the user still references Statement s *)
  w_dref : nat -> bool;
  w_cancelled : nat -> bool;             (* contexts that are done *)
  w_threads : list thread;
  w_log : list event
}.

Definition w0 : world :=
  {| w_heap := []; w_cache := fun _ _ => None; w_sentry := fun _ => false;
     w_index := fun _ _ => false; w_dentry := fun _ => false; w_ns := 0; w_nd := 0;
     w_sref := fun _ => false; w_dref := fun _ => false; w_cancelled := fun _ => false;
     w_threads := []; w_log := [] |}.

Inductive op :=
| NewStmt | NewDB
| Begin (s d q : nat) (tx : bool) (ctx : nat)
| Prepare (t : nat) (ok : bool)
| Store (t : nat)
| Exec (t : nat)
| DropQuery (t : nat)
| Finish (t : nat)
| DropStmt (s : nat) | DropDB (d : nat)
| Cancel (ctx : nat)
| GCStmt (s : nat) | GCDB (d : nat) | GCDs (ds : nat).

Definition upd {A} (f : nat -> A) (k : nat) (v : A) : nat -> A :=
  fun x => if Nat.eqb x k then v else f x.
Definition upd2 {A} (f : nat -> nat -> A) (k1 k2 : nat) (v : A) : nat -> nat -> A :=
  fun x y => if Nat.eqb x k1 && Nat.eqb y k2 then v else f x y.

Fixpoint set_nth {A} (l : list A) (n : nat) (v : A) : list A :=
  match l, n with
  | [], _ => []
  | _ :: l', O => v :: l'
  | x :: l', S n' => x :: set_nth l' n' v
  end.

Definition ds_default : dstmt :=
  {| ds_stmt := 0; ds_db := 0; ds_sql := 0; ds_closes := 0; ds_evicted := false; ds_finalized := false |}.
Definition hget (w : world) (ds : nat) : dstmt := nth ds (w_heap w) ds_default.

Definition th_default : thread :=
  {| th_s := 0; th_d := 0; th_q := 0; th_tx := false; th_ctx := 0; th_query_held := false;
     th_phase := PFinished |}.
Definition tget (w : world) (t : nat) : thread := nth t (w_threads w) th_default.

(* references held by a thread *)
Definition holds_closure (th : thread) : bool :=
  match th_phase th with
  | PHit _ | PMiss | PPrepared _ | PStored _ => true
  | PIterating _ => th_query_held th
  | PFinished => false
  end.
Definition holds_stmt (s : nat) (th : thread) : bool := holds_closure th && Nat.eqb (th_s th) s.
Definition holds_db (d : nat) (th : thread) : bool := holds_closure th && Nat.eqb (th_d th) d.
Definition held_ds (th : thread) : option nat :=
  match th_phase th with
  | PHit ds | PPrepared ds | PStored ds | PIterating ds => Some ds
  | _ => None
  end.
Definition holds_ds (ds : nat) (th : thread) : bool :=
  match held_ds th with Some x => Nat.eqb x ds | None => false end.

Definition with_heap (w : world) (h : list dstmt) : world :=
  {| w_heap := h; w_cache := w_cache w; w_sentry := w_sentry w; w_index := w_index w;
     w_dentry := w_dentry w; w_ns := w_ns w; w_nd := w_nd w; w_sref := w_sref w; w_dref := w_dref w;
     w_cancelled := w_cancelled w; w_threads := w_threads w; w_log := w_log w |}.
Definition with_threads (w : world) (ths : list thread) : world :=
  {| w_heap := w_heap w; w_cache := w_cache w; w_sentry := w_sentry w; w_index := w_index w;
     w_dentry := w_dentry w; w_ns := w_ns w; w_nd := w_nd w; w_sref := w_sref w; w_dref := w_dref w;
     w_cancelled := w_cancelled w; w_threads := ths; w_log := w_log w |}.
Definition with_log (w : world) (e : event) : world :=
  {| w_heap := w_heap w; w_cache := w_cache w; w_sentry := w_sentry w; w_index := w_index w;
     w_dentry := w_dentry w; w_ns := w_ns w; w_nd := w_nd w; w_sref := w_sref w; w_dref := w_dref w;
     w_cancelled := w_cancelled w; w_threads := w_threads w; w_log := w_log w ++ [e] |}.
Definition with_maps (w : world) (cache : nat -> nat -> option nat) (sentry : nat -> bool)
  (index : nat -> nat -> bool) (dentry : nat -> bool) : world :=
  {| w_heap := w_heap w; w_cache := cache; w_sentry := sentry; w_index := index;
     w_dentry := dentry; w_ns := w_ns w; w_nd := w_nd w; w_sref := w_sref w; w_dref := w_dref w;
     w_cancelled := w_cancelled w; w_threads := w_threads w; w_log := w_log w |}.

Definition set_phase (w : world) (t : nat) (p : phase) : world :=
  let th := tget w t in
  with_threads w (set_nth (w_threads w) t
    {| th_s := th_s th; th_d := th_d th; th_q := th_q th; th_tx := th_tx th; th_ctx := th_ctx th;
       th_query_held := th_query_held th; th_phase := p |}).

(* sql.Stmt.Close on a driverStmt *)
Definition close_ds (w : world) (ds : nat) : world :=
  let x := hget w ds in
  with_log (with_heap w (set_nth (w_heap w) ds
    {| ds_stmt := ds_stmt x; ds_db := ds_db x; ds_sql := ds_sql x; ds_closes := S (ds_closes x);
       ds_evicted := ds_evicted x; ds_finalized := ds_finalized x |})) (EvClose ds).

(* lookupStmt *)
Definition lookup (w : world) (s d q : nat) : option nat :=
  match w_cache w s d with
  | Some ds => if Nat.eqb (ds_sql (hget w ds)) q then Some ds else None
  | None => None
  end.

(* one cached driverStmt is closed and unlinked from both maps *)
Definition release (w : world) (s d ds : nat) : world :=
  let w1 := close_ds w ds in
  with_maps w1 (upd2 (w_cache w1) s d None) (w_sentry w1) (upd2 (w_index w1) d s false) (w_dentry w1).

(* removeAndCloseStmtFunc, over the DB ids.  The Go code closes every entry of
   stmtDBCache[s], unlinks s from dbStmtCache[d] in the same iteration and
   deletes stmtDBCache[s] as a whole after the loop; the model also removes
   the stmtDBCache entry in the iteration.  The whole function runs under the
   write lock, so the intermediate states are not observable and the state
   after the function is the same. *)
Fixpoint gc_stmt_loop (w : world) (s : nat) (dbs : list nat) : world :=
  match dbs with
  | [] => w
  | d :: rest =>
      match w_cache w s d with
      | Some ds => gc_stmt_loop (release w s d ds) s rest
      | None => gc_stmt_loop w s rest
      end
  end.

(* removeAndCloseDBFunc, over the Statement ids (same remark: the Go code
   deletes dbStmtCache[d] as a whole after the loop) *)
Fixpoint gc_db_loop (w : world) (d : nat) (stmts : list nat) : world :=
  match stmts with
  | [] => w
  | s :: rest =>
      if w_index w d s then
        match w_cache w s d with
        | Some ds => gc_db_loop (release w s d ds) d rest
        | None => gc_db_loop (with_log w (EvPanic 2)) d rest
        end
      else gc_db_loop w d rest
  end.

Definition step (w : world) (o : op) : world :=
  match o with
  | NewStmt =>
      {| w_heap := w_heap w; w_cache := w_cache w; w_sentry := upd (w_sentry w) (w_ns w) true;
         w_index := w_index w; w_dentry := w_dentry w; w_ns := S (w_ns w); w_nd := w_nd w;
         w_sref := upd (w_sref w) (w_ns w) true; w_dref := w_dref w; w_cancelled := w_cancelled w;
         w_threads := w_threads w; w_log := w_log w |}
  | NewDB =>
      {| w_heap := w_heap w; w_cache := w_cache w; w_sentry := w_sentry w;
         w_index := w_index w; w_dentry := upd (w_dentry w) (w_nd w) true; w_ns := w_ns w; w_nd := S (w_nd w);
         w_sref := w_sref w; w_dref := upd (w_dref w) (w_nd w) true; w_cancelled := w_cancelled w;
         w_threads := w_threads w; w_log := w_log w |}
  | Begin s d q tx ctx =>
      if w_sref w s && w_dref w d then
        let t := length (w_threads w) in
        let mk p := {| th_s := s; th_d := d; th_q := q; th_tx := tx; th_ctx := ctx;
                       th_query_held := true; th_phase := p |} in
        match lookup w s d q with
        | Some ds => with_threads w (w_threads w ++ [mk (PHit ds)])
        | None =>
            if tx then
              (* not cached: the transaction runs the SQL directly *)
              let w1 := with_threads w (w_threads w ++ [mk PFinished]) in
              if w_cancelled w ctx then w1 else with_log w1 (EvTxDirect t d q ctx)
            else with_threads w (w_threads w ++ [mk PMiss])
        end
      else w
  | Prepare t ok =>
      match th_phase (tget w t) with
      | PMiss =>
          if ok && negb (w_cancelled w (th_ctx (tget w t))) then
            let th := tget w t in
            let ds := length (w_heap w) in
            let w1 := with_heap w (w_heap w ++ [{| ds_stmt := th_s th; ds_db := th_d th; ds_sql := th_q th;
                                                   ds_closes := 0; ds_evicted := false; ds_finalized := false |}]) in
            set_phase (with_log w1 (EvPrepare t (th_d th) (th_q th) (th_ctx th) ds)) t (PPrepared ds)
          else set_phase w t PFinished
      | _ => w
      end
  | Store t =>
      match th_phase (tget w t) with
      | PPrepared ds =>
          let th := tget w t in
          let s := th_s th in let d := th_d th in
          if w_sentry w s && w_dentry w d then
            let w1 :=
              match w_cache w s d with
              | Some old =>
                  let x := hget w old in
                  with_heap w (set_nth (w_heap w) old
                    {| ds_stmt := ds_stmt x; ds_db := ds_db x; ds_sql := ds_sql x; ds_closes := ds_closes x;
                       ds_evicted := true; ds_finalized := ds_finalized x |})
              | None => w
              end in
            set_phase (with_maps w1 (upd2 (w_cache w1) s d (Some ds)) (w_sentry w1)
                                 (upd2 (w_index w1) d s true) (w_dentry w1)) t (PStored ds)
          else set_phase (with_log w (EvPanic 1)) t PFinished
      | _ => w
      end
  | Exec t =>
      match th_phase (tget w t) with
      | PHit ds | PStored ds =>
          let th := tget w t in
          if w_cancelled w (th_ctx th) then set_phase w t PFinished
          else
            set_phase (with_log w (EvExec t ds (th_ctx th) (th_tx th) (Nat.ltb 0 (ds_closes (hget w ds)))))
                      t (PIterating ds)
      | _ => w
      end
  | DropQuery t =>
      let th := tget w t in
      match th_phase th with
      | PIterating _ =>
          with_threads w (set_nth (w_threads w) t
            {| th_s := th_s th; th_d := th_d th; th_q := th_q th; th_tx := th_tx th; th_ctx := th_ctx th;
               th_query_held := false; th_phase := th_phase th |})
      | _ => w
      end
  | Finish t =>
      match th_phase (tget w t) with
      | PIterating _ => set_phase w t PFinished
      | _ => w
      end
  | DropStmt s =>
      {| w_heap := w_heap w; w_cache := w_cache w; w_sentry := w_sentry w; w_index := w_index w;
         w_dentry := w_dentry w; w_ns := w_ns w; w_nd := w_nd w; w_sref := upd (w_sref w) s false;
         w_dref := w_dref w; w_cancelled := w_cancelled w; w_threads := w_threads w; w_log := w_log w |}
  | DropDB d =>
      {| w_heap := w_heap w; w_cache := w_cache w; w_sentry := w_sentry w; w_index := w_index w;
         w_dentry := w_dentry w; w_ns := w_ns w; w_nd := w_nd w; w_sref := w_sref w;
         w_dref := upd (w_dref w) d false; w_cancelled := w_cancelled w; w_threads := w_threads w;
         w_log := w_log w |}
  | Cancel ctx =>
      {| w_heap := w_heap w; w_cache := w_cache w; w_sentry := w_sentry w; w_index := w_index w;
         w_dentry := w_dentry w; w_ns := w_ns w; w_nd := w_nd w; w_sref := w_sref w;
         w_dref := w_dref w; w_cancelled := upd (w_cancelled w) ctx true; w_threads := w_threads w;
         w_log := w_log w |}
  | GCStmt s =>
      if w_sentry w s && negb (w_sref w s) && negb (existsb (holds_stmt s) (w_threads w)) then
        let w1 := gc_stmt_loop w s (seq 0 (w_nd w)) in
        with_maps w1 (fun x y => if Nat.eqb x s then None else w_cache w1 x y)
                  (upd (w_sentry w1) s false) (w_index w1) (w_dentry w1)
      else w
  | GCDB d =>
      if w_dentry w d && negb (w_dref w d) && negb (existsb (holds_db d) (w_threads w)) then
        let w1 := gc_db_loop w d (seq 0 (w_ns w)) in
        with_maps w1 (w_cache w1) (w_sentry w1)
                  (fun x y => if Nat.eqb x d then false else w_index w1 x y) (upd (w_dentry w1) d false)
      else w
  | GCDs ds =>
      let x := hget w ds in
      if Nat.ltb ds (length (w_heap w)) && ds_evicted x && negb (ds_finalized x) &&
         negb (existsb (holds_ds ds) (w_threads w)) then
        let w1 := close_ds w ds in
        let y := hget w1 ds in
        with_heap w1 (set_nth (w_heap w1) ds
          {| ds_stmt := ds_stmt y; ds_db := ds_db y; ds_sql := ds_sql y; ds_closes := ds_closes y;
             ds_evicted := ds_evicted y; ds_finalized := true |})
      else w
  end.

Definition run (w : world) (ops : list op) : world := fold_left step ops w.

(* run every enabled finalizer once, in id order (a full garbage collection
   with all finalizers drained; iterate to reach the fixpoint) *)
Definition gc_round (w : world) : world :=
  let w1 := fold_left (fun w s => step w (GCStmt s)) (seq 0 (w_ns w)) w in
  let w2 := fold_left (fun w d => step w (GCDB d)) (seq 0 (w_nd w1)) w1 in
  fold_left (fun w ds => step w (GCDs ds)) (seq 0 (length (w_heap w2))) w2.
