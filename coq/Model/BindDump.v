(* Decoding of bind requests and canonical printing of bind results for the
   correspondence check.  Definitions only. *)
From Coq Require Import String.
From SQLair.Base Require Import Bytes Sexp.
From SQLair.Model Require Import Reflect TypeInfo Parser Bind.

Definition berr_name (e : berr) : str :=
  lit match e with
  | ENilSample => "nil-sample" | EAnonymousSample => "anonymous-sample"
  | EPointerSample => "pointer-sample" | EUnsupportedSample => "unsupported-sample"
  | EDupSample => "dup-sample" | ESameNameSample => "same-name-sample" | EMapKey => "map-key"
  | EDupTag => "dup-tag" | ENotExported => "not-exported" | ETagFlag => "tag-flag"
  | ETagEmpty => "tag-empty" | ETagQuote => "tag-quote" | ETagInvalid => "tag-invalid"
  | ESelfEmbed => "self-embed" | ETypeMissing => "type-missing" | ENoTag => "no-tag"
  | ESliceSyntaxStruct => "slice-syntax-struct" | ESliceSyntaxMap => "slice-syntax-map"
  | ESliceMember => "slice-member" | ESliceAsterisk => "slice-asterisk"
  | EMapAsterisk => "map-asterisk" | ENoTags => "no-tags" | EMultipleOutputs => "multiple-outputs"
  | EUnusedSample => "unused-sample" | EMoreThanOneMap => "more-than-one-map"
  | EMissingProvider => "missing-provider" | EMultipleProviders => "multiple-providers"
  | EMismatchColsVals => "mismatch-cols-vals" | EStarColumns => "star-columns"
  | EStarTypes => "star-types" | EMismatchColsTypes => "mismatch-cols-types"
  | ENilArg => "nil-arg" | ENilPointer => "nil-pointer" | ENilMap => "nil-map"
  | EAnonymousArg => "anonymous-arg" | ETypeAndSlice => "type-and-slice"
  | EAnonymousSlice => "anonymous-slice" | EUnsupportedArg => "unsupported-arg"
  | EDupArg => "dup-arg" | EMapNoKey => "map-no-key" | ESliceLen0 => "slice-len0"
  | ENilPtrInSlice => "nil-ptr-in-slice" | ENilMapInSlice => "nil-map-in-slice"
  | EMixZero => "mix-zero" | EArgMissing => "arg-missing" | ESameNameArg => "same-name-arg"
  | ENilEmbedded => "nil-embedded" | EOmitExplicit => "omit-explicit"
  | EBulkOutside => "bulk-outside" | EMismatchBulk => "mismatch-bulk" | ENotUsed => "not-used"
  | ENeedMapOrPtr => "need-map-or-ptr" | ENeedPtrToStruct => "need-ptr-to-struct"
  | EFewColumns => "few-columns" | EColumnNotInOutputs => "column-not-in-outputs"
  | EOutputColumnMissing => "output-column-missing" | EOutputArgUnused => "output-arg-unused"
  | ECannotSet => "cannot-set"
  | EInternal => "INTERNAL" | EModelFuel => "OUT-OF-FUEL"
  end%string.

(* ------------------------------------------------------------ decoding -- *)

Definition obind {A B} (o : option A) (k : A -> option B) : option B :=
  match o with Some a => k a | None => None end.

Fixpoint omap {A B} (f : A -> option B) (l : list A) : option (list B) :=
  match l with
  | [] => Some []
  | x :: l' => obind (f x) (fun y => obind (omap f l') (fun ys => Some (y :: ys)))
  end.

Definition atom_bool (a : str) : option bool :=
  match a with [48%N] => Some false | [49%N] => Some true | _ => None end.

Definition dec_field (s : sexp) : option field :=
  match s with
  | SList [Atom n; Atom e; Atom a; Atom tag; Atom t] =>
      obind (unxhex n) (fun n' => obind (atom_bool e) (fun e' => obind (atom_bool a) (fun a' =>
      obind (unxhex tag) (fun tag' => obind (atom_nat t) (fun t' =>
      Some {| f_name := n'; f_exported := e'; f_anon := a'; f_tag := tag'; f_type := t' |})))))
  | _ => None
  end.

Definition dec_tdef (s : sexp) : option tdef :=
  match s with
  | SList [Atom k; Atom n; Atom sc; SList fs] =>
      if str_eqb k (lit "struct") then
        obind (unxhex n) (fun n' => obind (atom_bool sc) (fun sc' => obind (omap dec_field fs) (fun fs' =>
        Some {| t_kind := KStruct; t_name := n'; t_fields := fs'; t_elem := 0; t_keystr := false;
                t_scanner := sc' |})))
      else None
  | SList [Atom k; Atom n; Atom ks; Atom el; Atom sc] =>
      if str_eqb k (lit "map") then
        obind (unxhex n) (fun n' => obind (atom_bool ks) (fun ks' => obind (atom_nat el) (fun el' =>
        obind (atom_bool sc) (fun sc' =>
        Some {| t_kind := KMap; t_name := n'; t_fields := []; t_elem := el'; t_keystr := ks';
                t_scanner := sc' |}))))
      else None
  | SList [Atom k; Atom n; Atom el] =>
      if str_eqb k (lit "slice") then
        obind (unxhex n) (fun n' => obind (atom_nat el) (fun el' =>
        Some {| t_kind := KSlice; t_name := n'; t_fields := []; t_elem := el'; t_keystr := false;
                t_scanner := false |}))
      else None
  | SList [Atom k; Atom el] =>
      if str_eqb k (lit "ptr") then
        obind (atom_nat el) (fun el' =>
        Some {| t_kind := KPtr; t_name := []; t_fields := []; t_elem := el'; t_keystr := false;
                t_scanner := false |})
      else None
  | SList [Atom k; Atom kn; Atom n; Atom sc] =>
      if str_eqb k (lit "other") then
        obind (unxhex n) (fun n' => obind (atom_bool sc) (fun sc' =>
        Some {| t_kind := KOther kn; t_name := n'; t_fields := []; t_elem := 0; t_keystr := false;
                t_scanner := sc' |}))
      else None
  | _ => None
  end.

Fixpoint dec_val (fuel : nat) (s : sexp) : option val :=
  match fuel with
  | O => None
  | S f =>
      match s with
      | Atom a =>
          if str_eqb a (lit "nilptr") then Some VNilPtr
          else if str_eqb a (lit "niliface") then Some VNilIface
          else None
      | SList (Atom k :: rest) =>
          if str_eqb k (lit "leaf") then
            match rest with
            | [Atom id; Atom z] => obind (atom_N id) (fun id' => obind (atom_bool z) (fun z' => Some (VLeaf id' z')))
            | _ => None
            end
          else if str_eqb k (lit "ptr") then
            match rest with
            | [v] => obind (dec_val f v) (fun v' => Some (VPtr v'))
            | _ => None
            end
          else if str_eqb k (lit "struct") then
            obind (omap (dec_val f) rest) (fun vs => Some (VStruct vs))
          else if str_eqb k (lit "slice") then
            match rest with
            | Atom n :: es => obind (atom_bool n) (fun n' => obind (omap (dec_val f) es) (fun vs => Some (VSlice n' vs)))
            | _ => None
            end
          else if str_eqb k (lit "map") then
            match rest with
            | Atom n :: es =>
                obind (atom_bool n) (fun n' =>
                obind (omap (fun e => match e with
                                      | SList [Atom key; v] =>
                                          obind (unxhex key) (fun key' => obind (dec_val f v) (fun v' => Some (key', v')))
                                      | _ => None
                                      end) es) (fun kvs => Some (VMap n' kvs)))
            | _ => None
            end
          else None
      | _ => None
      end
  end.

Definition dec_sample (s : sexp) : option (option tid) :=
  match s with
  | Atom a => if str_eqb a (lit "nil") then Some None else option_map Some (atom_nat a)
  | _ => None
  end.

Definition dec_arg (s : sexp) : option arg :=
  match s with
  | Atom a => if str_eqb a (lit "nil") then Some ANil else None
  | SList [Atom t; v] => obind (atom_nat t) (fun t' => obind (dec_val 64 v) (fun v' => Some (AVal t' v')))
  | _ => None
  end.

(* ------------------------------------------------------------ printing -- *)

Fixpoint print_val (v : val) : str :=
  match v with
  | VLeaf id z => if z then lit "z" else lit "l" ++ itoa id
  | VNilPtr => lit "nil"
  | VPtr v' => lit "p(" ++ print_val v' ++ lit ")"
  | VStruct fs => lit "s(" ++ concat_sep (lit ",") (map print_val fs) ++ lit ")"
  | VMap n es =>
      if n then lit "nilmap"
      else lit "m(" ++ concat_sep (lit ",") (map (fun '(k, v') => xhex k ++ lit "=" ++ print_val v') es) ++ lit ")"
  | VSlice n es => if n then lit "nilslice" else lit "v(" ++ concat_sep (lit ",") (map print_val es) ++ lit ")"
  | VNilIface => lit "niliface"
  end.

Definition print_primed (p : primed) : str :=
  concat_sep sp
    ([lit "OK"; if has_outputs p then lit "Q" else lit "E"; xhex (pq_sql p)] ++
     map (fun '(n, v) => paren [xhex n; print_val v]) (pq_params p)).

Definition run_bind (q : str) (env : tenv) (samples : list (option tid)) (args : list arg) : str :=
  match parse q with
  | Ok es =>
      match bind_types env es samples with
      | BErr e => lit "PREPARE-ERR " ++ berr_name e
      | BOk tbe =>
          match bind_inputs env tbe args with
          | BErr e => lit "QUERY-ERR " ++ berr_name e
          | BOk p => print_primed p
          end
      end
  | _ => lit "PARSE-ERR"
  end.
