(* Model of internal/typeinfo (arginfo.go, validate.go, valuelocator.go),
   function by function, over the reflect fragment of Reflect.v.
   Definitions only. *)
From SQLair.Base Require Import Bytes Utf8.
From SQLair.Model Require Import GenUnicode Reflect.

(* ------------------------------------------------------------- errors -- *)

Inductive berr :=
(* GenerateArgInfo / getArgInfo / getStructFields / parseTag *)
| ENilSample | EAnonymousSample | EPointerSample | EUnsupportedSample
| EDupSample | ESameNameSample | EMapKey | EDupTag | ENotExported
| ETagFlag | ETagEmpty | ETagQuote | ETagInvalid | ESelfEmbed
(* typedExprBuilder / bindTypes *)
| ETypeMissing | ENoTag | ESliceSyntaxStruct | ESliceSyntaxMap | ESliceMember
| ESliceAsterisk | EMapAsterisk | ENoTags | EMultipleOutputs | EUnusedSample
| EMoreThanOneMap | EMissingProvider | EMultipleProviders | EMismatchColsVals
| EStarColumns | EStarTypes | EMismatchColsTypes
(* ValidateInputs / LocateParams / addToQuery *)
| ENilArg | ENilPointer | ENilMap | EAnonymousArg | ETypeAndSlice | EAnonymousSlice
| EUnsupportedArg | EDupArg | EMapNoKey | ESliceLen0 | ENilPtrInSlice | ENilMapInSlice
| EMixZero | EArgMissing | ESameNameArg | ENilEmbedded | EOmitExplicit | EBulkOutside
| EMismatchBulk | ENotUsed
(* ValidateOutputs / ScanArgs *)
| ENeedMapOrPtr | ENeedPtrToStruct | EFewColumns | EColumnNotInOutputs | EOutputColumnMissing
| EOutputArgUnused | ECannotSet
(* internal errors and model fuel *)
| EInternal | EModelFuel.

Inductive bres (A : Type) :=
| BOk (a : A)
| BErr (e : berr).
Arguments BOk {A} a.
Arguments BErr {A} e.

Definition bbind {A B} (r : bres A) (k : A -> bres B) : bres B :=
  match r with BOk a => k a | BErr e => BErr e end.

(* ------------------------------------------------------------ parseTag -- *)

Fixpoint split_on (sep : N) (s : str) (cur : str) : list str :=
  match s with
  | [] => [rev cur]
  | c :: s' => if N.eqb c sep then rev cur :: split_on sep s' [] else split_on sep s' (c :: cur)
  end.

(* strings.TrimSpace restricted to ASCII white space (the tags of the type zoo
   use nothing else) *)
Definition is_space (c : N) : bool :=
  N.eqb c 32 || N.eqb c 9 || N.eqb c 10 || N.eqb c 11 || N.eqb c 12 || N.eqb c 13.
Fixpoint trim_left (s : str) : str :=
  match s with
  | c :: s' => if is_space c then trim_left s' else s
  | [] => []
  end.
Definition trim_space (s : str) : str := rev (trim_left (rev (trim_left s))).

Definition kw_omitempty : str := [111; 109; 105; 116; 101; 109; 112; 116; 121]%N.

Fixpoint all_runes (fuel : nat) (p : N -> bool) (s : str) : bool :=
  match fuel with
  | O => false
  | S f =>
      match s with
      | [] => true
      | _ => let '(r, size) := decode_rune s in p r && all_runes f p (skipn size s)
      end
  end.

Definition name_rune (c : N) : bool := is_letter c || is_digit c || N.eqb c 95.

Definition parse_tag (tag : str) : bres (str * bool) :=
  match split_on 44 tag [] with
  | [] => BErr ETagEmpty
  | name :: flags =>
      if negb (forallb (fun f => str_eqb (trim_space f) kw_omitempty) flags) then BErr ETagFlag
      else
        let omit := match flags with [] => false | _ => true end in
        match name with
        | [] => BErr ETagEmpty
        | c0 :: _ =>
            if N.eqb c0 34 || N.eqb c0 39 then
              if N.eqb (last name 0%N) c0 then BOk (name, omit) else BErr ETagQuote
            else
              let '(r, size) := decode_rune name in
              let tl := skipn size name in
              if is_digit r then
                if all_runes (S (length tl)) is_digit tl then BOk (name, omit) else BErr ETagInvalid
              else if is_letter r || N.eqb r 95 then
                if all_runes (S (length tl)) name_rune tl then BOk (name, omit) else BErr ETagInvalid
              else BErr ETagInvalid
        end
  end.

(* ------------------------------------------------------ struct fields -- *)

Record sfield := {
  sf_name : str;           (* Go field name *)
  sf_struct : tid;         (* structType: the outermost struct *)
  sf_index : list nat;     (* index path for FieldByIndex *)
  sf_tag : str;
  sf_omit : bool
}.

Definition reparent (st : tid) (i : nat) (f : sfield) : sfield :=
  {| sf_name := sf_name f; sf_struct := st; sf_index := i :: sf_index f;
     sf_tag := sf_tag f; sf_omit := sf_omit f |}.

(* getStructFields / getEmbeddedStructFields.  [embedding] is the chain of
   struct types being expanded (the F9 fix). *)
Fixpoint get_struct_fields (fuel : nat) (env : tenv) (embedding : list tid) (st : tid)
  : bres (list sfield) :=
  match fuel with
  | O => BErr EModelFuel
  | S fuel' =>
      if existsb (Nat.eqb st) embedding then BErr ESelfEmbed
      else
        let embedding' := embedding ++ [st] in
        (fix go (fs : list field) (i : nat) : bres (list sfield) :=
           match fs with
           | [] => BOk []
           | f :: fs' =>
               let rest := go fs' (S i) in
               match f_anon f, f_tag f with
               | true, [] =>
                   if negb (f_exported f) then rest
                   else
                     let ft := tget env (f_type f) in
                     let st' := match t_kind ft with KPtr => t_elem ft | _ => f_type f end in
                     match t_kind (tget env st') with
                     | KStruct =>
                         bbind (get_struct_fields fuel' env embedding' st') (fun nested =>
                         bbind rest (fun r => BOk (map (reparent st i) nested ++ r)))
                     | _ => rest
                     end
               | _, [] => rest
               | _, tag =>
                   if negb (f_exported f) then BErr ENotExported
                   else
                     bbind (parse_tag tag) (fun '(name, omit) =>
                     bbind rest (fun r =>
                       BOk ({| sf_name := f_name f; sf_struct := st; sf_index := [i];
                               sf_tag := name; sf_omit := omit |} :: r)))
               end
           end) (t_fields (tget env st)) 0
  end.

(* ------------------------------------------------------------- ArgInfo -- *)

Inductive arginfo :=
| StructInfo (t : tid) (tags : list str) (fields : list sfield)   (* tags sorted; tagToField as list *)
| MapInfo (t : tid)
| SliceInfo (t : tid).

Definition ai_type (a : arginfo) : tid :=
  match a with StructInfo t _ _ | MapInfo t | SliceInfo t => t end.

Fixpoint find_tag (tag : str) (fs : list sfield) : option sfield :=
  match fs with
  | [] => None
  | f :: fs' => if str_eqb (sf_tag f) tag then Some f else find_tag tag fs'
  end.

(* duplicate detection in field order, as the Go loop does *)
Fixpoint has_dup_tag (seen : list str) (fs : list sfield) : bool :=
  match fs with
  | [] => false
  | f :: fs' => existsb (str_eqb (sf_tag f)) seen || has_dup_tag (sf_tag f :: seen) fs'
  end.

Definition get_arg_info (env : tenv) (t : tid) : bres arginfo :=
  let d := tget env t in
  match t_kind d with
  | KMap => if t_keystr d then BOk (MapInfo t) else BErr EMapKey
  | KStruct =>
      bbind (get_struct_fields (S (length env)) env [] t) (fun fields =>
      if has_dup_tag [] fields then BErr EDupTag
      else BOk (StructInfo t (sort_strs (map sf_tag fields)) fields))
  | KSlice => BOk (SliceInfo t)
  | _ => BErr EInternal
  end.

(* GenerateArgInfo: samples are (nil | dynamic type) *)
Definition arginfos := list (str * arginfo).   (* keyed by type name, insertion order *)

Fixpoint generate_arg_info (env : tenv) (samples : list (option tid)) (acc : arginfos)
  : bres arginfos :=
  match samples with
  | [] => BOk acc
  | None :: _ => BErr ENilSample
  | Some t :: rest =>
      let d := tget env t in
      match t_kind d with
      | KStruct | KMap | KSlice =>
          match t_name d with
          | [] => BErr EAnonymousSample
          | name =>
              bbind (get_arg_info env t) (fun info =>
              match assoc_str name acc with
              | Some dupe => if Nat.eqb (ai_type dupe) t then BErr EDupSample else BErr ESameNameSample
              | None => generate_arg_info env rest (acc ++ [(name, info)])
              end)
          end
      | KPtr => BErr EPointerSample
      | KOther _ => BErr EUnsupportedSample
      end
  end.

(* ------------------------------------------------------ value locators -- *)

Inductive locator :=
| LField (f : sfield)
| LMapKey (mapType : tid) (name : str)
| LSlice (sliceType : tid).

Definition loc_argtype (l : locator) : tid :=
  match l with LField f => sf_struct f | LMapKey t _ => t | LSlice t => t end.

Definition loc_identifier (env : tenv) (l : locator) : str :=
  match l with
  | LField f => t_name (tget env (sf_struct f)) ++ [46%N] ++ sf_tag f
  | LMapKey t n => t_name (tget env t) ++ [46%N] ++ n
  | LSlice t => t_name (tget env t) ++ [91; 58; 93]%N
  end.

Definition get_member (a : arginfo) (member : str) : bres locator :=
  match a with
  | StructInfo _ _ fields =>
      match find_tag member fields with
      | Some f => BOk (LField f)
      | None => BErr ENoTag
      end
  | MapInfo t => BOk (LMapKey t member)
  | SliceInfo _ => BErr ESliceMember
  end.

Definition get_all_struct_members (a : arginfo) : bres (list (str * locator)) :=
  match a with
  | StructInfo _ tags fields =>
      match tags with
      | [] => BErr ENoTags
      | _ =>
          BOk (flat_map (fun tag => match find_tag tag fields with
                                    | Some f => [(tag, LField f)]
                                    | None => []
                                    end) tags)
      end
  | MapInfo _ => BErr EMapAsterisk
  | SliceInfo _ => BErr ESliceAsterisk
  end.

Definition get_slice (a : arginfo) : bres locator :=
  match a with
  | StructInfo _ _ _ => BErr ESliceSyntaxStruct
  | MapInfo _ => BErr ESliceSyntaxMap
  | SliceInfo t => BOk (LSlice t)
  end.

(* ------------------------------------------------------ ValidateInputs -- *)

Definition t2v := list (tid * val).     (* TypeToValue, insertion order *)

Fixpoint t2v_get (m : t2v) (t : tid) : option val :=
  match m with
  | [] => None
  | (t', v) :: m' => if Nat.eqb t t' then Some v else t2v_get m' t
  end.

Definition t2v_has_opt (m : t2v) (t : option tid) : bool :=
  match t with
  | Some t' => match t2v_get m t' with Some _ => true | None => false end
  | None => false
  end.

(* validateValue *)
Definition validate_value (env : tenv) (a : arg) : bres unit :=
  match a with
  | ANil => BErr ENilArg
  | AVal t v =>
      match t_kind (tget env t), v with
      | KPtr, VNilPtr => BErr ENilPointer
      | KMap, VMap true _ => BErr ENilMap
      | _, _ => BOk tt
      end
  end.

(* reflect.Indirect *)
Definition indirect (env : tenv) (t : tid) (v : val) : tid * val :=
  match t_kind (tget env t), v with
  | KPtr, VPtr v' => (t_elem (tget env t), v')
  | _, _ => (t, v)
  end.

Definition is_struct_or_map (k : kind) : bool :=
  match k with KStruct | KMap => true | _ => false end.

Fixpoint validate_inputs (env : tenv) (args : list arg) (acc : t2v) : bres t2v :=
  match args with
  | [] => BOk acc
  | a :: rest =>
      bbind (validate_value env a) (fun _ =>
      match a with
      | ANil => BErr ENilArg
      | AVal t0 v0 =>
          let '(t, v) := indirect env t0 v0 in
          let d := tget env t in
          let check :=
            match t_kind d with
            | KMap | KStruct =>
                match t_name d with
                | [] => BErr EAnonymousArg
                | _ =>
                    if t2v_has_opt acc (slice_of env t) then BErr ETypeAndSlice
                    else if t2v_has_opt acc (match ptr_to env t with
                                             | Some p => slice_of env p
                                             | None => None
                                             end) then BErr ETypeAndSlice
                    else BOk tt
                end
            | KSlice =>
                let e := t_elem d in
                let unnamed := match t_name d with [] => true | _ => false end in
                match t_kind (tget env e) with
                | KMap | KStruct =>
                    if unnamed && t2v_has_opt acc (Some e) then BErr ETypeAndSlice else BOk tt
                | KPtr =>
                    if unnamed && t2v_has_opt acc (Some (t_elem (tget env e))) then BErr ETypeAndSlice
                    else BOk tt
                | _ => if unnamed then BErr EAnonymousSlice else BOk tt
                end
            | _ => BErr EUnsupportedArg
            end in
          bbind check (fun _ =>
          match t2v_get acc t with
          | Some _ => BErr EDupArg
          | None => validate_inputs env rest (acc ++ [(t, v)])
          end)
      end)
  end.

(* ------------------------------------------------------- LocateParams -- *)

Record params := {
  p_vals : list val;
  p_omit : bool;
  p_bulk : bool;
  p_argtype : tid
}.

(* valueNotFoundError *)
Definition value_not_found (env : tenv) (m : t2v) (missing : tid) : berr :=
  if existsb (fun '(t, _) => str_eqb (t_name (tget env t)) (t_name (tget env missing))) m
  then ESameNameArg else EArgMissing.

(* locateBulkType *)
Definition locate_bulk (env : tenv) (m : t2v) (t : tid) : option (tid * val) :=
  match slice_of env t with
  | Some st =>
      match t2v_get m st with
      | Some v => Some (st, v)
      | None =>
          match ptr_to env t with
          | Some p =>
              match slice_of env p with
              | Some spt => match t2v_get m spt with Some v => Some (spt, v) | None => None end
              | None => None
              end
          | None => None
          end
      end
  | None =>
      match ptr_to env t with
      | Some p =>
          match slice_of env p with
          | Some spt => match t2v_get m spt with Some v => Some (spt, v) | None => None end
          | None => None
          end
      | None => None
      end
  end.

Definition field_of (f : sfield) (s : val) : bres val :=
  match field_by_index s (sf_index f) with
  | Some v => BOk v
  | None => BErr ENilEmbedded
  end.

(* the bulk loop of structField.LocateParams *)
Fixpoint field_bulk (f : sfield) (elems : list val) (first : bool) (omit : bool) (acc : list val)
  : bres (list val * bool) :=
  match elems with
  | [] => BOk (acc, omit)
  | e :: rest =>
      match e with
      | VNilPtr => BErr ENilPtrInSlice
      | _ =>
          let s := match e with VPtr s' => s' | _ => e end in
          bbind (field_of f s) (fun v =>
          if sf_omit f then
            if first && is_zero v then field_bulk f rest false true (acc ++ [v])
            else if negb (Bool.eqb (is_zero v) omit) then BErr EMixZero
            else field_bulk f rest false omit (acc ++ [v])
          else field_bulk f rest false omit (acc ++ [v]))
      end
  end.

Definition map_index (m : val) (key : str) : option val :=
  match m with
  | VMap _ entries => assoc_str key entries
  | _ => None
  end.

(* the bulk loop of mapKey.LocateParams *)
Fixpoint mapkey_bulk (key : str) (elems : list val) (acc : list val) : bres (list val) :=
  match elems with
  | [] => BOk acc
  | e :: rest =>
      match e with
      | VNilPtr => BErr ENilPtrInSlice
      | _ =>
          let m := match e with VPtr m' => m' | _ => e end in
          match m with
          | VMap true _ => BErr ENilMapInSlice
          | _ =>
              match map_index m key with
              | Some v => mapkey_bulk key rest (acc ++ [v])
              | None => BErr EMapNoKey
              end
          end
      end
  end.

Definition slice_elems (v : val) : list val :=
  match v with VSlice _ es => es | _ => [] end.

Definition locate_params (env : tenv) (l : locator) (m : t2v) : bres params :=
  match l with
  | LField f =>
      match t2v_get m (sf_struct f) with
      | Some s =>
          bbind (field_of f s) (fun v =>
          BOk {| p_vals := [v]; p_omit := is_zero v && sf_omit f; p_bulk := false;
                 p_argtype := sf_struct f |})
      | None =>
          match locate_bulk env m (sf_struct f) with
          | Some (st, ss) =>
              match slice_elems ss with
              | [] => BErr ESliceLen0
              | elems =>
                  bbind (field_bulk f elems true false []) (fun '(vals, omit) =>
                  BOk {| p_vals := vals; p_omit := omit; p_bulk := true; p_argtype := st |})
              end
          | None => BErr (value_not_found env m (sf_struct f))
          end
      end
  | LMapKey mt key =>
      match t2v_get m mt with
      | Some mv =>
          match map_index mv key with
          | Some v => BOk {| p_vals := [v]; p_omit := false; p_bulk := false; p_argtype := mt |}
          | None => BErr EMapNoKey
          end
      | None =>
          match locate_bulk env m mt with
          | Some (st, ms) =>
              match slice_elems ms with
              | [] => BErr ESliceLen0
              | elems =>
                  bbind (mapkey_bulk key elems []) (fun vals =>
                  BOk {| p_vals := vals; p_omit := false; p_bulk := true; p_argtype := st |})
              end
          | None => BErr (value_not_found env m mt)
          end
      end
  | LSlice st =>
      match t2v_get m st with
      | Some sv => BOk {| p_vals := slice_elems sv; p_omit := false; p_bulk := false; p_argtype := st |}
      | None => BErr (value_not_found env m st)
      end
  end.
