(* Model of internal/expr/parser.go (all functions), function by function.

   State.  Go's Parser keeps (input, pos, nextPos, char, lineNum, lineStart)
   and, for the main loop only, (prevExprEnd, currentExprStart, exprs).  The
   model keeps a zipper: [rest] is the unread suffix input[pos:], so that
   char/nextPos are derived ([cur], [decode_rune]) and input[a:b] is
   [firstn (b-a)] of the [rest] saved at a.  checkpoint.save is "keep the
   state value", cp.restore() is "return the saved value"; a restore appears
   in the model exactly where the Go calls cp.restore().  prevExprEnd,
   currentExprStart and exprs are never written while an expression is being
   parsed, so saving/restoring them is the identity and they live in the main
   loop only.

   Every function returns the state it leaves the parser in together with
   [Ok v] (Go: ok == true), [No] (ok == false, err == nil) or [Err e]
   (err != nil).  The state after [Err]/[No] matters because some callers
   ignore errors (parseColumns, parseInsertExpr) and carry on.

   Loops run on fuel [S (length rest)]; running out of fuel is the error kind
   [EFuel] which stands for "the Go loop would not terminate".  Definitions
   only; proofs are in Proofs/. *)
From SQLair.Base Require Import Bytes Utf8.
From SQLair.Model Require Import GenUnicode GenConsts.

(* ---------------------------------------------------------------- AST -- *)

Inductive column :=
| BasicCol (table col : str)
| FuncCol (raw : str).

Record macc := { tname : str; mname : str }.

Inductive value :=
| VMem (m : macc)
| VLit (s : str).

Inductive expr :=
| Bypass (chunk : str)
| MemberIn (raw : str) (m : macc)
| SliceIn (raw : str) (t : str)
| AsteriskIns (raw : str) (sources : list macc)
| ColumnsIns (raw : str) (cols : list column) (sources : list macc)
| BasicIns (raw : str) (cols : list column) (vals : list value)
| Output (raw : str) (cols : list column) (targets : list macc).

Definition raw_of (e : expr) : str :=
  match e with
  | Bypass c => c
  | MemberIn r _ | SliceIn r _ | AsteriskIns r _ | ColumnsIns r _ _
  | BasicIns r _ _ | Output r _ _ => r
  end.

Definition is_bypass (e : expr) : bool :=
  match e with Bypass _ => true | _ => false end.

(* ------------------------------------------------------------- errors -- *)

Inductive ekind :=
| EMissingQuote          (* missing closing quote in string literal *)
| EMissingParen          (* missing closing parenthesis *)
| ESliceInOutput         (* cannot use slice syntax "%s[:]" in output expression *)
| ESliceInOutput2        (* cannot use slice syntax in output expression *)
| EInvalidSlice          (* invalid slice: expected '%s[:]' *)
| EUnqualified           (* unqualified type, expected ... *)
| EInvalidSuffix         (* invalid identifier suffix following %q *)
| EInvalidInList         (* invalid expression in list *)
| EMissingParens         (* missing closing parentheses *)
| EMissingParensAS       (* missing parentheses around types after "AS" *)
| EUnexpectedParensAS    (* unexpected parentheses around types after "AS" *)
| EFuncIntoStar          (* cannot read function call %q into asterisk *)
| EStarInput             (* invalid asterisk placement in input %q *)
| EMissingParensValues   (* missing parentheses around types after "VALUES" *)
| EFuel.                 (* model only: a loop ran out of fuel *)

(* [positioned = false] only for the model's own out-of-fuel error: every error of the Go parser is
   wrapped in errorAt (since fix F15). *)
Record perr := { eline : nat; ecol : nat; ekind_of : ekind; epayload : str; positioned : bool }.

Inductive res (A : Type) :=
| Ok (a : A)
| No
| Err (e : perr).
Arguments Ok {A} a.
Arguments No {A}.
Arguments Err {A} e.

(* -------------------------------------------------------------- state -- *)

Record pstate := { pos : nat; rest : str; line : nat; lstart : nat }.

Definition init (input : str) : pstate :=
  {| pos := 0; rest := input; line := 1; lstart := 0 |}.

Definition at_end (st : pstate) : bool :=
  match rest st with [] => true | _ => false end.

(* p.char while pos < len(input); 0 at the end of the input *)
Definition cur (st : pstate) : N :=
  match rest st with [] => 0%N | _ => fst (decode_rune (rest st)) end.

Definition colNum (st : pstate) : nat := pos st - lstart st + 1.

Definition errorAt (k : ekind) (payload : str) (l c : nat) : perr :=
  {| eline := l; ecol := c; ekind_of := k; epayload := payload; positioned := true |}.

Definition efuel (st : pstate) : perr :=
  {| eline := line st; ecol := colNum st; ekind_of := EFuel; epayload := []; positioned := false |}.

Definition fuel_of (st : pstate) : nat := S (length (rest st)).

(* advanceChar.  Line bookkeeping happens when the parser steps off a newline
   (also when that newline is the last byte of the input: F14 fix). *)
Definition advance (st : pstate) : pstate :=
  match rest st with
  | [] => st
  | _ =>
      let '(r, size) := decode_rune (rest st) in
      let rest' := skipn size (rest st) in
      if N.eqb r 10
      then {| pos := pos st + size; rest := rest'; line := S (line st); lstart := pos st + size |}
      else {| pos := pos st + size; rest := rest'; line := line st; lstart := lstart st |}
  end.

(* input[a.pos : b.pos] for a state b reached from a *)
Definition slice (a b : pstate) : str := firstn (pos b - pos a) (rest a).

Definition ch_tab : N := 9.      Definition ch_nl : N := 10.     Definition ch_cr : N := 13.
Definition ch_space : N := 32.   Definition ch_dquote : N := 34. Definition ch_dollar : N := 36.
Definition ch_amp : N := 38.     Definition ch_squote : N := 39. Definition ch_lparen : N := 40.
Definition ch_rparen : N := 41.  Definition ch_star : N := 42.   Definition ch_comma : N := 44.
Definition ch_minus : N := 45.   Definition ch_dot : N := 46.    Definition ch_slash : N := 47.
Definition ch_colon : N := 58.   Definition ch_lbrack : N := 91. Definition ch_rbrack : N := 93.
Definition ch_underscore : N := 95.

Definition isNameChar (c : N) : bool := is_letter c || is_digit c || N.eqb c ch_underscore.
Definition isInitialNameChar (c : N) : bool := is_letter c || N.eqb c ch_underscore.

(* ----------------------------------------------------- character level -- *)

Definition peekChar (c : N) (st : pstate) : bool := negb (at_end st) && N.eqb (cur st) c.

Definition skipChar (c : N) (st : pstate) : pstate * bool :=
  if negb (at_end st) && N.eqb (cur st) c then (advance st, true) else (st, false).

(* skipCharFind: Ok = found and stepped over; No = not found, state restored *)
Fixpoint skipCharFind_loop (fuel : nat) (c : N) (st : pstate) : option (option pstate) :=
  match fuel with
  | O => None
  | S f =>
      if at_end st then Some None
      else if N.eqb (cur st) c then Some (Some (advance st))
      else skipCharFind_loop f c (advance st)
  end.

Definition skipCharFind (c : N) (st : pstate) : pstate * res unit :=
  match skipCharFind_loop (fuel_of st) c st with
  | None => (st, Err (efuel st))
  | Some None => (st, No)                       (* cp.restore() *)
  | Some (Some st') => (st', Ok tt)
  end.

(* skipString: case-insensitive (strings.EqualFold on a slice of exactly
   len(kw) bytes; for the ASCII keywords used this is ASCII case folding,
   see DESIGN.md).  Does not touch the line bookkeeping. *)
Definition skipString (kw : str) (st : pstate) : pstate * bool :=
  if prefix_fold kw (rest st)
  then ({| pos := pos st + length kw; rest := skipn (length kw) (rest st);
           line := line st; lstart := lstart st |}, true)
  else (st, false).

(* skipStringLiteral *)
Fixpoint strlit_loop (fuel : nat) (c : N) (maybeCloser : bool) (st : pstate)
  : option (option pstate) :=
  match fuel with
  | O => None
  | S f =>
      match skipCharFind c st with
      | (st1, Ok _) =>
          if maybeCloser && negb (peekChar c st1) then Some (Some st1)
          else strlit_loop f c (negb maybeCloser) st1
      | (_, No) => Some None
      | (_, Err _) => None
      end
  end.

Definition skipStringLiteral (st : pstate) : pstate * res unit :=
  let cp := st in
  let c := cur st in
  let '(st1, ok1) := skipChar ch_dquote st in
  let '(st2, ok) := if ok1 then (st1, true) else skipChar ch_squote st1 in
  if ok then
    match strlit_loop (fuel_of st2) c true st2 with
    | None => (st2, Err (efuel st2))
    | Some (Some st3) => (st3, Ok tt)
    | Some None =>
        (* cp.restore(), then the error is positioned at the restored state *)
        (cp, Err (errorAt EMissingQuote [] (line cp) (colNum cp)))
    end
  else (st2, No).

(* skipComment *)
Fixpoint comment_loop (fuel : nat) (endc : N) (st : pstate) : option pstate :=
  match fuel with
  | O => None
  | S f =>
      if at_end st then Some st           (* end of input: valid comment end *)
      else if N.eqb (cur st) endc then
        if N.eqb endc ch_star then
          let st1 := advance st in
          let '(st2, ok) := skipChar ch_slash st1 in
          if ok then Some st2 else comment_loop f endc st2
        else Some st                       (* "--": do not consume the newline *)
      else comment_loop f endc (advance st)
  end.

Definition skipComment (st : pstate) : pstate * res unit :=
  let cp := st in
  let c := cur st in
  let '(st1, ok1) := skipChar ch_minus st in
  let '(st2, ok) := if ok1 then (st1, true) else skipChar ch_slash st1 in
  if ok then
    let '(st3, ok3) :=
      if N.eqb c ch_minus then skipChar ch_minus st2 else (st2, false) in
    let '(st4, ok4) :=
      if ok3 then (st3, true)
      else if N.eqb c ch_slash then skipChar ch_star st3 else (st3, false) in
    if ok4 then
      let endc := if N.eqb c ch_minus then ch_nl else ch_star in
      match comment_loop (fuel_of st4) endc st4 with
      | None => (st4, Err (efuel st4))
      | Some st5 => (st5, Ok tt)
      end
    else (cp, No)                          (* cp.restore() *)
  else (st2, No).

(* skipBlanks (its boolean result is never used by the Go code) *)
Definition is_blank (c : N) : bool := mem_N c blanks.

Fixpoint skipBlanks_loop (fuel : nat) (st : pstate) : pstate * res unit :=
  match fuel with
  | O => (st, Err (efuel st))
  | S f =>
      if at_end st then (st, Ok tt)
      else
        match skipComment st with
        | (st1, Ok _) => skipBlanks_loop f st1
        | (st1, Err e) => (st1, Err e)
        | (st1, No) =>
            if is_blank (cur st1) then skipBlanks_loop f (advance st1)
            else (st1, Ok tt)
        end
  end.

Definition skipBlanks (st : pstate) : pstate * res unit := skipBlanks_loop (fuel_of st) st.

(* sequencing for helpers whose only failure is running out of fuel *)
Definition andThen {A B} (r : pstate * res A) (k : pstate -> pstate * res B) : pstate * res B :=
  match r with
  | (s, Err e) => (s, Err e)
  | (s, _) => k s
  end.

(* skipName is not used by the Go parser outside tests; omitted on purpose. *)

(* skipEnclosedParentheses *)
Fixpoint parens_loop (fuel : nat) (count : nat) (st : pstate)
  : pstate * res nat (* Ok n: loop left with parenCount = n *) :=
  match fuel with
  | O => (st, Err (efuel st))
  | S f =>
      match count with
      | O => (st, Ok O)
      | S _ =>
          if at_end st then (st, Ok count)
          else
            match skipStringLiteral st with
            | (st1, Err e) => (st1, Err e)
            | (st1, Ok _) => parens_loop f count st1
            | (st1, No) =>
                match skipComment st1 with
                | (st2, Err e) => (st2, Err e)
                | (st2, Ok _) => parens_loop f count st2
                | (st2, No) =>
                    let '(st3, ok) := skipChar ch_lparen st2 in
                    if ok then parens_loop f (S count) st3
                    else
                      let '(st4, ok') := skipChar ch_rparen st3 in
                      if ok' then parens_loop f (pred count) st4
                      else parens_loop f count (advance st4)
                end
            end
      end
  end.

Definition skipEnclosedParentheses (st : pstate) : pstate * res unit :=
  let cp := st in
  let '(st1, ok) := skipChar ch_lparen st in
  if negb ok then (st1, No)
  else
    match parens_loop (fuel_of st1) 1 st1 with
    | (st2, Err e) =>
        (* errors from skipStringLiteral: cp.restore(); return false, err.
           (EFuel is passed through the same way.) *)
        (cp, Err e)
    | (st2, No) => (cp, No)                (* not produced by the loop *)
    | (st2, Ok O) => (st2, Ok tt)
    | (st2, Ok (S _)) =>
        (cp, Err (errorAt EMissingParen [] (line cp) (colNum cp)))
    end.

(* skipLiteralInList *)
Fixpoint litlist_loop (fuel : nat) (st : pstate) : pstate * res unit :=
  match fuel with
  | O => (st, Err (efuel st))
  | S f =>
      if at_end st then (st, No)
      else
        match skipStringLiteral st with
        | (st1, Err e) => (st1, Err e)
        | (st1, Ok _) => litlist_loop f st1
        | (st1, No) =>
            match skipEnclosedParentheses st1 with
            | (st2, Err e) => (st2, Err e)
            | (st2, Ok _) => litlist_loop f st2
            | (st2, No) =>
                match skipComment st2 with
                | (st3, Err e) => (st3, Err e)
                | (st3, Ok _) => litlist_loop f st3
                | (st3, No) =>
                    if N.eqb (cur st3) ch_comma || N.eqb (cur st3) ch_rparen
                    then (st3, Ok tt)
                    else litlist_loop f (advance st3)
                end
            end
        end
  end.

Definition skipLiteralInList (st : pstate) : pstate * res unit := litlist_loop (fuel_of st) st.

(* ------------------------------------------------------------- names -- *)

Fixpoint namechars_loop (fuel : nat) (st : pstate) : option pstate :=
  match fuel with
  | O => None
  | S f =>
      if negb (at_end st) && isNameChar (cur st) then namechars_loop f (advance st)
      else Some st
  end.

(* parseIdentifier *)
Definition parseIdentifier (st : pstate) : pstate * res str :=
  let mark := st in
  match skipStringLiteral st with
  | (st1, Err e) => (st1, Err e)
  | (st1, Ok _) => (st1, Ok (slice mark st1))
  | (st1, No) =>
      match namechars_loop (fuel_of st1) st1 with
      | None => (st1, Err (efuel st1))
      | Some st2 =>
          if Nat.ltb (pos mark) (pos st2) then (st2, Ok (slice mark st2))
          else (st2, No)
      end
  end.

(* parseIdentifierAsterisk *)
Definition parseIdentifierAsterisk (st : pstate) : pstate * res str :=
  let '(st1, ok) := skipChar ch_star st in
  if ok then (st1, Ok [ch_star]) else parseIdentifier st1.

(* parseTypeName (Go returns (string, bool); Err only for fuel) *)
Definition parseTypeName (st : pstate) : pstate * res str :=
  let mark := st in
  if isInitialNameChar (cur st) then
    match namechars_loop (fuel_of st) (advance st) with
    | None => (st, Err (efuel st))
    | Some st2 =>
        if Nat.ltb (pos mark) (pos st2) then (st2, Ok (slice mark st2)) else (st2, No)
    end
  else (st, No).

(* parseColumnAccessor *)
Definition parseColumnAccessor (st : pstate) : pstate * res column :=
  let cp := st in
  let '(st1, okstar) := skipChar ch_star st in
  if okstar then (st1, Ok (BasicCol [] [ch_star]))
  else
    match parseIdentifier st1 with
    | (st2, Err e) => (cp, Err e)                    (* !ok: cp.restore(); return err *)
    | (st2, No) => (cp, No)
    | (st2, Ok id) =>
        let '(st3, okdot) := skipChar ch_dot st2 in
        if okdot then
          match parseIdentifierAsterisk st3 with
          | (st4, Err e) => (st4, Err e)             (* no restore here *)
          | (st4, Ok idCol) => (st4, Ok (BasicCol id idCol))
          | (st4, No) => (cp, No)
          end
        else
          match skipEnclosedParentheses st3 with
          | (st4, Err e) => (cp, Err e)
          | (st4, Ok _) => (st4, Ok (FuncCol (slice cp st4)))
          | (st4, No) => (st4, Ok (BasicCol [] id))
          end
    end.

(* parseSliceAccessor *)
Definition parseSliceAccessor (st : pstate) : pstate * res str :=
  let cp := st in
  match parseTypeName st with
  | (st1, Err e) => (st1, Err e)
  | (st1, No) => (st1, No)
  | (st1, Ok id) =>
      let '(st2, ok) := skipChar ch_lbrack st1 in
      if negb ok then (cp, No)
      else
        andThen (skipBlanks st2) (fun st3 =>
        let '(st4, okc) := skipChar ch_colon st3 in
        if negb okc then (st4, Err (errorAt EInvalidSlice id (line cp) (colNum cp)))
        else
          andThen (skipBlanks st4) (fun st5 =>
          let '(st6, okb) := skipChar ch_rbrack st5 in
          if negb okb then (st6, Err (errorAt EInvalidSlice id (line cp) (colNum cp)))
          else (st6, Ok id)))
  end.

(* parseTypeAndMember *)
Definition parseTypeAndMember (st : pstate) : pstate * res macc :=
  let cp := st in
  let identifierCol := colNum st - 1 in
  match parseTypeName st with
  | (st1, Err e) => (st1, Err e)
  | (st1, No) => (cp, No)
  | (st1, Ok id) =>
      let '(st2, okdot) := skipChar ch_dot st1 in
      if negb okdot then (st2, Err (errorAt EUnqualified id (line st2) identifierCol))
      else
        match parseIdentifierAsterisk st2 with
        | (st3, Err e) => (st3, Err e)
        | (st3, No) => (st3, Err (errorAt EInvalidSuffix id (line st3) (colNum st3)))
        | (st3, Ok idField) => (st3, Ok {| tname := id; mname := idField |})
        end
  end.

(* parseTargetType (with the restore added by the F1 fix) *)
Definition parseTargetType (st : pstate) : pstate * res macc :=
  let cp := st in
  let startLine := line st in
  let startCol := colNum st in
  let '(st1, ok) := skipChar ch_amp st in
  if ok then
    match parseSliceAccessor st1 with
    | (st2, Ok t) => (st2, Err (errorAt ESliceInOutput t startLine startCol))
    | (st2, Err e) =>
        match ekind_of e with
        | EFuel => (st2, Err e)
        | _ => (st2, Err (errorAt ESliceInOutput2 [] startLine startCol))
        end
    | (st2, No) =>
        match parseTypeAndMember st2 with
        | (st3, Ok ma) => (st3, Ok ma)
        | (st3, No) => (cp, No)
        | (st3, Err e) => (cp, Err e)
        end
    end
  else (st1, No).

(* parseInputMemberAccessor *)
Definition parseInputMemberAccessor (st : pstate) : pstate * res macc :=
  let '(st1, ok) := skipChar ch_dollar st in
  if ok then parseTypeAndMember st1 else (st1, No).

(* parseList *)
Section ParseList.
  Context {T : Type} (parseFn : pstate -> pstate * res T).

  Fixpoint parseList_loop (fuel : nat) (cp : pstate) (first : bool) (acc : list T) (st : pstate)
    : pstate * res (list T) :=
    match fuel with
    | O => (st, Err (efuel st))
    | S f =>
        andThen (skipBlanks st) (fun st1 =>
        match parseFn st1 with
        | (st2, Err e) => (st2, Err e)
        | (st2, No) =>
            if first then (cp, No)
            else (cp, Err (errorAt EInvalidInList [] (line st2) (colNum st2)))
        | (st2, Ok obj) =>
            let acc' := acc ++ [obj] in
            andThen (skipBlanks st2) (fun st3 =>
            let '(st4, okr) := skipChar ch_rparen st3 in
            if okr then (st4, Ok acc')
            else
              let '(st5, okc) := skipChar ch_comma st4 in
              if okc then parseList_loop f cp false acc' st5
              else (cp, Err (errorAt EMissingParens [] (line cp) (colNum cp))))
        end)
    end.

  Definition parseList (st : pstate) : pstate * res (list T) :=
    let cp := st in
    let '(st1, ok) := skipChar ch_lparen st in
    if negb ok then (st1, No)
    else parseList_loop (fuel_of st1) cp true [] st1.
End ParseList.

(* parseColumns: errors of both attempts are ignored by the Go code, so the
   result is (columns, parentheses) or No; Err is EFuel only. *)
Definition is_fuel_err {A} (r : res A) : option perr :=
  match r with
  | Err e => match ekind_of e with EFuel => Some e | _ => None end
  | _ => None
  end.

Definition parseColumns (st : pstate) : pstate * res (list column * bool) :=
  match parseColumnAccessor st with
  | (st1, Ok col) => (st1, Ok ([col], false))
  | (st1, r1) =>
      match is_fuel_err r1 with
      | Some e => (st1, Err e)
      | None =>
          match parseList parseColumnAccessor st1 with
          | (st2, Ok cols) => (st2, Ok (cols, true))
          | (st2, r2) =>
              match is_fuel_err r2 with
              | Some e => (st2, Err e)
              | None => (st2, No)
              end
          end
      end
  end.

(* parseTargetTypes *)
Definition parseTargetTypes (st : pstate) : pstate * res (list macc * bool) :=
  match parseTargetType st with
  | (st1, Err e) => (st1, Err e)
  | (st1, Ok t) => (st1, Ok ([t], false))
  | (st1, No) =>
      match parseList parseTargetType st1 with
      | (st2, Err e) => (st2, Err e)
      | (st2, Ok ts) => (st2, Ok (ts, true))
      | (st2, No) => (st2, No)
      end
  end.

Definition is_star_macc (m : macc) : bool := str_eqb (mname m) [ch_star].
Definition starCountTypes (ms : list macc) : nat := length (filter is_star_macc ms).

Definition columnName (c : column) : str :=
  match c with BasicCol _ col => col | FuncCol raw => raw end.
Definition tableName (c : column) : str :=
  match c with BasicCol t _ => t | FuncCol _ => [] end.
Definition columnString (c : column) : str :=
  match c with
  | BasicCol [] col => col
  | BasicCol t col => t ++ [ch_dot] ++ col
  | FuncCol raw => raw
  end.
Definition starCountColumns (cs : list column) : nat :=
  length (filter (fun c => str_eqb (columnName c) [ch_star]) cs).

Definition first_func (cs : list column) : option column :=
  find (fun c => match c with FuncCol _ => true | _ => false end) cs.


(* parseOutputExpr *)
Definition parseOutputExpr (st : pstate) : pstate * res expr :=
  let start := st in
  match parseTargetType st with
  | (st1, Err e) => (st1, Err e)
  | (st1, Ok t) => (st1, Ok (Output (slice start st1) [] [t]))
  | (st1, No) =>
      let cp := st1 in
      match parseColumns st1 with
      | (st2, Err e) => (st2, Err e)
      | (st2, No) => (cp, No)
      | (st2, Ok (cols, parenCols)) =>
          andThen (skipBlanks st2) (fun st3 =>
          let '(st4, okas) := skipString kw_output_as st3 in
          if negb okas then (cp, No)
          else
            andThen (skipBlanks st4) (fun st5 =>
            let parenLine := line st5 in
            let parenCol := colNum st5 in
            match parseTargetTypes st5 with
            | (st6, Err e) => (st6, Err e)
            | (st6, No) => (cp, No)
            | (st6, Ok (targets, parenTypes)) =>
                if parenCols && negb parenTypes
                then (st6, Err (errorAt EMissingParensAS [] parenLine parenCol))
                else if negb parenCols && parenTypes
                then (st6, Err (errorAt EUnexpectedParensAS [] parenLine parenCol))
                else
                  match (if Nat.ltb 0 (starCountTypes targets) then first_func cols else None) with
                  | Some c => (st6, Err (errorAt EFuncIntoStar (columnString c) (line cp) (colNum cp)))
                  | None => (st6, Ok (Output (slice start st6) cols targets))
                  end
            end))
      end
  end.

(* parseSliceInputExpr *)
Definition parseSliceInputExpr (st : pstate) : pstate * res expr :=
  let cp := st in
  let '(st1, ok) := skipChar ch_dollar st in
  if negb ok then (st1, No)
  else
    match parseSliceAccessor st1 with
    | (st2, Err e) => (cp, Err e)
    | (st2, Ok t) => (st2, Ok (SliceIn (slice cp st2) t))
    | (st2, No) => (cp, No)
    end.

Definition macc_string (m : macc) : str := tname m ++ [ch_dot] ++ mname m.

(* parseMemberInputExpr *)
Definition parseMemberInputExpr (st : pstate) : pstate * res expr :=
  let cp := st in
  match parseInputMemberAccessor st with
  | (st1, Err e) => (cp, Err e)
  | (st1, No) => (cp, No)
  | (st1, Ok ma) =>
      if is_star_macc ma
      then (cp, Err (errorAt EStarInput ([ch_dollar] ++ macc_string ma) (line cp) (colNum cp)))
      else (st1, Ok (MemberIn (slice cp st1) ma))
  end.

(* parseComplexInsertValues *)
Definition parseComplexInsertValues (st : pstate) : pstate * res (list macc) :=
  let cp := st in
  match parseList parseInputMemberAccessor st with
  | (st1, Err e) => (cp, Err e)
  | (st1, Ok sources) => (st1, Ok sources)
  | (st1, No) =>
      match parseInputMemberAccessor st1 with
      | (st2, Ok _) => (cp, Err (errorAt EMissingParensValues [] (line cp) (colNum cp)))
      | (st2, r) =>
          match is_fuel_err r with
          | Some e => (st2, Err e)
          | None => (cp, No)
          end
      end
  end.

(* parseAsteriskInsertExpr (with the restore added by the F2 fix) *)
Definition parseAsteriskInsertExpr (st : pstate) : pstate * res expr :=
  let cp := st in
  let '(st1, ok1) := skipChar ch_lparen st in
  if negb ok1 then (st1, No)
  else
    andThen (skipBlanks st1) (fun st2 =>
    let '(st3, ok3) := skipChar ch_star st2 in
    if negb ok3 then (cp, No)
    else
      andThen (skipBlanks st3) (fun st4 =>
      let '(st5, ok5) := skipChar ch_rparen st4 in
      if negb ok5 then (cp, No)
      else
        andThen (skipBlanks st5) (fun st6 =>
        let '(st7, ok7) := skipString kw_asterisk_values st6 in
        if negb ok7 then (cp, No)
        else
          andThen (skipBlanks st7) (fun st8 =>
          match parseComplexInsertValues st8 with
          | (st9, Ok sources) => (st9, Ok (AsteriskIns (slice cp st9) sources))
          | (st9, No) => (cp, No)
          | (st9, Err e) => (cp, Err e)
          end)))).

(* parseBasicInsertValues *)
Fixpoint basicvals_loop (fuel : nat) (cp : pstate) (inputParsed : bool) (acc : list value)
  (st : pstate) : pstate * res (list value) :=
  match fuel with
  | O => (st, Err (efuel st))
  | S f =>
      andThen (skipBlanks st) (fun st1 =>
      let itemStart := st1 in
      let continue_ (inputParsed' : bool) (acc' : list value) (st3 : pstate) :=
        andThen (skipBlanks st3) (fun st4 =>
        let '(st5, okr) := skipChar ch_rparen st4 in
        if okr then
          if negb inputParsed' then (st5, No) else (st5, Ok acc')
        else
          let '(st6, okc) := skipChar ch_comma st5 in
          if okc then basicvals_loop f cp inputParsed' acc' st6
          else (cp, No)) in
      match parseInputMemberAccessor st1 with
      | (st2, Err e) => (st2, Err e)
      | (st2, Ok ma) =>
          if is_star_macc ma
          then (st2, Err (errorAt EStarInput ([ch_dollar] ++ macc_string ma)
                                  (line itemStart) (colNum itemStart)))
          else continue_ true (acc ++ [VMem ma]) st2
      | (st2, No) =>
          match skipLiteralInList st2 with
          | (st3, Err e) => (st3, Err e)
          | (st3, Ok _) => continue_ inputParsed (acc ++ [VLit (slice itemStart st3)]) st3
          | (st3, No) => (cp, No)
          end
      end)
  end.

Definition parseBasicInsertValues (st : pstate) : pstate * res (list value) :=
  let cp := st in
  let '(st1, ok) := skipChar ch_lparen st in
  if negb ok then
    match parseInputMemberAccessor st1 with
    | (st2, Ok _) => (cp, Err (errorAt EMissingParensValues [] (line cp) (colNum cp)))
    | (st2, r) =>
        match is_fuel_err r with
        | Some e => (st2, Err e)
        | None => (cp, No)
        end
    end
  else basicvals_loop (fuel_of st1) cp false [] st1.

(* parseInsertExpr *)
Definition parseInsertExpr (st : pstate) : pstate * res expr :=
  match parseAsteriskInsertExpr st with
  | (st1, Err e) => (st1, Err e)
  | (st1, Ok e) => (st1, Ok e)
  | (st1, No) =>
      let cp := st1 in
      match parseColumns st1 with
      | (st2, Err e) => (st2, Err e)
      | (st2, No) => (cp, No)
      | (st2, Ok (_, false)) => (cp, No)
      | (st2, Ok (columns, true)) =>
          andThen (skipBlanks st2) (fun st3 =>
          let '(st4, okv) := skipString kw_insert_values st3 in
          if negb okv then (cp, No)
          else
            andThen (skipBlanks st4) (fun st5 =>
            let colcp := st5 in
            let basic (_ : unit) :=
              match parseBasicInsertValues colcp with
              | (st7, Err e) => (cp, Err e)
              | (st7, Ok vals) => (st7, Ok (BasicIns (slice cp st7) columns vals))
              | (st7, No) => (cp, No)
              end in
            match parseComplexInsertValues st5 with
            | (st6, Ok sources) =>
                if negb (Nat.eqb (starCountTypes sources) 0)
                then (st6, Ok (ColumnsIns (slice cp st6) columns sources))
                else basic tt
            | (st6, r) =>
                match is_fuel_err r with
                | Some e => (st6, Err e)
                | None => basic tt
                end
            end))
      end
  end.

(* parseInputExpr *)
Definition parseInputExpr (st : pstate) : pstate * res expr :=
  match parseSliceInputExpr st with
  | (st1, Err e) => (st1, Err e)
  | (st1, Ok e) => (st1, Ok e)
  | (st1, No) =>
      match parseMemberInputExpr st1 with
      | (st2, Err e) => (st2, Err e)
      | (st2, Ok e) => (st2, Ok e)
      | (st2, No) => parseInsertExpr st2
      end
  end.

(* --------------------------------------------- advanceToNextExpression -- *)

Definition is_trigger (c : N) : bool := mem_N c triggers.

Definition is_separator (c : N) : bool := mem_N c separators.

Fixpoint advance_loop (fuel : nat) (st : pstate) : pstate * res bool
  (* Ok true: the function returns without the final skipBlanks;
     Ok false: loop left (break or exhausted), skipBlanks follows *) :=
  match fuel with
  | O => (st, Err (efuel st))
  | S f =>
      if at_end st then (st, Ok false)
      else
        match skipStringLiteral st with
        | (st1, Err e) => (st1, Err e)
        | (st1, Ok _) => advance_loop f st1
        | (st1, No) =>
            match skipComment st1 with
            | (st2, Err e) => (st2, Err e)
            | (st2, Ok _) => advance_loop f st2
            | (st2, No) =>
                if is_trigger (cur st2) then (st2, Ok false)
                else if is_separator (cur st2) then
                  let st3 := advance st2 in
                  if at_end st3 then (st3, Ok true)
                  else if isNameChar (cur st3) then (st3, Ok false)
                  else advance_loop f st3
                else advance_loop f (advance st2)
            end
        end
  end.

Definition advanceToNextExpression (st : pstate) : pstate * res unit :=
  if negb (at_end st) && Nat.eqb (pos st) 0 && isNameChar (cur st) then (st, Ok tt)
  else
    match advance_loop (fuel_of st) st with
    | (st1, Err e) => (st1, Err e)
    | (st1, No) => (st1, No)
    | (st1, Ok true) => (st1, Ok tt)
    | (st1, Ok false) => skipBlanks st1
    end.

(* ----------------------------------------------------------- main loop -- *)

(* add: prev is the state at prevExprEnd, cur_start the state at
   currentExprStart, st the current state *)
Definition add_bypass (prev cstart : pstate) (acc : list expr) : list expr :=
  if Nat.eqb (pos prev) (pos cstart) then acc else acc ++ [Bypass (slice prev cstart)].

Fixpoint parse_loop (fuel : nat) (prev : pstate) (acc : list expr) (st : pstate)
  : res (list expr) :=
  match fuel with
  | O => Err (efuel st)
  | S f =>
      match advanceToNextExpression st with
      | (_, Err e) => Err e
      | (st1, _) =>
          let cstart := st1 in
          if at_end st1 then Ok (add_bypass prev cstart acc)
          else
            match parseOutputExpr st1 with
            | (_, Err e) => Err e
            | (st2, Ok out) => parse_loop f st2 (add_bypass prev cstart acc ++ [out]) st2
            | (st2, No) =>
                match parseInputExpr st2 with
                | (_, Err e) => Err e
                | (st3, Ok inp) => parse_loop f st3 (add_bypass prev cstart acc ++ [inp]) st3
                | (st3, No) => parse_loop f prev acc (advance st3)
                end
            end
      end
  end.

Definition parse (input : str) : res (list expr) :=
  let st := init input in
  parse_loop (fuel_of st) st [] st.
