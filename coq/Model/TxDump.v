(* Script-level operations over the TX model and printing, for the
   correspondence check on sequential histories.  Definitions only. *)
From Coq Require Import String.
From SQLair.Base Require Import Bytes Sexp.
From SQLair.Model Require Import Tx BindDump.

Inductive tsop :=
| TSQuery                (* q := tx.Query(...): a new thread, numbered in order *)
| TSRun (k : nat)        (* run the k-th query *)
| TSCommit | TSRollback.

Definition new_tevents (before after : txw) : list tevent := skipn (length (x_log before)) (x_log after).

Definition print_tevent (w : txw) (e : tevent) : str :=
  match e with
  | TEvExec _ c => if Nat.eqb c (x_conn w) then lit "X=" else lit "X!"
  | TEvCommit _ c => if Nat.eqb c (x_conn w) then lit "C=" else lit "C!"
  | TEvRollback _ c => if Nat.eqb c (x_conn w) then lit "R=" else lit "R!"
  end.

Definition print_txres (p : tphase) : str :=
  match p with
  | TRan None | TReturned _ None => lit "ok"
  | TRan (Some TxDone) | TReturned _ (Some TxDone) => lit "txdone"
  | TBuilt _ => lit "built"
  | _ => lit "?"
  end.

(* [qs]: the thread of the k-th query, in order of creation *)
Definition tsstep (w : txw) (qs : list nat) (o : tsop) : txw * list nat * str :=
  match o with
  | TSQuery =>
      let t := length (x_threads w) in
      let w1 := xstep (xstep w TSpawn) (TBuild t) in
      (w1, qs ++ [t], lit "q" ++ itoa_nat (length qs))
  | TSRun k =>
      match nth_error qs k with
      | None => (w, qs, lit "?")
      | Some t =>
          let w1 := xstep w (TRun t) in
          (w1, qs, concat_sep (lit ".") (map (print_tevent w1) (new_tevents w w1) ++ [print_txres (xget w1 t)]))
      end
  | TSCommit =>
      let t := length (x_threads w) in
      let w1 := xstep (xstep (xstep w TSpawn) (TCommitCAS t)) (TFinishCall t) in
      (w1, qs, concat_sep (lit ".") (map (print_tevent w1) (new_tevents w w1) ++ [print_txres (xget w1 t)]))
  | TSRollback =>
      let t := length (x_threads w) in
      let w1 := xstep (xstep (xstep w TSpawn) (TRollbackCAS t)) (TFinishCall t) in
      (w1, qs, concat_sep (lit ".") (map (print_tevent w1) (new_tevents w w1) ++ [print_txres (xget w1 t)]))
  end.

Fixpoint tsrun (w : txw) (qs : list nat) (ops : list tsop) : list str :=
  match ops with
  | [] => []
  | o :: rest => let '(w1, qs1, out) := tsstep w qs o in out :: tsrun w1 qs1 rest
  end.

Definition dec_tsop (s : sexp) : option tsop :=
  match s with
  | Atom a =>
      if str_eqb a (lit "q") then Some TSQuery
      else if str_eqb a (lit "commit") then Some TSCommit
      else if str_eqb a (lit "rollback") then Some TSRollback
      else None
  | SList [Atom k; Atom n] =>
      if str_eqb k (lit "run") then option_map TSRun (atom_nat n) else None
  | _ => None
  end.

Definition run_tx_line (req : list sexp) : option str :=
  match req with
  | [Atom cmd; SList ops] =>
      if str_eqb cmd (lit "tx") then
        obind (omap dec_tsop ops) (fun ops' => Some (concat_sep sp (tsrun (x0 0) [] ops')))
      else None
  | _ => None
  end.
