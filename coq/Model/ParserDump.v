(* Canonical one-line dump of a parse result; the Go hook VerifDump prints the
   same format for the implementation.  Definitions only. *)
From Coq Require Import String.
From SQLair.Base Require Import Bytes Sexp.
From SQLair.Model Require Import Parser.

Definition dump_column (c : column) : str :=
  match c with
  | BasicCol t col => paren [lit "c"; xhex t; xhex col]
  | FuncCol raw => paren [lit "f"; xhex raw]
  end.
Definition dump_macc (m : macc) : str := paren [lit "m"; xhex (tname m); xhex (mname m)].
Definition dump_value (v : value) : str :=
  match v with
  | VMem m => dump_macc m
  | VLit s => paren [lit "l"; xhex s]
  end.

Definition dump_expr (e : expr) : str :=
  match e with
  | Bypass c => paren [lit "B"; xhex c]
  | MemberIn raw m => paren [lit "IN"; xhex raw; dump_macc m]
  | SliceIn raw t => paren [lit "SL"; xhex raw; xhex t]
  | AsteriskIns raw srcs => paren [lit "AI"; xhex raw; paren (map dump_macc srcs)]
  | ColumnsIns raw cols srcs =>
      paren [lit "CI"; xhex raw; paren (map dump_column cols); paren (map dump_macc srcs)]
  | BasicIns raw cols vals =>
      paren [lit "BI"; xhex raw; paren (map dump_column cols); paren (map dump_value vals)]
  | Output raw cols targets =>
      paren [lit "OUT"; xhex raw; paren (map dump_column cols); paren (map dump_macc targets)]
  end.

Definition ekind_name (k : ekind) : str :=
  lit match k with
  | EMissingQuote => "missing-quote"
  | EMissingParen => "missing-paren"
  | ESliceInOutput => "slice-in-output"
  | ESliceInOutput2 => "slice-in-output2"
  | EInvalidSlice => "invalid-slice"
  | EUnqualified => "unqualified"
  | EInvalidSuffix => "invalid-suffix"
  | EInvalidInList => "invalid-in-list"
  | EMissingParens => "missing-parens"
  | EMissingParensAS => "missing-parens-as"
  | EUnexpectedParensAS => "unexpected-parens-as"
  | EFuncIntoStar => "func-into-star"
  | EStarInput => "star-input"
  | EMissingParensValues => "missing-parens-values"
  | EFuel => "OUT-OF-FUEL"
  end%string.

Definition dump_parse (r : res (list expr)) : str :=
  match r with
  | Ok es => concat_sep sp (lit "OK" :: map dump_expr es)
  | No => lit "NO"
  | Err e =>
      concat_sep sp [lit "ERR"; itoa_nat (eline e); itoa_nat (ecol e); ekind_name (ekind_of e);
                     xhex (epayload e); if positioned e then lit "pos" else lit "nopos"]
  end.
