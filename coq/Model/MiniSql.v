(* A miniature SQL engine, just large enough to state the insert/select round
   trip (C17).  This file is *environment*: it specifies what a database does
   with the statements sqlair generates, it is not part of sqlair.

   A table is the list of its rows in insertion order; a row maps column
   names to driver values ([cell] of Scan.v).  Columns are untyped, as a
   SQLite column without declared type: a column an INSERT does not mention
   holds NULL.  Definitions only. *)
From SQLair.Base Require Import Bytes.
From SQLair.Model Require Import Reflect Scan.

Definition row := list (str * cell).
Definition table := list row.

(* INSERT INTO t (cols) VALUES (tuple), (tuple), ... : one new row per tuple,
   appended in order *)
Definition mini_insert (cols : list str) (tuples : list (list cell)) (tbl : table) : table :=
  tbl ++ map (fun tuple => combine cols tuple) tuples.

Fixpoint row_get (r : row) (c : str) : cell :=
  match r with
  | [] => CNull                                   (* column default *)
  | (c', x) :: r' => if str_eqb c c' then x else row_get r' c
  end.

(* SELECT cols FROM t : per row, in table order, the cells of the named
   columns *)
Definition mini_select (cols : list str) (tbl : table) : list (list cell) :=
  map (fun r => map (row_get r) cols) tbl.

(* What database/sql hands to the driver for a parameter value (the default
   converter on the value tree): a non-container value as itself, a nil
   pointer as NULL, a pointer as what it points to; anything else is an
   unsupported parameter. *)
Fixpoint to_cell (v : val) : option cell :=
  match v with
  | VLeaf id _ => Some (CInt id)
  | VNilPtr => Some CNull
  | VPtr v' => to_cell v'
  | _ => None
  end.
