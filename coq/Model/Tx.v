(* Model of the TX half of sqlair.go (Begin, TX.Query, Commit, Rollback) on top
   of a specification of database/sql's Tx (environment): one transaction, any
   number of threads calling Query / run / Commit / Rollback, at atomic-step
   granularity (the isDone read, the setDone CAS and each database/sql call
   are separate steps, so every interleaving of the Go code is a step list).
   Definitions only. *)
From SQLair.Base Require Import Bytes.

Inductive txerr := TxDone | TxOther (n : nat).

Inductive tphase :=
| TIdle                      (* nothing started *)
| TBuilt (ok : bool)         (* TX.Query returned: ok = no ErrTXDone stored in the Query *)
| TRan (r : option txerr)    (* the query was run: result *)
| TClaimed (commit : bool)   (* setDone succeeded, the database/sql call has not happened yet *)
| TReturned (commit : bool) (r : option txerr).   (* Commit / Rollback returned *)

Inductive tevent :=
| TEvExec (t : nat) (conn : nat)      (* a statement executed, on this connection *)
| TEvCommit (t : nat) (conn : nat)
| TEvRollback (t : nat) (conn : nat).

Record txw := {
  x_done : bool;             (* sqlair: tx.done *)
  x_finished : bool;         (* database/sql: the sql.Tx has been committed or rolled back *)
  x_conn : nat;              (* the connection BEGIN was sent on *)
  x_threads : list tphase;
  x_log : list tevent
}.

Inductive top :=
| TSpawn                       (* a new thread appears *)
| TBuild (t : nat)             (* TX.Query: reads isDone, binds inputs *)
| TRun (t : nat)               (* a retrieval method runs the query on the transaction *)
| TCommitCAS (t : nat) | TRollbackCAS (t : nat)      (* setDone *)
| TFinishCall (t : nat).       (* sqltx.Commit() / sqltx.Rollback() *)

Definition xget (w : txw) (t : nat) : tphase := nth t (x_threads w) TIdle.

Fixpoint xset {A} (l : list A) (n : nat) (v : A) : list A :=
  match l, n with
  | [], _ => []
  | _ :: l', O => v :: l'
  | x :: l', S n' => x :: xset l' n' v
  end.

Definition x_with (w : txw) (done finished : bool) (ths : list tphase) (log : list tevent) : txw :=
  {| x_done := done; x_finished := finished; x_conn := x_conn w; x_threads := ths; x_log := log |}.

Definition top_thread (o : top) : option nat :=
  match o with
  | TSpawn => None
  | TBuild t | TRun t | TCommitCAS t | TRollbackCAS t | TFinishCall t => Some t
  end.

Definition xstep_raw (w : txw) (o : top) : txw :=
  match o with
  | TSpawn => x_with w (x_done w) (x_finished w) (x_threads w ++ [TIdle]) (x_log w)
  | TBuild t =>
      match xget w t with
      | TIdle => x_with w (x_done w) (x_finished w) (xset (x_threads w) t (TBuilt (negb (x_done w)))) (x_log w)
      | _ => w
      end
  | TRun t =>
      match xget w t with
      | TBuilt true =>
          (* database/sql: a finished sql.Tx returns ErrTxDone without any driver call;
             otherwise the statement runs on the transaction's connection *)
          if x_finished w then
            x_with w (x_done w) (x_finished w) (xset (x_threads w) t (TRan (Some TxDone))) (x_log w)
          else
            x_with w (x_done w) (x_finished w) (xset (x_threads w) t (TRan None))
                   (x_log w ++ [TEvExec t (x_conn w)])
      | TBuilt false =>
          x_with w (x_done w) (x_finished w) (xset (x_threads w) t (TRan (Some TxDone))) (x_log w)
      | _ => w
      end
  | TCommitCAS t =>
      match xget w t with
      | TIdle =>
          if x_done w then x_with w true (x_finished w) (xset (x_threads w) t (TReturned true (Some TxDone))) (x_log w)
          else x_with w true (x_finished w) (xset (x_threads w) t (TClaimed true)) (x_log w)
      | _ => w
      end
  | TRollbackCAS t =>
      match xget w t with
      | TIdle =>
          if x_done w then x_with w true (x_finished w) (xset (x_threads w) t (TReturned false (Some TxDone))) (x_log w)
          else x_with w true (x_finished w) (xset (x_threads w) t (TClaimed false)) (x_log w)
      | _ => w
      end
  | TFinishCall t =>
      match xget w t with
      | TClaimed commit =>
          if x_finished w then
            x_with w (x_done w) true (xset (x_threads w) t (TReturned commit (Some TxDone))) (x_log w)
          else
            x_with w (x_done w) true (xset (x_threads w) t (TReturned commit None))
                   (x_log w ++ [if commit then TEvCommit t (x_conn w) else TEvRollback t (x_conn w)])
      | _ => w
      end
  end.

(* operations of threads that do not exist are no-ops *)
Definition xstep (w : txw) (o : top) : txw :=
  match top_thread o with
  | Some t => if Nat.ltb t (length (x_threads w)) then xstep_raw w o else w
  | None => xstep_raw w o
  end.

Definition xrun (w : txw) (ops : list top) : txw := fold_left xstep ops w.

Definition x0 (conn : nat) : txw :=
  {| x_done := false; x_finished := false; x_conn := conn; x_threads := []; x_log := [] |}.

Definition is_finish (e : tevent) : bool :=
  match e with TEvCommit _ _ | TEvRollback _ _ => true | _ => false end.
