(* Model of the result-retrieval half of sqlair.go: Query.Iter, Iterator.Next /
   Get / Close, Query.Get, Query.GetAll, Query.Run, written statement by
   statement, on top of a specification of database/sql's Rows (environment).

   Rows and destinations are abstract here (a row either scans or fails to
   convert; a destination list is valid or is rejected by ScanArgs with some
   error); the value-level behaviour of ScanArgs is in Scan.v.
   Definitions only. *)
From SQLair.Base Require Import Bytes.

(* ------------------------------------------------------------- errors -- *)

Inductive err :=
| ErrDriver (n : nat)        (* an error injected by the driver script, by identity *)
| ErrCtx                     (* the query context's error (cancelled / deadline) *)
| ErrNoRows
| ErrQuery (n : nat)         (* Query.err: error of BindInputs / ErrTXDone, by identity *)
| ErrScanArgs (n : nat)      (* ScanArgs rejected the destinations (kind n) *)
| ErrConvert                 (* rows.Scan could not convert a cell *)
| ErrRowsClosed              (* database/sql: "sql: Rows are closed" *)
| ErrScanBeforeNext          (* database/sql: "sql: Scan called without calling Next" *)
| ErrGetBeforeNext           (* cannot call Get before Next unless getting outcome *)
| ErrIterEnded               (* iteration ended *)
| ErrOutputsNotReferenced    (* output variables provided but not referenced in query *)
| ErrNilOutcome
| ErrSliceArg (n : nat).     (* GetAll: bad slice argument (kind n) *)

Definition err_eqb (a b : err) : bool :=
  match a, b with
  | ErrDriver x, ErrDriver y | ErrQuery x, ErrQuery y | ErrScanArgs x, ErrScanArgs y
  | ErrSliceArg x, ErrSliceArg y => Nat.eqb x y
  | ErrCtx, ErrCtx | ErrNoRows, ErrNoRows | ErrConvert, ErrConvert | ErrRowsClosed, ErrRowsClosed
  | ErrScanBeforeNext, ErrScanBeforeNext | ErrGetBeforeNext, ErrGetBeforeNext
  | ErrIterEnded, ErrIterEnded | ErrOutputsNotReferenced, ErrOutputsNotReferenced
  | ErrNilOutcome, ErrNilOutcome => true
  | _, _ => false
  end.

(* ------------------------------------------- environment: sql.Rows -- *)

(* a row of the script: its identity and whether rows.Scan can convert it *)
Record row := { row_id : nat; row_ok : bool }.

(* rs.lasterr: io.EOF or an error *)
Inductive lerr := LEOF | LErr (e : err).

(* database/sql.Rows (Go 1.23: lasterr, hitEOF, contextDone, closed, lastcols) *)
Record rows := {
  r_pending : list row;          (* rows the driver has not delivered yet *)
  r_fail : option (nat * nat);   (* (k, e): the driver's Next fails with error e after k more rows *)
  r_close_err : option nat;      (* the driver's Rows.Close fails with this error *)
  r_more : bool;                 (* the driver reports a further result set after this one
                                    (driver.RowsNextResultSet): database/sql then does not close
                                    the rows when this result set ends *)
  r_closed : bool;
  r_lasterr : option lerr;
  r_hiteof : bool;               (* hitEOF: Next closed the rows itself *)
  r_ctxdone : bool;              (* contextDone: the query's context was cancelled while the rows were open *)
  r_current : option row;        (* lastcols *)
  r_driver_closes : nat          (* how often the driver's Rows.Close was called *)
}.

Definition rows_with (r : rows) (pending : list row) (fail : option (nat * nat)) (closed : bool)
  (lasterr : option lerr) (eof : bool) (current : option row) (closes : nat) : rows :=
  {| r_pending := pending; r_fail := fail; r_close_err := r_close_err r; r_more := r_more r;
     r_closed := closed; r_lasterr := lasterr; r_hiteof := eof; r_ctxdone := r_ctxdone r;
     r_current := current; r_driver_closes := closes |}.

(* lasterrOrErrLocked *)
Definition lasterr_or (r : rows) (e : option err) : option err :=
  match r_lasterr r with Some (LErr x) => Some x | _ => e end.

(* rs.close(err): first close wins; returns the driver's close error *)
Definition rows_close_with (r : rows) (e : option err) : rows * option err :=
  if r_closed r then (r, None)
  else
    let lasterr1 := match r_lasterr r with None => option_map LErr e | x => x end in
    let cerr := option_map ErrDriver (r_close_err r) in
    (* rs.lasterr = rs.lasterrOrErrLocked(err), err being the driver's close error *)
    let lasterr2 := match lasterr1 with Some (LErr x) => Some (LErr x) | _ => option_map LErr cerr end in
    (rows_with r (r_pending r) (r_fail r) true lasterr2 (r_hiteof r) (r_current r) (S (r_driver_closes r)),
     cerr).

(* Rows.Close *)
Definition rows_close (r : rows) : rows * option err := rows_close_with r None.

Definition null_row : row := {| row_id := 0; row_ok := true |}.

Definition set_hiteof (r : rows) : rows :=
  rows_with r (r_pending r) (r_fail r) (r_closed r) (r_lasterr r) true (r_current r) (r_driver_closes r).

(* Rows.Next *)
Definition rows_next (r : rows) : rows * bool :=
  if r_ctxdone r then (r, false)
  else if r_closed r then (r, false)
  else
    (* lastcols is allocated before the driver is asked *)
    let cur0 := match r_current r with Some x => Some x | None => Some null_row end in
    match r_fail r with
    | Some (O, e) =>
        (* a driver error: the rows are closed *)
        let r1 := rows_with r (r_pending r) None false (Some (LErr (ErrDriver e))) (r_hiteof r) cur0
                    (r_driver_closes r) in
        (set_hiteof (fst (rows_close r1)), false)
    | _ =>
        let fail' := match r_fail r with Some (S k, e) => Some (k, e) | x => x end in
        match r_pending r with
        | [] =>
            (* io.EOF: the rows are closed unless the driver has another result set *)
            let r1 := rows_with r [] (r_fail r) false (Some LEOF) (r_hiteof r) cur0 (r_driver_closes r) in
            if r_more r then (r1, false) else (set_hiteof (fst (rows_close r1)), false)
        | x :: rest =>
            (rows_with r rest fail' false None (r_hiteof r) (Some x) (r_driver_closes r), true)
        end
    end.

(* Rows.Err *)
Definition rows_err (r : rows) : option err :=
  if negb (r_hiteof r) && r_ctxdone r then Some ErrCtx else lasterr_or r None.

(* Rows.Scan: result only (what is stored is in Scan.v) *)
Definition rows_scan (r : rows) : option err :=
  match r_lasterr r with
  | Some (LErr e) => Some e
  | _ =>
      if r_closed r then Some ErrRowsClosed
      else
        match r_current r with
        | None => Some ErrScanBeforeNext
        | Some x => if row_ok x then None else Some ErrConvert
        end
  end.

(* the context of the query is cancelled while the rows are open: database/sql
   records it and closes the rows with the context's error (asynchronously;
   here an atomic step).  Nothing happens once the rows are closed. *)
Definition rows_cancel (r : rows) : rows :=
  if r_closed r then r
  else
    let r1 := {| r_pending := r_pending r; r_fail := r_fail r; r_close_err := r_close_err r; r_more := r_more r;
                 r_closed := false; r_lasterr := r_lasterr r; r_hiteof := r_hiteof r; r_ctxdone := true;
                 r_current := r_current r; r_driver_closes := r_driver_closes r |} in
    fst (rows_close_with r1 (Some ErrCtx)).

(* Rows.Columns fails once the rows are closed *)
Definition rows_columns (r : rows) : option err :=
  if r_closed r then lasterr_or r (Some ErrRowsClosed) else None.

(* ------------------------------------------------ sqlair: Iterator -- *)

(* what q.run returned *)
Inductive runres :=
| RunErr (e : err)
| RunRows (r : rows)
| RunResult (id : nat).

Record iter := {
  it_hasout : bool;          (* pq.HasOutputs() *)
  it_rows : option rows;     (* iter.rows (nil after Close) *)
  it_err : option err;
  it_started : bool;
  it_result : option nat;    (* iter.result *)
  it_dead : option rows      (* model only: the rows after iter.rows was set to nil, for accounting *)
}.

(* Query.Iter, given q.err and the result of q.run *)
Definition query_iter (qerr : option err) (hasout : bool) (run : runres) : iter :=
  match qerr with
  | Some e => {| it_hasout := hasout; it_rows := None; it_err := Some e; it_started := false;
                 it_result := None; it_dead := None |}
  | None =>
      match run with
      | RunErr e => {| it_hasout := hasout; it_rows := None; it_err := Some e; it_started := false;
                       it_result := None; it_dead := None |}
      | RunRows r =>
          if hasout then
            match rows_columns r with
            | Some e => {| it_hasout := hasout; it_rows := None; it_err := Some e; it_started := false;
                           it_result := None; it_dead := Some r |}
            | None => {| it_hasout := hasout; it_rows := Some r; it_err := None; it_started := false;
                         it_result := None; it_dead := None |}
            end
          else {| it_hasout := hasout; it_rows := Some r; it_err := None; it_started := false;
                  it_result := None; it_dead := None |}
      | RunResult id => {| it_hasout := hasout; it_rows := None; it_err := None; it_started := false;
                           it_result := Some id; it_dead := None |}
      end
  end.

Definition it_with (i : iter) (rws : option rows) (e : option err) (started : bool) (dead : option rows) : iter :=
  {| it_hasout := it_hasout i; it_rows := rws; it_err := e; it_started := started;
     it_result := it_result i; it_dead := dead |}.

(* Iterator.Next *)
Definition iter_next (i : iter) : iter * bool :=
  let i1 := it_with i (it_rows i) (it_err i) true (it_dead i) in
  match it_err i, it_rows i with
  | Some _, _ => (i1, false)
  | None, None => (i1, false)
  | None, Some r =>
      let '(r', b) := rows_next r in
      (it_with i (Some r') None true (it_dead i), b)
  end.

(* the argument list given to Iterator.Get *)
Inductive getargs :=
| GValid                     (* destinations ScanArgs accepts *)
| GOutcome                   (* exactly one argument, a non-nil *Outcome *)
| GNilOutcome                (* exactly one argument, a nil *Outcome *)
| GInvalid (n : nat).        (* destinations ScanArgs rejects with error kind n *)

(* what a successful Get stored *)
Inductive stored :=
| StNothing
| StRow (id : nat)           (* the destinations now hold this row *)
| StOutcome (result : option nat).

(* Iterator.Get *)
Definition iter_get (i : iter) (a : getargs) : iter * option err * stored :=
  match it_err i with
  | Some e => (i, Some e, StNothing)
  | None =>
      if negb (it_started i) then
        match a with
        | GOutcome => (i, None, StOutcome (it_result i))
        | GNilOutcome => (i, Some ErrNilOutcome, StNothing)
        | _ => (i, Some ErrGetBeforeNext, StNothing)
        end
      else
        match it_rows i with
        | None => (i, Some ErrIterEnded, StNothing)
        | Some r =>
            match a with
            | GInvalid n => (i, Some (ErrScanArgs n), StNothing)
            | GNilOutcome => (i, Some (ErrScanArgs 0), StNothing)   (* ValidateOutputs: nil pointer *)
            | GOutcome => (i, Some (ErrScanArgs 1), StNothing)      (* *Outcome is not a destination *)
            | GValid =>
                match rows_scan r with
                | Some e => (i, Some e, StNothing)
                | None =>
                    (i, None, match r_current r with Some x => StRow (row_id x) | None => StNothing end)
                end
            end
        end
  end.

(* Iterator.Close (with the F4/F5 fix) *)
Definition iter_close (i : iter) : iter * option err :=
  match it_rows i with
  | None => (it_with i None (it_err i) true (it_dead i), it_err i)
  | Some r =>
      let '(r', cerr) := rows_close r in
      let e := match rows_err r' with Some x => Some x | None => cerr end in
      match it_err i with
      | Some ie => (it_with i None (Some ie) true (Some r'), Some ie)
      | None => (it_with i None e true (Some r'), e)
      end
  end.

(* the rows object of an iterator wherever it is now *)
Definition iter_rows_now (i : iter) : option rows :=
  match it_rows i with Some r => Some r | None => it_dead i end.

(* ------------------------------------------------------ Query.Get/Run -- *)

(* the caller's arguments to Query.Get *)
Record get_call := {
  g_outcome : option bool;     (* first argument is a *Outcome: Some nonnil? *)
  g_dests : option getargs     (* remaining arguments: None = none given *)
}.

Record get_result := {
  gr_err : option err;
  gr_row : option nat;         (* row stored into the destinations *)
  gr_outcome : option (option nat);  (* what the Outcome was filled with *)
  gr_iter : option iter        (* the iterator the call used, for accounting *)
}.

Definition query_get (qerr : option err) (hasout : bool) (run : runres) (c : get_call) : get_result :=
  match qerr with
  | Some e => {| gr_err := Some e; gr_row := None; gr_outcome := None; gr_iter := None |}
  | None =>
      if negb hasout && (match g_dests c with Some _ => true | None => false end) then
        {| gr_err := Some ErrOutputsNotReferenced; gr_row := None; gr_outcome := None; gr_iter := None |}
      else
        let i0 := query_iter None hasout run in
        let '(i1, err1, oc) :=
          match g_outcome c with
          | Some true =>
              let '(i, e, st) := iter_get i0 GOutcome in
              (i, e, match st with StOutcome r => Some r | _ => None end)
          | _ => (i0, None, None)
          end in
        match err1 with
        | None =>
            let '(i2, more) := iter_next i1 in
            if negb more then
              let '(i3, cerr) := iter_close i2 in
              {| gr_err := match cerr with
                           | Some e => Some e
                           | None => if hasout then Some ErrNoRows else None
                           end;
                 gr_row := None; gr_outcome := oc; gr_iter := Some i3 |}
            else
              let '(i3, gerr, st) :=
                iter_get i2 (match g_dests c with Some a => a | None => GInvalid 2 end) in
              let '(i4, cerr) := iter_close i3 in
              {| gr_err := match gerr with Some e => Some e | None => cerr end;
                 gr_row := match st with StRow id => Some id | _ => None end;
                 gr_outcome := oc; gr_iter := Some i4 |}
        | Some e =>
            let '(i2, cerr) := iter_close i1 in
            {| gr_err := Some e; gr_row := None; gr_outcome := oc; gr_iter := Some i2 |}
        end
  end.

(* ---------------------------------------------------------- GetAll -- *)

Record getall_call := {
  ga_outcome : option bool;          (* first argument is a *Outcome: Some nonnil? *)
  ga_bad_slice : option nat;         (* a slice argument of the wrong form (kind), found before running *)
  ga_has_slices : bool;              (* at least one slice argument *)
  ga_bad_elem : option nat;          (* element type not struct / *struct / map (kind), found at the first row *)
  ga_dests : getargs                 (* how ScanArgs judges the per-row destinations *)
}.

Record getall_result := {
  gar_err : option err;
  gar_appended : option (list nat);  (* Some ids: the caller's slices were assigned old ++ ids; None: untouched *)
  gar_iter : option iter
}.

Fixpoint getall_loop (fuel : nat) (i : iter) (c : getall_call) (acc : list nat) (any : bool)
  : iter * option err * list nat * bool :=
  match fuel with
  | O => (i, None, acc, any)
  | S f =>
      let '(i1, more) := iter_next i in
      if negb more then (i1, None, acc, any)
      else
        match ga_bad_elem c with
        | Some k => let '(i2, _) := iter_close i1 in (i2, Some (ErrSliceArg k), acc, true)
        | None =>
            let '(i2, gerr, st) := iter_get i1 (ga_dests c) in
            match gerr with
            | Some e => let '(i3, _) := iter_close i2 in (i3, Some e, acc, true)
            | None =>
                getall_loop f i2 c (acc ++ match st with StRow id => [id] | _ => [] end) true
            end
        end
  end.

Definition rows_total (run : runres) : nat :=
  match run with RunRows r => length (r_pending r) | _ => 0 end.

(* the part of GetAll that runs the query *)
Definition getall_body (hasout : bool) (run : runres) (c : getall_call) : getall_result :=
  let i0 := query_iter None hasout run in
  let '(i1, lerr, ids, any) := getall_loop (S (S (rows_total run))) i0 c [] false in
  match lerr with
  | Some e => {| gar_err := Some e; gar_appended := None; gar_iter := Some i1 |}
  | None =>
      let '(i2, cerr) := iter_close i1 in
      match cerr with
      | Some e => {| gar_err := Some e; gar_appended := None; gar_iter := Some i2 |}
      | None =>
          if negb any && hasout then
            {| gar_err := Some ErrNoRows; gar_appended := None; gar_iter := Some i2 |}
          else {| gar_err := None; gar_appended := Some ids; gar_iter := Some i2 |}
      end
  end.

Definition query_getall (qerr : option err) (hasout : bool) (run : runres) (c : getall_call)
  : getall_result :=
  match qerr with
  | Some e => {| gar_err := Some e; gar_appended := None; gar_iter := None |}
  | None =>
      match ga_outcome c with
      | Some false => {| gar_err := Some ErrNilOutcome; gar_appended := None; gar_iter := None |}
      | _ =>
          if negb hasout && ga_has_slices c then
            {| gar_err := Some ErrOutputsNotReferenced; gar_appended := None; gar_iter := None |}
          else
            match ga_bad_slice c with
            | Some k => {| gar_err := Some (ErrSliceArg k); gar_appended := None; gar_iter := None |}
            | None => getall_body hasout run c
            end
      end
  end.

(* --------------------------------------------- iterator op sequences -- *)

Inductive iop :=
| OpNext
| OpGet (a : getargs)
| OpClose
| OpCancel.      (* environment: the query's context is cancelled now *)

Inductive iout :=
| OutBool (b : bool)
| OutErr (e : option err) (st : stored)
| OutNone.

Definition iter_step (i : iter) (o : iop) : iter * iout :=
  match o with
  | OpNext => let '(i', b) := iter_next i in (i', OutBool b)
  | OpGet a => let '(i', e, st) := iter_get i a in (i', OutErr e st)
  | OpClose => let '(i', e) := iter_close i in (i', OutErr e StNothing)
  | OpCancel =>
      (match it_rows i with
       | Some r => it_with i (Some (rows_cancel r)) (it_err i) (it_started i) (it_dead i)
       | None => match it_dead i with
                 | Some r => it_with i None (it_err i) (it_started i) (Some (rows_cancel r))
                 | None => i
                 end
       end, OutNone)
  end.

Fixpoint iter_run (i : iter) (ops : list iop) : iter * list iout :=
  match ops with
  | [] => (i, [])
  | o :: rest =>
      let '(i1, out) := iter_step i o in
      let '(i2, outs) := iter_run i1 rest in
      (i2, out :: outs)
  end.
