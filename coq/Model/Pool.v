(* A connection pool of fixed capacity on top of Iter.v (database/sql.DB with
   SetMaxOpenConns(cap)), and the observable history of an iterator session.

   Environment fact (validated by the differential run against
   sql.DB.Stats().InUse): a result set holds its pooled connection from the
   moment the query is run until the result set is closed; a statement without
   result set (RunResult) and a failed run (RunErr) hold nothing afterwards.
   Definitions only. *)
From SQLair.Base Require Import Bytes.
From SQLair.Model Require Import Iter.

(* the connections an iterator holds: one while its result set exists and is
   not closed (wherever the rows object is now: iter.rows or dropped) *)
Definition conns_held (i : iter) : nat :=
  match iter_rows_now i with
  | Some r => if r_closed r then 0 else 1
  | None => 0
  end.

Definition conns_held_opt (i : option iter) : nat :=
  match i with Some it => conns_held it | None => 0 end.

(* One call of the library by the application, with the result script the
   driver will play for it.  Query.Run is Query.Get without destinations
   (g_dests = None).  An iterator session is Query.Iter, any calls on the
   iterator, and the Close the documentation requires. *)
Inductive call :=
| CGet (qerr : option err) (hasout : bool) (run : runres) (c : get_call)
| CGetAll (qerr : option err) (hasout : bool) (run : runres) (c : getall_call)
| CIter (qerr : option err) (hasout : bool) (run : runres) (ops : list iop).

Definition call_qerr (c : call) : option err :=
  match c with CGet q _ _ _ | CGetAll q _ _ _ | CIter q _ _ _ => q end.

Definition call_run (c : call) : runres :=
  match c with CGet _ _ r _ | CGetAll _ _ r _ | CIter _ _ r _ => r end.

(* the iterator the call leaves behind (None: the call returned before it made one) *)
Definition call_final (c : call) : option iter :=
  match c with
  | CGet q h r g => gr_iter (query_get q h r g)
  | CGetAll q h r g => gar_iter (query_getall q h r g)
  | CIter q h r ops => Some (fst (iter_run (query_iter q h r) (ops ++ [OpClose])))
  end.

(* what the call still holds when it has returned *)
Definition call_held (c : call) : nat := conns_held_opt (call_final c).

(* The pool.  A call that gets as far as running the statement (Query.err is
   nil; this over-approximates: Get / GetAll have a few argument checks before
   the run) needs a free connection: with none free it blocks.  Otherwise it
   proceeds and afterwards the pool has lost what the call still holds. *)
Definition pool_acquire (cap in_use : nat) (runs : bool) (held_after : nat) : option nat :=
  if runs then
    if Nat.leb cap in_use then None else Some (in_use + held_after)
  else Some in_use.

Definition call_runs (c : call) : bool :=
  match call_qerr c with None => true | Some _ => false end.

Definition pool_step (cap in_use : nat) (c : call) : option nat :=
  pool_acquire cap in_use (call_runs c) (call_held c).

Fixpoint pool_run_from (cap in_use : nat) (calls : list call) : option nat :=
  match calls with
  | [] => Some in_use
  | c :: rest =>
      match pool_step cap in_use c with
      | None => None                      (* this call blocks for ever *)
      | Some n => pool_run_from cap n rest
      end
  end.

Definition pool_run (cap : nat) (calls : list call) : option nat := pool_run_from cap 0 calls.

(* an iterator session the application abandons without Close *)
Definition session_no_close (qerr : option err) (hasout : bool) (run : runres) (ops : list iop) : iter :=
  fst (iter_run (query_iter qerr hasout run) ops).

(* ------------------------------------- history of an iterator session -- *)

(* the calls made on an iterator with what each returned *)
Definition history (i : iter) (ops : list iop) : list (iop * iout) :=
  combine ops (snd (iter_run i ops)).

(* the number of Next calls that returned true *)
Fixpoint nexts_true (h : list (iop * iout)) : nat :=
  match h with
  | [] => 0
  | (OpNext, OutBool true) :: t => S (nexts_true t)
  | _ :: t => nexts_true t
  end.

(* Walk the history counting the Next calls that returned true; every Get
   with valid destinations that succeeded is listed as (k, id): id is the row
   the destinations received, k the number of successful Next calls before it. *)
Fixpoint trace_from (k : nat) (h : list (iop * iout)) : list (nat * nat) :=
  match h with
  | [] => []
  | (OpNext, OutBool true) :: t => trace_from (S k) t
  | (OpGet GValid, OutErr None (StRow id)) :: t => (k, id) :: trace_from k t
  | _ :: t => trace_from k t
  end.

Definition trace (h : list (iop * iout)) : list (nat * nat) := trace_from 0 h.

(* the rows handed to the application, in the order it received them *)
Definition delivered (h : list (iop * iout)) : list nat := map snd (trace h).

(* model state, for cross-checking the history: the row each successful Next
   made current in the rows object (lastcols) *)
Fixpoint made_current (i : iter) (ops : list iop) : list nat :=
  match ops with
  | [] => []
  | o :: rest =>
      let '(i1, out) := iter_step i o in
      match o, out with
      | OpNext, OutBool true =>
          match it_rows i1 with
          | Some r => match r_current r with Some x => [row_id x] | None => [] end
          | None => []
          end
      | _, _ => []
      end ++ made_current i1 rest
  end.
