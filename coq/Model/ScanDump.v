(* Decoding of scan requests and printing of their results for the
   correspondence check.  Definitions only. *)
From Coq Require Import String.
From SQLair.Base Require Import Bytes Sexp.
From SQLair.Model Require Import Reflect TypeInfo Parser Bind BindDump Scan.

Definition dec_cell (s : sexp) : option cell :=
  match s with
  | Atom a => if str_eqb a (lit "null") then Some CNull else option_map CInt (atom_N a)
  | _ => None
  end.

Definition dec_col (s : sexp) : option str :=
  match s with Atom a => unxhex a | _ => None end.

(* maps are printed with their keys in byte order, as the harness does *)
Fixpoint insert_entry {A} (e : str * A) (l : list (str * A)) : list (str * A) :=
  match l with
  | [] => [e]
  | y :: l' => if str_leb (fst e) (fst y) then e :: l else y :: insert_entry e l'
  end.
Definition sort_entries {A} (l : list (str * A)) : list (str * A) := fold_right insert_entry [] l.

Fixpoint print_dest (v : val) : str :=
  match v with
  | VLeaf id z => if z then lit "z" else lit "l" ++ itoa id
  | VNilPtr => lit "nil"
  | VPtr v' => lit "p(" ++ print_dest v' ++ lit ")"
  | VStruct fs => lit "s(" ++ concat_sep (lit ",") (map print_dest fs) ++ lit ")"
  | VMap n es =>
      if n then lit "nilmap"
      else lit "m(" ++ concat_sep (lit ",")
             (map (fun '(k, s) => xhex k ++ lit "=" ++ s) (sort_entries (map (fun '(k, v') => (k, print_dest v')) es))) ++ lit ")"
  | VSlice n es => if n then lit "nilslice" else lit "v(" ++ concat_sep (lit ",") (map print_dest es) ++ lit ")"
  | VNilIface => lit "niliface"
  end.

Definition print_dests (m : t2v) : str := concat_sep sp (map (fun '(_, v) => print_dest v) m).

Definition run_scan (q : str) (env : tenv) (samples : list (option tid)) (inargs : list arg)
  (cols : list str) (cells : list cell) (dests : list arg) : str :=
  match parse q with
  | Ok es =>
      match bind_types env es samples with
      | BErr e => lit "PREPARE-ERR " ++ berr_name e
      | BOk tbe =>
          match bind_inputs env tbe inargs with
          | BErr e => lit "QUERY-ERR " ++ berr_name e
          | BOk p =>
              if negb (has_outputs p) then lit "NO-OUTPUTS"
              else
                match scan_row env (pq_outputs p) cols cells dests with
                | (_, Some (SBind e)) => lit "SCAN-ERR " ++ berr_name e
                | (Some m, Some SConv) => lit "SCAN-ERR conv " ++ print_dests m
                | (Some m, None) => lit "SCAN-OK " ++ print_dests m
                | (None, _) => lit "SCAN-ERR ?"
                end
          end
      end
  | _ => lit "PARSE-ERR"
  end.

Definition dec_selem (s : sexp) : option selem :=
  match s with
  | SList [Atom k; Atom a; Atom b] =>
      if str_eqb k (lit "struct") then obind (atom_nat a) (fun pt => obind (atom_nat b) (fun t => Some (SEStruct pt t)))
      else if str_eqb k (lit "ptr") then obind (atom_nat a) (fun pt => obind (atom_nat b) (fun t => Some (SEPtrStruct pt t)))
      else None
  | SList [Atom k; Atom a] =>
      if str_eqb k (lit "map") then obind (atom_nat a) (fun mt => Some (SEMap mt)) else None
  | _ => None
  end.

Definition dec_cells (s : sexp) : option (list cell) :=
  match s with SList l => omap dec_cell l | _ => None end.

(* one printed row: the elements appended to each destination slice *)
Definition print_row (vals : list val) : str := paren (map print_dest vals).

Definition run_scanall (q : str) (env : tenv) (samples : list (option tid)) (inargs : list arg)
  (cols : list str) (rows : list (list cell)) (elems : list selem) : str :=
  match parse q with
  | Ok es =>
      match bind_types env es samples with
      | BErr e => lit "PREPARE-ERR " ++ berr_name e
      | BOk tbe =>
          match bind_inputs env tbe inargs with
          | BErr e => lit "QUERY-ERR " ++ berr_name e
          | BOk p =>
              if negb (has_outputs p) then lit "NO-OUTPUTS"
              else
                match rows with
                | [] => lit "NOROWS"
                | _ =>
                    match getall_rows env (pq_outputs p) cols elems rows [] with
                    | SOk acc => concat_sep sp (lit "GETALL-OK" :: map print_row acc)
                    | SErr (SBind e) => lit "GETALL-ERR " ++ berr_name e
                    | SErr SConv => lit "GETALL-ERR conv"
                    end
                end
          end
      end
  | _ => lit "PARSE-ERR"
  end.

Definition run_scan_line (req : list sexp) : option str :=
  match req with
  | [Atom cmd; Atom q; SList types; SList samples; SList inargs; SList cols; SList cells; SList dests] =>
      if str_eqb cmd (lit "scan") then
        match unxhex q, omap dec_tdef types, omap dec_sample samples, omap dec_arg inargs,
              omap dec_col cols, omap dec_cell cells, omap dec_arg dests with
        | Some input, Some env, Some ss, Some ia, Some cs, Some ce, Some ds =>
            Some (run_scan input env ss ia cs ce ds)
        | _, _, _, _, _, _, _ => Some (lit "BAD-REQUEST scan")
        end
      else if str_eqb cmd (lit "scanall") then
        match unxhex q, omap dec_tdef types, omap dec_sample samples, omap dec_arg inargs,
              omap dec_col cols, omap dec_cells cells, omap dec_selem dests with
        | Some input, Some env, Some ss, Some ia, Some cs, Some rs, Some es =>
            Some (run_scanall input env ss ia cs rs es)
        | _, _, _, _, _, _, _ => Some (lit "BAD-REQUEST scanall")
        end
      else None
  | _ => None
  end.
