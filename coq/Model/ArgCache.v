(* Model of the type-information cache of internal/typeinfo (argInfoCache, a
   process-wide map from reflect.Type to ArgInfo guarded by a mutex): getArgInfo
   consults it first; struct and map infos are stored after a successful
   computation; slice infos are returned without caching; errors are not
   cached.  The cache is threaded explicitly.  Definitions only. *)
From SQLair.Base Require Import Bytes.
From SQLair.Model Require Import GenConsts Reflect TypeInfo Parser Bind.

Definition cache := list (tid * arginfo).

Fixpoint cache_get (c : cache) (t : tid) : option arginfo :=
  match c with
  | [] => None
  | (t', i) :: c' => if Nat.eqb t t' then Some i else cache_get c' t
  end.

(* getArgInfo with the cache *)
Definition get_arg_info_c (env : tenv) (c : cache) (t : tid) : cache * bres arginfo :=
  match cache_get c t with
  | Some i => (c, BOk i)
  | None =>
      match get_arg_info env t with
      | BOk i => (match i with SliceInfo _ => c | _ => (t, i) :: c end, BOk i)
      | BErr e => (c, BErr e)
      end
  end.

(* any sequence of getArgInfo calls *)
Fixpoint get_arg_infos_c (env : tenv) (c : cache) (ts : list tid) : cache * list (bres arginfo) :=
  match ts with
  | [] => (c, [])
  | t :: rest =>
      let '(c1, r) := get_arg_info_c env c t in
      let '(c2, rs) := get_arg_infos_c env c1 rest in
      (c2, r :: rs)
  end.

(* GenerateArgInfo over the cache *)
Fixpoint generate_arg_info_c (env : tenv) (c : cache) (samples : list (option tid)) (acc : arginfos)
  : cache * bres arginfos :=
  match samples with
  | [] => (c, BOk acc)
  | None :: _ => (c, BErr ENilSample)
  | Some t :: rest =>
      let d := tget env t in
      match t_kind d with
      | KStruct | KMap | KSlice =>
          match t_name d with
          | [] => (c, BErr EAnonymousSample)
          | name =>
              let '(c1, r) := get_arg_info_c env c t in
              match r with
              | BErr e => (c1, BErr e)
              | BOk info =>
                  match assoc_str name acc with
                  | Some dupe =>
                      (c1, if Nat.eqb (ai_type dupe) t then BErr EDupSample else BErr ESameNameSample)
                  | None => generate_arg_info_c env c1 rest (acc ++ [(name, info)])
                  end
              end
          end
      | KPtr => (c, BErr EPointerSample)
      | KOther _ => (c, BErr EUnsupportedSample)
      end
  end.

(* BindTypes over the cache *)
Definition bind_types_c (env : tenv) (c : cache) (es : list expr) (samples : list (option tid))
  : cache * bres (list texpr) :=
  let '(c1, r) := generate_arg_info_c env c samples [] in
  (c1,
   bbind r (fun infos =>
   bbind (bind_exprs env {| b_infos := infos; b_used := []; b_outused := []; b_exprs := [] |} es)
     (fun b =>
   if forallb (fun '(name, _) => existsb (str_eqb name) (b_used b)) (b_infos b)
   then BOk (b_exprs b) else BErr EUnusedSample))).

(* a sequence of Prepare calls sharing the cache *)
Fixpoint prepares_c (env : tenv) (c : cache) (calls : list (list expr * list (option tid)))
  : cache * list (bres (list texpr)) :=
  match calls with
  | [] => (c, [])
  | (es, samples) :: rest =>
      let '(c1, r) := bind_types_c env c es samples in
      let '(c2, rs) := prepares_c env c1 rest in
      (c2, r :: rs)
  end.
