(* Decoding of iterator / Get / GetAll requests and printing of their results
   for the correspondence check.  Definitions only. *)
From Coq Require Import String.
From SQLair.Base Require Import Bytes Sexp.
From SQLair.Model Require Import Iter BindDump.

Definition is_atom (s : sexp) (name : string) : bool :=
  match s with Atom a => str_eqb a (lit name) | _ => false end.

Definition dec_opt_nat (s : sexp) : option (option nat) :=
  match s with
  | Atom a => if str_eqb a (lit "none") then Some None else option_map Some (atom_nat a)
  | _ => None
  end.

Definition dec_row (s : sexp) : option row :=
  match s with
  | SList [Atom id; Atom ok] =>
      obind (atom_nat id) (fun id' => obind (atom_bool ok) (fun ok' => Some {| row_id := id'; row_ok := ok' |}))
  | _ => None
  end.

Definition dec_run (s : sexp) : option runres :=
  match s with
  | SList [Atom k; Atom n] =>
      if str_eqb k (lit "err") then option_map (fun n' => RunErr (ErrDriver n')) (atom_nat n)
      else if str_eqb k (lit "result") then option_map RunResult (atom_nat n)
      else None
  | SList [Atom k] => if str_eqb k (lit "ctxerr") then Some (RunErr ErrCtx) else None
  | SList [Atom k; SList rws; fail; closeerr; Atom more] =>
      if str_eqb k (lit "rows") then
        obind (atom_bool more) (fun more' =>
        obind (omap dec_row rws) (fun rws' =>
        obind (match fail with
               | Atom a => if str_eqb a (lit "none") then Some None else None
               | SList [Atom kk; Atom e] => obind (atom_nat kk) (fun kk' => obind (atom_nat e) (fun e' => Some (Some (kk', e'))))
               | _ => None
               end) (fun fail' =>
        obind (dec_opt_nat closeerr) (fun ce =>
        Some (RunRows {| r_pending := rws'; r_fail := fail'; r_close_err := ce; r_more := more'; r_closed := false;
                         r_lasterr := None; r_hiteof := false; r_ctxdone := false; r_current := None;
                         r_driver_closes := 0 |})))))
      else None
  | _ => None
  end.

Definition dec_getargs (s : sexp) : option getargs :=
  match s with
  | Atom a =>
      if str_eqb a (lit "valid") then Some GValid
      else if str_eqb a (lit "outcome") then Some GOutcome
      else if str_eqb a (lit "niloutcome") then Some GNilOutcome
      else None
  | SList [Atom k; Atom n] =>
      if str_eqb k (lit "invalid") then option_map GInvalid (atom_nat n) else None
  | _ => None
  end.

Definition dec_iop (s : sexp) : option iop :=
  match s with
  | Atom a =>
      if str_eqb a (lit "next") then Some OpNext
      else if str_eqb a (lit "close") then Some OpClose
      else if str_eqb a (lit "cancel") then Some OpCancel
      else None
  | SList [Atom k; a] => if str_eqb k (lit "get") then option_map OpGet (dec_getargs a) else None
  | _ => None
  end.

Definition dec_qerr (s : sexp) : option (option err) :=
  option_map (option_map ErrQuery) (dec_opt_nat s).

Definition print_err (e : err) : str :=
  match e with
  | ErrDriver n => lit "driver" ++ itoa_nat n
  | ErrCtx => lit "ctx"
  | ErrNoRows => lit "norows"
  | ErrQuery n => lit "query" ++ itoa_nat n
  | ErrScanArgs _ => lit "scanargs"
  | ErrConvert => lit "convert"
  | ErrRowsClosed => lit "rowsclosed"
  | ErrScanBeforeNext => lit "scanbeforenext"
  | ErrGetBeforeNext => lit "getbeforenext"
  | ErrIterEnded => lit "iterended"
  | ErrOutputsNotReferenced => lit "outputsnotreferenced"
  | ErrNilOutcome => lit "niloutcome"
  | ErrSliceArg _ => lit "slicearg"
  end.

Definition print_oerr (e : option err) : str :=
  match e with Some x => print_err x | None => lit "nil" end.

Definition print_onat (n : option nat) : str :=
  match n with Some x => itoa_nat x | None => lit "-" end.

Definition print_stored (s : stored) : str :=
  match s with
  | StNothing => lit "-"
  | StRow id => lit "row" ++ itoa_nat id
  | StOutcome r => lit "outcome" ++ print_onat r
  end.

Definition print_iout (o : iout) : str :=
  match o with
  | OutBool true => lit "T"
  | OutBool false => lit "F"
  | OutErr e st => print_oerr e ++ lit "/" ++ print_stored st
  | OutNone => lit "_"
  end.

(* accounting: driver-level closes of the result set and whether it is closed *)
Definition print_account (i : option iter) : str :=
  match i with
  | None => lit "norows"
  | Some it =>
      match iter_rows_now it with
      | Some r => lit "closes=" ++ itoa_nat (r_driver_closes r) ++ lit ",closed=" ++ (if r_closed r then lit "1" else lit "0")
                  (* database/sql: the result set holds its connection until it is closed *)
                  ++ lit ",inuse=" ++ (if r_closed r then lit "0" else lit "1")
      | None => lit "norows"
      end
  end.

Definition run_iter_req (hasout : bool) (qerr : option err) (run : runres) (ops : list iop) : str :=
  let '(i, outs) := iter_run (query_iter qerr hasout run) ops in
  concat_sep sp (map print_iout outs ++ [print_account (Some i)]).

Definition run_get_req (hasout : bool) (qerr : option err) (run : runres) (c : get_call) : str :=
  let r := query_get qerr hasout run c in
  concat_sep sp [lit "err=" ++ print_oerr (gr_err r); lit "row=" ++ print_onat (gr_row r);
                 lit "outcome=" ++ match gr_outcome r with Some o => print_onat o | None => lit "-" end;
                 print_account (gr_iter r)].

Definition run_getall_req (hasout : bool) (qerr : option err) (run : runres) (c : getall_call) : str :=
  let r := query_getall qerr hasout run c in
  concat_sep sp [lit "err=" ++ print_oerr (gar_err r);
                 lit "appended=" ++ match gar_appended r with
                                    | Some ids => paren (map itoa_nat ids)
                                    | None => lit "untouched"
                                    end;
                 print_account (gar_iter r)].

Definition dec_outcome (s : sexp) : option (option bool) :=
  match s with
  | Atom a =>
      if str_eqb a (lit "none") then Some None
      else if str_eqb a (lit "nonnil") then Some (Some true)
      else if str_eqb a (lit "nil") then Some (Some false)
      else None
  | _ => None
  end.

Definition dec_odests (s : sexp) : option (option getargs) :=
  if is_atom s "none" then Some None else option_map Some (dec_getargs s).

Definition run_iter_line (req : list sexp) : option str :=
  match req with
  | [Atom cmd; Atom ho; qe; run; SList ops] =>
      if str_eqb cmd (lit "iter") then
        obind (atom_bool ho) (fun ho' => obind (dec_qerr qe) (fun qe' => obind (dec_run run) (fun run' =>
        obind (omap dec_iop ops) (fun ops' => Some (run_iter_req ho' qe' run' ops')))))
      else None
  | [Atom cmd; Atom ho; qe; run; oc; dests] =>
      if str_eqb cmd (lit "get") then
        obind (atom_bool ho) (fun ho' => obind (dec_qerr qe) (fun qe' => obind (dec_run run) (fun run' =>
        obind (dec_outcome oc) (fun oc' => obind (dec_odests dests) (fun d' =>
        Some (run_get_req ho' qe' run' {| g_outcome := oc'; g_dests := d' |}))))))
      else None
  | [Atom cmd; Atom ho; qe; run; oc; badslice; Atom hasslices; badelem; dests] =>
      if str_eqb cmd (lit "getall") then
        obind (atom_bool ho) (fun ho' => obind (dec_qerr qe) (fun qe' => obind (dec_run run) (fun run' =>
        obind (dec_outcome oc) (fun oc' => obind (dec_opt_nat badslice) (fun bs =>
        obind (atom_bool hasslices) (fun hs => obind (dec_opt_nat badelem) (fun be =>
        obind (dec_getargs dests) (fun d' =>
        Some (run_getall_req ho' qe' run'
                {| ga_outcome := oc'; ga_bad_slice := bs; ga_has_slices := hs; ga_bad_elem := be;
                   ga_dests := d' |})))))))))
      else None
  | _ => None
  end.
