(* Model of internal/expr: bindtypes.go, typedexprbuilder.go, bindinputs.go,
   querybuilder.go, query.go (ScanArgs), function by function.
   Definitions only. *)
From SQLair.Base Require Import Bytes Utf8.
From SQLair.Model Require Import GenConsts Reflect TypeInfo Parser.

(* ---------------------------------------------------- typed expressions -- *)

Inductive tcol :=
| TCIns (input : locator) (column : str) (explicit : bool)   (* insertColumn *)
| TCLit (column : str) (literal : str).                      (* literalColumn *)

Inductive texpr :=
| TBypass (chunk : str)
| TInput (input : locator)
| TInsert (cols : list tcol)
| TOutput (cols : list (str * locator)).   (* column string, output locator *)

(* typedExprBuilder *)
Record teb := {
  b_infos : arginfos;
  b_used : list str;          (* argUsed: names of the argInfos used *)
  b_outused : list str;       (* outputUsed: identifiers *)
  b_exprs : list texpr
}.

Definition teb_ret (A : Type) := bres (teb * A).

(* getArg *)
Definition get_arg (b : teb) (typeName : str) : teb_ret arginfo :=
  match assoc_str typeName (b_infos b) with
  | None => BErr ETypeMissing
  | Some a =>
      BOk ({| b_infos := b_infos b; b_used := typeName :: b_used b;
              b_outused := b_outused b; b_exprs := b_exprs b |}, a)
  end.

(* InputMember *)
Definition input_member (b : teb) (typeName member : str) : teb_ret locator :=
  bbind (get_arg b typeName) (fun '(b1, a) =>
  bbind (get_member a member) (fun l => BOk (b1, l))).

Definition mark_output (env : tenv) (b : teb) (l : locator) : bres teb :=
  let id := loc_identifier env l in
  if existsb (str_eqb id) (b_outused b) then BErr EMultipleOutputs
  else BOk {| b_infos := b_infos b; b_used := b_used b;
              b_outused := id :: b_outused b; b_exprs := b_exprs b |}.

(* OutputMember *)
Definition output_member (env : tenv) (b : teb) (typeName member : str) : teb_ret locator :=
  bbind (get_arg b typeName) (fun '(b1, a) =>
  bbind (get_member a member) (fun l =>
  match l with
  | LSlice _ => BErr EInternal
  | _ => bbind (mark_output env b1 l) (fun b2 => BOk (b2, l))
  end)).

(* AllStructInputs *)
Definition all_struct_inputs (b : teb) (typeName : str) : teb_ret (list (str * locator)) :=
  bbind (get_arg b typeName) (fun '(b1, a) =>
  bbind (get_all_struct_members a) (fun ms => BOk (b1, ms))).

(* AllStructOutputs *)
Fixpoint mark_outputs (env : tenv) (b : teb) (ms : list (str * locator)) : bres teb :=
  match ms with
  | [] => BOk b
  | (_, l) :: ms' => bbind (mark_output env b l) (fun b' => mark_outputs env b' ms')
  end.

Definition all_struct_outputs (env : tenv) (b : teb) (typeName : str)
  : teb_ret (list (str * locator)) :=
  bbind (get_arg b typeName) (fun '(b1, a) =>
  bbind (get_all_struct_members a) (fun ms =>
  bbind (mark_outputs env b1 ms) (fun b2 => BOk (b2, ms)))).

(* InputSlice *)
Definition input_slice (b : teb) (typeName : str) : teb_ret locator :=
  bbind (get_arg b typeName) (fun '(b1, a) =>
  bbind (get_slice a) (fun l => BOk (b1, l))).

(* Kind (with the F11 fix: goes through getArg) *)
Definition teb_kind (env : tenv) (b : teb) (typeName : str) : teb_ret kind :=
  bbind (get_arg b typeName) (fun '(b1, a) => BOk (b1, t_kind (tget env (ai_type a)))).

Definition add_expr (b : teb) (e : texpr) : teb :=
  {| b_infos := b_infos b; b_used := b_used b; b_outused := b_outused b;
     b_exprs := b_exprs b ++ [e] |}.

Definition star : str := [ch_star].
Definition is_star (s : str) : bool := str_eqb s star.

(* ------------------------------------------------------------ bindTypes -- *)

(* asteriskInsertExpr.bindTypes *)
Fixpoint asterisk_sources (b : teb) (sources : list macc) (cols : list tcol) : teb_ret (list tcol) :=
  match sources with
  | [] => BOk (b, cols)
  | s :: rest =>
      if is_star (mname s) then
        bbind (all_struct_inputs b (tname s)) (fun '(b1, ms) =>
        asterisk_sources b1 rest (cols ++ map (fun '(tag, l) => TCIns l tag false) ms))
      else
        bbind (input_member b (tname s) (mname s)) (fun '(b1, l) =>
        asterisk_sources b1 rest (cols ++ [TCIns l (mname s) true]))
  end.

(* columnsInsertExpr.bindTypes, step 1: colToInput as an association list in
   which a later entry for a key shadows/extends as the Go map operations do *)
Definition c2i := list (str * list locator).

Fixpoint c2i_get (m : c2i) (k : str) : option (list locator) :=
  match m with
  | [] => None
  | (k', v) :: m' => if str_eqb k k' then Some v else c2i_get m' k
  end.

Fixpoint c2i_set (m : c2i) (k : str) (v : list locator) : c2i :=
  match m with
  | [] => [(k, v)]
  | (k', v') :: m' => if str_eqb k k' then (k, v) :: m' else (k', v') :: c2i_set m' k v
  end.

Definition c2i_append (m : c2i) (k : str) (l : locator) : c2i :=
  c2i_set m k (match c2i_get m k with Some v => v ++ [l] | None => [l] end).

Fixpoint columns_sources (env : tenv) (b : teb) (sources : list macc) (m : c2i)
  (remainingMap : option str) : teb_ret (c2i * option str) :=
  match sources with
  | [] => BOk (b, (m, remainingMap))
  | s :: rest =>
      if is_star (mname s) then
        bbind (teb_kind env b (tname s)) (fun '(b1, k) =>
        match k with
        | KMap =>
            match remainingMap with
            | Some _ => BErr EMoreThanOneMap
            | None => columns_sources env b1 rest m (Some (tname s))
            end
        | _ =>
            bbind (all_struct_inputs b1 (tname s)) (fun '(b2, ms) =>
            columns_sources env b2 rest
              (fold_left (fun acc '(tag, l) => c2i_append acc tag l) ms m) remainingMap)
        end)
      else
        bbind (input_member b (tname s) (mname s)) (fun '(b1, l) =>
        columns_sources env b1 rest (c2i_set m (mname s) [l]) remainingMap)
  end.

Fixpoint columns_match (b : teb) (columns : list column) (m : c2i) (remainingMap : option str)
  (cols : list tcol) : teb_ret (list tcol) :=
  match columns with
  | [] => BOk (b, cols)
  | c :: rest =>
      let cs := columnString c in
      let k (b' : teb) (input : list locator) :=
        match input with
        | [l] => columns_match b' rest m remainingMap (cols ++ [TCIns l cs true])
        | [] => BErr EInternal
        | _ => BErr EMultipleProviders
        end in
      match c2i_get m cs, remainingMap with
      | Some input, _ => k b input
      | None, Some mapName =>
          bbind (input_member b mapName cs) (fun '(b1, l) => k b1 [l])
      | None, None => BErr EMissingProvider
      end
  end.

(* basicInsertExpr.bindTypes *)
Fixpoint basic_sources (b : teb) (columns : list column) (sources : list value) (cols : list tcol)
  : teb_ret (list tcol) :=
  match columns, sources with
  | c :: crest, VMem ma :: srest =>
      bbind (input_member b (tname ma) (mname ma)) (fun '(b1, l) =>
      basic_sources b1 crest srest (cols ++ [TCIns l (columnName c) true]))
  | c :: crest, VLit lit :: srest =>
      basic_sources b crest srest (cols ++ [TCLit (columnName c) lit])
  | _, _ => BOk (b, cols)
  end.

Definition new_output_column (table col : str) : str :=
  match table with [] => col | _ => table ++ [ch_dot] ++ col end.

(* outputExpr.bindTypes case 1 *)
Fixpoint output_generated (env : tenv) (b : teb) (pref : str) (targets : list macc)
  (ocs : list (str * locator)) : teb_ret (list (str * locator)) :=
  match targets with
  | [] => BOk (b, ocs)
  | t :: rest =>
      if is_star (mname t) then
        bbind (all_struct_outputs env b (tname t)) (fun '(b1, ms) =>
        output_generated env b1 pref rest
          (ocs ++ map (fun '(tag, l) => (new_output_column pref tag, l)) ms))
      else
        bbind (output_member env b (tname t) (mname t)) (fun '(b1, l) =>
        output_generated env b1 pref rest (ocs ++ [(new_output_column pref (mname t), l)]))
  end.

(* case 2 *)
Fixpoint output_into_star (env : tenv) (b : teb) (typeName : str) (cols : list column)
  (ocs : list (str * locator)) : teb_ret (list (str * locator)) :=
  match cols with
  | [] => BOk (b, ocs)
  | c :: rest =>
      bbind (output_member env b typeName (columnName c)) (fun '(b1, l) =>
      output_into_star env b1 typeName rest
        (ocs ++ [(new_output_column (tableName c) (columnName c), l)]))
  end.

(* case 3 *)
Fixpoint output_pairwise (env : tenv) (b : teb) (cols : list column) (targets : list macc)
  (ocs : list (str * locator)) : teb_ret (list (str * locator)) :=
  match cols, targets with
  | c :: crest, t :: trest =>
      bbind (output_member env b (tname t) (mname t)) (fun '(b1, l) =>
      output_pairwise env b1 crest trest
        (ocs ++ [(new_output_column (tableName c) (columnName c), l)]))
  | _, _ => BOk (b, ocs)
  end.

Definition bind_expr (env : tenv) (b : teb) (e : expr) : bres teb :=
  match e with
  | Bypass chunk => BOk (add_expr b (TBypass chunk))
  | MemberIn _ ma =>
      bbind (input_member b (tname ma) (mname ma)) (fun '(b1, l) => BOk (add_expr b1 (TInput l)))
  | SliceIn _ t =>
      bbind (input_slice b t) (fun '(b1, l) => BOk (add_expr b1 (TInput l)))
  | AsteriskIns _ sources =>
      bbind (asterisk_sources b sources []) (fun '(b1, cols) => BOk (add_expr b1 (TInsert cols)))
  | ColumnsIns _ columns sources =>
      bbind (columns_sources env b sources [] None) (fun '(b1, (m, rm)) =>
      bbind (columns_match b1 columns m rm []) (fun '(b2, cols) =>
      BOk (add_expr b2 (TInsert cols))))
  | BasicIns _ columns sources =>
      if negb (Nat.eqb (length columns) (length sources)) then BErr EMismatchColsVals
      else
        bbind (basic_sources b columns sources []) (fun '(b1, cols) =>
        BOk (add_expr b1 (TInsert cols)))
  | Output _ cols targets =>
      let numTypes := length targets in
      let numColumns := length cols in
      let starTypes := starCountTypes targets in
      let starColumns := starCountColumns cols in
      if Nat.eqb numColumns 0 || (Nat.eqb numColumns 1 && Nat.eqb starColumns 1) then
        let pref := match cols with c :: _ => tableName c | [] => [] end in
        bbind (output_generated env b pref targets []) (fun '(b1, ocs) =>
        BOk (add_expr b1 (TOutput ocs)))
      else if Nat.ltb 1 numColumns && Nat.ltb 0 starColumns then BErr EStarColumns
      else if Nat.eqb starTypes 1 && Nat.eqb numTypes 1 then
        bbind (output_into_star env b (match targets with t :: _ => tname t | [] => [] end) cols [])
          (fun '(b1, ocs) => BOk (add_expr b1 (TOutput ocs)))
      else if Nat.ltb 0 starTypes && Nat.ltb 1 numTypes then BErr EStarTypes
      else if Nat.eqb numColumns numTypes then
        bbind (output_pairwise env b cols targets []) (fun '(b1, ocs) =>
        BOk (add_expr b1 (TOutput ocs)))
      else BErr EMismatchColsTypes
  end.

Fixpoint bind_exprs (env : tenv) (b : teb) (es : list expr) : bres teb :=
  match es with
  | [] => BOk b
  | e :: rest => bbind (bind_expr env b e) (fun b' => bind_exprs env b' rest)
  end.

(* BindTypes (GenerateArgInfo; bindTypes of every expression; Build) *)
Definition bind_types (env : tenv) (es : list expr) (samples : list (option tid))
  : bres (list texpr) :=
  bbind (generate_arg_info env samples []) (fun infos =>
  bbind (bind_exprs env {| b_infos := infos; b_used := []; b_outused := []; b_exprs := [] |} es)
    (fun b =>
  (* checkAllArgsUsed *)
  if forallb (fun '(name, _) => existsb (str_eqb name) (b_used b)) (b_infos b)
  then BOk (b_exprs b) else BErr EUnusedSample)).

(* ------------------------------------------------------------ BindInputs -- *)

(* The generated SQL is kept as tokens so that placeholders and aliases can be
   talked about without re-scanning text; [render] gives the bytes the
   sqlBuilder buffer holds. *)
Inductive sqltok :=
| TText (s : str)                 (* verbatim text *)
| TIn (n : nat)                   (* writeInputs: "@sqlair_" n *)
| TParam (n : nat)                (* parameter, single value: "@" "sqlair_" n *)
| TParamBulk (n : nat)            (* parameter, bulk row *)
| TOut (col : str) (n : nat).     (* writeOutput: col " AS " marker n *)

Definition marker_name (n : nat) : str := marker_prefix ++ itoa_nat n.

Definition render_tok (t : sqltok) : str :=
  match t with
  | TText s => s
  | TIn n => sql_input_prefix ++ itoa_nat n
  | TParam n => sql_param_at ++ sql_param_prefix ++ itoa_nat n
  | TParamBulk n => sql_param_at_bulk ++ sql_param_prefix_bulk ++ itoa_nat n
  | TOut col n => col ++ sql_output_as ++ marker_name n
  end.

Definition render (ts : list sqltok) : str := concat (map render_tok ts).

(* queryBuilder *)
Record qb := {
  q_inputCount : nat;            (* inputAssigner.inputCount *)
  q_outputCount : nat;
  q_argUsed : list tid;
  q_sql : list sqltok;           (* sqlBuilder buffer, as tokens *)
  q_named : list (str * val);    (* namedInputs: sql.Named(name, val) *)
  q_outputs : list locator
}.

Definition qb_init : qb :=
  {| q_inputCount := 0; q_outputCount := 0; q_argUsed := []; q_sql := []; q_named := [];
     q_outputs := [] |}.

Definition qb_with (q : qb) (cnt : nat) (used : list tid) (sql : list sqltok) (named : list (str * val)) : qb :=
  {| q_inputCount := cnt; q_outputCount := q_outputCount q; q_argUsed := used; q_sql := sql;
     q_named := named; q_outputs := q_outputs q |}.

(* writeCommaSeparatedList *)
Fixpoint tok_sep (sep : str) (items : list (list sqltok)) : list sqltok :=
  match items with
  | [] => []
  | [x] => x
  | x :: rest => x ++ [TText sep] ++ tok_sep sep rest
  end.
Definition comma_list (items : list (list sqltok)) : list sqltok := tok_sep sql_list_sep items.

(* addInputs *)
Definition add_inputs (q : qb) (vals : list val) : qb :=
  let first := q_inputCount q in
  let idxs := seq first (length vals) in
  qb_with q (first + length vals) (q_argUsed q)
    (q_sql q ++ comma_list (map (fun i => [TIn i]) idxs))
    (q_named q ++ map (fun '(i, v) => (sql_arg_prefix ++ itoa_nat i, v)) (combine idxs vals)).

(* boundInsertColumn *)
Record bcol := {
  bc_vals : list val;
  bc_first : nat;
  bc_omit : bool;
  bc_bulk : bool;
  bc_argtype : option tid;
  bc_literal : str;
  bc_column : str
}.

(* insertColumn.bindInputs / literalColumn.bindInputs; returns the column and
   the new inputCount *)
Definition bind_col (env : tenv) (m : t2v) (cnt : nat) (c : tcol) : bres (bcol * nat) :=
  match c with
  | TCLit column literal =>
      BOk ({| bc_vals := []; bc_first := 0; bc_omit := false; bc_bulk := false;
              bc_argtype := None; bc_literal := literal; bc_column := column |}, cnt)
  | TCIns input column explicit =>
      bbind (locate_params env input m) (fun p =>
      if negb (p_bulk p) && Nat.ltb 1 (length (p_vals p)) then BErr EInternal
      else if p_omit p && explicit then BErr EOmitExplicit
      else
        let '(first, cnt') := if p_omit p then (0, cnt) else (cnt, cnt + length (p_vals p)) in
        BOk ({| bc_vals := p_vals p; bc_first := first; bc_omit := p_omit p; bc_bulk := p_bulk p;
                bc_argtype := Some (p_argtype p); bc_literal := []; bc_column := column |}, cnt'))
  end.

(* the loop of typedInsertExpr.addToQuery *)
Fixpoint bind_cols (env : tenv) (m : t2v) (cnt : nat) (used : list tid) (cols : list tcol)
  (bulk : bool) (numRows : nat) (acc : list bcol) : bres (list bcol * nat * list tid * nat) :=
  match cols with
  | [] => BOk (acc, cnt, used, numRows)
  | c :: rest =>
      bbind (bind_col env m cnt c) (fun '(bc, cnt') =>
      let used' := match bc_argtype bc with Some t => t :: used | None => used end in
      if bc_bulk bc then
        if negb bulk then bind_cols env m cnt' used' rest true (length (bc_vals bc)) (acc ++ [bc])
        else if negb (Nat.eqb (length (bc_vals bc)) numRows) then BErr EMismatchBulk
        else bind_cols env m cnt' used' rest bulk numRows (acc ++ [bc])
      else bind_cols env m cnt' used' rest bulk numRows (acc ++ [bc]))
  end.

(* boundInsertColumn.parameter: (sql text, named input, newParam) *)
Definition parameter (bc : bcol) (row : nat) : bres (sqltok * option (str * val)) :=
  match bc_vals bc with
  | [] => BOk (TText (bc_literal bc), None)
  | [v] =>
      let name := sql_param_prefix ++ itoa_nat (bc_first bc) in
      BOk (TParam (bc_first bc), if Nat.eqb row 0 then Some (name, v) else None)
  | vs =>
      match nth_error vs row with
      | Some v =>
          let name := sql_param_prefix_bulk ++ itoa_nat (bc_first bc + row) in
          BOk (TParamBulk (bc_first bc + row), Some (name, v))
      | None => BErr EInternal
      end
  end.

(* one row of addInsert *)
Fixpoint insert_row (bcs : list bcol) (row : nat) (sqls : list sqltok) (named : list (str * val))
  : bres (list sqltok * list (str * val)) :=
  match bcs with
  | [] => BOk (sqls, named)
  | bc :: rest =>
      if bc_omit bc then insert_row rest row sqls named
      else
        bbind (parameter bc row) (fun '(s, n) =>
        insert_row rest row (sqls ++ [s]) (match n with Some x => named ++ [x] | None => named end))
  end.

Fixpoint insert_rows (bcs : list bcol) (rows : list nat) (rowsSQL : list (list sqltok))
  (named : list (str * val)) : bres (list (list sqltok) * list (str * val)) :=
  match rows with
  | [] => BOk (rowsSQL, named)
  | r :: rest =>
      bbind (insert_row bcs r [] named) (fun '(sqls, named') =>
      insert_rows bcs rest (rowsSQL ++ [sqls]) named')
  end.

(* writeInsert *)
Definition write_insert (columns : list str) (rows : list (list sqltok)) : list sqltok :=
  [TText sql_insert_open] ++ comma_list (map (fun c => [TText c]) columns) ++ [TText sql_insert_values] ++
  tok_sep sql_insert_rowsep
    (map (fun row => [TText sql_insert_rowopen] ++ comma_list (map (fun t => [t]) row) ++
                     [TText sql_insert_rowclose]) rows).

(* writeOutput *)
Definition write_output (outputCount : nat) (columns : list str) : list sqltok :=
  comma_list (map (fun '(i, c) => [TOut c (outputCount + i)])
                  (combine (seq 0 (length columns)) columns)).

Definition add_to_query (env : tenv) (m : t2v) (q : qb) (e : texpr) : bres qb :=
  match e with
  | TBypass chunk => BOk (qb_with q (q_inputCount q) (q_argUsed q) (q_sql q ++ [TText chunk]) (q_named q))
  | TInput input =>
      bbind (locate_params env input m) (fun p =>
      if p_omit p then BErr EOmitExplicit
      else if p_bulk p then BErr EBulkOutside
      else
        let q1 := qb_with q (q_inputCount q) (p_argtype p :: q_argUsed q) (q_sql q) (q_named q) in
        BOk (add_inputs q1 (p_vals p)))
  | TInsert cols =>
      bbind (bind_cols env m (q_inputCount q) (q_argUsed q) cols false 1 [])
        (fun '(bcs, cnt, used, numRows) =>
      bbind (insert_rows bcs (seq 0 numRows) [] (q_named q)) (fun '(rowsSQL, named) =>
      let columnNames := map bc_column (filter (fun bc => negb (bc_omit bc)) bcs) in
      BOk (qb_with q cnt used (q_sql q ++ write_insert columnNames rowsSQL) named)))
  | TOutput ocs =>
      BOk {| q_inputCount := q_inputCount q; q_outputCount := q_outputCount q + length ocs;
             q_argUsed := q_argUsed q;
             q_sql := q_sql q ++ write_output (q_outputCount q) (map fst ocs);
             q_named := q_named q; q_outputs := q_outputs q ++ map snd ocs |}
  end.

Fixpoint add_all (env : tenv) (m : t2v) (q : qb) (es : list texpr) : bres qb :=
  match es with
  | [] => BOk q
  | e :: rest => bbind (add_to_query env m q e) (fun q' => add_all env m q' rest)
  end.

(* PrimedQuery *)
Record primed := {
  pq_toks : list sqltok;
  pq_params : list (str * val);
  pq_outputs : list locator
}.

Definition pq_sql (p : primed) : str := render (pq_toks p).

Definition has_outputs (p : primed) : bool :=
  match pq_outputs p with [] => false | _ => true end.

(* BindInputs *)
Definition bind_inputs (env : tenv) (tbe : list texpr) (args : list arg) : bres primed :=
  bbind (validate_inputs env args []) (fun m =>
  bbind (add_all env m qb_init tbe) (fun q =>
  (* checkAllArgsUsed *)
  if forallb (fun '(t, _) => existsb (Nat.eqb t) (q_argUsed q)) m
  then BOk {| pq_toks := q_sql q; pq_params := q_named q; pq_outputs := q_outputs q |}
  else BErr ENotUsed)).

(* markerIndex (with the F12 fix: only non-negative numbers).  strconv.Atoi
   reports a range error for a number above the largest int (2^63-1): such a
   column name is not a marker. *)
Definition max_int : N := 9223372036854775807.
Definition marker_index (s : str) : option nat :=
  if has_prefix marker_prefix s then
    match atoi (skipn (length marker_prefix) s) with
    | Some (false, n) => if (n <=? max_int)%N then Some (N.to_nat n) else None
    | Some (true, 0%N) => Some 0        (* "-0" parses to 0 *)
    | _ => None
    end
  else None.
