(* The fragment of Go's reflect that sqlair uses, as data.

   A case comes with a type environment: a list of type descriptions dumped by
   the harness's own reflection walk over the Go types involved; a
   reflect.Type is its index in that list (type identity = index equality).
   Values are trees; leaves are opaque values known by an identity and
   whether they are the zero value.  This file is *environment*: it specifies
   reflect, it is not part of sqlair.  Definitions only. *)
From SQLair.Base Require Import Bytes.

Definition tid := nat.

Inductive kind :=
| KStruct | KMap | KSlice | KPtr
| KOther (name : str).   (* any other reflect.Kind, by its String() *)

Record field := {
  f_name : str;          (* StructField.Name *)
  f_exported : bool;     (* IsExported() *)
  f_anon : bool;         (* Anonymous *)
  f_tag : str;           (* Tag.Get("db") *)
  f_type : tid           (* Type *)
}.

Record tdef := {
  t_kind : kind;
  t_name : str;          (* Name(): empty for unnamed types *)
  t_fields : list field; (* struct *)
  t_elem : tid;          (* ptr, slice, map: Elem() *)
  t_keystr : bool;       (* map: Key().Kind() == String *)
  t_scanner : bool       (* reflect.PointerTo(t).Implements(sql.Scanner) *)
}.

Definition tenv := list tdef.

Definition dummy_tdef : tdef :=
  {| t_kind := KOther []; t_name := []; t_fields := []; t_elem := 0; t_keystr := false; t_scanner := false |}.

Definition tget (env : tenv) (t : tid) : tdef := nth t env dummy_tdef.

Definition kind_eqb (a b : kind) : bool :=
  match a, b with
  | KStruct, KStruct | KMap, KMap | KSlice, KSlice | KPtr, KPtr => true
  | KOther x, KOther y => str_eqb x y
  | _, _ => false
  end.

Definition kind_name (k : kind) : str :=
  match k with
  | KStruct => [115; 116; 114; 117; 99; 116]%N        (* struct *)
  | KMap => [109; 97; 112]%N                          (* map *)
  | KSlice => [115; 108; 105; 99; 101]%N              (* slice *)
  | KPtr => [112; 116; 114]%N                         (* ptr *)
  | KOther n => n
  end.

(* reflect.SliceOf(t), reflect.PointerTo(t): the unnamed slice / pointer type
   with that element, if the environment has it (the harness adds []T, []*T
   and *T for every type that can be asked for) *)
Fixpoint find_type (p : tdef -> bool) (env : tenv) (i : nat) : option tid :=
  match env with
  | [] => None
  | d :: env' => if p d then Some i else find_type p env' (S i)
  end.

Definition slice_of (env : tenv) (t : tid) : option tid :=
  find_type (fun d => kind_eqb (t_kind d) KSlice && str_eqb (t_name d) [] && Nat.eqb (t_elem d) t) env 0.
Definition ptr_to (env : tenv) (t : tid) : option tid :=
  find_type (fun d => kind_eqb (t_kind d) KPtr && str_eqb (t_name d) [] && Nat.eqb (t_elem d) t) env 0.

(* ------------------------------------------------------------- values -- *)

Inductive val :=
| VLeaf (id : N) (zero : bool)      (* a non-container value: identity, IsZero() *)
| VNilPtr
| VPtr (v : val)
| VStruct (fields : list val)
| VMap (isnil : bool) (entries : list (str * val))
| VSlice (isnil : bool) (elems : list val)
| VNilIface.                        (* an untyped nil in an any *)

(* reflect.Value.IsZero *)
Fixpoint is_zero (v : val) : bool :=
  match v with
  | VLeaf _ z => z
  | VNilPtr => true
  | VPtr _ => false
  | VStruct fs => forallb is_zero fs
  | VMap n _ => n
  | VSlice n _ => n
  | VNilIface => true
  end.

Fixpoint assoc_str {A} (k : str) (l : list (str * A)) : option A :=
  match l with
  | [] => None
  | (k', v) :: l' => if str_eqb k k' then Some v else assoc_str k l'
  end.

(* Value.FieldByIndexErr: walks the index path; a nil embedded pointer on the
   way is an error (None) *)
Fixpoint field_by_index (v : val) (path : list nat) : option val :=
  match path with
  | [] => Some v
  | i :: path' =>
      match v with
      | VStruct fs =>
          match nth_error fs i with
          | Some f => field_by_index f path'
          | None => None
          end
      | VPtr (VStruct fs) =>
          match nth_error fs i with
          | Some f => field_by_index f path'
          | None => None
          end
      | _ => None
      end
  end.

(* an argument as the API receives it in an `any`: dynamic type + value *)
Inductive arg :=
| ANil                      (* untyped nil *)
| AVal (t : tid) (v : val).
