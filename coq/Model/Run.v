(* Entry point of the executable model: one request line in, one result line
   out.  Used by the extracted runner and by vm_compute replays. *)
From Coq Require Import String.
From SQLair.Base Require Import Bytes Sexp.
From SQLair.Model Require Import Parser ParserDump.

Definition run_request (req : list sexp) : str :=
  match req with
  | [SList [Atom cmd; Atom q]] =>
      if str_eqb cmd (lit "parse") then
        match unxhex q with
        | Some input => dump_parse (parse input)
        | None => lit "BAD-REQUEST hex"
        end
      else lit "BAD-REQUEST command"
  | _ => lit "BAD-REQUEST shape"
  end.

Definition run_line (l : str) : str :=
  match read_sexps l with
  | Some req => run_request req
  | None => lit "BAD-REQUEST sexp"
  end.
