(* Entry point of the executable model: one request line in, one result line
   out.  Used by the extracted runner and by vm_compute replays. *)
From Coq Require Import String.
From SQLair.Base Require Import Bytes Sexp.
From SQLair.Model Require Import Parser ParserDump Reflect TypeInfo Bind BindDump Iter IterDump Cache CacheDump Tx TxDump Scan ScanDump.

Definition run_request (req : list sexp) : str :=
  match req with
  | [SList [Atom cmd; Atom q]] =>
      if str_eqb cmd (lit "parse") then
        match unxhex q with
        | Some input => dump_parse (parse input)
        | None => lit "BAD-REQUEST hex"
        end
      else lit "BAD-REQUEST command"
  | [SList [Atom cmd; Atom q; SList types; SList samples; SList args]] =>
      if str_eqb cmd (lit "bind") then
        match unxhex q, omap dec_tdef types, omap dec_sample samples, omap dec_arg args with
        | Some input, Some env, Some ss, Some as_ => run_bind input env ss as_
        | None, _, _, _ => lit "BAD-REQUEST hex"
        | _, None, _, _ => lit "BAD-REQUEST types"
        | _, _, None, _ => lit "BAD-REQUEST samples"
        | _, _, _, None => lit "BAD-REQUEST args"
        end
      else lit "BAD-REQUEST command"
  | [SList l] =>
      match run_iter_line l with
      | Some out => out
      | None =>
          match run_cache_line l with
          | Some out => out
          | None =>
              match run_tx_line l with
              | Some out => out
              | None =>
                  match run_scan_line l with
                  | Some out => out
                  | None => lit "BAD-REQUEST shape"
                  end
              end
          end
      end
  | _ => lit "BAD-REQUEST shape"
  end.

Definition run_line (l : str) : str :=
  match read_sexps l with
  | Some req => run_request req
  | None => lit "BAD-REQUEST sexp"
  end.
