(* Model of the result-scanning path: typeinfo.ValidateOutputs,
   PrimedQuery.ScanArgs (internal/expr/query.go), LocateScanTarget of
   structField and mapKey (internal/typeinfo/valuelocator.go),
   ScanProxy.OnSuccess (internal/typeinfo/scan.go) and the tail of
   Iterator.Get (sqlair.go: ScanArgs; rows.Scan; onSuccess), function by
   function.

   Environment (specified, not verified): database/sql's convertAssign for the
   driver values the correspondence run uses (an int64 or NULL) into the
   destination kinds of the type zoo, as [conv].

   Destinations are the caller's output arguments after ValidateOutputs: a
   TypeToValue map from the (dereferenced) type to the value; writing through
   a reflect.Value is modelled by replacing the value in that map.
   Definitions only. *)
From Coq Require Import String.
From SQLair.Base Require Import Bytes Sexp.
From SQLair.Model Require Import GenConsts Reflect TypeInfo Bind.

(* a driver value of one result column *)
Inductive cell := CNull | CInt (id : N).

Inductive serr :=
| SBind (e : berr)       (* an error of ValidateOutputs / ScanArgs *)
| SConv.                 (* rows.Scan failed to convert a column *)

Inductive sres (A : Type) := SOk (a : A) | SErr (e : serr).
Arguments SOk {A} a.
Arguments SErr {A} e.

(* ----------------------------------------------------------- reflect -- *)

(* the scan view of values: a type whose pointer implements sql.Scanner is a
   leaf (what its Scan method stores is the raw driver value) *)
Definition kind_other_is (k : kind) (n : string) : bool :=
  match k with KOther s => str_eqb s (lit n) | _ => false end.

(* reflect.Zero(t) *)
Fixpoint zero_val (fuel : nat) (env : tenv) (t : tid) : val :=
  match fuel with
  | O => VLeaf 0 true
  | S f =>
      let d := tget env t in
      if t_scanner d then VLeaf 0 true
      else
        match t_kind d with
        | KStruct => VStruct (map (fun fl => zero_val f env (f_type fl)) (t_fields d))
        | KPtr => VNilPtr
        | KMap => VMap true []
        | KSlice => VSlice true []
        | KOther _ => VLeaf 0 true
        end
  end.

Fixpoint replace_nth {A} (l : list A) (n : nat) (x : A) : list A :=
  match l, n with
  | [], _ => []
  | _ :: l', O => x :: l'
  | y :: l', S n' => y :: replace_nth l' n' x
  end.

(* writing the field FieldByIndex(path) of an addressable struct value *)
Fixpoint set_by_index (v : val) (path : list nat) (x : val) : option val :=
  match path with
  | [] => Some x
  | i :: path' =>
      match v with
      | VStruct fs =>
          match nth_error fs i with
          | Some f => option_map (fun f' => VStruct (replace_nth fs i f')) (set_by_index f path' x)
          | None => None
          end
      | VPtr (VStruct fs) =>
          match nth_error fs i with
          | Some f => option_map (fun f' => VPtr (VStruct (replace_nth fs i f'))) (set_by_index f path' x)
          | None => None
          end
      | _ => None
      end
  end.

(* Type.FieldByIndex(path).Type *)
Fixpoint type_by_index (env : tenv) (t : tid) (path : list nat) : option tid :=
  match path with
  | [] => Some t
  | i :: path' =>
      let d := tget env t in
      let st := match t_kind d with KPtr => t_elem d | _ => t end in
      match nth_error (t_fields (tget env st)) i with
      | Some fl => type_by_index env (f_type fl) path'
      | None => None
      end
  end.

(* Value.SetMapIndex *)
Fixpoint map_set (entries : list (str * val)) (key : str) (v : val) : list (str * val) :=
  match entries with
  | [] => [(key, v)]
  | (k, v0) :: rest => if str_eqb key k then (k, v) :: rest else (k, v0) :: map_set rest key v
  end.

(* ------------------------------------ database/sql convertAssign (env) -- *)

Definition scalar_kinds : list string :=
  ["int"; "int8"; "int16"; "int32"; "int64"; "uint"; "uint8"; "uint16"; "uint32"; "uint64";
   "float32"; "float64"; "string"]%string.

Definition leaf_of (c : cell) : val :=
  match c with CNull => VLeaf 0 true | CInt id => VLeaf id (N.eqb id 0) end.

(* convertAssign(&dest, src) for a destination of type t; None = error *)
Fixpoint conv (fuel : nat) (env : tenv) (t : tid) (c : cell) : option val :=
  match fuel with
  | O => None
  | S f =>
      let d := tget env t in
      if t_scanner d then Some (leaf_of c)            (* Scanner.Scan(raw value) *)
      else
        match t_kind d with
        | KPtr =>
            match c with
            | CNull => Some VNilPtr
            | _ => option_map VPtr (conv f env (t_elem d) c)
            end
        | KOther n =>
            if str_eqb n (lit "interface") then Some (leaf_of c)
            else if str_eqb n (lit "bool") then
              match c with
              | CInt id => if N.leb id 1 then Some (leaf_of c) else None
              | CNull => None
              end
            else if existsb (fun k => str_eqb n (lit k)) scalar_kinds then
              match c with
              | CInt _ => Some (leaf_of c)
              | CNull => None                         (* converting NULL to int is unsupported *)
              end
            else None
        | KSlice =>
            (* only the unnamed []byte is special-cased by convertAssign; a named
               byte-slice type accepts neither an integer nor (directly) NULL *)
            if kind_other_is (t_kind (tget env (t_elem d))) "uint8" && str_eqb (t_name d) [] then
              match c with
              | CNull => Some (VSlice true [])
              | CInt id => Some (VSlice false (map (fun b => VLeaf b (N.eqb b 0)) (itoa id)))
              end
            else None
        | _ => None
        end
  end.

(* ------------------------------------------------------ ValidateOutputs -- *)

Fixpoint validate_outputs (env : tenv) (args : list arg) (acc : t2v) : bres t2v :=
  match args with
  | [] => BOk acc
  | a :: rest =>
      bbind (validate_value env a) (fun _ =>
      match a with
      | ANil => BErr ENilArg
      | AVal t0 v0 =>
          let d0 := tget env t0 in
          let inner : bres (tid * val) :=
            match t_kind d0 with
            | KMap => BOk (t0, v0)
            | KPtr =>
                let t := t_elem d0 in
                match t_kind (tget env t), v0 with
                | KStruct, VPtr v => BOk (t, v)
                | KMap, VPtr v =>
                    match v with VMap true _ => BErr ENilMap | _ => BOk (t, v) end
                | _, _ => BErr ENeedPtrToStruct
                end
            | _ => BErr ENeedMapOrPtr
            end in
          bbind inner (fun '(t, v) =>
          match t2v_get acc t with
          | Some _ => BErr EDupArg
          | None => validate_outputs env rest (acc ++ [(t, v)])
          end)
      end)
  end.

Fixpoint t2v_set (m : t2v) (t : tid) (v : val) : t2v :=
  match m with
  | [] => []
  | (t', v') :: m' => if Nat.eqb t t' then (t', v) :: m' else (t', v') :: t2v_set m' t v
  end.

(* --------------------------------------------------- LocateScanTarget -- *)

Inductive target :=
| TForeign                                          (* a column no output expression produced: scanned into an any *)
| TDirect (t : tid) (path : list nat) (ft : tid)    (* rows.Scan writes the field itself *)
| TProxyField (t : tid) (path : list nat) (ft : tid)  (* scanned into a fresh *FT, copied by OnSuccess *)
| TProxyKey (mt : tid) (key : str) (et : tid).      (* scanned into a fresh element, stored by OnSuccess *)

Definition locate_scan_target (env : tenv) (l : locator) (m : t2v) : bres target :=
  match l with
  | LMapKey mt key =>
      match t2v_get m mt with
      | None => BErr (value_not_found env m mt)
      | Some _ => BOk (TProxyKey mt key (t_elem (tget env mt)))
      end
  | LField f =>
      match t2v_get m (sf_struct f) with
      | None => BErr (value_not_found env m (sf_struct f))
      | Some s =>
          bbind (field_of f s) (fun _ =>
          match type_by_index env (sf_struct f) (sf_index f) with
          | None => BErr EInternal
          | Some ft =>
              let d := tget env ft in
              if negb (kind_eqb (t_kind d) KPtr) && negb (t_scanner d)
              then BOk (TProxyField (sf_struct f) (sf_index f) ft)
              else BOk (TDirect (sf_struct f) (sf_index f) ft)
          end)
      end
  | LSlice _ => BErr EInternal
  end.

Definition target_argtype (tg : target) : option tid :=
  match tg with
  | TForeign => None
  | TDirect t _ _ | TProxyField t _ _ => Some t
  | TProxyKey mt _ _ => Some mt
  end.

(* ----------------------------------------------------------- ScanArgs -- *)

Fixpoint scan_targets (env : tenv) (outputs : list locator) (m : t2v) (cols : list str)
  (seen : list nat) (used : list tid) (acc : list target)
  : bres (list target * list nat * list tid) :=
  match cols with
  | [] => BOk (acc, seen, used)
  | c :: rest =>
      match marker_index c with
      | None => scan_targets env outputs m rest seen used (acc ++ [TForeign])
      | Some idx =>
          match nth_error outputs idx with
          | None => BErr EColumnNotInOutputs
          | Some l =>
              bbind (locate_scan_target env l m) (fun tg =>
              scan_targets env outputs m rest (idx :: seen) (loc_argtype l :: used) (acc ++ [tg]))
          end
      end
  end.

Definition scan_args (env : tenv) (outputs : list locator) (cols : list str) (args : list arg)
  : bres (t2v * list target) :=
  bbind (validate_outputs env args []) (fun m =>
  if Nat.ltb (length cols) (length outputs) then BErr EFewColumns
  else
    bbind (scan_targets env outputs m cols [] [] []) (fun '(tgs, seen, used) =>
    if negb (forallb (fun i => existsb (Nat.eqb i) seen) (seq 0 (length outputs)))
    then BErr EOutputColumnMissing
    else if negb (forallb (fun '(t, _) => existsb (Nat.eqb t) used) m)
    then BErr EOutputArgUnused
    else BOk (m, tgs))).

(* -------------------------------------------- rows.Scan and OnSuccess -- *)

Definition write_field (m : t2v) (t : tid) (path : list nat) (x : val) : t2v :=
  match t2v_get m t with
  | Some s => match set_by_index s path x with Some s' => t2v_set m t s' | None => m end
  | None => m
  end.

Definition write_key (m : t2v) (mt : tid) (key : str) (x : val) : t2v :=
  match t2v_get m mt with
  | Some (VMap n entries) => t2v_set m mt (VMap n (map_set entries key x))
  | _ => m
  end.

(* what OnSuccess will do *)
Inductive pending :=
| PField (t : tid) (path : list nat) (x : val)
| PKey (mt : tid) (key : str) (x : val).

Definition scan_fuel : nat := 16.

(* rows.Scan(ptrs...): column by column; a conversion error stops it, what was
   written directly stays written *)
Fixpoint rows_scan_cells (env : tenv) (tgs : list target) (cells : list cell) (m : t2v)
  (pend : list pending) : t2v * sres (list pending) :=
  match tgs, cells with
  | tg :: tgs', c :: cells' =>
      match tg with
      | TForeign => rows_scan_cells env tgs' cells' m pend
      | TDirect t path ft =>
          match conv scan_fuel env ft c with
          | Some x => rows_scan_cells env tgs' cells' (write_field m t path x) pend
          | None => (m, SErr SConv)
          end
      | TProxyField t path ft =>
          match c with
          | CNull => rows_scan_cells env tgs' cells' m (pend ++ [PField t path (zero_val scan_fuel env ft)])
          | _ =>
              match conv scan_fuel env ft c with
              | Some x => rows_scan_cells env tgs' cells' m (pend ++ [PField t path x])
              | None => (m, SErr SConv)
              end
          end
      | TProxyKey mt key et =>
          match conv scan_fuel env et c with
          | Some x => rows_scan_cells env tgs' cells' m (pend ++ [PKey mt key x])
          | None => (m, SErr SConv)
          end
      end
  | _, _ => (m, SOk pend)
  end.

Definition apply_pending (m : t2v) (p : pending) : t2v :=
  match p with
  | PField t path x => write_field m t path x
  | PKey mt key x => write_key m mt key x
  end.

(* Iterator.Get on a row: the destinations afterwards and the result *)
Definition scan_row (env : tenv) (outputs : list locator) (cols : list str) (cells : list cell)
  (args : list arg) : option t2v * option serr :=
  match scan_args env outputs cols args with
  | BErr e => (None, Some (SBind e))
  | BOk (m, tgs) =>
      match rows_scan_cells env tgs cells m [] with
      | (m1, SErr e) => (Some m1, Some e)
      | (m1, SOk pend) => (Some (fold_left apply_pending pend m1), None)
      end
  end.

(* ------------------------------------------------ Query.GetAll (values) -- *)

(* the element type of one destination slice *)
Inductive selem :=
| SEStruct (pt t : tid)      (* []T: scanned into reflect.New(T), appended by value; pt = *T *)
| SEPtrStruct (pt t : tid)   (* []*T: scanned into reflect.New(T), the pointer is appended *)
| SEMap (mt : tid).          (* []M: scanned into reflect.MakeMap(M) *)

(* the fresh output argument GetAll builds for a row *)
Definition fresh_arg (env : tenv) (e : selem) : arg :=
  match e with
  | SEStruct pt t | SEPtrStruct pt t => AVal pt (VPtr (zero_val scan_fuel env t))
  | SEMap mt => AVal mt (VMap false [])
  end.

(* what is appended to the slice for a row: the scanned value as the slice holds it *)
Definition appended (e : selem) (v : val) : val :=
  match e with
  | SEStruct _ _ => v
  | SEPtrStruct _ _ => VPtr v
  | SEMap _ => v
  end.

(* the loop of GetAll over the rows: one fresh element per destination and row;
   the first error ends it and nothing is appended (all or nothing) *)
Fixpoint getall_rows (env : tenv) (outputs : list locator) (cols : list str) (elems : list selem)
  (rows : list (list cell)) (acc : list (list val)) : sres (list (list val)) :=
  match rows with
  | [] => SOk acc
  | cells :: rest =>
      match scan_row env outputs cols cells (map (fresh_arg env) elems) with
      | (Some m, None) =>
          let vals := map (fun '(e, (_, v)) => appended e v) (combine elems m) in
          getall_rows env outputs cols elems rest (acc ++ [vals])
      | (_, Some e) => SErr e
      | (None, None) => SErr (SBind EInternal)
      end
  end.
