(* Script-level operations over the cache model (each expands to the atomic
   steps of Cache.v executed consecutively), request decoding and printing for
   the correspondence check on sequential histories.  Definitions only. *)
From Coq Require Import String.
From SQLair.Base Require Import Bytes Sexp.
From SQLair.Model Require Import Cache BindDump.

Inductive sop :=
| SNewStmt | SNewDB
| SRun (s d q : nat) (ctx : nat) (prepok : bool)     (* DB.Query(...).Run() *)
| SIter (s d q : nat) (ctx : nat)                    (* q := DB.Query(...); it := q.Iter() kept open *)
| SDropQuery (t : nat)
| SFinish (t : nat)                                  (* it.Close(), iterator dropped *)
| SDropStmt (s : nat) | SDropDB (d : nat)
| SCancel (ctx : nat)
| SGC.

Definition new_events (before after : world) : list event :=
  skipn (length (w_log before)) (w_log after).

Definition print_event (e : event) : str :=
  match e with
  | EvPrepare _ _ _ ctx ds => lit "P" ++ itoa_nat ds ++ lit "c" ++ itoa_nat ctx
  | EvExec _ ds ctx _ closed => lit "X" ++ itoa_nat ds ++ lit "c" ++ itoa_nat ctx ++ (if closed then lit "!" else [])
  | EvTxDirect _ _ _ ctx => lit "D" ++ lit "c" ++ itoa_nat ctx
  | EvClose ds => []
  | EvPanic n => lit "PANIC" ++ itoa_nat n
  end.

(* database/sql defers the driver-level close of a statement while its
   connection is in use; the scripts use one connection per DB, so closes on a
   DB with an open iterator are not visible at the driver yet *)
Definition is_iterated (w : world) (ds : nat) : bool :=
  existsb (fun th => match th_phase th with
                     | PIterating x => Nat.eqb (ds_db (hget w x)) (ds_db (hget w ds))
                     | _ => false
                     end) (w_threads w).

Definition closed_set (w : world) : list nat :=
  filter (fun ds => Nat.ltb 0 (ds_closes (hget w ds)) && negb (is_iterated w ds)) (seq 0 (length (w_heap w))).

Definition count_true (f : nat -> bool) (n : nat) : nat := length (filter f (seq 0 n)).

Definition print_counts (w : world) : str :=
  let cached := length (filter (fun '(s, d) => match w_cache w s d with Some _ => true | None => false end)
                               (list_prod (seq 0 (w_ns w)) (seq 0 (w_nd w)))) in
  let indexed := length (filter (fun '(s, d) => w_index w d s) (list_prod (seq 0 (w_ns w)) (seq 0 (w_nd w)))) in
  lit "S" ++ itoa_nat (count_true (w_sentry w) (w_ns w)) ++ lit "D" ++ itoa_nat (count_true (w_dentry w) (w_nd w)) ++
  lit "N" ++ itoa_nat cached ++ lit "I" ++ itoa_nat indexed.

Definition print_closed (w : world) : str :=
  lit "closed=" ++ paren (map itoa_nat (closed_set w)) ++ lit "," ++ print_counts w.

Definition last_thread (w : world) : nat := pred (length (w_threads w)).

Definition thread_failed (w : world) (t : nat) : bool :=
  match th_phase (tget w t) with PFinished => true | _ => false end.

(* executes one script operation; returns the new world and what to print *)
Definition sstep (w : world) (o : sop) : world * str :=
  match o with
  | SNewStmt => (step w NewStmt, lit "s" ++ itoa_nat (w_ns w))
  | SNewDB => (step w NewDB, lit "d" ++ itoa_nat (w_nd w))
  | SRun s d q ctx prepok =>
      let w1 := step w (Begin s d q false ctx) in
      if Nat.eqb (length (w_threads w1)) (length (w_threads w)) then (w1, lit "nohandle")
      else
        let t := last_thread w1 in
        let w2 := step (step w1 (Prepare t prepok)) (Store t) in
        let w3 := step w2 (Exec t) in
        let ok := match th_phase (tget w3 t) with PIterating _ => true | _ => false end in
        let w4 := step (step w3 (DropQuery t)) (Finish t) in
        (w4, concat_sep (lit ".") (filter (fun x => match x with [] => false | _ => true end)
                                          (map print_event (new_events w w4)) ++
                                   [if ok then lit "ok" else lit "err"]))
  | SIter s d q ctx =>
      let w1 := step w (Begin s d q false ctx) in
      if Nat.eqb (length (w_threads w1)) (length (w_threads w)) then (w1, lit "nohandle")
      else
        let t := last_thread w1 in
        let w2 := step (step w1 (Prepare t true)) (Store t) in
        let w3 := step w2 (Exec t) in
        let ok := match th_phase (tget w3 t) with PIterating _ => true | _ => false end in
        (w3, concat_sep (lit ".") (filter (fun x => match x with [] => false | _ => true end)
                                          (map print_event (new_events w w3)) ++
                                   [lit "t" ++ itoa_nat t; if ok then lit "ok" else lit "err"]))
  | SDropQuery t => (step w (DropQuery t), lit "dq")
  | SFinish t => (step w (Finish t), lit "fin")
  | SDropStmt s => (step w (DropStmt s), lit "ds")
  | SDropDB d => (step w (DropDB d), lit "dd")
  | SCancel c => (step w (Cancel c), lit "cancel")
  | SGC =>
      let w1 := gc_round (gc_round (gc_round w)) in
      (w1, concat_sep (lit ".") (filter (fun x => match x with [] => false | _ => true end)
                                        (map print_event (new_events w w1)) ++ [print_closed w1]))
  end.

Fixpoint srun (w : world) (ops : list sop) : world * list str :=
  match ops with
  | [] => (w, [])
  | o :: rest =>
      let '(w1, out) := sstep w o in
      let '(w2, outs) := srun w1 rest in
      (w2, out :: outs)
  end.

Definition dec_sop (s : sexp) : option sop :=
  match s with
  | Atom a =>
      if str_eqb a (lit "newstmt") then Some SNewStmt
      else if str_eqb a (lit "newdb") then Some SNewDB
      else if str_eqb a (lit "gc") then Some SGC
      else None
  | SList [Atom k; Atom a] =>
      obind (atom_nat a) (fun n =>
      if str_eqb k (lit "dropquery") then Some (SDropQuery n)
      else if str_eqb k (lit "finish") then Some (SFinish n)
      else if str_eqb k (lit "dropstmt") then Some (SDropStmt n)
      else if str_eqb k (lit "dropdb") then Some (SDropDB n)
      else if str_eqb k (lit "cancel") then Some (SCancel n)
      else None)
  | SList [Atom k; Atom s'; Atom d; Atom q; Atom c] =>
      if str_eqb k (lit "iter") then
        obind (atom_nat s') (fun s1 => obind (atom_nat d) (fun d1 => obind (atom_nat q) (fun q1 =>
        obind (atom_nat c) (fun c1 => Some (SIter s1 d1 q1 c1)))))
      else None
  | SList [Atom k; Atom s'; Atom d; Atom q; Atom c; Atom ok] =>
      if str_eqb k (lit "run") then
        obind (atom_nat s') (fun s1 => obind (atom_nat d) (fun d1 => obind (atom_nat q) (fun q1 =>
        obind (atom_nat c) (fun c1 => obind (atom_bool ok) (fun ok1 => Some (SRun s1 d1 q1 c1 ok1))))))
      else None
  | _ => None
  end.

Definition run_cache_line (req : list sexp) : option str :=
  match req with
  | [Atom cmd; SList ops] =>
      if str_eqb cmd (lit "cache") then
        obind (omap dec_sop ops) (fun ops' =>
        let '(w, outs) := srun w0 ops' in
        Some (concat_sep sp (outs ++ [lit "end:" ++ print_closed w])))
      else None
  | _ => None
  end.
