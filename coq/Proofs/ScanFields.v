(* C06, typing side: the index paths getStructFields computes for the tagged
   fields of a struct (through embedded structs) are pairwise incomparable, so
   two different members of a struct are independent scan locations. *)
From SQLair.Base Require Import Bytes.
From SQLair.Model Require Import Reflect TypeInfo Bind Scan.
From SQLair.Proofs Require Import BindFacts ScanAlgebra ScanProofs.

(* the inner loop of get_struct_fields, with the recursive call abstracted *)
Section Go.
Variables (rec : tid -> bres (list sfield)) (env : tenv) (st : tid).
Fixpoint gsf_go (fs : list field) (i : nat) : bres (list sfield) :=
  match fs with
  | [] => BOk []
  | f :: fs' =>
      let rest := gsf_go fs' (S i) in
      match f_anon f, f_tag f with
      | true, [] =>
          if negb (f_exported f) then rest
          else
            let ft := tget env (f_type f) in
            let st' := match t_kind ft with KPtr => t_elem ft | _ => f_type f end in
            match t_kind (tget env st') with
            | KStruct =>
                bbind (rec st') (fun nested =>
                bbind rest (fun r => BOk (map (reparent st i) nested ++ r)))
            | _ => rest
            end
      | _, [] => rest
      | _, tag =>
          if negb (f_exported f) then BErr ENotExported
          else
            bbind (parse_tag tag) (fun '(name, omit) =>
            bbind rest (fun r =>
              BOk ({| sf_name := f_name f; sf_struct := st; sf_index := [i];
                      sf_tag := name; sf_omit := omit |} :: r)))
      end
  end.
End Go.

Lemma gsf_unfold fuel env emb st :
  get_struct_fields (S fuel) env emb st =
  if existsb (Nat.eqb st) emb then BErr ESelfEmbed
  else gsf_go (get_struct_fields fuel env (emb ++ [st])) env st (t_fields (tget env st)) 0.
Proof. reflexivity. Qed.

Definition field_inv (st : tid) (i : nat) (f : sfield) : Prop :=
  sf_struct f = st /\ exists k rest, sf_index f = k :: rest /\ i <= k.

Lemma field_inv_weaken st i j f : j <= i -> field_inv st i f -> field_inv st j f.
Proof. intros L [E [k [rest [Ei Le]]]]. split; [exact E|]. exists k, rest. split; [exact Ei|lia]. Qed.

Lemma pairwise_map_cons i l :
  pairwise incomparable l -> pairwise incomparable (map (cons i) l).
Proof.
  induction l as [|p l IH]; simpl; [trivial|]. intros [F P]. split; [|apply IH; exact P].
  rewrite Forall_forall in *. intros q Hq. apply in_map_iff in Hq. destruct Hq as [q' [E Hq']]. subst q.
  apply incomparable_cons. right. split; [reflexivity|]. apply F. exact Hq'.
Qed.

Lemma gsf_go_spec rec env st :
  (forall t' fl, rec t' = BOk fl -> pairwise incomparable (map sf_index fl)) ->
  forall fs i fields,
    gsf_go rec env st fs i = BOk fields ->
    pairwise incomparable (map sf_index fields) /\ Forall (field_inv st i) fields.
Proof.
  intros Hrec. induction fs as [|f fs IH]; intros i fields H.
  - simpl in H. inversion H; subst. split; [exact I|constructor].
  - cbn [gsf_go] in H. cbv zeta in H.
    assert (forall fields, gsf_go rec env st fs (S i) = BOk fields ->
              pairwise incomparable (map sf_index fields) /\ Forall (field_inv st i) fields) as IH'.
    { intros fl Hfl. destruct (IH (S i) fl Hfl) as [P F]. split; [exact P|].
      eapply Forall_impl; [|exact F]. intros a. apply field_inv_weaken. lia. }
    assert (forall name omit fl,
              bbind (gsf_go rec env st fs (S i)) (fun r =>
                BOk ({| sf_name := f_name f; sf_struct := st; sf_index := [i]; sf_tag := name; sf_omit := omit |} :: r))
              = BOk fl ->
              pairwise incomparable (map sf_index fl) /\ Forall (field_inv st i) fl) as Tagged.
    { intros name omit fl Hfl.
      destruct (gsf_go rec env st fs (S i)) as [r|e] eqn:R; [|discriminate]. cbn [bbind] in Hfl.
      inversion Hfl; subst fl. destruct (IH (S i) r R) as [P F]. split.
      - cbn [map sf_index pairwise]. split; [|exact P].
        apply Forall_forall. intros q Hq. apply in_map_iff in Hq. destruct Hq as [g [E Hg]]. subst q.
        rewrite Forall_forall in F. destruct (F g Hg) as [_ [k [rest [Ei Le]]]]. rewrite Ei.
        apply incomparable_cons. left. lia.
      - constructor.
        + split; [reflexivity|]. exists i, []. split; [reflexivity|lia].
        + eapply Forall_impl; [|exact F]. intros a. apply field_inv_weaken. lia. }
    destruct (f_anon f); destruct (f_tag f) as [|c tag] eqn:Tg.
    + destruct (negb (f_exported f)); [apply IH'; exact H|].
      destruct (t_kind (tget env match t_kind (tget env (f_type f)) with
                                     | KPtr => t_elem (tget env (f_type f))
                                     | _ => f_type f
                                     end)); try (apply IH'; exact H).
      destruct (rec _) as [nested|e] eqn:Rn; [|discriminate]. cbn [bbind] in H.
      destruct (gsf_go rec env st fs (S i)) as [r|e] eqn:R; [|discriminate]. cbn [bbind] in H.
      inversion H; subst fields. destruct (IH (S i) r R) as [P F]. split.
      * rewrite map_app, map_map. cbn [reparent sf_index].
        rewrite <- (map_map sf_index (cons i)). apply pairwise_app. split; [|split].
        -- apply pairwise_map_cons. eapply Hrec. exact Rn.
        -- exact P.
        -- intros a b Ha Hb. apply in_map_iff in Ha. destruct Ha as [a' [Ea _]]. subst a.
           apply in_map_iff in Hb. destruct Hb as [g [Eb Hg]]. subst b.
           rewrite Forall_forall in F. destruct (F g Hg) as [_ [k [rest [Ei Le]]]]. rewrite Ei.
           apply incomparable_cons. left. lia.
      * apply Forall_app. split.
        -- apply Forall_forall. intros a Ha. apply in_map_iff in Ha. destruct Ha as [a' [Ea _]]. subst a.
           split; [reflexivity|]. exists i, (sf_index a'). split; [reflexivity|lia].
        -- eapply Forall_impl; [|exact F]. intros a. apply field_inv_weaken. lia.
    + destruct (negb (f_exported f)); [discriminate|].
      destruct (parse_tag (c :: tag)) as [[name omit]|e]; [|discriminate]. cbn [bbind] in H.
      eapply Tagged; exact H.
    + apply IH'. exact H.
    + destruct (negb (f_exported f)); [discriminate|].
      destruct (parse_tag (c :: tag)) as [[name omit]|e]; [|discriminate]. cbn [bbind] in H.
      eapply Tagged; exact H.
Qed.

Theorem struct_fields_pairwise fuel : forall env emb t fields,
  get_struct_fields fuel env emb t = BOk fields ->
  pairwise incomparable (map sf_index fields) /\ Forall (fun f => sf_struct f = t) fields.
Proof.
  induction fuel as [|fuel IH]; intros env emb t fields H; [discriminate|].
  rewrite gsf_unfold in H. destruct (existsb (Nat.eqb t) emb); [discriminate|].
  apply gsf_go_spec in H.
  - destruct H as [P F]. split; [exact P|]. eapply Forall_impl; [|exact F]. intros a [E _]. exact E.
  - intros t' fl Hfl. eapply IH. exact Hfl.
Qed.

(* two tagged fields of one struct with different index paths: neither path
   leads through the other (a tagged field is a leaf of the expansion) *)
Theorem struct_fields_incomparable fuel env emb t fields f1 f2 :
  get_struct_fields fuel env emb t = BOk fields ->
  In f1 fields -> In f2 fields -> sf_index f1 <> sf_index f2 ->
  incomparable (sf_index f1) (sf_index f2).
Proof.
  intros H H1 H2 Ne. apply struct_fields_pairwise in H. destruct H as [P _].
  apply In_nth_error in H1. destruct H1 as [i Hi]. apply In_nth_error in H2. destruct H2 as [j Hj].
  apply (pairwise_nth incomparable incomparable_sym (map sf_index fields) i j); try exact P.
  - intros E. subst j. congruence.
  - rewrite nth_error_map, Hi. reflexivity.
  - rewrite nth_error_map, Hj. reflexivity.
Qed.

(* members found under two different tags are independent scan locations *)
Lemma find_tag_in tag fs f : find_tag tag fs = Some f -> In f fs /\ sf_tag f = tag.
Proof.
  induction fs as [|g fs IH]; simpl; [discriminate|].
  destruct (str_eqb (sf_tag g) tag) eqn:E; intros H.
  - inversion H; subst. split; [left; reflexivity|apply str_eqb_eq; exact E].
  - destruct (IH H) as [I T]. split; [right; exact I|exact T].
Qed.

Theorem struct_members_independent fuel env emb t fields tag1 tag2 f1 f2 :
  get_struct_fields fuel env emb t = BOk fields ->
  find_tag tag1 fields = Some f1 -> find_tag tag2 fields = Some f2 -> tag1 <> tag2 ->
  loc_indep (LocField (sf_struct f1) (sf_index f1)) (LocField (sf_struct f2) (sf_index f2)).
Proof.
  intros H F1 F2 Ne. apply find_tag_in in F1. apply find_tag_in in F2.
  destruct F1 as [I1 T1], F2 as [I2 T2]. simpl. right.
  pose proof H as H'. apply struct_fields_pairwise in H'. destruct H' as [P _].
  apply In_nth_error in I1. destruct I1 as [i Hi]. apply In_nth_error in I2. destruct I2 as [j Hj].
  apply (pairwise_nth incomparable incomparable_sym (map sf_index fields) i j); try exact P.
  - intros E. subst j. rewrite Hi in Hj. inversion Hj; subst. congruence.
  - rewrite nth_error_map, Hi. reflexivity.
  - rewrite nth_error_map, Hj. reflexivity.
Qed.

(* ------------- independence of the targets from that of the outputs -- *)

Definition locator_loc (l : locator) : option loc :=
  match l with
  | LField f => Some (LocField (sf_struct f) (sf_index f))
  | LMapKey mt k => Some (LocKey mt k)
  | LSlice _ => None
  end.

Lemma locate_target_loc env l m tg :
  locate_scan_target env l m = BOk tg -> target_loc tg = locator_loc l.
Proof.
  destruct l as [f|mt k|st]; intros H.
  - apply locate_field_ok in H. destruct H as [s [y [ft [_ [_ [_ [[E _]|[E _]]]]]]]]; subst tg; reflexivity.
  - apply locate_key_ok in H. destruct H as [E _]. subst tg. reflexivity.
  - discriminate.
Qed.

Lemma filter_map_nodup_nth {A B} (f : A -> option B) (l : list A) :
  NoDup (filter_map f l) ->
  forall a b x y i, nth_error l a = Some x -> nth_error l b = Some y -> f x = Some i -> f y = Some i -> a = b.
Proof.
  induction l as [|h t IH]; intros ND a b x y i Ha Hb Fx Fy.
  - destruct a; discriminate.
  - assert (NoDup (filter_map f t)) as NDt.
    { simpl in ND. destruct (f h); [inversion ND; assumption|exact ND]. }
    destruct a as [|a], b as [|b]; simpl in Ha, Hb.
    + reflexivity.
    + inversion Ha; subst h. simpl in ND. rewrite Fx in ND. inversion ND as [|? ? Ni _]; subst.
      exfalso. apply Ni. apply filter_map_in. exists y. split; [eapply nth_error_In; exact Hb|exact Fy].
    + inversion Hb; subst h. simpl in ND. rewrite Fy in ND. inversion ND as [|? ? Ni _]; subst.
      exfalso. apply Ni. apply filter_map_in. exists x. split; [eapply nth_error_In; exact Ha|exact Fx].
    + f_equal. eapply IH; eassumption.
Qed.

(* if no alias occurs twice among the result columns and the outputs of the
   statement denote pairwise independent places, the targets are independent *)
Theorem targets_independent_from_outputs env outputs cols args m tgs :
  scan_args env outputs cols args = BOk (m, tgs) ->
  NoDup (filter_map marker_index cols) ->
  (forall i j li lj a b, i <> j -> nth_error outputs i = Some li -> nth_error outputs j = Some lj ->
     locator_loc li = Some a -> locator_loc lj = Some b -> loc_indep a b) ->
  targets_independent tgs.
Proof.
  intros SA ND OI. apply scan_args_iff in SA. destruct SA as [_ [[_ [S _]] Et]]. subst tgs.
  assert (forall a ta la, nth_error (map (fun c => fst (step_of env outputs m c)) cols) a = Some ta ->
            target_loc ta = Some la ->
            exists c i lo, nth_error cols a = Some c /\ marker_index c = Some i /\
                           nth_error outputs i = Some lo /\ locator_loc lo = Some la) as Inv.
  { intros a ta la Ha La. rewrite nth_error_map in Ha. destruct (nth_error cols a) as [c|] eqn:Hc; [|discriminate].
    simpl in Ha. inversion Ha; subst ta. destruct (S c (nth_error_In _ _ Hc)) as [st Hst].
    unfold step_of in La. rewrite Hst in La.
    pose proof (col_step_ok env outputs m c st Hst) as [_ [_ [Fo T]]].
    destruct (marker_index c) as [i|] eqn:Mi.
    - destruct T as [lo [Nl L]]. exists c, i, lo. repeat split; try assumption.
      rewrite <- (locate_target_loc env lo m _ L). exact La.
    - rewrite (proj2 Fo eq_refl) in La. discriminate. }
  intros a b ta tb la lb Ne Ha Hb La Lb.
  destruct (Inv a ta la Ha La) as [ca [ia [loa [Hca [Mia [Nla Lla]]]]]].
  destruct (Inv b tb lb Hb Lb) as [cb [ib [lob [Hcb [Mib [Nlb Llb]]]]]].
  apply (OI ia ib loa lob); try assumption.
  intros E. subst ib. apply Ne. eapply (filter_map_nodup_nth marker_index cols ND); eassumption.
Qed.
