(* C06: the order of the result columns does not matter.  ScanArgs' checks are
   about sets of columns; the writes of a row to pairwise independent places
   commute. *)
From Coq Require Import Permutation.
From SQLair.Base Require Import Bytes.
From SQLair.Model Require Import GenConsts Reflect TypeInfo Bind Scan.
From SQLair.Proofs Require Import BindFacts ScanAlgebra ScanProofs.

Local Opaque conv zero_val.

Lemma combine_map_l {A B C} (f : A -> C) (l : list A) : forall (l' : list B),
  combine (map f l) l' = map (fun ab => (f (fst ab), snd ab)) (combine l l').
Proof.
  induction l as [|a l IH]; intros [|b l']; simpl; try reflexivity. rewrite IH. reflexivity.
Qed.

Lemma perm_combine_fst {A B} (l1 l2 : list A) (k1 k2 : list B) :
  length k1 = length l1 -> length k2 = length l2 ->
  Permutation (combine l1 k1) (combine l2 k2) -> Permutation l1 l2.
Proof.
  intros L1 L2 P. rewrite <- (combine_fst_map l1 k1 L1), <- (combine_fst_map l2 k2 L2).
  apply Permutation_map. exact P.
Qed.

(* success of ScanArgs, the destinations and the target of each column do not
   depend on the order of the columns *)
Lemma scan_args_ok_perm env outputs cols cols' m :
  Permutation cols cols' -> scan_args_ok env outputs cols m -> scan_args_ok env outputs cols' m.
Proof.
  intros P [L [S [I U]]]. unfold scan_args_ok. rewrite <- (Permutation_length P). split; [exact L|].
  split; [|split].
  - intros c Hc. apply S. eapply Permutation_in; [apply Permutation_sym; exact P|exact Hc].
  - intros i Hi. eapply Permutation_in; [apply filter_map_perm; exact P|]. apply I. exact Hi.
  - intros t v Hi. eapply Permutation_in; [apply filter_map_perm; exact P|]. eapply U. exact Hi.
Qed.

Lemma scan_args_perm env outputs cols cols' args m tgs :
  Permutation cols cols' ->
  scan_args env outputs cols args = BOk (m, tgs) ->
  tgs = map (fun c => fst (step_of env outputs m c)) cols /\
  scan_args env outputs cols' args = BOk (m, map (fun c => fst (step_of env outputs m c)) cols').
Proof.
  intros P SA. apply scan_args_iff in SA. destruct SA as [V [OK Et]]. split; [exact Et|].
  apply scan_args_iff. split; [exact V|]. split; [|reflexivity].
  eapply scan_args_ok_perm; eassumption.
Qed.

Lemma row_writes_pairwise env tgs cells :
  length cells = length tgs -> Forall (cell_ok env) (combine tgs cells) -> targets_independent tgs ->
  pairwise loc_indep (map fst (row_writes env (combine tgs cells))).
Proof.
  intros Len OK TI.
  eapply pairwise_perm; [exact loc_indep_sym| |apply targets_independent_pairwise; exact TI].
  apply Permutation_sym.
  rewrite <- (combine_fst_map tgs cells Len) at 2. rewrite <- (write_of_locs env _ OK).
  apply Permutation_map, row_writes_perm.
Qed.

Lemma row_writes_fields env tcs :
  (forall mt k et c, ~ In (TProxyKey mt k et, c) tcs) ->
  Forall (fun w => is_field_loc (fst w) = true) (row_writes env tcs).
Proof.
  intros NK. apply Forall_forall. intros w Hw.
  eapply Permutation_in in Hw; [|apply row_writes_perm].
  apply filter_map_in in Hw. destruct Hw as [[tg c] [Hin Hw]]. unfold write_of in Hw. cbn [fst snd] in Hw.
  destruct tg as [|t p ft|t p ft|mt k et]; cbn [target_loc] in Hw; try discriminate.
  - destruct (stored env (TDirect t p ft) c); inversion Hw. reflexivity.
  - destruct (stored env (TProxyField t p ft) c); inversion Hw. reflexivity.
  - exfalso. eapply NK. exact Hin.
Qed.

Lemma scan_row_ok_inv env outputs cols cells args m' :
  scan_row env outputs cols cells args = (Some m', None) ->
  exists m tgs, scan_args env outputs cols args = BOk (m, tgs) /\
    Forall (cell_ok env) (combine tgs cells) /\
    m' = apply_writes m (row_writes env (combine tgs cells)).
Proof.
  unfold scan_row. destruct (scan_args env outputs cols args) as [[m tgs]|e]; [|discriminate].
  destruct (rows_scan_cells env tgs cells m []) as [m1 [pend|e]] eqn:R; [|discriminate].
  intros H. inversion H. exists m, tgs. split; [reflexivity|].
  destruct (scan_result_writes env tgs cells m m1 pend R) as [OK E]. auto.
Qed.

Lemma scan_row_ok_intro env outputs cols cells args m tgs :
  scan_args env outputs cols args = BOk (m, tgs) ->
  Forall (cell_ok env) (combine tgs cells) ->
  scan_row env outputs cols cells args = (Some (apply_writes m (row_writes env (combine tgs cells))), None).
Proof.
  intros SA OK. unfold scan_row. rewrite SA, (rows_scan_eq env tgs cells m [] OK). cbn [app].
  rewrite apply_pending_writes. unfold row_writes. rewrite apply_writes_app. reflexivity.
Qed.

(* Get on the same (column, value) pairs in another order: it succeeds as well,
   with the same destinations up to the order in which new map keys were
   added (val_eqv: Go maps are unordered) *)
Theorem scan_row_order_independent env outputs cols cells cols' cells' args m1 :
  length cells = length cols -> length cells' = length cols' ->
  Permutation (combine cols cells) (combine cols' cells') ->
  scan_row env outputs cols cells args = (Some m1, None) ->
  (forall m tgs, scan_args env outputs cols args = BOk (m, tgs) -> targets_independent tgs) ->
  exists m2, scan_row env outputs cols' cells' args = (Some m2, None) /\ t2v_eqv m1 m2 /\
    ((forall m tgs mt k et, scan_args env outputs cols args = BOk (m, tgs) -> ~ In (TProxyKey mt k et) tgs) ->
     m1 = m2).
Proof.
  intros L L' P SR TI.
  destruct (scan_row_ok_inv _ _ _ _ _ _ SR) as [m [tgs [SA [OK Em]]]].
  specialize (TI m tgs SA).
  pose proof (perm_combine_fst cols cols' cells cells' L L' P) as Pc.
  destruct (scan_args_perm env outputs cols cols' args m tgs Pc SA) as [Et SA'].
  set (tf := fun c => fst (step_of env outputs m c)) in *.
  assert (Permutation (combine tgs cells) (combine (map tf cols') cells')) as Ptc.
  { rewrite Et, !combine_map_l. apply Permutation_map. exact P. }
  assert (Forall (cell_ok env) (combine (map tf cols') cells')) as OK'.
  { rewrite Forall_forall in *. intros tc Htc. apply OK. eapply Permutation_in; [apply Permutation_sym; exact Ptc|exact Htc]. }
  assert (Permutation (row_writes env (combine tgs cells)) (row_writes env (combine (map tf cols') cells'))) as Pw.
  { eapply Permutation_trans; [apply row_writes_perm|].
    eapply Permutation_trans; [apply filter_map_perm; exact Ptc|]. apply Permutation_sym, row_writes_perm. }
  assert (length cells = length tgs) as Lt by (rewrite Et, map_length; exact L).
  pose proof (row_writes_pairwise env tgs cells Lt OK TI) as PW.
  eexists. split; [apply (scan_row_ok_intro _ _ _ _ _ _ _ SA' OK')|]. subst m1. split.
  - apply apply_writes_perm; [exact Pw|exact PW|apply t2v_eqv_refl].
  - intros NK. apply apply_writes_perm_eq; [exact Pw|exact PW|].
    apply row_writes_fields. intros mt k et c Hin. apply (NK m tgs mt k et SA).
    rewrite <- (combine_fst_map tgs cells Lt). apply in_map_iff. exists (TProxyKey mt k et, c). auto.
Qed.

(* the literal statement (the same destinations, structurally) fails in the
   model when two columns add new keys to one map: the association list keeps
   the insertion order *)
Definition order_independent_statement : Prop :=
  forall env outputs cols cells cols' cells' args m1,
    length cells = length cols -> length cells' = length cols' ->
    Permutation (combine cols cells) (combine cols' cells') ->
    scan_row env outputs cols cells args = (Some m1, None) ->
    (forall m tgs, scan_args env outputs cols args = BOk (m, tgs) -> targets_independent tgs) ->
    scan_row env outputs cols' cells' args = (Some m1, None).

From Coq Require Import String.
From SQLair.Base Require Import Sexp.
From SQLair.Proofs Require Import ScanExample.

(* the counterexample: SELECT &M.k, &M.i into a map that has neither key *)
Lemma order_independent_statement_false : ~ order_independent_statement.
Proof.
  intros H.
  specialize (H ex_env [LMapKey 6 (lit "k"); LMapKey 6 (lit "i")]
                [marker_name 0; marker_name 1] [CInt 1; CInt 2]
                [marker_name 1; marker_name 0] [CInt 2; CInt 1]
                [AVal 6 ex_m]
                [(6, VMap false [(lit "j", leaf 104); (lit "x", leaf 105); (lit "k", leaf 1); (lit "i", leaf 2)])]
                eq_refl eq_refl).
  assert (scan_row ex_env [LMapKey 6 (lit "k"); LMapKey 6 (lit "i")] [marker_name 1; marker_name 0]
            [CInt 2; CInt 1] [AVal 6 ex_m] =
          (Some [(6, VMap false [(lit "j", leaf 104); (lit "x", leaf 105); (lit "k", leaf 1); (lit "i", leaf 2)])], None)) as X.
  { apply H.
    - apply perm_swap.
    - vm_compute. reflexivity.
    - intros m tgs E. vm_compute in E. inversion E; subst. apply targets_independentb_spec. vm_compute. reflexivity. }
  vm_compute in X. discriminate.
Qed.
