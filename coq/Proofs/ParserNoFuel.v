(* The fuel of the parser model is sufficient: no function of the model, and in
   particular [parse], ever reports [EFuel] ("the Go loop would not
   terminate").  Every loop runs on fuel [S (length rest)] and every iteration
   that goes round again has consumed at least one byte.

   Used by Proofs/ParserShift.v to state translation invariance of errors
   without a side condition. *)
From SQLair.Base Require Import Bytes Utf8.
From SQLair.Model Require Import GenUnicode GenConsts Parser.
From SQLair.Proofs Require Import Utf8Facts ParserExt ParserTiling.

Notation len s := (length (rest s)).

(* ------------------------------------------------------------ measures -- *)

Lemma advance_len st : len (advance st) <= len st /\ (0 < len st -> len (advance st) < len st).
Proof.
  split.
  - apply ext_len, advance_ext.
  - intros H. apply advance_progress. unfold at_end. destruct (rest st); [cbn in H; lia|reflexivity].
Qed.

Lemma at_end_false_len st : at_end st = false -> 0 < len st.
Proof. unfold at_end. destruct (rest st); [discriminate|cbn; lia]. Qed.

Lemma skipChar_true_len c s s1 : skipChar c s = (s1, true) -> len s1 < len s.
Proof.
  unfold skipChar. destruct (negb (at_end s) && N.eqb (cur s) c) eqn:E; intros H; inversion H; subst.
  apply andb_prop in E. destruct E as [E _]. apply negb_true_iff in E.
  apply advance_progress. exact E.
Qed.

Class NoFuel {A} (f : pstate -> pstate * res A) : Prop :=
  no_fuel : forall s s' e, f s = (s', Err e) -> ekind_of e <> EFuel.

Class StrictLen {A} (f : pstate -> pstate * res A) : Prop :=
  strict_len : forall s s' v, f s = (s', Ok v) -> len s' < len s.

(* turn every recorded call into a fact about lengths *)
Ltac len_facts :=
  repeat match goal with
         | E : skipChar ?c ?s = (?s1, true) |- _ => apply skipChar_true_len in E
         | E : ?g ?s = (?s1, Ok ?v) |- _ =>
             let inst := constr:(_ : StrictLen g) in
             apply (@strict_len _ g inst) in E
         | E : ?g ?s = (?s1, ?r) |- _ =>
             let inst := constr:(_ : ExtFn g) in
             apply (@ext_prf _ g inst s s s1 r (ext_refl s)) in E; apply ext_len in E
         | E : at_end ?s = false |- _ => apply at_end_false_len in E
         end;
  repeat match goal with
         | |- context [advance ?x] =>
             lazymatch goal with
             | _ : len (advance x) <= len x /\ _ |- _ => fail
             | _ => pose proof (advance_len x)
             end
         | H : context [advance ?x] |- _ =>
             lazymatch goal with
             | _ : len (advance x) <= len x /\ _ |- _ => fail
             | _ => pose proof (advance_len x)
             end
         end.

Ltac len_solve := unfold fuel_of in *; len_facts; lia.

(* extension point: a loop that ran out of fuel although it had enough *)
Ltac nf_opt := fail.

Ltac nf_leaf :=
  first
    [ match goal with
      | E : ?g ?s = (?s1, Err ?e) |- ekind_of ?e <> EFuel => exact (no_fuel (f:=g) _ _ _ E)
      end
    | cbn; congruence
    | nf_opt
    | idtac ].

Ltac nf_go H := case_go H; nf_leaf.

(* ----------------------------------------------------- character level -- *)

Lemma skipCharFind_loop_fuel fuel : forall c s,
  len s < fuel -> skipCharFind_loop fuel c s <> None.
Proof.
  induction fuel as [|f IH]; intros c s L; [lia|]. cbn [skipCharFind_loop].
  destruct (at_end s) eqn:AE; [discriminate|]. destruct (N.eqb (cur s) c); [discriminate|].
  apply IH. len_solve.
Qed.

Lemma skipCharFind_loop_strict fuel : forall c s s',
  skipCharFind_loop fuel c s = Some (Some s') -> len s' < len s.
Proof.
  induction fuel as [|f IH]; intros c s s' H; [discriminate|]. cbn [skipCharFind_loop] in H.
  destruct (at_end s) eqn:AE; [discriminate|]. destruct (N.eqb (cur s) c).
  - inversion H; subst. len_solve.
  - apply IH in H. len_solve.
Qed.

Lemma skipCharFind_no_err c s s' e : skipCharFind c s <> (s', Err e).
Proof.
  unfold skipCharFind. destruct (skipCharFind_loop (fuel_of s) c s) as [[s1|]|] eqn:E; try discriminate.
  exfalso. eapply skipCharFind_loop_fuel; [|exact E]. unfold fuel_of. lia.
Qed.

#[export] Instance skipCharFind_nf c : NoFuel (skipCharFind c).
Proof. intros s s' e H. exfalso. eapply skipCharFind_no_err. exact H. Qed.

#[export] Instance skipCharFind_strict c : StrictLen (skipCharFind c).
Proof.
  intros s s' v H. unfold skipCharFind in H.
  destruct (skipCharFind_loop (fuel_of s) c s) as [[s1|]|] eqn:E; inversion H; subst.
  eapply skipCharFind_loop_strict. exact E.
Qed.

Lemma strlit_loop_fuel fuel : forall c m s, len s < fuel -> strlit_loop fuel c m s <> None.
Proof.
  induction fuel as [|f IH]; intros c m s L; [lia|]. cbn [strlit_loop].
  destruct (skipCharFind c s) as [s1 r1] eqn:E. destruct r1 as [u| |e].
  - destruct (m && negb (peekChar c s1)); [discriminate|]. apply IH. len_solve.
  - discriminate.
  - exfalso. eapply skipCharFind_no_err. exact E.
Qed.

Lemma comment_loop_fuel fuel : forall c s, len s < fuel -> comment_loop fuel c s <> None.
Proof.
  induction fuel as [|f IH]; intros c s L; [lia|]. cbn [comment_loop].
  destruct (at_end s) eqn:AE; [discriminate|].
  destruct (N.eqb (cur s) c); [|apply IH; len_solve].
  destruct (N.eqb c ch_star); [|discriminate].
  destruct (skipChar ch_slash (advance s)) as [s2 ok] eqn:E.
  destruct ok; [discriminate|]. apply IH. len_solve.
Qed.

Lemma namechars_loop_fuel fuel : forall s, len s < fuel -> namechars_loop fuel s <> None.
Proof.
  induction fuel as [|f IH]; intros s L; [lia|]. cbn [namechars_loop].
  destruct (negb (at_end s) && isNameChar (cur s)) eqn:C; [|discriminate].
  apply andb_prop in C. destruct C as [C _]. apply negb_true_iff in C.
  apply IH. len_solve.
Qed.

Ltac nf_opt ::=
  exfalso;
  match goal with
  | E : skipCharFind_loop _ _ _ = None |- _ => eapply skipCharFind_loop_fuel; [|exact E]
  | E : strlit_loop _ _ _ _ = None |- _ => eapply strlit_loop_fuel; [|exact E]
  | E : comment_loop _ _ _ = None |- _ => eapply comment_loop_fuel; [|exact E]
  | E : namechars_loop _ _ = None |- _ => eapply namechars_loop_fuel; [|exact E]
  end; len_solve.

#[export] Instance skipStringLiteral_nf : NoFuel skipStringLiteral.
Proof. intros s s' e H. unfold skipStringLiteral in H. nf_go H. Qed.

#[export] Instance skipStringLiteral_strict : StrictLen skipStringLiteral.
Proof.
  intros s s' v H. unfold skipStringLiteral in H. case_go H; skipchar_false.
  all: match goal with
       | E : strlit_loop _ _ _ ?x = Some (Some ?y) |- _ =>
           pose proof (ext_len _ _ (strlit_loop_ext _ _ _ _ _ _ (ext_refl x) E))
       end; len_solve.
Qed.

#[export] Instance skipComment_nf : NoFuel skipComment.
Proof. intros s s' e H. unfold skipComment in H. nf_go H. Qed.

#[export] Instance skipComment_strict : StrictLen skipComment.
Proof.
  intros s s' v H. unfold skipComment in H. case_go H; skipchar_false.
  all: match goal with
       | E : comment_loop _ _ ?x = Some ?y |- _ =>
           pose proof (ext_len _ _ (comment_loop_ext _ _ _ _ _ (ext_refl x) E))
       end; len_solve.
Qed.

Lemma skipBlanks_loop_nf fuel : forall s s' e,
  len s < fuel -> skipBlanks_loop fuel s = (s', Err e) -> ekind_of e <> EFuel.
Proof.
  induction fuel as [|f IH]; intros s s' e L H; [lia|]. cbn [skipBlanks_loop] in H.
  nf_go H. all: (eapply IH; [|exact H]; len_solve).
Qed.

#[export] Instance skipBlanks_nf : NoFuel skipBlanks.
Proof.
  intros s s' e H. unfold skipBlanks in H. eapply skipBlanks_loop_nf; [|exact H]. unfold fuel_of. lia.
Qed.

Lemma parens_loop_nf fuel : forall n s s' e,
  len s < fuel -> parens_loop fuel n s = (s', Err e) -> ekind_of e <> EFuel.
Proof.
  induction fuel as [|f IH]; intros n s s' e L H; [lia|]. cbn [parens_loop] in H.
  nf_go H. all: (eapply IH; [|exact H]; len_solve).
Qed.

#[export] Instance skipEnclosedParentheses_nf : NoFuel skipEnclosedParentheses.
Proof.
  intros s s' e H. unfold skipEnclosedParentheses in H. nf_go H.
  all: match goal with E : parens_loop _ _ _ = (_, Err _) |- _ =>
         eapply parens_loop_nf; [|exact E]; unfold fuel_of; lia end.
Qed.

#[export] Instance skipEnclosedParentheses_strict : StrictLen skipEnclosedParentheses.
Proof.
  intros s s' v H. unfold skipEnclosedParentheses in H. case_go H; skipchar_false. len_solve.
Qed.

Lemma litlist_loop_nf fuel : forall s s' e,
  len s < fuel -> litlist_loop fuel s = (s', Err e) -> ekind_of e <> EFuel.
Proof.
  induction fuel as [|f IH]; intros s s' e L H; [lia|]. cbn [litlist_loop] in H.
  nf_go H. all: (eapply IH; [|exact H]; len_solve).
Qed.

#[export] Instance skipLiteralInList_nf : NoFuel skipLiteralInList.
Proof.
  intros s s' e H. unfold skipLiteralInList in H. eapply litlist_loop_nf; [|exact H]. unfold fuel_of. lia.
Qed.

(* ---------------------------------------------------------------- names -- *)

#[export] Instance parseIdentifier_nf : NoFuel parseIdentifier.
Proof. intros s s' e H. unfold parseIdentifier in H. nf_go H. Qed.

#[export] Instance parseIdentifierAsterisk_nf : NoFuel parseIdentifierAsterisk.
Proof. intros s s' e H. unfold parseIdentifierAsterisk in H. nf_go H. Qed.

#[export] Instance parseTypeName_nf : NoFuel parseTypeName.
Proof. intros s s' e H. unfold parseTypeName in H. nf_go H. Qed.

#[export] Instance parseColumnAccessor_nf : NoFuel parseColumnAccessor.
Proof. intros s s' e H. unfold parseColumnAccessor in H. nf_go H. Qed.

#[export] Instance parseSliceAccessor_nf : NoFuel parseSliceAccessor.
Proof. intros s s' e H. unfold parseSliceAccessor in H. nf_go H. Qed.

#[export] Instance parseTypeAndMember_nf : NoFuel parseTypeAndMember.
Proof. intros s s' e H. unfold parseTypeAndMember in H. nf_go H. Qed.

#[export] Instance parseTargetType_nf : NoFuel parseTargetType.
Proof. intros s s' e H. unfold parseTargetType in H. nf_go H. Qed.

#[export] Instance parseInputMemberAccessor_nf : NoFuel parseInputMemberAccessor.
Proof. intros s s' e H. unfold parseInputMemberAccessor in H. nf_go H. Qed.

Section ParseListFuel.
  Context {T : Type} (parseFn : pstate -> pstate * res T).
  Context (parseFn_nf : NoFuel parseFn) (parseFn_ext : ExtFn parseFn).

  Lemma parseList_loop_nf fuel : forall cp first acc s s' e,
    len s < fuel -> parseList_loop parseFn fuel cp first acc s = (s', Err e) -> ekind_of e <> EFuel.
  Proof using parseFn_nf parseFn_ext.
    induction fuel as [|f IH]; intros cp first acc s s' e L H; [lia|]. cbn [parseList_loop] in H.
    nf_go H. all: (eapply IH; [|exact H]; len_solve).
  Qed.

  #[export] Instance parseList_nf : NoFuel (parseList parseFn).
  Proof using parseFn_nf parseFn_ext.
    intros s s' e H. unfold parseList in H. nf_go H.
    eapply parseList_loop_nf; [|exact H]. unfold fuel_of. lia.
  Qed.
End ParseListFuel.

(* ----------------------------------------------------------- expressions -- *)

#[export] Instance parseColumns_nf : NoFuel parseColumns.
Proof. intros s s' e H. unfold parseColumns, is_fuel_err in H. nf_go H. Qed.

#[export] Instance parseTargetTypes_nf : NoFuel parseTargetTypes.
Proof. intros s s' e H. unfold parseTargetTypes in H. nf_go H. Qed.

#[export] Instance parseOutputExpr_nf : NoFuel parseOutputExpr.
Proof. intros s s' e H. unfold parseOutputExpr in H. nf_go H. Qed.

#[export] Instance parseSliceInputExpr_nf : NoFuel parseSliceInputExpr.
Proof. intros s s' e H. unfold parseSliceInputExpr in H. nf_go H. Qed.

#[export] Instance parseMemberInputExpr_nf : NoFuel parseMemberInputExpr.
Proof. intros s s' e H. unfold parseMemberInputExpr in H. nf_go H. Qed.

#[export] Instance parseComplexInsertValues_nf : NoFuel parseComplexInsertValues.
Proof. intros s s' e H. unfold parseComplexInsertValues, is_fuel_err in H. nf_go H. Qed.

#[export] Instance parseAsteriskInsertExpr_nf : NoFuel parseAsteriskInsertExpr.
Proof. intros s s' e H. unfold parseAsteriskInsertExpr in H. nf_go H. Qed.

Lemma basicvals_loop_nf fuel : forall cp ip acc s s' e,
  len s < fuel -> basicvals_loop fuel cp ip acc s = (s', Err e) -> ekind_of e <> EFuel.
Proof.
  induction fuel as [|f IH]; intros cp ip acc s s' e L H; [lia|]. cbn [basicvals_loop] in H.
  nf_go H. all: (eapply IH; [|exact H]; len_solve).
Qed.

#[export] Instance parseBasicInsertValues_nf : NoFuel parseBasicInsertValues.
Proof.
  intros s s' e H. unfold parseBasicInsertValues, is_fuel_err in H. nf_go H.
  eapply basicvals_loop_nf; [|exact H]. unfold fuel_of. lia.
Qed.

#[export] Instance parseInsertExpr_nf : NoFuel parseInsertExpr.
Proof. intros s s' e H. unfold parseInsertExpr, is_fuel_err in H. nf_go H. Qed.

#[export] Instance parseInputExpr_nf : NoFuel parseInputExpr.
Proof. intros s s' e H. unfold parseInputExpr in H. nf_go H. Qed.

Lemma advance_loop_nf fuel : forall s s' e,
  len s < fuel -> advance_loop fuel s = (s', Err e) -> ekind_of e <> EFuel.
Proof.
  induction fuel as [|f IH]; intros s s' e L H; [lia|]. cbn [advance_loop] in H.
  nf_go H. all: (eapply IH; [|exact H]; len_solve).
Qed.

#[export] Instance advanceToNextExpression_nf : NoFuel advanceToNextExpression.
Proof.
  intros s s' e H. unfold advanceToNextExpression in H. nf_go H.
  all: match goal with E : advance_loop _ _ = (_, Err _) |- _ =>
         eapply advance_loop_nf; [|exact E]; unfold fuel_of; lia end.
Qed.

(* ---------------------------------------- successful expressions progress -- *)

Ltac strict_len_go H := case_go H; skipchar_false; len_solve.

#[export] Instance parseTargetType_strict : StrictLen parseTargetType.
Proof. intros s s' v H. unfold parseTargetType in H. strict_len_go H. Qed.

#[export] Instance parseInputMemberAccessor_strict : StrictLen parseInputMemberAccessor.
Proof. intros s s' v H. unfold parseInputMemberAccessor in H. strict_len_go H. Qed.

#[export] Instance parseSliceInputExpr_strict : StrictLen parseSliceInputExpr.
Proof. intros s s' v H. unfold parseSliceInputExpr in H. strict_len_go H. Qed.

#[export] Instance parseMemberInputExpr_strict : StrictLen parseMemberInputExpr.
Proof. intros s s' v H. unfold parseMemberInputExpr in H. strict_len_go H. Qed.

#[export] Instance parseAsteriskInsertExpr_strict : StrictLen parseAsteriskInsertExpr.
Proof. intros s s' v H. unfold parseAsteriskInsertExpr in H. strict_len_go H. Qed.

Lemma skipString_true_len kw s s1 : skipString kw s = (s1, true) -> len s1 = len s - length kw.
Proof.
  unfold skipString. destruct (prefix_fold kw (rest s)); intros H; inversion H; subst.
  cbn [rest]. apply skipn_length.
Qed.

Lemma prefix_fold_len kw : forall s, prefix_fold kw s = true -> length kw <= length s.
Proof.
  induction kw as [|k kw IH]; intros s P; [cbn; lia|].
  destruct s as [|x s]; cbn [prefix_fold] in P; [discriminate|].
  apply andb_prop in P. destruct P as [_ P]. apply IH in P. cbn [length]. lia.
Qed.

Lemma skipString_true_strict kw s s1 : kw <> [] -> skipString kw s = (s1, true) -> len s1 < len s.
Proof.
  intros NE H. pose proof (skipString_true_len _ _ _ H) as L. unfold skipString in H.
  destruct (prefix_fold kw (rest s)) eqn:P; [|discriminate].
  apply prefix_fold_len in P. destruct kw; [congruence|]. cbn [length] in *. lia.
Qed.

#[export] Instance parseInsertExpr_strict : StrictLen parseInsertExpr.
Proof.
  intros s s' v H. unfold parseInsertExpr, is_fuel_err in H. case_go H; skipchar_false.
  all: try match goal with
           | E : skipString kw_insert_values _ = (_, true) |- _ =>
               apply skipString_true_strict in E; [|discriminate]
           end; len_solve.
Qed.

#[export] Instance parseInputExpr_strict : StrictLen parseInputExpr.
Proof. intros s s' v H. unfold parseInputExpr in H. strict_len_go H. Qed.

#[export] Instance parseOutputExpr_strict : StrictLen parseOutputExpr.
Proof.
  intros s s' v H. unfold parseOutputExpr in H. case_go H; skipchar_false.
  all: try match goal with
           | E : skipString kw_output_as _ = (_, true) |- _ =>
               apply skipString_true_strict in E; [|discriminate]
           end; len_solve.
Qed.

(* ------------------------------------------------------------ main loop -- *)

Lemma parse_loop_nf fuel : forall prev acc st e,
  len st < fuel -> parse_loop fuel prev acc st = Err e -> ekind_of e <> EFuel.
Proof.
  induction fuel as [|f IH]; intros prev acc st e L H; [lia|]. cbn [parse_loop] in H.
  destruct (advanceToNextExpression st) as [st1 r1] eqn:A.
  assert (G : r1 = Err e \/
    (if at_end st1 then Ok (add_bypass prev st1 acc)
     else match parseOutputExpr st1 with
          | (_, Err e) => Err e
          | (st2, Ok out) => parse_loop f st2 (add_bypass prev st1 acc ++ [out]) st2
          | (st2, No) =>
              match parseInputExpr st2 with
              | (_, Err e) => Err e
              | (st3, Ok inp) => parse_loop f st3 (add_bypass prev st1 acc ++ [inp]) st3
              | (st3, No) => parse_loop f prev acc (advance st3)
              end
          end) = Err e).
  { destruct r1; auto. inversion H; subst. auto. }
  clear H. destruct G as [G|G].
  { subst r1. exact (no_fuel (f:=advanceToNextExpression) _ _ _ A). }
  destruct (at_end st1) eqn:AE; [discriminate|].
  destruct (parseOutputExpr st1) as [st2 r2] eqn:O.
  destruct r2 as [out| |e2].
  - eapply IH; [|exact G]. len_solve.
  - destruct (parseInputExpr st2) as [st3 r3] eqn:P.
    destruct r3 as [ie| |e3].
    + eapply IH; [|exact G]. len_solve.
    + eapply IH; [|exact G]. len_solve.
    + inversion G; subst. exact (no_fuel (f:=parseInputExpr) _ _ _ P).
  - inversion G; subst. exact (no_fuel (f:=parseOutputExpr) _ _ _ O).
Qed.

Theorem parse_no_fuel inp e : parse inp = Err e -> ekind_of e <> EFuel.
Proof.
  unfold parse. intros H. eapply parse_loop_nf; [|exact H]. unfold fuel_of. lia.
Qed.
