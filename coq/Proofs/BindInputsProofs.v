(* BindInputs as a whole (C03 bijection and order, C05 output aliases):
   invariants of add_to_query / add_all over the query builder. *)
From Coq Require Import Permutation.
From SQLair.Base Require Import Bytes.
From SQLair.Model Require Import GenConsts Reflect TypeInfo Parser Bind.
From SQLair.Proofs Require Import ItoaFacts BindFacts InsertProofs.

(* ------------------------------------------------ per expression specs -- *)

(* TInsert: the complete effect on the builder *)
Lemma add_insert_spec env m q cols q' :
  add_to_query env m q (TInsert cols) = BOk q' ->
  exists bcs numRows,
    bind_cols env m (q_inputCount q) (q_argUsed q) cols false 1 [] =
      BOk (bcs, q_inputCount q', q_argUsed q', numRows) /\
    q_sql q' = q_sql q ++
      write_insert (map bc_column (live bcs))
                   (map (fun r => map (fun bc => cell bc r) (live bcs)) (seq 0 numRows)) /\
    q_named q' = q_named q ++
      flat_map (fun r => flat_map (fun bc => cell_arg bc r) (live bcs)) (seq 0 numRows) /\
    q_outputs q' = q_outputs q /\ q_outputCount q' = q_outputCount q.
Proof.
  cbn [add_to_query].
  destruct (bind_cols env m (q_inputCount q) (q_argUsed q) cols false 1 [])
    as [[[[bcs cnt] used] numRows]|e] eqn:BC; cbn [bbind]; [|discriminate].
  destruct (insert_rows bcs (seq 0 numRows) [] (q_named q)) as [[rowsSQL named]|e] eqn:IR;
    cbn [bbind]; [|discriminate].
  intros H. inversion H; subst; clear H. cbn.
  apply insert_rows_spec in IR. destruct IR as [R1 R2]. cbn [app] in R1. subst.
  exists bcs, numRows. repeat split; reflexivity.
Qed.

Lemma add_input_spec env m q l q' :
  add_to_query env m q (TInput l) = BOk q' ->
  exists p, locate_params env l m = BOk p /\ p_omit p = false /\ p_bulk p = false /\
    q_inputCount q' = q_inputCount q + length (p_vals p) /\
    nums (q_sql q') = nums (q_sql q) ++ seq (q_inputCount q) (length (p_vals p)) /\
    q_sql q' = q_sql q ++ comma_list (map (fun i => [TIn i]) (seq (q_inputCount q) (length (p_vals p)))) /\
    q_named q' = q_named q ++ map (fun '(i, v) => (arg_name i, v))
                                 (combine (seq (q_inputCount q) (length (p_vals p))) (p_vals p)) /\
    q_outputs q' = q_outputs q /\ q_outputCount q' = q_outputCount q /\
    q_argUsed q' = p_argtype p :: q_argUsed q.
Proof.
  cbn [add_to_query]. destruct (locate_params env l m) as [p|e]; cbn [bbind]; [|discriminate].
  destruct (p_omit p) eqn:O; [discriminate|]. destruct (p_bulk p) eqn:B; [discriminate|].
  intros H. inversion H; subst; clear H. exists p.
  pose proof (add_inputs_spec (qb_with q (q_inputCount q) (p_argtype p :: q_argUsed q) (q_sql q) (q_named q))
                (p_vals p)) as S. cbv zeta in S. destruct S as [S1 [S2 [S3 [S4 S5]]]].
  repeat split; try assumption; reflexivity.
Qed.

(* ------------------------------------------------------ C03 bijection -- *)

Definition inputs_inv (q : qb) : Prop :=
  Permutation (map fst (q_named q)) (map arg_name (seq 0 (q_inputCount q))) /\
  forall x, In x (nums (q_sql q)) <-> x < q_inputCount q.

Lemma names_of_combine (vs : list val) : forall s,
  map fst (map (fun '(i, v) => (arg_name i, v)) (combine (seq s (length vs)) vs)) =
  map arg_name (seq s (length vs)).
Proof.
  induction vs as [|v vs IH]; intros s; [reflexivity|].
  cbn [length seq combine map fst]. rewrite IH. reflexivity.
Qed.

Lemma write_output_nums n cols : nums (write_output n cols) = [].
Proof.
  unfold write_output, comma_list. rewrite nums_is, tok_sep_flat by exact tnum_textfree.
  rewrite flat_map_map. rewrite (flat_map_ext _ (fun _ => [])); [apply flat_map_nil|].
  intros [i c]. reflexivity.
Qed.

Lemma inv_extend q q' k :
  inputs_inv q -> q_inputCount q' = q_inputCount q + k ->
  (exists new, map fst (q_named q') = map fst (q_named q) ++ new /\
               Permutation new (map arg_name (seq (q_inputCount q) k))) ->
  (exists newn, nums (q_sql q') = nums (q_sql q) ++ newn /\
                forall x, In x newn <-> In x (seq (q_inputCount q) k)) ->
  inputs_inv q'.
Proof.
  intros [P N] C [new [En Pn]] [newn [Es Is]]. split.
  - rewrite En, C, seq_app, map_app. apply Permutation_app; [exact P|exact Pn].
  - intros x. rewrite Es, in_app_iff, N, Is, in_seq, C. lia.
Qed.

Lemma add_to_query_inv env m q e q' :
  add_to_query env m q e = BOk q' -> inputs_inv q ->
  inputs_inv q' /\ q_inputCount q <= q_inputCount q'.
Proof.
  intros H Inv. destruct e as [chunk|l|cols|ocs].
  - cbn [add_to_query] in H. inversion H; subst; clear H. split; [|cbn; lia].
    apply (inv_extend q _ 0 Inv); cbn [q_inputCount qb_with q_named q_sql seq map].
    + lia.
    + exists []. rewrite app_nil_r. split; [reflexivity|constructor].
    + exists []. rewrite nums_app. split; [reflexivity|tauto].
  - apply add_input_spec in H. destruct H as [p [_ [_ [_ [C [Ns [_ [Nm _]]]]]]]].
    split; [|lia]. apply (inv_extend q q' (length (p_vals p)) Inv C).
    + eexists. split; [rewrite Nm, map_app; reflexivity|]. rewrite names_of_combine. apply Permutation_refl.
    + eexists. split; [exact Ns|tauto].
  - apply add_insert_spec in H. destruct H as [bcs [numRows [BC [Sq [Nm _]]]]].
    apply bind_cols_top in BC. destruct BC as [_ [L [C [_ [W [N1 _]]]]]].
    split; [|lia]. apply (inv_extend q q' (sumw bcs) Inv C).
    + eexists. split; [rewrite Nm, map_app; reflexivity|]. apply (insert_names numRows); assumption.
    + eexists. split; [rewrite Sq, nums_app; reflexivity|].
      intros x. rewrite nums_is, write_insert_flat by exact tnum_textfree.
      rewrite flat_map_map.
      rewrite (flat_map_ext _ (fun r => flat_map (fun bc => tnum (cell bc r)) (live bcs)))
        by (intros r; apply flat_map_map).
      apply (insert_nums numRows); assumption.
  - cbn [add_to_query] in H. inversion H; subst; clear H. split; [|cbn; lia].
    apply (inv_extend q _ 0 Inv); cbn [q_inputCount q_named q_sql seq map].
    + lia.
    + exists []. rewrite app_nil_r. split; [reflexivity|constructor].
    + exists []. rewrite nums_app, write_output_nums. split; [reflexivity|tauto].
Qed.

Lemma add_all_inv env m : forall es q q',
  add_all env m q es = BOk q' -> inputs_inv q -> inputs_inv q' /\ q_inputCount q <= q_inputCount q'.
Proof.
  induction es as [|e es IH]; intros q q' H Inv; cbn [add_all] in H.
  - inversion H; subst. split; [exact Inv|lia].
  - destruct (add_to_query env m q e) as [q1|err] eqn:A; cbn [bbind] in H; [|discriminate].
    destruct (add_to_query_inv _ _ _ _ _ A Inv) as [Inv1 Le1].
    destruct (IH _ _ H Inv1) as [Inv2 Le2]. split; [exact Inv2|lia].
Qed.

Lemma inputs_inv_init : inputs_inv qb_init.
Proof. split; [constructor|]. intros x. cbn. split; [tauto|lia]. Qed.

Lemma bind_inputs_query env tbe args pq :
  bind_inputs env tbe args = BOk pq ->
  exists m q, validate_inputs env args [] = BOk m /\ add_all env m qb_init tbe = BOk q /\
    pq_toks pq = q_sql q /\ pq_params pq = q_named q /\ pq_outputs pq = q_outputs q /\
    forallb (fun '(t, _) => existsb (Nat.eqb t) (q_argUsed q)) m = true.
Proof.
  unfold bind_inputs. destruct (validate_inputs env args []) as [m|e] eqn:V; cbn [bbind]; [|discriminate].
  destruct (add_all env m qb_init tbe) as [q|e] eqn:A; cbn [bbind]; [|discriminate].
  destruct (forallb (fun '(t, _) => existsb (Nat.eqb t) (q_argUsed q)) m) eqn:F; [|discriminate]. intros H. inversion H; subst; clear H.
  exists m, q. repeat split; try reflexivity; assumption.
Qed.

(* The named arguments are exactly one per placeholder number 0 .. k-1 *)
Lemma bind_inputs_perm env tbe args pq :
  bind_inputs env tbe args = BOk pq ->
  Permutation (map fst (pq_params pq)) (map arg_name (seq 0 (length (pq_params pq)))) /\
  forall n, In n (nums (pq_toks pq)) <-> n < length (pq_params pq).
Proof.
  intros H. destruct (bind_inputs_query _ _ _ _ H) as [m [q [_ [A [T [P _]]]]]].
  destruct (add_all_inv _ _ _ _ _ A inputs_inv_init) as [[Pm Nm] _].
  rewrite T, P.
  assert (L : length (q_named q) = q_inputCount q).
  { apply Permutation_length in Pm. rewrite !map_length, seq_length in Pm. exact Pm. }
  rewrite L. split; assumption.
Qed.

Lemma bind_inputs_bijection env tbe args pq :
  bind_inputs env tbe args = BOk pq ->
  NoDup (map fst (pq_params pq)) /\
  (forall n, In n (nums (pq_toks pq)) <-> In (arg_name n) (map fst (pq_params pq))) /\
  (forall name, In name (map fst (pq_params pq)) -> exists n, name = arg_name n).
Proof.
  intros H. destruct (bind_inputs_perm _ _ _ _ H) as [P N].
  assert (ND : NoDup (map arg_name (seq 0 (length (pq_params pq))))).
  { apply NoDup_map_inj; [exact arg_name_inj|apply seq_NoDup]. }
  split; [|split].
  - eapply Permutation_NoDup; [apply Permutation_sym; exact P|exact ND].
  - intros n. rewrite N, (perm_in_iff _ _ _ P), in_map_iff. split.
    + intros Lt. exists n. split; [reflexivity|apply in_seq; lia].
    + intros [x [E I]]. apply arg_name_inj in E. subst x. apply in_seq in I. lia.
  - intros name I. apply (Permutation_in _ P) in I. apply in_map_iff in I.
    destruct I as [n [E _]]. exists n. symmetry. exact E.
Qed.

(* --------------------------------------------------------- C03 order -- *)

Definition not_insert (e : texpr) : Prop :=
  match e with TInsert _ => False | _ => True end.

(* the values a typed expression binds outside an INSERT *)
Definition input_values (env : tenv) (m : t2v) (e : texpr) : list val :=
  match e with
  | TInput l => match locate_params env l m with BOk p => p_vals p | BErr _ => [] end
  | _ => []
  end.

Definition named_from (first : nat) (vals : list val) : list (str * val) :=
  map (fun '(i, v) => (arg_name i, v)) (combine (seq first (length vals)) vals).

Lemma named_from_app a b : forall first,
  named_from first (a ++ b) = named_from first a ++ named_from (first + length a) b.
Proof.
  unfold named_from. induction a as [|v a IH]; intros first.
  - cbn. rewrite Nat.add_0_r. reflexivity.
  - cbn [app length seq combine map]. rewrite IH. rewrite Nat.add_succ_r. reflexivity.
Qed.

Lemma add_all_order env m : forall es q q',
  add_all env m q es = BOk q' -> Forall not_insert es ->
  let vals := flat_map (input_values env m) es in
  q_inputCount q' = q_inputCount q + length vals /\
  nums (q_sql q') = nums (q_sql q) ++ seq (q_inputCount q) (length vals) /\
  q_named q' = q_named q ++ named_from (q_inputCount q) vals.
Proof.
  induction es as [|e es IH]; intros q q' H F; cbn [add_all] in H; cbv zeta.
  - inversion H; subst. cbn. rewrite Nat.add_0_r, !app_nil_r. repeat split; reflexivity.
  - destruct (add_to_query env m q e) as [q1|err] eqn:A; cbn [bbind] in H; [|discriminate].
    inversion F as [|e' es' Ne Fes]; subst.
    specialize (IH _ _ H Fes). cbv zeta in IH. destruct IH as [C [N M]].
    cbn [flat_map]. rewrite app_length, seq_app, named_from_app.
    assert (S1 : q_inputCount q1 = q_inputCount q + length (input_values env m e) /\
                 nums (q_sql q1) = nums (q_sql q) ++ seq (q_inputCount q) (length (input_values env m e)) /\
                 q_named q1 = q_named q ++ named_from (q_inputCount q) (input_values env m e)).
    { destruct e as [chunk|l|cols|ocs]; [| |destruct Ne|].
      - cbn [add_to_query] in A. inversion A; subst; clear A. cbn. unfold named_from. cbn.
        rewrite nums_app, Nat.add_0_r, !app_nil_r. repeat split; reflexivity.
      - apply add_input_spec in A. destruct A as [p [LP [_ [_ [C1 [N1 [_ [M1 _]]]]]]]].
        cbn [input_values]. rewrite LP. repeat split; assumption.
      - cbn [add_to_query] in A. inversion A; subst; clear A. cbn. unfold named_from. cbn.
        rewrite nums_app, write_output_nums, Nat.add_0_r, !app_nil_r. repeat split; reflexivity. }
    destruct S1 as [C1 [N1 M1]]. rewrite C, N, M, C1, N1, M1, <- !app_assoc.
    repeat split; try reflexivity. lia.
Qed.

(* ------------------------------------------------------- C05 outputs -- *)

Definition tout (t : sqltok) : list (str * nat) :=
  match t with TOut c n => [(c, n)] | _ => [] end.

(* the output columns of the SQL with their alias numbers, in textual order *)
Definition outs (ts : list sqltok) : list (str * nat) := flat_map tout ts.

Lemma tout_textfree : textfree tout.
Proof. intros s. reflexivity. Qed.

Lemma outs_app a b : outs (a ++ b) = outs a ++ outs b.
Proof. apply flat_map_app. Qed.

Lemma write_output_outs n : forall cols,
  outs (write_output n cols) = combine cols (seq n (length cols)).
Proof.
  intros cols. unfold write_output, comma_list, outs. rewrite tok_sep_flat by exact tout_textfree.
  rewrite flat_map_map.
  assert (G : forall (cs : list str) s,
             flat_map (fun x : nat * str => flat_map tout (let '(i, c) := x in [TOut c (n + i)]))
                      (combine (seq s (length cs)) cs) = combine cs (seq (n + s) (length cs))).
  { induction cs as [|c cs IH]; intros s; [reflexivity|].
    cbn [length seq combine flat_map tout app]. rewrite IH, Nat.add_succ_r. reflexivity. }
  rewrite (G cols 0), Nat.add_0_r. reflexivity.
Qed.

Lemma cell_tout bc r : tout (cell bc r) = [].
Proof. unfold cell. destruct (bc_vals bc) as [|v [|v2 vs]]; reflexivity. Qed.

Lemma flat_map_all_nil {A B} (f : A -> list B) l : (forall a, f a = []) -> flat_map f l = [].
Proof. intros H. induction l as [|a l IH]; simpl; [reflexivity|]. rewrite H, IH. reflexivity. Qed.

Lemma outs_inputs l : outs (comma_list (map (fun i => [TIn i]) l)) = [].
Proof.
  unfold outs, comma_list. rewrite tok_sep_flat by exact tout_textfree. rewrite flat_map_map.
  apply flat_map_all_nil. intros i. reflexivity.
Qed.

Lemma outs_insert cols bcs rows :
  outs (write_insert cols (map (fun r => map (fun bc => cell bc r) bcs) rows)) = [].
Proof.
  unfold outs. rewrite write_insert_flat by exact tout_textfree. rewrite flat_map_map.
  apply flat_map_all_nil. intros r. rewrite flat_map_map. apply flat_map_all_nil.
  intros bc. apply cell_tout.
Qed.

Definition out_cols_of (e : texpr) : list (str * locator) :=
  match e with TOutput ocs => ocs | _ => [] end.

(* the output columns (column text, locator) of a typed query, in textual order *)
Definition out_cols (es : list texpr) : list (str * locator) := flat_map out_cols_of es.

Lemma add_to_query_outs env m q e q' :
  add_to_query env m q e = BOk q' ->
  q_outputCount q' = q_outputCount q + length (out_cols_of e) /\
  q_outputs q' = q_outputs q ++ map snd (out_cols_of e) /\
  outs (q_sql q') = outs (q_sql q) ++
    combine (map fst (out_cols_of e)) (seq (q_outputCount q) (length (out_cols_of e))).
Proof.
  intros H. destruct e as [chunk|l|cols|ocs]; cbn [out_cols_of length map combine].
  - cbn [add_to_query] in H. inversion H; subst; clear H. cbn [q_outputCount q_outputs q_sql qb_with].
    rewrite outs_app. change (outs [TText chunk]) with (@nil (str * nat)).
    rewrite Nat.add_0_r, !app_nil_r. repeat split; reflexivity.
  - apply add_input_spec in H. destruct H as [p [_ [_ [_ [_ [_ [Sq [_ [O [OC _]]]]]]]]]].
    rewrite O, OC, Sq, outs_app, Nat.add_0_r, !app_nil_r.
    repeat split; try reflexivity.
    rewrite outs_inputs, app_nil_r. reflexivity.
  - apply add_insert_spec in H. destruct H as [bcs [numRows [_ [Sq [_ [O OC]]]]]].
    rewrite O, OC, Sq, outs_app, Nat.add_0_r, !app_nil_r.
    repeat split; try reflexivity.
    rewrite outs_insert, app_nil_r. reflexivity.
  - cbn [add_to_query] in H. inversion H; subst; clear H. cbn [q_outputCount q_outputs q_sql].
    rewrite outs_app, write_output_outs, map_length. repeat split; reflexivity.
Qed.

Lemma combine_app_seq {A} (a b : list A) s :
  combine (a ++ b) (seq s (length (a ++ b))) =
  combine a (seq s (length a)) ++ combine b (seq (s + length a) (length b)).
Proof.
  revert s. induction a as [|x a IH]; intros s.
  - cbn. rewrite Nat.add_0_r. reflexivity.
  - cbn [app length seq combine]. rewrite IH, Nat.add_succ_r. reflexivity.
Qed.

Lemma add_all_outs env m : forall es q q',
  add_all env m q es = BOk q' ->
  q_outputCount q' = q_outputCount q + length (out_cols es) /\
  q_outputs q' = q_outputs q ++ map snd (out_cols es) /\
  outs (q_sql q') = outs (q_sql q) ++
    combine (map fst (out_cols es)) (seq (q_outputCount q) (length (out_cols es))).
Proof.
  induction es as [|e es IH]; intros q q' H; cbn [add_all] in H.
  - inversion H; subst. cbn. rewrite Nat.add_0_r, !app_nil_r. repeat split; reflexivity.
  - destruct (add_to_query env m q e) as [q1|err] eqn:A; cbn [bbind] in H; [|discriminate].
    apply add_to_query_outs in A. destruct A as [C1 [O1 S1]].
    apply IH in H. destruct H as [C2 [O2 S2]].
    unfold out_cols in *. cbn [flat_map]. rewrite C2, O2, S2, C1, O1, S1.
    rewrite !map_app, app_length, <- !app_assoc.
    split; [lia|]. split; [reflexivity|]. f_equal.
    rewrite <- (map_length fst (out_cols_of e)) at 2.
    rewrite <- (map_length fst (flat_map out_cols_of es)) at 2.
    rewrite <- (map_length fst (out_cols_of e)) at 2.
    rewrite <- (map_length fst (flat_map out_cols_of es)) at 1.
    rewrite <- (map_length fst (out_cols_of e)) at 1.
    rewrite <- app_length. symmetry. apply combine_app_seq.
Qed.

Lemma combine_seq_snd {A} (l : list A) s : map snd (combine l (seq s (length l))) = seq s (length l).
Proof.
  revert s. induction l as [|x l IH]; intros s; [reflexivity|].
  cbn [length seq combine map snd]. rewrite IH. reflexivity.
Qed.

Lemma combine_seq_fst {A} (l : list A) s : map fst (combine l (seq s (length l))) = l.
Proof.
  revert s. induction l as [|x l IH]; intros s; [reflexivity|].
  cbn [length seq combine map fst]. rewrite IH. reflexivity.
Qed.

(* The output columns written, their aliases and the output locators of a
   primed query, all in textual order of the typed query. *)
Lemma bind_inputs_outputs env tbe args pq :
  bind_inputs env tbe args = BOk pq ->
  pq_outputs pq = map snd (out_cols tbe) /\
  outs (pq_toks pq) = combine (map fst (out_cols tbe)) (seq 0 (length (pq_outputs pq))) /\
  map snd (outs (pq_toks pq)) = seq 0 (length (pq_outputs pq)) /\
  map fst (outs (pq_toks pq)) = map fst (out_cols tbe).
Proof.
  intros H. destruct (bind_inputs_query _ _ _ _ H) as [m [q [_ [A [T [_ [O _]]]]]]].
  apply add_all_outs in A. destruct A as [_ [O2 S2]]. cbn in O2, S2.
  rewrite T, O, O2, S2, map_length.
  split; [reflexivity|]. split; [reflexivity|].
  rewrite <- (map_length fst (out_cols tbe)).
  split; [apply combine_seq_snd|apply combine_seq_fst].
Qed.

Lemma bind_inputs_has_outputs env tbe args pq :
  bind_inputs env tbe args = BOk pq ->
  (has_outputs pq = true <-> exists ocs, In (TOutput ocs) tbe /\ ocs <> []).
Proof.
  intros H. destruct (bind_inputs_outputs _ _ _ _ H) as [O _]. unfold has_outputs. rewrite O.
  split.
  - intros E. destruct (out_cols tbe) as [|oc l] eqn:OC; [discriminate|].
    assert (I : In oc (out_cols tbe)) by (rewrite OC; left; reflexivity).
    unfold out_cols in I. apply in_flat_map in I. destruct I as [e [Ie Io]].
    destruct e as [chunk|l0|cols|ocs]; cbn [out_cols_of] in Io; try (destruct Io; fail).
    exists ocs. split; [exact Ie|]. intros N. subst ocs. destruct Io.
  - intros [ocs [I NE]]. destruct (out_cols tbe) as [|oc l] eqn:OC; [|reflexivity]. exfalso.
    destruct ocs as [|oc ocs]; [congruence|].
    assert (X : In oc (out_cols tbe)).
    { unfold out_cols. apply in_flat_map. exists (TOutput (oc :: ocs)). split; [exact I|left; reflexivity]. }
    rewrite OC in X. destruct X.
Qed.

(* ---------------------------------------------- query level corollaries -- *)

(* a query without INSERT: placeholders 0 .. k-1 in textual order, bound to
   the values of the input occurrences in textual order *)
Lemma bind_inputs_order env tbe args pq :
  bind_inputs env tbe args = BOk pq -> Forall not_insert tbe ->
  exists m, validate_inputs env args [] = BOk m /\
    nums (pq_toks pq) = seq 0 (length (pq_params pq)) /\
    pq_params pq = named_from 0 (flat_map (input_values env m) tbe).
Proof.
  intros H F. destruct (bind_inputs_query _ _ _ _ H) as [m [q [V [A [T [P _]]]]]].
  exists m. split; [exact V|].
  destruct (add_all_order _ _ _ _ _ A F) as [_ [N M]]. cbn in N, M.
  rewrite T, P, N, M. unfold named_from at 1. rewrite map_length, combine_length, seq_length, Nat.min_id.
  split; reflexivity.
Qed.

(* $S[:]: the elements of the slice, in order (none for an empty slice) *)
Lemma locate_slice env m st nl elems :
  t2v_get m st = Some (VSlice nl elems) ->
  locate_params env (LSlice st) m =
    BOk {| p_vals := elems; p_omit := false; p_bulk := false; p_argtype := st |}.
Proof. intros G. cbn [locate_params]. rewrite G. reflexivity. Qed.

(* writeOutput: exactly the designated columns, aliased with fresh numbers *)
Lemma add_output_spec env m q ocs q' :
  add_to_query env m q (TOutput ocs) = BOk q' ->
  q_sql q' = q_sql q ++
    comma_list (map (fun '(i, c) => [TOut c (q_outputCount q + i)])
                    (combine (seq 0 (length ocs)) (map fst ocs))) /\
  q_outputCount q' = q_outputCount q + length ocs /\
  q_outputs q' = q_outputs q ++ map snd ocs /\
  q_named q' = q_named q /\ q_inputCount q' = q_inputCount q /\ q_argUsed q' = q_argUsed q.
Proof.
  cbn [add_to_query]. intros H. inversion H; subst; clear H. cbn.
  unfold write_output. rewrite map_length. repeat split; reflexivity.
Qed.

(* The arguments an INSERT creates are, up to the (row-major) order of
   creation, the values of every non-omitted column, each exactly once, the
   i-th value of a column under the name of placeholder bc_first + i. *)
Lemma insert_named_columnwise n bcs :
  Forall (well_shaped n) bcs -> 1 <= n ->
  Permutation
    (flat_map (fun r => flat_map (fun bc => cell_arg bc r) (live bcs)) (seq 0 n))
    (flat_map (fun bc => named_from (bc_first bc) (bc_vals bc)) (live bcs)).
Proof.
  intros W N. eapply Permutation_trans; [apply (flat_map_swap (fun r bc => cell_arg bc r))|].
  assert (E : forall bc, In bc (live bcs) ->
              flat_map (fun r => cell_arg bc r) (seq 0 n) = named_from (bc_first bc) (bc_vals bc)).
  { intros bc I. apply col_args; [|exact N]. rewrite Forall_forall in W. apply W.
    unfold live in I. apply filter_In in I. tauto. }
  induction (live bcs) as [|bc r IH]; [constructor|]. cbn [flat_map].
  rewrite E by (left; reflexivity). apply Permutation_app_head. apply IH.
  intros bc' I. apply E. right. exact I.
Qed.

Lemma add_insert_arguments env m q cols q' :
  add_to_query env m q (TInsert cols) = BOk q' ->
  exists bcs numRows new,
    bind_cols env m (q_inputCount q) (q_argUsed q) cols false 1 [] =
      BOk (bcs, q_inputCount q', q_argUsed q', numRows) /\
    q_named q' = q_named q ++ new /\
    Permutation new (flat_map (fun bc => named_from (bc_first bc) (bc_vals bc)) (live bcs)).
Proof.
  intros H. apply add_insert_spec in H. destruct H as [bcs [numRows [BC [_ [Nm _]]]]].
  exists bcs, numRows. eexists. split; [exact BC|]. split; [exact Nm|].
  apply bind_cols_top in BC. destruct BC as [_ [_ [_ [_ [W [N1 _]]]]]].
  apply insert_named_columnwise; assumption.
Qed.
