(* Facts about decode_rune needed by the parser proofs. *)
From SQLair.Base Require Import Bytes Utf8.

Lemma decode_size_pos s : s <> [] -> 1 <= snd (decode_rune s).
Proof.
  destruct s as [|s0 t]; [congruence|intros _]. unfold decode_rune.
  repeat match goal with
         | |- context [if ?b then _ else _] => destruct b
         | |- context [match ?l with [] => _ | _ :: _ => _ end] => destruct l
         end; simpl; lia.
Qed.

Lemma decode_size_le s : snd (decode_rune s) <= length s.
Proof.
  destruct s as [|s0 t]; [simpl; lia|]. unfold decode_rune.
  repeat match goal with
         | |- context [if ?b then _ else _] => destruct b
         | |- context [match ?l with [] => _ | _ :: _ => _ end] => destruct l
         end; simpl; lia.
Qed.

(* An ASCII first byte decodes to itself with size 1; anything else decodes to
   a rune >= 128. *)
Lemma decode_ascii s0 t : (s0 < 128)%N -> decode_rune (s0 :: t) = (s0, 1).
Proof. intros H. unfold decode_rune. apply N.ltb_lt in H. rewrite H. reflexivity. Qed.

Lemma decode_rune_small s r n :
  decode_rune s = (r, n) -> (r < 128)%N -> exists t, s = r :: t /\ n = 1.
Proof.
  destruct s as [|s0 t]; unfold decode_rune.
  - intros H; inversion H; subst. unfold rune_error. lia.
  - unfold inr, rune_error.
    repeat match goal with
           | |- context [if ?b then _ else _] => destruct b eqn:?
           | |- context [match ?l with [] => _ | _ :: _ => _ end] => destruct l
           end; intros H Hr; inversion H; subst; try lia; try (eexists; split; reflexivity).
    all: repeat match goal with
           | H : (_ <? _)%N = false |- _ => apply N.ltb_ge in H
           | H : (_ <=? _)%N = true |- _ => apply N.leb_le in H
           | H : (_ <=? _)%N = false |- _ => apply N.leb_gt in H
           | H : (_ && _)%bool = true |- _ => apply andb_prop in H; destruct H
           | H : (_ =? _)%N = true |- _ => apply N.eqb_eq in H
           | H : (_ =? _)%N = false |- _ => apply N.eqb_neq in H
           end; try lia.
Qed.
