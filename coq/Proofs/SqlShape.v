(* C01: the SQL handed to the driver is the query with every SQLair expression
   replaced by its expansion and every other byte untouched.

   - bindTypes produces one typed expression per segment, a [TBypass] with the
     same text for a [Bypass] segment and an input/insert/output for the rest;
   - addToQuery only appends to the SQL buffer, and what it appends for a
     [TBypass] is the chunk itself;
   - hence the SQL is the concatenation of one expansion per segment, where the
     expansion of a bypass segment is its own text. *)
From SQLair.Base Require Import Bytes.
From SQLair.Model Require Import GenConsts Reflect TypeInfo Parser Bind.
From SQLair.Proofs Require Import ParserExt ParserTiling ParserSigil BindFacts InsertProofs
  BindInputsProofs TotalityProofs BindTypesProofs.

(* ------------------------------------------------ segments and texprs -- *)

(* the typed expression a segment is turned into *)
Definition seg_kind (e : expr) (te : texpr) : Prop :=
  match e with
  | Bypass c => te = TBypass c
  | MemberIn _ _ | SliceIn _ _ => exists l, te = TInput l
  | AsteriskIns _ _ | ColumnsIns _ _ _ | BasicIns _ _ _ => exists cols, te = TInsert cols
  | Output _ _ _ => exists ocs, te = TOutput ocs
  end.

Lemma bind_expr_last env b e b1 :
  bind_expr env b e = BOk b1 -> exists b0 te, b_exprs b1 = b_exprs b0 ++ [te] /\ seg_kind e te.
Proof.
  destruct e; cbn [bind_expr]; intros H.
  - bok H. eexists. eexists. split; reflexivity.
  - binv H. bok H. eexists. eexists. split; [reflexivity|]. eexists. reflexivity.
  - binv H. bok H. eexists. eexists. split; [reflexivity|]. eexists. reflexivity.
  - binv H. bok H. eexists. eexists. split; [reflexivity|]. eexists. reflexivity.
  - binv H. bok H. eexists. eexists. split; [reflexivity|]. eexists. reflexivity.
  - binv H. bok H. eexists. eexists. split; [reflexivity|]. eexists. reflexivity.
  - cbv zeta in H. binv H; bok H; (eexists; eexists; split; [reflexivity|]; eexists; reflexivity).
Qed.

Lemma bind_expr_kind env b e b1 :
  bind_expr env b e = BOk b1 -> exists te, b_exprs b1 = b_exprs b ++ [te] /\ seg_kind e te.
Proof.
  intros H. destruct (bind_expr_last _ _ _ _ H) as [b0 [te [L K]]].
  apply bind_expr_inv in H. destruct H as [_ [te' [E _]]].
  rewrite E in L. apply app_inj_tail in L. destruct L as [_ L]. subst te'.
  exists te. split; assumption.
Qed.

Lemma bind_exprs_kinds env : forall es b b1,
  bind_exprs env b es = BOk b1 ->
  exists tes, b_exprs b1 = b_exprs b ++ tes /\ Forall2 seg_kind es tes.
Proof.
  induction es as [|e es IH]; intros b b1 H; cbn [bind_exprs] in H.
  - bok H. exists []. rewrite app_nil_r. split; [reflexivity|constructor].
  - binv H. apply bind_expr_kind in E. destruct E as [te [E K]].
    apply IH in H. destruct H as [tes [E2 F]].
    exists (te :: tes). split; [|constructor; assumption].
    rewrite E2, E, <- app_assoc. reflexivity.
Qed.

Lemma bind_types_kinds env segs samples tbe :
  bind_types env segs samples = BOk tbe -> Forall2 seg_kind segs tbe.
Proof.
  intros H. apply bind_types_inv in H. destruct H as [infos [b [_ [B [_ E]]]]].
  apply bind_exprs_kinds in B. destruct B as [tes [E2 F]]. cbn [b_exprs app] in E2.
  subst tbe. rewrite E2. exact F.
Qed.

Lemma Forall2_len {A B} (R : A -> B -> Prop) l l' : Forall2 R l l' -> length l = length l'.
Proof. induction 1; cbn [length]; congruence. Qed.

Lemma Forall2_nth_l {A B} (R : A -> B -> Prop) l l' :
  Forall2 R l l' -> forall i a, nth_error l i = Some a -> exists b, nth_error l' i = Some b /\ R a b.
Proof.
  induction 1 as [|x y l l' Rxy F IH]; intros i a Hn.
  - destruct i; discriminate.
  - destruct i as [|i]; cbn [nth_error] in *.
    + inversion Hn; subst. exists y. split; [reflexivity|exact Rxy].
    + apply IH. exact Hn.
Qed.

Lemma Forall2_nth_r {A B} (R : A -> B -> Prop) l l' :
  Forall2 R l l' -> forall i b, nth_error l' i = Some b -> exists a, nth_error l i = Some a /\ R a b.
Proof.
  induction 1 as [|x y l l' Rxy F IH]; intros i b Hn.
  - destruct i; discriminate.
  - destruct i as [|i]; cbn [nth_error] in *.
    + inversion Hn; subst. exists x. split; [reflexivity|exact Rxy].
    + apply IH. exact Hn.
Qed.

(* one typed expression per segment; bypass segments and only they become
   bypass typed expressions, with the same text *)
Theorem one_texpr_per_segment env segs samples tbe :
  bind_types env segs samples = BOk tbe ->
  length tbe = length segs /\
  (forall i c, nth_error segs i = Some (Bypass c) -> nth_error tbe i = Some (TBypass c)) /\
  (forall i c, nth_error tbe i = Some (TBypass c) -> nth_error segs i = Some (Bypass c)) /\
  (forall i e, nth_error segs i = Some e -> is_bypass e = false ->
     exists te, nth_error tbe i = Some te /\
       ((exists l, te = TInput l) \/ (exists cols, te = TInsert cols) \/ (exists ocs, te = TOutput ocs))).
Proof.
  intros H. apply bind_types_kinds in H.
  split; [symmetry; eapply Forall2_len; exact H|]. split; [|split].
  - intros i c Hn. destruct (Forall2_nth_l _ _ _ H _ _ Hn) as [te [Ht K]]. cbn in K. subst te. exact Ht.
  - intros i c Hn. destruct (Forall2_nth_r _ _ _ H _ _ Hn) as [e [He K]].
    destruct e; cbn in K; [inversion K; subst; exact He|..]; destruct K as [x K]; discriminate K.
  - intros i e Hn NB. destruct (Forall2_nth_l _ _ _ H _ _ Hn) as [te [Ht K]].
    exists te. split; [exact Ht|]. destruct e; cbn in K, NB; try discriminate NB; auto.
Qed.

(* ------------------------------------------------------------- render -- *)

Lemma render_app a b : render (a ++ b) = render a ++ render b.
Proof. unfold render. rewrite map_app, concat_app. reflexivity. Qed.

Lemma render_concat tokss : render (concat tokss) = concat (map render tokss).
Proof.
  induction tokss as [|t tokss IH]; [reflexivity|].
  cbn [concat map]. rewrite render_app, IH. reflexivity.
Qed.

(* --------------------------------------------- addToQuery only appends -- *)

(* what a typed expression may append: a bypass appends its chunk *)
Definition toks_of (e : texpr) (toks : list sqltok) : Prop :=
  forall c, e = TBypass c -> toks = [TText c].

Lemma add_to_query_appends env m q e q' :
  add_to_query env m q e = BOk q' ->
  exists toks, q_sql q' = q_sql q ++ toks /\ toks_of e toks.
Proof.
  intros H. destruct e as [chunk|l|cols|ocs].
  - cbn [add_to_query] in H. inversion H; subst; clear H. cbn [q_sql qb_with].
    exists [TText chunk]. split; [reflexivity|]. intros c E. inversion E; subst. reflexivity.
  - apply add_input_spec in H. destruct H as [p [_ [_ [_ [_ [_ [Sq _]]]]]]].
    eexists. split; [exact Sq|]. intros c E. discriminate E.
  - apply add_insert_spec in H. destruct H as [bcs [numRows [_ [Sq _]]]].
    eexists. split; [exact Sq|]. intros c E. discriminate E.
  - apply add_output_spec in H. destruct H as [Sq _].
    eexists. split; [exact Sq|]. intros c E. discriminate E.
Qed.

Lemma add_all_appends env m : forall es q q',
  add_all env m q es = BOk q' ->
  exists tokss, q_sql q' = q_sql q ++ concat tokss /\ Forall2 toks_of es tokss.
Proof.
  induction es as [|e es IH]; intros q q' H; cbn [add_all] in H.
  - inversion H; subst. exists []. cbn. rewrite app_nil_r. split; [reflexivity|constructor].
  - destruct (add_to_query env m q e) as [q1|err] eqn:A; cbn [bbind] in H; [|discriminate].
    apply add_to_query_appends in A. destruct A as [toks [E1 T1]].
    apply IH in H. destruct H as [tokss [E2 F]].
    exists (toks :: tokss). split; [|constructor; assumption].
    cbn [concat]. rewrite E2, E1, <- app_assoc. reflexivity.
Qed.

(* The tokens of a primed query are one group per typed expression, in order;
   the group of a bypass is its chunk. *)
Lemma bind_inputs_tokens env tbe args pq :
  bind_inputs env tbe args = BOk pq ->
  exists tokss, pq_toks pq = concat tokss /\ Forall2 toks_of tbe tokss.
Proof.
  intros H. destruct (bind_inputs_query _ _ _ _ H) as [m [q [_ [A [T _]]]]].
  apply add_all_appends in A. destruct A as [tokss [E F]]. cbn [qb_init q_sql app] in E.
  exists tokss. split; [congruence|exact F].
Qed.

(* ------------------------------------------------------- the SQL shape -- *)

(* the expansion of a segment: a bypass segment expands to itself *)
Definition exp_of (e : expr) (x : str) : Prop := forall c, e = Bypass c -> x = c.

Lemma Forall2_map_r {A B C} (R : A -> C -> Prop) (g : B -> C) l l' :
  Forall2 (fun a b => R a (g b)) l l' -> Forall2 R l (map g l').
Proof. induction 1; cbn [map]; constructor; assumption. Qed.

Lemma Forall2_compose {A B C} (R : A -> B -> Prop) (S : B -> C -> Prop) (T : A -> C -> Prop) :
  (forall a b c, R a b -> S b c -> T a c) ->
  forall l1 l2, Forall2 R l1 l2 -> forall l3, Forall2 S l2 l3 -> Forall2 T l1 l3.
Proof.
  intros HT l1 l2 F. induction F as [|a b l1 l2 Rab F IH]; intros l3 G; inversion G; subst.
  - constructor.
  - constructor; [eapply HT; eassumption|apply IH; assumption].
Qed.

Lemma sql_shape_segments env segs samples tbe args pq :
  bind_types env segs samples = BOk tbe ->
  bind_inputs env tbe args = BOk pq ->
  exists exps : list str, pq_sql pq = concat exps /\ Forall2 exp_of segs exps.
Proof.
  intros BT BI. apply bind_types_kinds in BT.
  apply bind_inputs_tokens in BI. destruct BI as [tokss [E F]].
  exists (map render tokss). split.
  - unfold pq_sql. rewrite E. apply render_concat.
  - apply Forall2_map_r.
    refine (Forall2_compose seg_kind toks_of _ _ _ _ BT _ F).
    intros e te toks K T c Ec. subst e. cbn in K. rewrite (T c K).
    cbn. apply app_nil_r.
Qed.

Theorem sql_shape env inp segs samples tbe args pq :
  parse inp = Ok segs ->
  bind_types env segs samples = BOk tbe ->
  bind_inputs env tbe args = BOk pq ->
  exists exps : list str,
    length exps = length segs /\
    pq_sql pq = concat exps /\
    (forall i c, nth_error segs i = Some (Bypass c) -> nth_error exps i = Some c) /\
    inp = concat (map raw_of segs).
Proof.
  intros P BT BI. destruct (sql_shape_segments _ _ _ _ _ _ BT BI) as [exps [E F]].
  exists exps. split; [symmetry; eapply Forall2_len; exact F|]. split; [exact E|]. split.
  - intros i c Hn. destruct (Forall2_nth_l _ _ _ F _ _ Hn) as [x [Hx K]].
    rewrite (K c eq_refl) in Hx. exact Hx.
  - symmetry. apply parse_tiling. exact P.
Qed.

(* no expression: the SQL is the query *)
Lemma all_bypass_exps : forall segs exps,
  Forall2 exp_of segs exps -> forallb is_bypass segs = true -> exps = map raw_of segs.
Proof.
  induction 1 as [|e x segs exps K F IH]; intros B; [reflexivity|].
  cbn [forallb] in B. apply andb_prop in B. destruct B as [Be B].
  cbn [map]. rewrite <- (IH B). f_equal.
  destruct e; try discriminate Be. cbn. apply K. reflexivity.
Qed.

Theorem no_expression_unchanged env inp segs samples tbe args pq :
  parse inp = Ok segs ->
  bind_types env segs samples = BOk tbe ->
  bind_inputs env tbe args = BOk pq ->
  forallb is_bypass segs = true ->
  pq_sql pq = inp.
Proof.
  intros P BT BI B. destruct (sql_shape_segments _ _ _ _ _ _ BT BI) as [exps [E F]].
  rewrite E, (all_bypass_exps _ _ F B). apply parse_tiling. exact P.
Qed.

Theorem no_expression_unchanged_in env inp segs samples tbe args pq :
  parse inp = Ok segs ->
  bind_types env segs samples = BOk tbe ->
  bind_inputs env tbe args = BOk pq ->
  (forall e, In e segs -> exists c, e = Bypass c) ->
  pq_sql pq = inp.
Proof.
  intros P BT BI B. eapply no_expression_unchanged; try eassumption.
  apply forallb_forall. intros e Ie. destruct (B e Ie) as [c E]. subst e. reflexivity.
Qed.

(* a query without '$' and '&' that is accepted is sent unchanged *)
Theorem no_sigil_unchanged env inp segs samples tbe args pq :
  (forall b, In b inp -> b <> 36%N /\ b <> 38%N) ->
  parse inp = Ok segs ->
  bind_types env segs samples = BOk tbe ->
  bind_inputs env tbe args = BOk pq ->
  pq_sql pq = inp.
Proof.
  intros NS P BT BI. eapply no_expression_unchanged; try eassumption.
  destruct (no_sigil_no_expression _ _ NS P) as [E|[_ E]]; subst segs; reflexivity.
Qed.
