(* Every error reported by [parse] carries a position: [positioned e = true].

   The model builds errors in two ways only: [errorAt] (positioned) and
   [efuel] (the model's own out-of-fuel error, not positioned).  The invariant
   "positioned, or the fuel error" holds for every function of the model; by
   Proofs/ParserNoFuel.v the fuel error never comes out of [parse]. *)
From SQLair.Base Require Import Bytes Utf8.
From SQLair.Model Require Import GenUnicode GenConsts Parser.
From SQLair.Proofs Require Import Utf8Facts ParserExt ParserTiling ParserNoFuel.

Definition pos_or_fuel (e : perr) : Prop := positioned e = true \/ ekind_of e = EFuel.

Class PosErr {A} (f : pstate -> pstate * res A) : Prop :=
  pos_err : forall s s' e, f s = (s', Err e) -> pos_or_fuel e.

Lemma errorAt_pof k p l c : pos_or_fuel (errorAt k p l c).
Proof. left. reflexivity. Qed.

Lemma efuel_pof st : pos_or_fuel (efuel st).
Proof. right. reflexivity. Qed.

(* extension point: the recursive call of a loop *)
Ltac pe_ih := fail.

Ltac pe_leaf :=
  first
    [ apply errorAt_pof
    | apply efuel_pof
    | match goal with
      | E : ?g ?s = (?s1, Err ?e) |- pos_or_fuel ?e => exact (pos_err (f:=g) _ _ _ E)
      end
    | match goal with
      | F : ekind_of ?e = EFuel |- pos_or_fuel ?e => right; exact F
      end
    | pe_ih
    | idtac ].

Ltac pe_go H := case_go H; pe_leaf.

(* ----------------------------------------------------- character level -- *)

#[export] Instance skipCharFind_pe c : PosErr (skipCharFind c).
Proof. intros s s' e H. unfold skipCharFind in H. pe_go H. Qed.

#[export] Instance skipStringLiteral_pe : PosErr skipStringLiteral.
Proof. intros s s' e H. unfold skipStringLiteral in H. pe_go H. Qed.

#[export] Instance skipComment_pe : PosErr skipComment.
Proof. intros s s' e H. unfold skipComment in H. pe_go H. Qed.

Lemma skipBlanks_loop_pe fuel : forall s s' e,
  skipBlanks_loop fuel s = (s', Err e) -> pos_or_fuel e.
Proof.
  induction fuel as [|f IH]; intros s s' e H; cbn [skipBlanks_loop] in H.
  - inversion H; subst. apply efuel_pof.
  - pe_go H. all: (eapply IH; exact H).
Qed.

#[export] Instance skipBlanks_pe : PosErr skipBlanks.
Proof. intros s s' e H. unfold skipBlanks in H. eapply skipBlanks_loop_pe; exact H. Qed.

Lemma parens_loop_pe fuel : forall n s s' e,
  parens_loop fuel n s = (s', Err e) -> pos_or_fuel e.
Proof.
  induction fuel as [|f IH]; intros n s s' e H; cbn [parens_loop] in H.
  - inversion H; subst. apply efuel_pof.
  - pe_go H. all: (eapply IH; exact H).
Qed.

#[export] Instance skipEnclosedParentheses_pe : PosErr skipEnclosedParentheses.
Proof.
  intros s s' e H. unfold skipEnclosedParentheses in H. pe_go H.
  all: match goal with E : parens_loop _ _ _ = (_, Err _) |- _ =>
         eapply parens_loop_pe; exact E end.
Qed.

Lemma litlist_loop_pe fuel : forall s s' e,
  litlist_loop fuel s = (s', Err e) -> pos_or_fuel e.
Proof.
  induction fuel as [|f IH]; intros s s' e H; cbn [litlist_loop] in H.
  - inversion H; subst. apply efuel_pof.
  - pe_go H. all: (eapply IH; exact H).
Qed.

#[export] Instance skipLiteralInList_pe : PosErr skipLiteralInList.
Proof. intros s s' e H. unfold skipLiteralInList in H. eapply litlist_loop_pe; exact H. Qed.

(* ---------------------------------------------------------------- names -- *)

#[export] Instance parseIdentifier_pe : PosErr parseIdentifier.
Proof. intros s s' e H. unfold parseIdentifier in H. pe_go H. Qed.

#[export] Instance parseIdentifierAsterisk_pe : PosErr parseIdentifierAsterisk.
Proof. intros s s' e H. unfold parseIdentifierAsterisk in H. pe_go H. Qed.

#[export] Instance parseTypeName_pe : PosErr parseTypeName.
Proof. intros s s' e H. unfold parseTypeName in H. pe_go H. Qed.

#[export] Instance parseColumnAccessor_pe : PosErr parseColumnAccessor.
Proof. intros s s' e H. unfold parseColumnAccessor in H. pe_go H. Qed.

#[export] Instance parseSliceAccessor_pe : PosErr parseSliceAccessor.
Proof. intros s s' e H. unfold parseSliceAccessor in H. pe_go H. Qed.

#[export] Instance parseTypeAndMember_pe : PosErr parseTypeAndMember.
Proof. intros s s' e H. unfold parseTypeAndMember in H. pe_go H. Qed.

#[export] Instance parseTargetType_pe : PosErr parseTargetType.
Proof. intros s s' e H. unfold parseTargetType in H. pe_go H. Qed.

#[export] Instance parseInputMemberAccessor_pe : PosErr parseInputMemberAccessor.
Proof. intros s s' e H. unfold parseInputMemberAccessor in H. pe_go H. Qed.

Section ParseListPositioned.
  Context {T : Type} (parseFn : pstate -> pstate * res T).
  Context (parseFn_pe : PosErr parseFn).

  Lemma parseList_loop_pe fuel : forall cp first acc s s' e,
    parseList_loop parseFn fuel cp first acc s = (s', Err e) -> pos_or_fuel e.
  Proof using parseFn_pe.
    induction fuel as [|f IH]; intros cp first acc s s' e H; cbn [parseList_loop] in H.
    - inversion H; subst. apply efuel_pof.
    - pe_go H. all: (eapply IH; exact H).
  Qed.

  #[export] Instance parseList_pe : PosErr (parseList parseFn).
  Proof using parseFn_pe.
    intros s s' e H. unfold parseList in H. pe_go H.
    eapply parseList_loop_pe; exact H.
  Qed.
End ParseListPositioned.

(* ----------------------------------------------------------- expressions -- *)

#[export] Instance parseColumns_pe : PosErr parseColumns.
Proof. intros s s' e H. unfold parseColumns, is_fuel_err in H. pe_go H. Qed.

#[export] Instance parseTargetTypes_pe : PosErr parseTargetTypes.
Proof. intros s s' e H. unfold parseTargetTypes in H. pe_go H. Qed.

#[export] Instance parseOutputExpr_pe : PosErr parseOutputExpr.
Proof. intros s s' e H. unfold parseOutputExpr in H. pe_go H. Qed.

#[export] Instance parseSliceInputExpr_pe : PosErr parseSliceInputExpr.
Proof. intros s s' e H. unfold parseSliceInputExpr in H. pe_go H. Qed.

#[export] Instance parseMemberInputExpr_pe : PosErr parseMemberInputExpr.
Proof. intros s s' e H. unfold parseMemberInputExpr in H. pe_go H. Qed.

#[export] Instance parseComplexInsertValues_pe : PosErr parseComplexInsertValues.
Proof. intros s s' e H. unfold parseComplexInsertValues, is_fuel_err in H. pe_go H. Qed.

#[export] Instance parseAsteriskInsertExpr_pe : PosErr parseAsteriskInsertExpr.
Proof. intros s s' e H. unfold parseAsteriskInsertExpr in H. pe_go H. Qed.

Lemma basicvals_loop_pe fuel : forall cp ip acc s s' e,
  basicvals_loop fuel cp ip acc s = (s', Err e) -> pos_or_fuel e.
Proof.
  induction fuel as [|f IH]; intros cp ip acc s s' e H; cbn [basicvals_loop] in H.
  - inversion H; subst. apply efuel_pof.
  - pe_go H. all: (eapply IH; exact H).
Qed.

#[export] Instance parseBasicInsertValues_pe : PosErr parseBasicInsertValues.
Proof.
  intros s s' e H. unfold parseBasicInsertValues, is_fuel_err in H. pe_go H.
  eapply basicvals_loop_pe; exact H.
Qed.

#[export] Instance parseInsertExpr_pe : PosErr parseInsertExpr.
Proof. intros s s' e H. unfold parseInsertExpr, is_fuel_err in H. pe_go H. Qed.

#[export] Instance parseInputExpr_pe : PosErr parseInputExpr.
Proof. intros s s' e H. unfold parseInputExpr in H. pe_go H. Qed.

Lemma advance_loop_pe fuel : forall s s' e,
  advance_loop fuel s = (s', Err e) -> pos_or_fuel e.
Proof.
  induction fuel as [|f IH]; intros s s' e H; cbn [advance_loop] in H.
  - inversion H; subst. apply efuel_pof.
  - pe_go H. all: (eapply IH; exact H).
Qed.

#[export] Instance advanceToNextExpression_pe : PosErr advanceToNextExpression.
Proof.
  intros s s' e H. unfold advanceToNextExpression in H. pe_go H.
  all: match goal with E : advance_loop _ _ = (_, Err _) |- _ =>
         eapply advance_loop_pe; exact E end.
Qed.

(* ------------------------------------------------------------ main loop -- *)

Lemma parse_loop_pe fuel : forall prev acc st e,
  parse_loop fuel prev acc st = Err e -> pos_or_fuel e.
Proof.
  induction fuel as [|f IH]; intros prev acc st e H; cbn [parse_loop] in H.
  { inversion H; subst. apply efuel_pof. }
  destruct (advanceToNextExpression st) as [st1 r1] eqn:A.
  assert (G : r1 = Err e \/
    (if at_end st1 then Ok (add_bypass prev st1 acc)
     else match parseOutputExpr st1 with
          | (_, Err e) => Err e
          | (st2, Ok out) => parse_loop f st2 (add_bypass prev st1 acc ++ [out]) st2
          | (st2, No) =>
              match parseInputExpr st2 with
              | (_, Err e) => Err e
              | (st3, Ok inp) => parse_loop f st3 (add_bypass prev st1 acc ++ [inp]) st3
              | (st3, No) => parse_loop f prev acc (advance st3)
              end
          end) = Err e).
  { destruct r1; auto. inversion H; subst. auto. }
  clear H. destruct G as [G|G].
  { subst r1. exact (pos_err (f:=advanceToNextExpression) _ _ _ A). }
  destruct (at_end st1) eqn:AE; [discriminate|].
  destruct (parseOutputExpr st1) as [st2 r2] eqn:O.
  destruct r2 as [out| |e2].
  - eapply IH; exact G.
  - destruct (parseInputExpr st2) as [st3 r3] eqn:P.
    destruct r3 as [ie| |e3].
    + eapply IH; exact G.
    + eapply IH; exact G.
    + inversion G; subst. exact (pos_err (f:=parseInputExpr) _ _ _ P).
  - inversion G; subst. exact (pos_err (f:=parseOutputExpr) _ _ _ O).
Qed.

Theorem parse_error_pos_or_fuel inp e : parse inp = Err e -> pos_or_fuel e.
Proof. unfold parse. intros H. eapply parse_loop_pe; exact H. Qed.

Theorem parse_error_positioned : forall (inp : str) (e : perr),
  parse inp = Err e -> positioned e = true.
Proof.
  intros inp e H. destruct (parse_error_pos_or_fuel inp e H) as [P|F]; [exact P|].
  exfalso. eapply parse_no_fuel; eassumption.
Qed.

Print Assumptions parse_error_positioned.
