(* C06: one result row is stored into the caller's destinations.
   Characterisation of ScanArgs (scan_targets / scan_args), of rows.Scan +
   OnSuccess (rows_scan_cells / apply_pending) as a sequence of writes to
   locations, and the lands / frame theorem. *)
From Coq Require Import String Permutation.
From SQLair.Base Require Import Bytes Sexp.
From SQLair.Model Require Import GenConsts Reflect TypeInfo Bind Scan.
From SQLair.Proofs Require Import BindFacts ScanAlgebra.

(* ------------------------------------------------- NULL and Scanners (6) -- *)

Lemma conv_scanner env ft c :
  t_scanner (tget env ft) = true -> conv scan_fuel env ft c = Some (leaf_of c).
Proof. intros H. unfold scan_fuel. cbn [conv]. rewrite H. reflexivity. Qed.

Lemma conv_null_ptr env ft :
  t_scanner (tget env ft) = false -> t_kind (tget env ft) = KPtr ->
  conv scan_fuel env ft CNull = Some VNilPtr.
Proof. intros H K. unfold scan_fuel. cbn [conv]. rewrite H, K. reflexivity. Qed.

Lemma zero_val_scalar env ft n :
  t_scanner (tget env ft) = false -> t_kind (tget env ft) = KOther n ->
  zero_val scan_fuel env ft = VLeaf 0 true.
Proof. intros H K. unfold scan_fuel. cbn [zero_val]. rewrite H, K. reflexivity. Qed.

Lemma conv_null_scalar env ft n :
  t_scanner (tget env ft) = false -> t_kind (tget env ft) = KOther n ->
  str_eqb n (lit "interface") = false ->
  conv scan_fuel env ft CNull = None.
Proof.
  intros H K I. unfold scan_fuel. cbn [conv]. rewrite H, K, I.
  destruct (str_eqb n (lit "bool")); [reflexivity|].
  destruct (existsb _ scalar_kinds); reflexivity.
Qed.

Local Opaque conv zero_val.

(* ---------------------------------------- errors come before writes (1) -- *)

Lemma rows_scan_cells_no_bind env tgs : forall cells m pend m1 e,
  rows_scan_cells env tgs cells m pend <> (m1, SErr (SBind e)).
Proof.
  induction tgs as [|tg tgs IH]; intros cells m pend m1 e.
  - simpl. discriminate.
  - destruct cells as [|c cells]; [simpl; discriminate|].
    destruct tg as [|t p ft|t p ft|mt k et]; cbn [rows_scan_cells].
    + apply IH.
    + destruct (conv scan_fuel env ft c); [apply IH|discriminate].
    + destruct c; [apply IH|]. destruct (conv scan_fuel env ft (CInt id)); [apply IH|discriminate].
    + destruct (conv scan_fuel env et c); [apply IH|discriminate].
Qed.

Lemma scan_row_no_partial env outputs cols cells args e :
  snd (scan_row env outputs cols cells args) = Some (SBind e) ->
  fst (scan_row env outputs cols cells args) = None /\ scan_args env outputs cols args = BErr e.
Proof.
  unfold scan_row. destruct (scan_args env outputs cols args) as [[m tgs]|e0].
  - destruct (rows_scan_cells env tgs cells m []) as [m1 [pend|e']] eqn:R; simpl; intros H; [discriminate|].
    inversion H; subst. exfalso. eapply rows_scan_cells_no_bind. exact R.
  - simpl. intros H. inversion H. auto.
Qed.

Lemma scan_row_bind_err env outputs cols cells args e :
  scan_args env outputs cols args = BErr e ->
  scan_row env outputs cols cells args = (None, Some (SBind e)).
Proof. intros H. unfold scan_row. rewrite H. reflexivity. Qed.

(* ----------------------------------------- ScanArgs, column by column -- *)

(* what one column contributes: its target and, for a generated alias, the
   index of the output and the type of the destination it needs *)
Definition step := (target * option (nat * tid))%type.

Definition col_step (env : tenv) (outputs : list locator) (m : t2v) (c : str) : bres step :=
  match marker_index c with
  | None => BOk (TForeign, None)
  | Some idx =>
      match nth_error outputs idx with
      | None => BErr EColumnNotInOutputs
      | Some l => bbind (locate_scan_target env l m) (fun tg => BOk (tg, Some (idx, loc_argtype l)))
      end
  end.

Fixpoint col_steps (env : tenv) (outputs : list locator) (m : t2v) (cols : list str) : bres (list step) :=
  match cols with
  | [] => BOk []
  | c :: rest =>
      bbind (col_step env outputs m c) (fun st =>
      bbind (col_steps env outputs m rest) (fun sts => BOk (st :: sts)))
  end.

Definition step_idxs (sts : list step) : list nat := filter_map (fun st => option_map fst (snd st)) sts.
Definition step_typs (sts : list step) : list tid := filter_map (fun st => option_map snd (snd st)) sts.

Lemma scan_targets_eq env outputs m cols : forall seen used acc,
  scan_targets env outputs m cols seen used acc =
  bbind (col_steps env outputs m cols) (fun sts =>
    BOk (acc ++ map fst sts, rev (step_idxs sts) ++ seen, rev (step_typs sts) ++ used)).
Proof.
  induction cols as [|c cols IH]; intros seen used acc.
  - simpl. rewrite app_nil_r. reflexivity.
  - cbn [scan_targets col_steps]. unfold col_step.
    destruct (marker_index c) as [idx|].
    + destruct (nth_error outputs idx) as [l|]; [|reflexivity].
      destruct (locate_scan_target env l m) as [tg|e]; [|reflexivity].
      cbn [bbind]. rewrite IH. destruct (col_steps env outputs m cols) as [sts|e]; [|reflexivity].
      cbn [bbind]. unfold step_idxs, step_typs. cbn [filter_map snd option_map fst map rev].
      rewrite <- !app_assoc. reflexivity.
    + cbn [bbind]. rewrite IH. destruct (col_steps env outputs m cols) as [sts|e]; [|reflexivity].
      cbn [bbind]. unfold step_idxs, step_typs. cbn [filter_map snd option_map fst map rev].
      rewrite <- !app_assoc. reflexivity.
Qed.

Definition step_of (env : tenv) (outputs : list locator) (m : t2v) (c : str) : step :=
  match col_step env outputs m c with BOk st => st | BErr _ => (TForeign, None) end.

Lemma col_steps_ok env outputs m cols : forall sts,
  col_steps env outputs m cols = BOk sts ->
  sts = map (step_of env outputs m) cols /\
  (forall c, In c cols -> col_step env outputs m c = BOk (step_of env outputs m c)).
Proof.
  induction cols as [|c cols IH]; intros sts H.
  - simpl in H. inversion H. split; [reflexivity|intros c []].
  - cbn [col_steps] in H. destruct (col_step env outputs m c) as [st|e] eqn:S; [|discriminate].
    cbn [bbind] in H. destruct (col_steps env outputs m cols) as [sts'|e] eqn:R; [|discriminate].
    cbn [bbind] in H. inversion H; subst sts. destruct (IH sts' eq_refl) as [E A]. split.
    + simpl. unfold step_of at 1. rewrite S. congruence.
    + intros c' [Hc|Hc]; [subst c'; unfold step_of; rewrite S; reflexivity|apply A; exact Hc].
Qed.

Lemma col_steps_complete env outputs m cols :
  (forall c, In c cols -> exists st, col_step env outputs m c = BOk st) ->
  col_steps env outputs m cols = BOk (map (step_of env outputs m) cols).
Proof.
  induction cols as [|c cols IH]; intros H; [reflexivity|].
  cbn [col_steps]. destruct (H c (or_introl eq_refl)) as [st S].
  rewrite IH by (intros c' Hc'; apply H; right; exact Hc').
  rewrite S. cbn [bbind map]. unfold step_of at 2. rewrite S. reflexivity.
Qed.

Lemma col_steps_err env outputs m cols e :
  col_steps env outputs m cols = BErr e -> exists c, In c cols /\ col_step env outputs m c = BErr e.
Proof.
  induction cols as [|c cols IH]; intros H; [discriminate|].
  cbn [col_steps] in H. destruct (col_step env outputs m c) as [st|e0] eqn:S.
  - cbn [bbind] in H. destruct (col_steps env outputs m cols) as [sts|e1]; [discriminate|].
    cbn [bbind] in H. inversion H; subst. destruct (IH eq_refl) as [c' [I S']].
    exists c'. split; [right; exact I|exact S'].
  - cbn [bbind] in H. inversion H; subst. exists c. split; [left; reflexivity|exact S].
Qed.

(* the location a target denotes *)
Definition target_loc (tg : target) : option loc :=
  match tg with
  | TForeign => None
  | TDirect t p _ | TProxyField t p _ => Some (LocField t p)
  | TProxyKey mt k _ => Some (LocKey mt k)
  end.

Lemma target_loc_type tg l : target_loc tg = Some l -> target_argtype tg = Some (loc_type l).
Proof. destruct tg; simpl; intros H; inversion H; reflexivity. Qed.

Lemma target_loc_none tg : target_loc tg = None <-> tg = TForeign.
Proof. destruct tg; simpl; split; congruence. Qed.

(* LocateScanTarget succeeds only on a destination that is there, and whose
   field can be reached (no nil embedded pointer on the way) *)
Lemma locate_field_ok env f m tg :
  locate_scan_target env (LField f) m = BOk tg ->
  exists s y ft,
    t2v_get m (sf_struct f) = Some s /\ field_by_index s (sf_index f) = Some y /\
    type_by_index env (sf_struct f) (sf_index f) = Some ft /\
    ((tg = TProxyField (sf_struct f) (sf_index f) ft /\
      kind_eqb (t_kind (tget env ft)) KPtr = false /\ t_scanner (tget env ft) = false) \/
     (tg = TDirect (sf_struct f) (sf_index f) ft /\
      (kind_eqb (t_kind (tget env ft)) KPtr = true \/ t_scanner (tget env ft) = true))).
Proof.
  unfold locate_scan_target, field_of. intros H.
  destruct (t2v_get m (sf_struct f)) as [s|] eqn:G; [|discriminate].
  destruct (field_by_index s (sf_index f)) as [y|] eqn:F; [|discriminate]. cbn [bbind] in H.
  destruct (type_by_index env (sf_struct f) (sf_index f)) as [ft|] eqn:T; [|discriminate].
  exists s, y, ft. split; [reflexivity|]. split; [exact F|]. split; [reflexivity|].
  destruct (kind_eqb (t_kind (tget env ft)) KPtr) eqn:K; destruct (t_scanner (tget env ft)) eqn:Sc;
    simpl in H; inversion H; subst; [right|right|right|left]; auto.
Qed.

Lemma locate_key_ok env mt k m tg :
  locate_scan_target env (LMapKey mt k) m = BOk tg ->
  tg = TProxyKey mt k (t_elem (tget env mt)) /\ exists v, t2v_get m mt = Some v.
Proof.
  unfold locate_scan_target. destruct (t2v_get m mt) as [v|]; [|discriminate].
  intros H. inversion H. split; [reflexivity|exists v; reflexivity].
Qed.

Lemma locate_ok env l m tg :
  locate_scan_target env l m = BOk tg ->
  tg <> TForeign /\ target_argtype tg = Some (loc_argtype l) /\ t2v_get m (loc_argtype l) <> None /\
  (forall t p, target_loc tg = Some (LocField t p) -> writable m (LocField t p)).
Proof.
  destruct l as [f|mt k|st]; intros H.
  - destruct (locate_field_ok env f m tg H) as [s [y [ft [G [F [_ [[E _]|[E _]]]]]]]]; subst tg; simpl;
      (repeat split; [discriminate|congruence|]);
      intros t p Hl; inversion Hl; subst; exists s, y; auto.
  - destruct (locate_key_ok env mt k m tg H) as [E [v G]]. subst tg. simpl.
    repeat split; [discriminate|congruence|discriminate].
  - discriminate.
Qed.

Definition col_argtype (outputs : list locator) (c : str) : option tid :=
  match marker_index c with
  | Some i => option_map loc_argtype (nth_error outputs i)
  | None => None
  end.

Lemma col_step_ok env outputs m c st :
  col_step env outputs m c = BOk st ->
  option_map fst (snd st) = marker_index c /\
  option_map snd (snd st) = col_argtype outputs c /\
  (fst st = TForeign <-> marker_index c = None) /\
  match marker_index c with
  | None => True
  | Some i => exists l, nth_error outputs i = Some l /\ locate_scan_target env l m = BOk (fst st)
  end.
Proof.
  unfold col_step, col_argtype. destruct (marker_index c) as [i|].
  - destruct (nth_error outputs i) as [l|]; [|discriminate].
    destruct (locate_scan_target env l m) as [tg|] eqn:L; [|discriminate].
    cbn [bbind]. intros H. inversion H; subst st. cbn [fst snd option_map].
    repeat split; try discriminate.
    + intros E. apply locate_ok in L. destruct L as [N _]. contradiction.
    + exists l. auto.
  - intros H. inversion H; subst. simpl. repeat split; reflexivity.
Qed.

Lemma step_idxs_markers env outputs m cols sts :
  col_steps env outputs m cols = BOk sts -> step_idxs sts = filter_map marker_index cols.
Proof.
  intros H. destruct (col_steps_ok _ _ _ _ _ H) as [E A]. subst sts.
  unfold step_idxs. rewrite filter_map_map. apply filter_map_ext_in.
  intros c Hc. apply (col_step_ok env outputs m c _ (A c Hc)).
Qed.

Lemma step_typs_argtypes env outputs m cols sts :
  col_steps env outputs m cols = BOk sts -> step_typs sts = filter_map (col_argtype outputs) cols.
Proof.
  intros H. destruct (col_steps_ok _ _ _ _ _ H) as [E A]. subst sts.
  unfold step_typs. rewrite filter_map_map. apply filter_map_ext_in.
  intros c Hc. apply (col_step_ok env outputs m c _ (A c Hc)).
Qed.

(* the relation between a column and its target *)
Definition col_target_rel (env : tenv) (outputs : list locator) (m : t2v) (c : str) (tg : target) : Prop :=
  match marker_index c with
  | None => tg = TForeign
  | Some i => exists l, nth_error outputs i = Some l /\ locate_scan_target env l m = BOk tg
  end.

(* the characterisation of scan_targets asked for by C06 *)
Lemma scan_targets_spec env outputs m cols tgs seen used :
  scan_targets env outputs m cols [] [] [] = BOk (tgs, seen, used) ->
  seen = rev (filter_map marker_index cols) /\
  used = rev (filter_map (col_argtype outputs) cols) /\
  Forall2 (col_target_rel env outputs m) cols tgs /\
  (forall j c tg, nth_error cols j = Some c -> nth_error tgs j = Some tg ->
     (tg = TForeign <-> marker_index c = None)).
Proof.
  rewrite scan_targets_eq. destruct (col_steps env outputs m cols) as [sts|e] eqn:CS; [|discriminate].
  cbn [bbind]. intros H. inversion H; subst. rewrite !app_nil_r.
  rewrite (step_idxs_markers _ _ _ _ _ CS), (step_typs_argtypes _ _ _ _ _ CS).
  destruct (col_steps_ok _ _ _ _ _ CS) as [E A]. subst sts. rewrite map_map.
  assert (Forall2 (col_target_rel env outputs m) cols (map (fun x => fst (step_of env outputs m x)) cols)) as F2.
  { clear CS H. induction cols as [|c cols IH]; simpl; constructor.
    - pose proof (col_step_ok env outputs m c _ (A c (or_introl eq_refl))) as [_ [_ [Fo T]]].
      unfold col_target_rel. destruct (marker_index c); [exact T|]. apply Fo. reflexivity.
    - apply IH. intros c' Hc'. apply A. right. exact Hc'. }
  split; [reflexivity|]. split; [reflexivity|]. split; [exact F2|].
  intros j c tg Hc Htg. rewrite nth_error_map, Hc in Htg. simpl in Htg. inversion Htg; subst tg.
  apply (col_step_ok env outputs m c _ (A c (nth_error_In _ _ Hc))).
Qed.

Lemma existsb_eqb_in i l : existsb (Nat.eqb i) l = true <-> In i l.
Proof.
  rewrite existsb_exists. split.
  - intros [x [I E]]. apply Nat.eqb_eq in E. subst. exact I.
  - intros I. exists i. split; [exact I|apply Nat.eqb_refl].
Qed.

(* scan_args succeeds exactly when ... *)
Definition scan_args_ok (env : tenv) (outputs : list locator) (cols : list str) (m : t2v) : Prop :=
  length outputs <= length cols /\
  (forall c, In c cols -> exists st, col_step env outputs m c = BOk st) /\
  (forall i, i < length outputs -> In i (filter_map marker_index cols)) /\
  (forall t v, In (t, v) m -> In t (filter_map (col_argtype outputs) cols)).

Lemma scan_args_iff env outputs cols args m tgs :
  scan_args env outputs cols args = BOk (m, tgs) <->
  validate_outputs env args [] = BOk m /\ scan_args_ok env outputs cols m /\
  tgs = map (fun c => fst (step_of env outputs m c)) cols.
Proof.
  unfold scan_args, scan_args_ok.
  destruct (validate_outputs env args []) as [m0|e] eqn:V; cbn [bbind].
  2:{ split; [discriminate|intros [H _]; discriminate]. }
  destruct (Nat.ltb (length cols) (length outputs)) eqn:Lt.
  { apply Nat.ltb_lt in Lt. split; [discriminate|]. intros [_ [[H _] _]]. lia. }
  apply Nat.ltb_ge in Lt. rewrite scan_targets_eq.
  destruct (col_steps env outputs m0 cols) as [sts|e] eqn:CS; cbn [bbind].
  2:{ split; [discriminate|]. intros [Hm [[_ [H _]] _]]. inversion Hm; subst m0.
      rewrite (col_steps_complete env outputs m cols H) in CS. discriminate. }
  rewrite !app_nil_r. cbn [app].
  rewrite (step_idxs_markers _ _ _ _ _ CS), (step_typs_argtypes _ _ _ _ _ CS).
  destruct (col_steps_ok _ _ _ _ _ CS) as [E A]. rewrite E, map_map.
  destruct (forallb (fun i => existsb (Nat.eqb i) (rev (filter_map marker_index cols))) (seq 0 (length outputs))) eqn:F1;
    cbn [negb].
  2:{ split; [discriminate|]. intros [Hm [[_ [_ [H _]]] _]]. exfalso.
      assert (forallb (fun i => existsb (Nat.eqb i) (rev (filter_map marker_index cols))) (seq 0 (length outputs)) = true) as X;
        [|congruence].
      apply forallb_forall. intros i Hi. apply in_seq in Hi. apply existsb_eqb_in. rewrite <- in_rev. apply H. lia. }
  destruct (forallb (fun '(t, _) => existsb (Nat.eqb t) (rev (filter_map (col_argtype outputs) cols))) m0) eqn:F2;
    cbn [negb].
  2:{ split; [discriminate|]. intros [Hm [[_ [_ [_ H]]] _]]. inversion Hm; subst m0. exfalso.
      assert (forallb (fun '(t, _) => existsb (Nat.eqb t) (rev (filter_map (col_argtype outputs) cols))) m = true) as X;
        [|congruence].
      apply forallb_forall. intros [t v] Hi. apply existsb_eqb_in. rewrite <- in_rev. eapply H. exact Hi. }
  split.
  - intros H. inversion H; subst. split; [reflexivity|]. split; [|reflexivity].
    split; [exact Lt|]. split; [intros c Hc; eexists; apply A; exact Hc|]. split.
    + intros i Hi. rewrite forallb_forall in F1. specialize (F1 i). rewrite existsb_eqb_in, <- in_rev in F1.
      apply F1. apply in_seq. lia.
    + intros t v Hi. rewrite forallb_forall in F2. specialize (F2 (t, v) Hi). cbn beta iota in F2.
      rewrite existsb_eqb_in, <- in_rev in F2. exact F2.
  - intros [Hm [_ Ht]]. inversion Hm; subst. reflexivity.
Qed.

Lemma in_filter_map_marker i cols :
  In i (filter_map marker_index cols) <-> exists c, In c cols /\ marker_index c = Some i.
Proof. apply filter_map_in. Qed.

(* ------------------------------------------- missing column (2), (3) -- *)

Lemma scan_args_result env outputs cols args :
  (exists e, scan_args env outputs cols args = BErr e) \/
  (exists m tgs, scan_args env outputs cols args = BOk (m, tgs)).
Proof. destruct (scan_args env outputs cols args) as [[m tgs]|e]; [right|left]; eauto. Qed.

Lemma scan_args_missing_column env outputs cols args i :
  i < length outputs -> (forall c, In c cols -> marker_index c <> Some i) ->
  exists e, scan_args env outputs cols args = BErr e.
Proof.
  intros Hi Hn. destruct (scan_args_result env outputs cols args) as [H|[m [tgs H]]]; [exact H|].
  apply scan_args_iff in H. destruct H as [_ [[_ [_ [S _]]] _]].
  apply S, in_filter_map_marker in Hi. destruct Hi as [c [Hc Hm]]. exfalso. eapply Hn; eassumption.
Qed.

(* the error is the one sqlair reports, unless an earlier check fails *)
Lemma scan_args_missing_column_err env outputs cols args i m tgs seen used :
  i < length outputs -> (forall c, In c cols -> marker_index c <> Some i) ->
  validate_outputs env args [] = BOk m -> length outputs <= length cols ->
  scan_targets env outputs m cols [] [] [] = BOk (tgs, seen, used) ->
  scan_args env outputs cols args = BErr EOutputColumnMissing.
Proof.
  intros Hi Hn V Le ST. unfold scan_args. rewrite V. cbn [bbind].
  apply Nat.ltb_ge in Le. rewrite Le, ST. cbn [bbind].
  destruct (scan_targets_spec _ _ _ _ _ _ _ ST) as [Es _]. subst seen.
  assert (forallb (fun i0 => existsb (Nat.eqb i0) (rev (filter_map marker_index cols))) (seq 0 (length outputs)) = false) as X.
  { destruct (forallb _ (seq 0 (length outputs))) eqn:F; [|reflexivity].
    rewrite forallb_forall in F. specialize (F i). rewrite existsb_eqb_in, <- in_rev, in_filter_map_marker in F.
    destruct F as [c [Hc Hm]]; [apply in_seq; lia|]. exfalso. eapply Hn; eassumption. }
  rewrite X. reflexivity.
Qed.

Lemma scan_args_unused_destination env outputs cols args m t v :
  validate_outputs env args [] = BOk m -> In (t, v) m ->
  (forall c i l, In c cols -> marker_index c = Some i -> nth_error outputs i = Some l -> loc_argtype l <> t) ->
  exists e, scan_args env outputs cols args = BErr e.
Proof.
  intros V Hin Hn. destruct (scan_args_result env outputs cols args) as [H|[m' [tgs H]]]; [exact H|].
  apply scan_args_iff in H. destruct H as [V' [[_ [_ [_ U]]] _]].
  rewrite V in V'. inversion V'; subst m'.
  apply U, filter_map_in in Hin. destruct Hin as [c [Hc Ha]]. unfold col_argtype in Ha.
  destruct (marker_index c) as [i|] eqn:Mi; [|discriminate].
  destruct (nth_error outputs i) as [l|] eqn:Nl; [|discriminate]. simpl in Ha. inversion Ha.
  exfalso. eapply Hn; eassumption.
Qed.

Lemma scan_args_missing_destination env outputs cols args m c i l :
  validate_outputs env args [] = BOk m ->
  In c cols -> marker_index c = Some i -> nth_error outputs i = Some l ->
  t2v_get m (loc_argtype l) = None ->
  exists e, scan_args env outputs cols args = BErr e.
Proof.
  intros V Hc Mi Nl G. destruct (scan_args_result env outputs cols args) as [H|[m' [tgs H]]]; [exact H|].
  apply scan_args_iff in H. destruct H as [V' [[_ [S _]] _]].
  rewrite V in V'. inversion V'; subst m'.
  destruct (S c Hc) as [st Hst]. apply col_step_ok in Hst. destruct Hst as [_ [_ [_ T]]].
  rewrite Mi in T. destruct T as [l' [Nl' L]]. rewrite Nl in Nl'. inversion Nl'; subst l'.
  apply locate_ok in L. destruct L as [_ [_ [G' _]]]. contradiction.
Qed.

(* a column carrying an alias that no output expression generated *)
Lemma scan_args_alias_out_of_range env outputs cols args c i :
  In c cols -> marker_index c = Some i -> length outputs <= i ->
  exists e, scan_args env outputs cols args = BErr e.
Proof.
  intros Hc Mi Le. destruct (scan_args_result env outputs cols args) as [H|[m' [tgs H]]]; [exact H|].
  apply scan_args_iff in H. destruct H as [_ [[_ [S _]] _]].
  destruct (S c Hc) as [st Hst]. unfold col_step in Hst. rewrite Mi in Hst.
  apply nth_error_None in Le. rewrite Le in Hst. discriminate.
Qed.

(* ------------------------------- rows.Scan + OnSuccess as writes (5) -- *)

Definition is_direct (tg : target) : bool :=
  match tg with TDirect _ _ _ => true | _ => false end.

(* the value a cell gives at a target *)
Definition stored (env : tenv) (tg : target) (c : cell) : option val :=
  match tg with
  | TForeign => None
  | TDirect _ _ ft => conv scan_fuel env ft c
  | TProxyField _ _ ft =>
      match c with
      | CNull => Some (zero_val scan_fuel env ft)
      | _ => conv scan_fuel env ft c
      end
  | TProxyKey _ _ et => conv scan_fuel env et c
  end.

Definition read_target (m : t2v) (tg : target) : option val :=
  match tg with
  | TForeign => None
  | TDirect t p _ | TProxyField t p _ =>
      match t2v_get m t with Some s => field_by_index s p | None => None end
  | TProxyKey mt k _ =>
      match t2v_get m mt with Some (VMap _ es) => assoc_str k es | _ => None end
  end.

Lemma read_target_loc m tg :
  read_target m tg = match target_loc tg with Some l => read_loc m l | None => None end.
Proof. destruct tg; reflexivity. Qed.

Definition write_of (env : tenv) (tc : target * cell) : option (loc * val) :=
  match target_loc (fst tc), stored env (fst tc) (snd tc) with
  | Some l, Some x => Some (l, x)
  | _, _ => None
  end.

Definition direct_write (env : tenv) (tc : target * cell) : option (loc * val) :=
  if is_direct (fst tc) then write_of env tc else None.
Definition proxy_write (env : tenv) (tc : target * cell) : option (loc * val) :=
  if is_direct (fst tc) then None else write_of env tc.

Definition cell_ok (env : tenv) (tc : target * cell) : Prop :=
  fst tc = TForeign \/ stored env (fst tc) (snd tc) <> None.

Definition to_pending (w : loc * val) : pending :=
  match fst w with
  | LocField t p => PField t p (snd w)
  | LocKey mt k => PKey mt k (snd w)
  end.

Lemma apply_pending_writes ws : forall m,
  fold_left apply_pending (map to_pending ws) m = apply_writes m ws.
Proof.
  induction ws as [|[l x] ws IH]; intros m; [reflexivity|].
  unfold apply_writes. simpl. rewrite IH. destruct l; reflexivity.
Qed.

Lemma rows_scan_ok_cells env tgs : forall cells m pend m1 pend',
  rows_scan_cells env tgs cells m pend = (m1, SOk pend') -> Forall (cell_ok env) (combine tgs cells).
Proof.
  induction tgs as [|tg tgs IH]; intros cells m pend m1 pend' H; [constructor|].
  destruct cells as [|c cells]; [constructor|].
  destruct tg as [|t p ft|t p ft|mt k et]; cbn [rows_scan_cells] in H; cbn [combine].
  - constructor; [left; reflexivity|]. eapply IH. exact H.
  - destruct (conv scan_fuel env ft c) eqn:C; [|discriminate].
    constructor; [right; simpl; congruence|]. eapply IH. exact H.
  - destruct c.
    + constructor; [right; simpl; congruence|]. eapply IH. exact H.
    + destruct (conv scan_fuel env ft (CInt id)) eqn:C; [|discriminate].
      constructor; [right; simpl; congruence|]. eapply IH. exact H.
  - destruct (conv scan_fuel env et c) eqn:C; [|discriminate].
    constructor; [right; simpl; congruence|]. eapply IH. exact H.
Qed.

Lemma rows_scan_eq env tgs : forall cells m pend,
  Forall (cell_ok env) (combine tgs cells) ->
  rows_scan_cells env tgs cells m pend =
  (apply_writes m (filter_map (direct_write env) (combine tgs cells)),
   SOk (pend ++ map to_pending (filter_map (proxy_write env) (combine tgs cells)))).
Proof.
  induction tgs as [|tg tgs IH]; intros cells m pend H.
  - simpl. rewrite app_nil_r. reflexivity.
  - destruct cells as [|c cells]; [simpl; rewrite app_nil_r; reflexivity|].
    cbn [combine] in H. inversion H as [|? ? Hok Hrest]; subst.
    cbn [combine filter_map]. unfold direct_write at 1, proxy_write at 1, write_of. cbn [fst snd].
    destruct tg as [|t p ft|t p ft|mt k et]; cbn [rows_scan_cells is_direct target_loc].
    + apply IH. exact Hrest.
    + destruct Hok as [Hok|Hok]; [discriminate|]. cbn [fst snd stored] in Hok. cbn [stored].
      destruct (conv scan_fuel env ft c) as [x|]; [|congruence].
      rewrite IH by exact Hrest. reflexivity.
    + destruct Hok as [Hok|Hok]; [discriminate|]. cbn [fst snd stored] in Hok. cbn [stored].
      destruct c.
      * rewrite IH by exact Hrest. cbn [map]. rewrite <- app_assoc. reflexivity.
      * destruct (conv scan_fuel env ft (CInt id)) as [x|]; [|congruence].
        rewrite IH by exact Hrest. cbn [map]. rewrite <- app_assoc. reflexivity.
    + destruct Hok as [Hok|Hok]; [discriminate|]. cbn [fst snd stored] in Hok. cbn [stored].
      destruct (conv scan_fuel env et c) as [x|]; [|congruence].
      rewrite IH by exact Hrest. cbn [map]. rewrite <- app_assoc. reflexivity.
Qed.

Lemma rows_scan_err env tgs : forall cells m pend,
  ~ Forall (cell_ok env) (combine tgs cells) ->
  exists m1, rows_scan_cells env tgs cells m pend = (m1, SErr SConv).
Proof.
  intros cells m pend H. destruct (rows_scan_cells env tgs cells m pend) as [m1 [pend'|e]] eqn:R.
  - exfalso. apply H. eapply rows_scan_ok_cells. exact R.
  - destruct e as [e|]; [exfalso; eapply rows_scan_cells_no_bind; exact R|]. exists m1. reflexivity.
Qed.

(* a conversion error: the columns before the failing one that are scanned
   directly (pointer and Scanner fields) have been written, nothing else has
   (OnSuccess does not run) *)
Definition conv_error_at (env : tenv) (tcs : list (target * cell)) (m m1 : t2v) : Prop :=
  exists k tc,
    nth_error tcs k = Some tc /\ ~ cell_ok env tc /\
    Forall (cell_ok env) (firstn k tcs) /\
    m1 = apply_writes m (filter_map (direct_write env) (firstn k tcs)).

Lemma conv_error_step env tc tcs m m0 m1 :
  cell_ok env tc ->
  m0 = apply_writes m (filter_map (direct_write env) [tc]) ->
  conv_error_at env tcs m0 m1 -> conv_error_at env (tc :: tcs) m m1.
Proof.
  intros Ok Em [k [tc' [N [Nok [F E]]]]]. exists (S k), tc'. cbn [nth_error firstn].
  split; [exact N|]. split; [exact Nok|]. split; [constructor; assumption|].
  change (tc :: firstn k tcs) with ([tc] ++ firstn k tcs).
  rewrite filter_map_app, apply_writes_app, <- Em. exact E.
Qed.

Lemma rows_scan_conv_error env tgs : forall cells m pend m1,
  rows_scan_cells env tgs cells m pend = (m1, SErr SConv) ->
  conv_error_at env (combine tgs cells) m m1.
Proof.
  induction tgs as [|tg tgs IH]; intros cells m pend m1 H; [simpl in H; discriminate|].
  destruct cells as [|c cells]; [simpl in H; discriminate|].
  assert (forall tc, ~ cell_ok env tc -> conv_error_at env (tc :: combine tgs cells) m m) as Fail.
  { intros tc Nok. exists 0, tc. split; [reflexivity|]. split; [exact Nok|]. split; [constructor|reflexivity]. }
  destruct tg as [|t p ft|t p ft|mt k et]; cbn [rows_scan_cells] in H; cbn [combine].
  - eapply conv_error_step; [left; reflexivity|reflexivity|]. eapply IH. exact H.
  - destruct (conv scan_fuel env ft c) as [x|] eqn:C.
    + eapply conv_error_step; [right; simpl; congruence| |eapply IH; exact H].
      unfold direct_write, write_of. cbn [filter_map fst snd is_direct target_loc stored]. rewrite C. reflexivity.
    + inversion H; subst m1. apply Fail. intros [X|X]; [discriminate|]. simpl in X. congruence.
  - destruct c.
    + eapply conv_error_step; [right; simpl; congruence|reflexivity|eapply IH; exact H].
    + destruct (conv scan_fuel env ft (CInt id)) as [x|] eqn:C.
      * eapply conv_error_step; [right; simpl; congruence|reflexivity|eapply IH; exact H].
      * inversion H; subst m1. apply Fail. intros [X|X]; [discriminate|]. simpl in X. congruence.
  - destruct (conv scan_fuel env et c) as [x|] eqn:C.
    + eapply conv_error_step; [right; simpl; congruence|reflexivity|eapply IH; exact H].
    + inversion H; subst m1. apply Fail. intros [X|X]; [discriminate|]. simpl in X. congruence.
Qed.

Lemma scan_row_conv_error env outputs cols cells args m1 :
  scan_row env outputs cols cells args = (Some m1, Some SConv) ->
  exists m tgs, scan_args env outputs cols args = BOk (m, tgs) /\
    conv_error_at env (combine tgs cells) m m1.
Proof.
  unfold scan_row. destruct (scan_args env outputs cols args) as [[m tgs]|e]; [|discriminate].
  destruct (rows_scan_cells env tgs cells m []) as [m0 [pend|e]] eqn:R; [discriminate|].
  intros H. inversion H; subst. exists m, tgs. split; [reflexivity|]. eapply rows_scan_conv_error. exact R.
Qed.

(* the whole row as one sequence of writes: first what rows.Scan writes
   directly, then what OnSuccess copies *)
Definition row_writes (env : tenv) (tcs : list (target * cell)) : list (loc * val) :=
  filter_map (direct_write env) tcs ++ filter_map (proxy_write env) tcs.

Lemma scan_result_writes env tgs cells m m1 pend :
  rows_scan_cells env tgs cells m [] = (m1, SOk pend) ->
  Forall (cell_ok env) (combine tgs cells) /\
  fold_left apply_pending pend m1 = apply_writes m (row_writes env (combine tgs cells)).
Proof.
  intros R. pose proof (rows_scan_ok_cells _ _ _ _ _ _ _ R) as OK. split; [exact OK|].
  rewrite (rows_scan_eq env tgs cells m [] OK) in R. inversion R; subst. cbn [app].
  rewrite apply_pending_writes. unfold row_writes. rewrite apply_writes_app. reflexivity.
Qed.

Lemma split_filter_map_perm {A B} (f g h : A -> option B) l :
  (forall x, (f x = h x /\ g x = None) \/ (f x = None /\ g x = h x)) ->
  Permutation (filter_map f l ++ filter_map g l) (filter_map h l).
Proof.
  intros H. induction l as [|a l IH]; simpl; [constructor|].
  destruct (H a) as [[Ef Eg]|[Ef Eg]]; rewrite Ef, Eg; destruct (h a) as [b|]; try exact IH.
  - simpl. constructor. exact IH.
  - apply Permutation_sym, Permutation_cons_app, Permutation_sym. exact IH.
Qed.

Lemma row_writes_perm env tcs : Permutation (row_writes env tcs) (filter_map (write_of env) tcs).
Proof.
  apply split_filter_map_perm. intros [tg c]. unfold direct_write, proxy_write.
  destruct (is_direct (fst (tg, c))); [left|right]; split; reflexivity.
Qed.

Definition target_locs (tgs : list target) : list loc := filter_map target_loc tgs.

Lemma write_of_locs env tcs :
  Forall (cell_ok env) tcs ->
  map fst (filter_map (write_of env) tcs) = target_locs (map fst tcs).
Proof.
  intros H. unfold target_locs. rewrite map_filter_map, filter_map_map. apply filter_map_ext_in.
  intros [tg c] Hin. rewrite Forall_forall in H. specialize (H _ Hin). unfold write_of, cell_ok in *. cbn [fst snd] in *.
  destruct (target_loc tg) as [l|] eqn:L; [|reflexivity].
  destruct H as [H|H]; [subst tg; discriminate|]. destruct (stored env tg c); [reflexivity|congruence].
Qed.

(* two different non-foreign targets denote independent places: different
   destination types, or the same struct and index paths neither of which
   leads through the other, or the same map and different keys *)
Definition targets_independent (tgs : list target) : Prop :=
  forall i j ti tj li lj, i <> j ->
    nth_error tgs i = Some ti -> nth_error tgs j = Some tj ->
    target_loc ti = Some li -> target_loc tj = Some lj -> loc_indep li lj.

Lemma targets_independent_pairwise tgs : targets_independent tgs <-> pairwise loc_indep (target_locs tgs).
Proof.
  unfold target_locs. split.
  - induction tgs as [|tg tgs IH]; intros H; simpl; [trivial|].
    assert (targets_independent tgs) as H'.
    { intros i j ti tj li lj Ne Hi Hj. apply (H (S i) (S j)); [lia|exact Hi|exact Hj]. }
    destruct (target_loc tg) as [l|] eqn:L; [|apply IH; exact H'].
    simpl. split; [|apply IH; exact H'].
    apply Forall_forall. intros l' Hl'. apply filter_map_in in Hl'. destruct Hl' as [tg' [Hin L']].
    apply In_nth_error in Hin. destruct Hin as [j Hj].
    apply (H 0 (S j) tg tg'); [lia|reflexivity|exact Hj|exact L|exact L'].
  - induction tgs as [|tg tgs IH]; intros H i j ti tj li lj Ne Hi Hj Li Lj.
    + destruct i; discriminate.
    + simpl in H.
      assert (pairwise loc_indep (filter_map target_loc tgs) /\
              (forall l, target_loc tg = Some l -> forall l', In l' (filter_map target_loc tgs) -> loc_indep l l')) as [P F].
      { destruct (target_loc tg) as [l|]; [|split; [exact H|discriminate]].
        destruct H as [F P]. split; [exact P|]. intros l0 E l' Hl'. inversion E; subst.
        rewrite Forall_forall in F. apply F. exact Hl'. }
      destruct i as [|i], j as [|j]; simpl in Hi, Hj.
      * congruence.
      * inversion Hi; subst. apply (F li Li). apply filter_map_in. exists tj. split; [eapply nth_error_In; exact Hj|exact Lj].
      * inversion Hj; subst. apply loc_indep_sym. apply (F lj Lj). apply filter_map_in.
        exists ti. split; [eapply nth_error_In; exact Hi|exact Li].
      * eapply (IH P i j); try eassumption. congruence.
Qed.

Fixpoint pairwiseb {A} (r : A -> A -> bool) (l : list A) : bool :=
  match l with
  | [] => true
  | x :: rest => forallb (r x) rest && pairwiseb r rest
  end.

Definition targets_independentb (tgs : list target) : bool := pairwiseb loc_indepb (target_locs tgs).

Lemma targets_independentb_spec tgs : targets_independentb tgs = true -> targets_independent tgs.
Proof.
  intros H. apply targets_independent_pairwise. unfold targets_independentb in H.
  induction (target_locs tgs) as [|l ls IH]; simpl in *; [trivial|].
  apply andb_prop in H. destruct H as [F P]. split; [|apply IH; exact P].
  apply Forall_forall. intros l' Hl'. rewrite forallb_forall in F. apply loc_indepb_spec, F, Hl'.
Qed.

(* a key target needs the destination of its type to be a map value: true for
   well-typed arguments (see args_maps_wf below), not enforced by the model's
   untyped values *)
Definition key_targets_are_maps (m : t2v) (tgs : list target) : Prop :=
  forall mt k et, In (TProxyKey mt k et) tgs -> exists n es, t2v_get m mt = Some (VMap n es).

Lemma scan_args_targets_writable env outputs cols args m tgs :
  scan_args env outputs cols args = BOk (m, tgs) -> key_targets_are_maps m tgs ->
  forall tg l, In tg tgs -> target_loc tg = Some l -> writable m l.
Proof.
  intros SA KM tg l Hin Hl. apply scan_args_iff in SA. destruct SA as [_ [[_ [S _]] Et]]. subst tgs.
  destruct l as [t p|mt k].
  - apply in_map_iff in Hin. destruct Hin as [c [Ec Hc]]. destruct (S c Hc) as [st Hst].
    unfold step_of in Ec. rewrite Hst in Ec. subst tg.
    pose proof (col_step_ok env outputs m c st Hst) as [_ [_ [Fo T]]].
    destruct (marker_index c) as [i|].
    + destruct T as [lo [_ L]]. apply locate_ok in L. destruct L as [_ [_ [_ W]]]. apply W. exact Hl.
    + rewrite (proj2 Fo eq_refl) in Hl. discriminate.
  - destruct tg; simpl in Hl; inversion Hl; subst. simpl. eapply KM. exact Hin.
Qed.

Lemma combine_fst_map {A B} (l : list A) : forall (l' : list B), length l' = length l -> map fst (combine l l') = l.
Proof.
  induction l as [|a l IH]; intros [|b l'] H; simpl in *; try discriminate; [reflexivity|].
  f_equal. apply IH. lia.
Qed.

Lemma nth_error_combine {A B} (l : list A) : forall (l' : list B) j a b,
  nth_error l j = Some a -> nth_error l' j = Some b -> nth_error (combine l l') j = Some (a, b).
Proof.
  induction l as [|x l IH]; intros [|y l'] [|j] a b Ha Hb; simpl in *; try discriminate.
  - congruence.
  - apply IH; assumption.
Qed.

Theorem lands_and_frame env outputs cols args cells m tgs m1 pend m' :
  scan_args env outputs cols args = BOk (m, tgs) ->
  rows_scan_cells env tgs cells m [] = (m1, SOk pend) ->
  m' = fold_left apply_pending pend m1 ->
  length cells = length tgs ->
  targets_independent tgs ->
  key_targets_are_maps m tgs ->
  (* lands *)
  (forall j tg c, nth_error tgs j = Some tg -> nth_error cells j = Some c -> tg <> TForeign ->
     exists x, stored env tg c = Some x /\ read_target m' tg = Some x) /\
  (* frame: places *)
  (forall l, (forall tg lt, In tg tgs -> target_loc tg = Some lt -> loc_indep lt l) ->
     read_loc m' l = read_loc m l) /\
  (* frame: whole destinations *)
  (forall t, (forall tg, In tg tgs -> target_argtype tg <> Some t) -> t2v_get m' t = t2v_get m t) /\
  map fst m' = map fst m.
Proof.
  intros SA R Em Len TI KM.
  destruct (scan_result_writes env tgs cells m m1 pend R) as [OK EW]. rewrite EW in Em. clear EW R.
  set (tcs := combine tgs cells) in *.
  assert (map fst tcs = tgs) as Efst by (apply combine_fst_map; exact Len).
  assert (Permutation (map fst (row_writes env tcs)) (target_locs tgs)) as PL.
  { rewrite <- Efst, <- (write_of_locs env tcs OK). apply Permutation_map, row_writes_perm. }
  assert (pairwise loc_indep (map fst (row_writes env tcs))) as PW.
  { eapply pairwise_perm; [exact loc_indep_sym|apply Permutation_sym; exact PL|].
    apply targets_independent_pairwise. exact TI. }
  assert (forall w, In w (row_writes env tcs) -> exists tg, In tg tgs /\ target_loc tg = Some (fst w)) as WT.
  { intros w Hw. eapply Permutation_in in Hw; [|apply row_writes_perm].
    apply filter_map_in in Hw. destruct Hw as [[tg c] [Hin Hw]]. exists tg. split.
    - rewrite <- Efst. apply in_map_iff. exists (tg, c). auto.
    - unfold write_of in Hw. cbn [fst snd] in Hw. destruct (target_loc tg); [|discriminate].
      destruct (stored env tg c); [|discriminate]. inversion Hw. reflexivity. }
  subst m'. repeat split.
  - intros j tg c Hj Hc Nf.
    assert (In (tg, c) tcs) as Hin by (eapply nth_error_In; apply nth_error_combine; eassumption).
    rewrite Forall_forall in OK. destruct (OK _ Hin) as [F|S]; [contradiction|]. cbn [fst snd] in S.
    destruct (stored env tg c) as [x|] eqn:St; [|congruence]. exists x. split; [reflexivity|].
    destruct (target_loc tg) as [l|] eqn:L; [|apply target_loc_none in L; contradiction].
    rewrite read_target_loc, L. apply apply_writes_lands.
    + exact PW.
    + eapply Permutation_in; [apply Permutation_sym, row_writes_perm|].
      apply filter_map_in. exists (tg, c). split; [exact Hin|]. unfold write_of. cbn [fst snd]. rewrite L, St. reflexivity.
    + eapply scan_args_targets_writable; try eassumption. eapply nth_error_In. exact Hj.
  - intros l H. apply apply_writes_frame. intros w Hw. destruct (WT w Hw) as [tg [Hin Hl]]. eapply H; eassumption.
  - intros t H. apply apply_writes_other_type. intros w Hw. destruct (WT w Hw) as [tg [Hin Hl]].
    intros E. apply (H tg Hin). rewrite (target_loc_type tg _ Hl). congruence.
  - apply apply_writes_keys.
Qed.

(* ---------- well-typed arguments give map values to map destinations -- *)

Definition arg_map_wf (env : tenv) (a : arg) : Prop :=
  match a with
  | ANil => True
  | AVal t0 v0 =>
      (t_kind (tget env t0) = KMap -> exists n es, v0 = VMap n es) /\
      (t_kind (tget env t0) = KPtr -> t_kind (tget env (t_elem (tget env t0))) = KMap ->
       forall v, v0 = VPtr v -> exists n es, v = VMap n es)
  end.

Lemma validate_outputs_maps env args : forall acc m,
  Forall (arg_map_wf env) args ->
  (forall t v, In (t, v) acc -> t_kind (tget env t) = KMap -> exists n es, v = VMap n es) ->
  validate_outputs env args acc = BOk m ->
  forall t v, In (t, v) m -> t_kind (tget env t) = KMap -> exists n es, v = VMap n es.
Proof.
  induction args as [|a args IH]; intros acc m WF Hacc H.
  - simpl in H. inversion H; subst. exact Hacc.
  - inversion WF as [|? ? Wa WF']; subst. cbn [validate_outputs] in H.
    destruct (validate_value env a); [|discriminate]. cbn [bbind] in H.
    destruct a as [|t0 v0]; [discriminate|]. destruct Wa as [W1 W2].
    assert (forall t v, (match t_kind (tget env t0) with
              | KMap => BOk (t0, v0)
              | KPtr =>
                  match t_kind (tget env (t_elem (tget env t0))), v0 with
                  | KStruct, VPtr v => BOk (t_elem (tget env t0), v)
                  | KMap, VPtr v => match v with VMap true _ => BErr ENilMap | _ => BOk (t_elem (tget env t0), v) end
                  | _, _ => BErr ENeedPtrToStruct
                  end
              | _ => BErr ENeedMapOrPtr
              end) = BOk (t, v) -> t_kind (tget env t) = KMap -> exists n es, v = VMap n es) as Inner.
    { intros t v E K. destruct (t_kind (tget env t0)) eqn:K0; try discriminate.
      - inversion E; subst. apply W1. reflexivity.
      - destruct (t_kind (tget env (t_elem (tget env t0)))) eqn:K1; try discriminate.
        + destruct v0; try discriminate. inversion E; subst. congruence.
        + destruct v0 as [| |w| | | |]; try discriminate.
          destruct (W2 eq_refl eq_refl w eq_refl) as [n [es Ew]]. subst w.
          destruct n; [discriminate|]. inversion E; subst. eauto. }
    destruct (match t_kind (tget env t0) with KMap => _ | _ => _ end) as [[t v]|e] eqn:In0; [|discriminate].
    cbn [bbind] in H. destruct (t2v_get acc t); [discriminate|].
    eapply IH; [exact WF'| |exact H].
    intros t' v' Hin K. apply in_app_or in Hin. destruct Hin as [Hin|[Hin|[]]].
    + eapply Hacc; eassumption.
    + inversion Hin; subst. eapply Inner; [reflexivity|exact K].
Qed.

Lemma t2v_get_in m t v : t2v_get m t = Some v -> In (t, v) m.
Proof.
  induction m as [|[t' v'] m IH]; simpl; [discriminate|].
  destruct (Nat.eqb t t') eqn:E; intros H.
  - apply Nat.eqb_eq in E. inversion H; subst. left. reflexivity.
  - right. apply IH. exact H.
Qed.

(* for well-typed arguments and map-key outputs on map types, the hypothesis
   [key_targets_are_maps] of the lands theorem holds *)
Lemma key_targets_are_maps_wf env outputs cols args m tgs :
  scan_args env outputs cols args = BOk (m, tgs) ->
  Forall (arg_map_wf env) args ->
  (forall mt k, In (LMapKey mt k) outputs -> t_kind (tget env mt) = KMap) ->
  key_targets_are_maps m tgs.
Proof.
  intros SA WF OM mt k et Hin. apply scan_args_iff in SA. destruct SA as [V [[_ [S _]] Et]]. subst tgs.
  apply in_map_iff in Hin. destruct Hin as [c [Ec Hc]]. destruct (S c Hc) as [st Hst].
  unfold step_of in Ec. rewrite Hst in Ec.
  pose proof (col_step_ok env outputs m c st Hst) as [_ [_ [Fo T]]].
  destruct (marker_index c) as [i|].
  - destruct T as [lo [Nl L]]. rewrite Ec in L. destruct lo as [f|mt' k'|st'].
    + apply locate_field_ok in L. destruct L as [s [y [ft [_ [_ [_ [[E _]|[E _]]]]]]]]; discriminate.
    + apply locate_key_ok in L. destruct L as [E [v G]]. inversion E; subst mt' k'.
      apply nth_error_In in Nl. apply OM in Nl.
      destruct (validate_outputs_maps env args [] m WF (fun _ _ F => match F with end) V mt v (t2v_get_in _ _ _ G) Nl)
        as [n [es Ev]]. subst v. eauto.
    + discriminate.
  - rewrite (proj2 Fo eq_refl) in Ec. discriminate.
Qed.
