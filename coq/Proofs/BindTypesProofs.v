(* C07 - Prepare accepts exactly the statements that are well-typed for the
   samples: necessary conditions of acceptance (soundness). *)
From Coq Require Import Permutation Btauto.
From SQLair.Base Require Import Bytes.
From SQLair.Model Require Import GenConsts Reflect TypeInfo Parser Bind.
From SQLair.Proofs Require Import BindFacts TotalityProofs.

(* the type names a parsed expression mentions (independent of Bind.v) *)
Definition value_names (vs : list value) : list str :=
  flat_map (fun v => match v with VMem m => [tname m] | VLit _ => [] end) vs.

Definition type_names (e : expr) : list str :=
  match e with
  | Bypass _ => []
  | MemberIn _ m => [tname m]
  | SliceIn _ t => [t]
  | AsteriskIns _ sources => map tname sources
  | ColumnsIns _ _ sources => map tname sources
  | BasicIns _ _ vals => value_names vals
  | Output _ _ targets => map tname targets
  end.

(* ------------------------------------------ names: (b) and (c) -- *)

(* a step of the builder that looked up exactly the type names [names] *)
Definition names_step (b b1 : teb) (names : list str) : Prop :=
  b_infos b1 = b_infos b /\
  (forall n, In n names -> In n (map fst (b_infos b))) /\
  (forall n, In n (b_used b1) -> In n (b_used b) \/ In n names).

Lemma names_step_refl b : names_step b b [].
Proof. split; [reflexivity|]. split; [intros n []|]. intros n H. left. exact H. Qed.

Lemma names_step_trans b b1 b2 n1 n2 :
  names_step b b1 n1 -> names_step b1 b2 n2 -> names_step b b2 (n1 ++ n2).
Proof.
  intros [I1 [C1 U1]] [I2 [C2 U2]]. split; [congruence|]. split.
  - intros n H. apply in_app_or in H. destruct H as [H|H]; [apply C1; exact H|].
    rewrite <- I1. apply C2. exact H.
  - intros n H. apply U2 in H. destruct H as [H|H].
    + apply U1 in H. destruct H as [H|H]; [left; exact H|right; apply in_or_app; left; exact H].
    + right. apply in_or_app. right. exact H.
Qed.

Lemma names_step_weaken b b1 n n' :
  names_step b b1 n -> incl n n' -> (forall x, In x n' -> In x (map fst (b_infos b))) ->
  names_step b b1 n'.
Proof.
  intros [I [C U]] I1 C'. split; [exact I|]. split; [exact C'|].
  intros x H. apply U in H. destruct H as [H|H]; [left; exact H|right; apply I1; exact H].
Qed.

Lemma names_step_equiv b b1 n n' :
  names_step b b1 n -> incl n n' -> incl n' n -> names_step b b1 n'.
Proof.
  intros S I1 I2. apply (names_step_weaken _ _ _ _ S I1).
  intros x H. destruct S as [_ [C _]]. apply C. apply I2. exact H.
Qed.

Lemma get_arg_names b n b1 a : get_arg b n = BOk (b1, a) -> names_step b b1 [n].
Proof.
  intros H. apply get_arg_inv in H. destruct H as [A ->]. split; [reflexivity|]. split.
  - intros x [<-|[]]. eapply assoc_str_in. exact A.
  - cbn [b_used]. intros x [<-|H]; [right; left; reflexivity|left; exact H].
Qed.

Lemma mark_output_names env b l b1 : mark_output env b l = BOk b1 -> names_step b b1 [].
Proof.
  unfold mark_output. intros H. binv H. bok H. split; [reflexivity|]. split; [intros n []|].
  intros n Hn. left. exact Hn.
Qed.

Lemma mark_outputs_names env ms : forall b b1, mark_outputs env b ms = BOk b1 -> names_step b b1 [].
Proof.
  induction ms as [|[tag l] ms IH]; intros b b1 H; cbn [mark_outputs] in H.
  - bok H. apply names_step_refl.
  - binv H. apply mark_output_names in E. apply IH in H.
    apply (names_step_trans _ _ _ [] [] E H).
Qed.

Lemma input_member_names b t m b1 l : input_member b t m = BOk (b1, l) -> names_step b b1 [t].
Proof. unfold input_member. intros H. binv H. bok H. eapply get_arg_names; eassumption. Qed.

Lemma output_member_names env b t m b1 l : output_member env b t m = BOk (b1, l) -> names_step b b1 [t].
Proof.
  unfold output_member. intros H. binv H; bok H;
    (apply get_arg_names in E; apply mark_output_names in E1;
     apply (names_step_trans _ _ _ [t] [] E) in E1; rewrite app_nil_r in E1; exact E1).
Qed.

Lemma all_struct_inputs_names b t b1 ms : all_struct_inputs b t = BOk (b1, ms) -> names_step b b1 [t].
Proof. unfold all_struct_inputs. intros H. binv H. bok H. eapply get_arg_names; eassumption. Qed.

Lemma all_struct_outputs_names env b t b1 ms :
  all_struct_outputs env b t = BOk (b1, ms) -> names_step b b1 [t].
Proof.
  unfold all_struct_outputs. intros H. binv H. bok H.
  apply get_arg_names in E. apply mark_outputs_names in E1.
  apply (names_step_trans _ _ _ [t] [] E) in E1. rewrite app_nil_r in E1. exact E1.
Qed.

Lemma input_slice_names b t b1 l : input_slice b t = BOk (b1, l) -> names_step b b1 [t].
Proof. unfold input_slice. intros H. binv H. bok H. eapply get_arg_names; eassumption. Qed.

Lemma teb_kind_names env b t b1 k : teb_kind env b t = BOk (b1, k) -> names_step b b1 [t].
Proof. unfold teb_kind. intros H. binv H. bok H. eapply get_arg_names; eassumption. Qed.

Lemma asterisk_sources_names sources : forall b cols b1 cols1,
  asterisk_sources b sources cols = BOk (b1, cols1) -> names_step b b1 (map tname sources).
Proof.
  induction sources as [|s rest IH]; intros b cols b1 cols1 H; cbn [asterisk_sources] in H.
  - bok H. apply names_step_refl.
  - cbn [map]. destruct (is_star (mname s)); binv H.
    + apply all_struct_inputs_names in E. apply IH in H. apply (names_step_trans _ _ _ [_] _ E H).
    + apply input_member_names in E. apply IH in H. apply (names_step_trans _ _ _ [_] _ E H).
Qed.

Lemma names_step_dup b b1 b2 t rest :
  names_step b b1 [t] -> names_step b1 b2 (t :: rest) -> names_step b b2 (t :: rest).
Proof.
  intros S1 S2. eapply names_step_equiv; [apply (names_step_trans _ _ _ _ _ S1 S2)|intros x Hx|intros x Hx].
  - destruct Hx as [<-|Hx]; [left; reflexivity|exact Hx].
  - right. exact Hx.
Qed.

Lemma columns_sources_names env sources : forall b m rm b1 m1 rm1,
  columns_sources env b sources m rm = BOk (b1, (m1, rm1)) ->
  names_step b b1 (map tname sources) /\
  (forall n, rm1 = Some n -> rm = Some n \/ In n (map tname sources)).
Proof.
  induction sources as [|s rest IH]; intros b m rm b1 m1 rm1 H; cbn [columns_sources] in H.
  - bok H. split; [apply names_step_refl|]. intros n Hn. left. exact Hn.
  - cbn [map]. destruct (is_star (mname s)).
    + destruct (teb_kind env b (tname s)) as [[b2 k]|e] eqn:TK; cbn [bbind] in H; [|discriminate].
      apply teb_kind_names in TK.
      assert (forall (H : bbind (all_struct_inputs b2 (tname s)) (fun '(b3, ms) =>
                 columns_sources env b3 rest
                   (fold_left (fun acc '(tag, l) => c2i_append acc tag l) ms m) rm)
                 = BOk (b1, (m1, rm1))),
                names_step b b1 (tname s :: map tname rest) /\
                (forall n, rm1 = Some n -> rm = Some n \/ In n (tname s :: map tname rest))) as GEN.
      { intros H'. binv H'. apply all_struct_inputs_names in E. apply IH in H'.
        destruct H' as [S R]. split.
        - apply (names_step_dup _ _ _ _ _ TK). apply (names_step_trans _ _ _ [_] _ E S).
        - intros n Hn. apply R in Hn. destruct Hn as [Hn|Hn]; [left; exact Hn|right; right; exact Hn]. }
      destruct k; try (apply GEN; exact H).
      destruct rm; [discriminate|]. apply IH in H. destruct H as [S R]. split.
      * apply (names_step_trans _ _ _ [_] _ TK S).
      * intros n Hn. apply R in Hn. destruct Hn as [Hn|Hn]; [|right; right; exact Hn].
        bok Hn. right. left. reflexivity.
    + binv H. apply input_member_names in E. apply IH in H. destruct H as [S R]. split.
      * apply (names_step_trans _ _ _ [_] _ E S).
      * intros n Hn. apply R in Hn. destruct Hn as [Hn|Hn]; [left; exact Hn|right; right; exact Hn].
Qed.

Definition opt_list {A} (o : option A) : list A := match o with Some x => [x] | None => [] end.

Lemma columns_match_names columns m rm : forall b cols b1 cols1,
  columns_match b columns m rm cols = BOk (b1, cols1) ->
  (forall n, rm = Some n -> In n (map fst (b_infos b))) ->
  names_step b b1 (opt_list rm).
Proof.
  induction columns as [|c rest IH]; intros b cols b1 cols1 H R; cbn [columns_match] in H.
  - bok H. apply (names_step_weaken _ _ [] _ (names_step_refl b1)); [intros x []|].
    intros x Hx. destruct rm as [n|]; [|destruct Hx]. destruct Hx as [<-|[]]. apply R. reflexivity.
  - destruct (c2i_get m (columnString c)) as [input|] eqn:G.
    + destruct input as [|l [|l2 input]]; try discriminate. apply IH in H; assumption.
    + destruct rm as [mapName|]; [|discriminate]. binv H.
      apply input_member_names in E. apply IH in H.
      * cbn [opt_list] in *. apply (names_step_dup _ _ _ _ _ E H).
      * destruct E as [I _]. rewrite I. exact R.
Qed.

Lemma basic_sources_names columns : forall sources b cols b1 cols1,
  basic_sources b columns sources cols = BOk (b1, cols1) -> length columns = length sources ->
  names_step b b1 (value_names sources).
Proof.
  induction columns as [|c crest IH]; intros sources b cols b1 cols1 H L; cbn [basic_sources] in H.
  - destruct sources; [|discriminate L]. bok H. apply names_step_refl.
  - destruct sources as [|[ma|lit] srest]; [discriminate L| |]; cbn [length] in L.
    + binv H. apply input_member_names in E. apply IH in H; [|lia].
      apply (names_step_trans _ _ _ [_] _ E H).
    + apply IH in H; [exact H|lia].
Qed.

Lemma output_generated_names env pref targets : forall b ocs b1 ocs1,
  output_generated env b pref targets ocs = BOk (b1, ocs1) -> names_step b b1 (map tname targets).
Proof.
  induction targets as [|t rest IH]; intros b ocs b1 ocs1 H; cbn [output_generated] in H.
  - bok H. apply names_step_refl.
  - cbn [map]. destruct (is_star (mname t)); binv H.
    + apply all_struct_outputs_names in E. apply IH in H. apply (names_step_trans _ _ _ [_] _ E H).
    + apply output_member_names in E. apply IH in H. apply (names_step_trans _ _ _ [_] _ E H).
Qed.

Lemma output_into_star_names env tn cols : forall b ocs b1 ocs1,
  output_into_star env b tn cols ocs = BOk (b1, ocs1) -> cols <> [] -> names_step b b1 [tn].
Proof.
  induction cols as [|c rest IH]; intros b ocs b1 ocs1 H NE; [congruence|].
  cbn [output_into_star] in H. binv H. apply output_member_names in E.
  destruct rest as [|c2 rest].
  - cbn [output_into_star] in H. bok H. exact E.
  - apply IH in H; [|discriminate]. apply (names_step_dup _ _ _ _ _ E H).
Qed.

Lemma output_pairwise_names env cols : forall targets b ocs b1 ocs1,
  output_pairwise env b cols targets ocs = BOk (b1, ocs1) -> length cols = length targets ->
  names_step b b1 (map tname targets).
Proof.
  induction cols as [|c crest IH]; intros targets b ocs b1 ocs1 H L; cbn [output_pairwise] in H.
  - destruct targets; [|discriminate L]. bok H. apply names_step_refl.
  - destruct targets as [|t trest]; [discriminate L|]. cbn [length map] in *.
    binv H. apply output_member_names in E. apply IH in H; [|lia].
    apply (names_step_trans _ _ _ [_] _ E H).
Qed.

Lemma add_expr_names b b1 names te : names_step b b1 names -> names_step b (add_expr b1 te) names.
Proof. intros S. exact S. Qed.

Lemma bind_expr_names env b e b1 :
  bind_expr env b e = BOk b1 -> names_step b b1 (type_names e).
Proof.
  destruct e; cbn [bind_expr type_names]; intros H.
  - bok H. apply add_expr_names. apply names_step_refl.
  - binv H. bok H. apply add_expr_names. eapply input_member_names; eassumption.
  - binv H. bok H. apply add_expr_names. eapply input_slice_names; eassumption.
  - binv H. bok H. apply add_expr_names. eapply asterisk_sources_names; eassumption.
  - binv H. bok H. apply add_expr_names.
    apply columns_sources_names in E. destruct E as [S R].
    apply columns_match_names in E0.
    + eapply names_step_equiv; [apply (names_step_trans _ _ _ _ _ S E0)| |].
      * intros x Hx. apply in_app_or in Hx. destruct Hx as [Hx|Hx]; [exact Hx|].
        destruct o as [n|]; [|destruct Hx]. destruct Hx as [<-|[]].
        destruct (R n eq_refl) as [D|D]; [discriminate D|exact D].
      * intros x Hx. apply in_or_app. left. exact Hx.
    + intros n ->. destruct (R n eq_refl) as [D|D]; [discriminate D|].
      destruct S as [I [C _]]. rewrite I. apply C. exact D.
  - destruct (Nat.eqb (length cols) (length vals)) eqn:L; cbn [negb] in H; [|discriminate].
    apply Nat.eqb_eq in L. binv H. bok H. apply add_expr_names.
    eapply basic_sources_names; eassumption.
  - destruct (Nat.eqb (length cols) 0 || (Nat.eqb (length cols) 1 && Nat.eqb (starCountColumns cols) 1)) eqn:C1.
    { binv H. bok H. apply add_expr_names. eapply output_generated_names; eassumption. }
    destruct (Nat.ltb 1 (length cols) && Nat.ltb 0 (starCountColumns cols)); [discriminate|].
    destruct (Nat.eqb (starCountTypes targets) 1 && Nat.eqb (length targets) 1) eqn:C3.
    { binv H. bok H. apply add_expr_names.
      apply andb_prop in C3. destruct C3 as [_ C3]. apply Nat.eqb_eq in C3.
      destruct targets as [|tg1 [|tg2 tgs]]; try discriminate C3. cbn [map].
      eapply output_into_star_names; [eassumption|].
      destruct cols; [discriminate C1|discriminate]. }
    destruct (Nat.ltb 0 (starCountTypes targets) && Nat.ltb 1 (length targets)); [discriminate|].
    destruct (Nat.eqb (length cols) (length targets)) eqn:C5; [|discriminate].
    apply Nat.eqb_eq in C5. binv H. bok H. apply add_expr_names.
    eapply output_pairwise_names; eassumption.
Qed.

Lemma bind_exprs_names env es : forall b b1,
  bind_exprs env b es = BOk b1 -> names_step b b1 (flat_map type_names es).
Proof.
  induction es as [|e rest IH]; intros b b1 H; cbn [bind_exprs] in H.
  - bok H. apply names_step_refl.
  - binv H. apply bind_expr_names in E. apply IH in H. cbn [flat_map].
    apply (names_step_trans _ _ _ _ _ E H).
Qed.

Lemma bind_types_inv env es samples tbe :
  bind_types env es samples = BOk tbe ->
  exists infos b,
    generate_arg_info env samples [] = BOk infos /\
    bind_exprs env {| b_infos := infos; b_used := []; b_outused := []; b_exprs := [] |} es = BOk b /\
    forallb (fun '(name, _) => existsb (str_eqb name) (b_used b)) (b_infos b) = true /\
    tbe = b_exprs b.
Proof.
  unfold bind_types. intros H. binv H. bok H. exists a, a0. auto.
Qed.

(* (b) every type named in the statement has a sample *)
Theorem named_types_have_samples env es samples tbe infos :
  bind_types env es samples = BOk tbe -> generate_arg_info env samples [] = BOk infos ->
  forall n, In n (flat_map type_names es) -> In n (map fst infos).
Proof.
  intros H G n Hn. apply bind_types_inv in H. destruct H as [infos' [b [G' [B _]]]].
  rewrite G in G'. bok G'. apply bind_exprs_names in B. destruct B as [_ [C _]].
  apply C in Hn. exact Hn.
Qed.

(* (c) every sample is named by the statement *)
Theorem samples_are_named env es samples tbe infos :
  bind_types env es samples = BOk tbe -> generate_arg_info env samples [] = BOk infos ->
  forall n, In n (map fst infos) -> In n (flat_map type_names es).
Proof.
  intros H G n Hn. apply bind_types_inv in H. destruct H as [infos' [b [G' [B [U _]]]]].
  rewrite G in G'. bok G'. apply bind_exprs_names in B. destruct B as [I [_ Us]].
  cbn [b_infos b_used] in *. rewrite I in U. rewrite forallb_forall in U.
  apply in_map_iff in Hn. destruct Hn as [[n' a] [<- HI]]. apply U in HI.
  apply existsb_exists in HI. destruct HI as [x [HI EQ]]. apply str_eqb_eq in EQ. subst x.
  apply Us in HI. destruct HI as [[]|HI]. exact HI.
Qed.

(* ------------------------------------------ (d) members and kinds -- *)

Lemma bind_exprs_each env es : forall b b',
  bind_exprs env b es = BOk b' -> forall e, In e es ->
  exists b0 b1, bind_expr env b0 e = BOk b1 /\ b_infos b0 = b_infos b.
Proof.
  induction es as [|e0 rest IH]; intros b b' H e HI; [destruct HI|].
  cbn [bind_exprs] in H. binv H. destruct HI as [<-|HI].
  - exists b, a. split; [exact E|reflexivity].
  - destruct (IH _ _ H e HI) as [b0 [b1 [B I]]]. exists b0, b1. split; [exact B|].
    apply bind_expr_inv in E. destruct E as [I' _]. congruence.
Qed.

Lemma bind_types_each env es samples tbe infos :
  bind_types env es samples = BOk tbe -> generate_arg_info env samples [] = BOk infos ->
  forall e, In e es -> exists b0 b1, bind_expr env b0 e = BOk b1 /\ b_infos b0 = infos.
Proof.
  intros H G e HI. apply bind_types_inv in H. destruct H as [infos' [b [G' [B _]]]].
  rewrite G in G'. bok G'. exact (bind_exprs_each _ _ _ _ B e HI).
Qed.

(* a member of a sample: an existing tag of a struct, any key of a map *)
Definition member_ok (a : arginfo) (m : str) : Prop :=
  match a with
  | StructInfo _ _ fields => find_tag m fields <> None
  | MapInfo _ => True
  | SliceInfo _ => False
  end.

Lemma get_member_ok a m l : get_member a m = BOk l -> member_ok a m.
Proof.
  unfold get_member, member_ok. destruct a as [t tags fields|t|t]; intros H.
  - destruct (find_tag m fields); [discriminate|discriminate H].
  - exact I.
  - discriminate H.
Qed.

Lemma input_member_lookup b t m b1 l :
  input_member b t m = BOk (b1, l) ->
  exists a, assoc_str t (b_infos b) = Some a /\ get_member a m = BOk l.
Proof.
  unfold input_member. intros H.
  destruct (get_arg b t) as [[b2 a]|e] eqn:GA; cbn [bbind] in H; [|discriminate].
  destruct (get_member a m) as [l'|e] eqn:GM; cbn [bbind] in H; [|discriminate]. bok H.
  apply get_arg_inv in GA. destruct GA as [A _]. exists a. auto.
Qed.

Lemma input_slice_lookup b t b1 l :
  input_slice b t = BOk (b1, l) ->
  exists a, assoc_str t (b_infos b) = Some a /\ get_slice a = BOk l.
Proof.
  unfold input_slice. intros H.
  destruct (get_arg b t) as [[b2 a]|e] eqn:GA; cbn [bbind] in H; [|discriminate].
  destruct (get_slice a) as [l'|e] eqn:GM; cbn [bbind] in H; [|discriminate]. bok H.
  apply get_arg_inv in GA. destruct GA as [A _]. exists a. auto.
Qed.

Theorem member_inputs_typed env es samples tbe infos :
  bind_types env es samples = BOk tbe -> generate_arg_info env samples [] = BOk infos ->
  forall r ma, In (MemberIn r ma) es ->
  exists a, assoc_str (tname ma) infos = Some a /\ member_ok a (mname ma).
Proof.
  intros H G r ma HI. destruct (bind_types_each _ _ _ _ _ H G _ HI) as [b0 [b1 [B <-]]].
  cbn [bind_expr] in B.
  destruct (input_member b0 (tname ma) (mname ma)) as [[b2 l]|e] eqn:IM; cbn [bbind] in B; [|discriminate].
  apply input_member_lookup in IM. destruct IM as [a [A GM]]. exists a. split; [exact A|].
  eapply get_member_ok. exact GM.
Qed.

Theorem slice_inputs_typed env es samples tbe infos :
  bind_types env es samples = BOk tbe -> generate_arg_info env samples [] = BOk infos ->
  forall r t, In (SliceIn r t) es -> exists st, assoc_str t infos = Some (SliceInfo st).
Proof.
  intros H G r t HI. destruct (bind_types_each _ _ _ _ _ H G _ HI) as [b0 [b1 [B <-]]].
  cbn [bind_expr] in B.
  destruct (input_slice b0 t) as [[b2 l]|e] eqn:IS; cbn [bbind] in B; [|discriminate].
  apply input_slice_lookup in IS. destruct IS as [a [A GS]]. rewrite A.
  unfold get_slice in GS. destruct a; try discriminate GS. eauto.
Qed.

(* the information stored under a name comes from a sample with that type name *)
Lemma assoc_str_in_pair {A} k (l : list (str * A)) v : assoc_str k l = Some v -> In (k, v) l.
Proof.
  induction l as [|[k0 v0] l IH]; simpl; [discriminate|].
  destruct (str_eqb k k0) eqn:E; intros H.
  - apply str_eqb_eq in E. subst. bok H. left. reflexivity.
  - right. apply IH. exact H.
Qed.

Lemma generate_arg_info_entries env samples : forall acc infos,
  generate_arg_info env samples acc = BOk infos ->
  forall n a, In (n, a) infos ->
    In (n, a) acc \/
    exists t, In (Some t) samples /\ t_name (tget env t) = n /\ get_arg_info env t = BOk a.
Proof.
  induction samples as [|smp rest IH]; intros acc infos H n a HI; cbn [generate_arg_info] in H.
  - bok H. left. exact HI.
  - destruct smp as [t|]; [|discriminate].
    assert (forall c nm, t_name (tget env t) = c :: nm ->
              bbind (get_arg_info env t) (fun info =>
                match assoc_str (c :: nm) acc with
                | Some dupe => if Nat.eqb (ai_type dupe) t then BErr EDupSample else BErr ESameNameSample
                | None => generate_arg_info env rest (acc ++ [(c :: nm, info)])
                end) = BOk infos ->
              In (n, a) acc \/
              exists t0, In (Some t0) (Some t :: rest) /\ t_name (tget env t0) = n /\
                         get_arg_info env t0 = BOk a) as GEN.
    { intros c nm Nm H'. binv H'. destruct (IH _ _ H' n a HI) as [HA|[t0 [H0 R]]].
      - apply in_app_or in HA. destruct HA as [HA|[HA|[]]]; [left; exact HA|].
        bok HA. right. exists t. split; [left; reflexivity|]. split; [exact Nm|exact E].
      - right. exists t0. split; [right; exact H0|exact R]. }
    destruct (t_kind (tget env t)); try discriminate H;
      (destruct (t_name (tget env t)) as [|c nm] eqn:Nm; [discriminate H|]; eapply GEN; [reflexivity|exact H]).
Qed.

Lemma get_arg_info_kind env t a :
  get_arg_info env t = BOk a ->
  ai_type a = t /\
  match a with
  | StructInfo _ _ _ => t_kind (tget env t) = KStruct
  | MapInfo _ => t_kind (tget env t) = KMap /\ t_keystr (tget env t) = true
  | SliceInfo _ => t_kind (tget env t) = KSlice
  end.
Proof.
  unfold get_arg_info. intros H. destruct (t_kind (tget env t)) eqn:K; try discriminate H.
  - binv H. bok H. auto.
  - destruct (t_keystr (tget env t)) eqn:KS; [|discriminate H]. bok H. auto.
  - bok H. auto.
Qed.

(* samples are matched by unqualified type name: the information found for a
   name is that of a sample whose type has exactly that name and the right kind *)
Theorem infos_from_samples env samples infos n a :
  generate_arg_info env samples [] = BOk infos -> assoc_str n infos = Some a ->
  exists t, In (Some t) samples /\ t_name (tget env t) = n /\ ai_type a = t /\
    match a with
    | StructInfo _ _ _ => t_kind (tget env t) = KStruct
    | MapInfo _ => t_kind (tget env t) = KMap /\ t_keystr (tget env t) = true
    | SliceInfo _ => t_kind (tget env t) = KSlice
    end.
Proof.
  intros G A. apply assoc_str_in_pair in A.
  destruct (generate_arg_info_entries _ _ _ _ G n a A) as [[]|[t [HI [Nm GA]]]].
  exists t. split; [exact HI|]. split; [exact Nm|]. apply get_arg_info_kind. exact GA.
Qed.

(* ------------------------------------------ (f) counts -- *)

Lemma output_counts env b r cols targets b1 :
  bind_expr env b (Output r cols targets) = BOk b1 ->
  starCountColumns cols = 0 -> starCountTypes targets = 0 -> cols <> [] ->
  length cols = length targets.
Proof.
  cbn [bind_expr]. intros H SC ST NE. rewrite SC, ST in H.
  destruct (Nat.eqb (length cols) 0) eqn:C0.
  { apply Nat.eqb_eq in C0. destruct cols; [congruence|discriminate C0]. }
  change (Nat.eqb 0 1) with false in H. rewrite !andb_false_r in H.
  change (Nat.ltb 0 0) with false in H. cbn [orb andb] in H.
  destruct (Nat.eqb (length cols) (length targets)) eqn:E; [|discriminate H].
  apply Nat.eqb_eq in E. exact E.
Qed.

Lemma basic_counts env b r cols vals b1 :
  bind_expr env b (BasicIns r cols vals) = BOk b1 -> length cols = length vals.
Proof.
  cbn [bind_expr]. intros H.
  destruct (Nat.eqb (length cols) (length vals)) eqn:E; [|discriminate H]. apply Nat.eqb_eq. exact E.
Qed.

Theorem output_counts_agree env es samples tbe :
  bind_types env es samples = BOk tbe ->
  forall r cols targets, In (Output r cols targets) es ->
  starCountColumns cols = 0 -> starCountTypes targets = 0 -> cols <> [] ->
  length cols = length targets.
Proof.
  intros H r cols targets HI. pose proof (bind_types_inv _ _ _ _ H) as [infos [b [G _]]].
  destruct (bind_types_each _ _ _ _ _ H G _ HI) as [b0 [b1 [B _]]].
  eapply output_counts. exact B.
Qed.

Theorem basic_insert_counts_agree env es samples tbe :
  bind_types env es samples = BOk tbe ->
  forall r cols vals, In (BasicIns r cols vals) es -> length cols = length vals.
Proof.
  intros H r cols vals HI. pose proof (bind_types_inv _ _ _ _ H) as [infos [b [G _]]].
  destruct (bind_types_each _ _ _ _ _ H G _ HI) as [b0 [b1 [B _]]].
  eapply basic_counts. exact B.
Qed.

(* ------------------------------------------ (e) no destination twice -- *)

Definition out_locators (tbe : list texpr) : list locator :=
  flat_map (fun e => match e with TOutput ocs => map snd ocs | _ => [] end) tbe.

Definition ids (env : tenv) (ls : list locator) : list str := map (loc_identifier env) ls.

Definition out_step (env : tenv) (b b1 : teb) (ls : list locator) : Prop :=
  b_outused b1 = rev (ids env ls) ++ b_outused b /\
  (NoDup (b_outused b) -> NoDup (b_outused b1)).

Lemma out_step_refl env b : out_step env b b [].
Proof. split; [reflexivity|auto]. Qed.

Lemma out_step_trans env b b1 b2 l1 l2 :
  out_step env b b1 l1 -> out_step env b1 b2 l2 -> out_step env b b2 (l1 ++ l2).
Proof.
  intros [E1 N1] [E2 N2]. split; [|auto].
  rewrite E2, E1. unfold ids. rewrite map_app, rev_app_distr, app_assoc. reflexivity.
Qed.

Lemma existsb_str_false_notin x (l : list str) : existsb (str_eqb x) l = false -> ~ In x l.
Proof.
  intros H HI. assert (existsb (str_eqb x) l = true) as T.
  { apply existsb_exists. exists x. split; [exact HI|apply str_eqb_refl]. }
  congruence.
Qed.

Lemma mark_output_out env b l b1 : mark_output env b l = BOk b1 -> out_step env b b1 [l].
Proof.
  unfold mark_output. intros H.
  destruct (existsb (str_eqb (loc_identifier env l)) (b_outused b)) eqn:EX; [discriminate|]. bok H.
  split; [reflexivity|]. cbn [b_outused]. intros ND. constructor; [|exact ND].
  apply existsb_str_false_notin. exact EX.
Qed.

Lemma get_arg_out env b n b1 a : get_arg b n = BOk (b1, a) -> out_step env b b1 [].
Proof. intros H. apply get_arg_inv in H. destruct H as [_ ->]. split; [reflexivity|auto]. Qed.

Lemma mark_outputs_out env ms : forall b b1,
  mark_outputs env b ms = BOk b1 -> out_step env b b1 (map snd ms).
Proof.
  induction ms as [|[tag l] ms IH]; intros b b1 H; cbn [mark_outputs] in H.
  - bok H. apply out_step_refl.
  - destruct (mark_output env b l) as [b2|e] eqn:MO; cbn [bbind] in H; [|discriminate].
    apply mark_output_out in MO. apply IH in H. cbn [map snd].
    apply (out_step_trans _ _ _ _ [l] _ MO H).
Qed.

Lemma output_member_out env b t m b1 l :
  output_member env b t m = BOk (b1, l) -> out_step env b b1 [l].
Proof.
  unfold output_member. intros H.
  destruct (get_arg b t) as [[b2 a]|e] eqn:GA; cbn [bbind] in H; [|discriminate].
  destruct (get_member a m) as [l'|e] eqn:GM; cbn [bbind] in H; [|discriminate].
  apply (get_arg_out env) in GA.
  destruct l'; try discriminate H;
    (destruct (mark_output env b2 _) as [b3|e] eqn:MO; cbn [bbind] in H; [|discriminate]; bok H;
     apply mark_output_out in MO; apply (out_step_trans _ _ _ _ [] _ GA MO)).
Qed.

Lemma all_struct_outputs_out env b t b1 ms :
  all_struct_outputs env b t = BOk (b1, ms) -> out_step env b b1 (map snd ms).
Proof.
  unfold all_struct_outputs. intros H.
  destruct (get_arg b t) as [[b2 a]|e] eqn:GA; cbn [bbind] in H; [|discriminate].
  destruct (get_all_struct_members a) as [ms'|e] eqn:GM; cbn [bbind] in H; [|discriminate].
  destruct (mark_outputs env b2 ms') as [b3|e] eqn:MO; cbn [bbind] in H; [|discriminate]. bok H.
  apply (get_arg_out env) in GA. apply mark_outputs_out in MO.
  apply (out_step_trans _ _ _ _ [] _ GA MO).
Qed.

Lemma output_generated_out env pref targets : forall b ocs b1 ocs1,
  output_generated env b pref targets ocs = BOk (b1, ocs1) ->
  exists new, ocs1 = ocs ++ new /\ out_step env b b1 (map snd new).
Proof.
  induction targets as [|t rest IH]; intros b ocs b1 ocs1 H; cbn [output_generated] in H.
  - bok H. exists []. rewrite app_nil_r. split; [reflexivity|apply out_step_refl].
  - destruct (is_star (mname t)).
    + destruct (all_struct_outputs env b (tname t)) as [[b2 ms]|e] eqn:AO; cbn [bbind] in H; [|discriminate].
      apply all_struct_outputs_out in AO. apply IH in H. destruct H as [new [-> S]].
      eexists. rewrite <- app_assoc. split; [reflexivity|].
      rewrite map_app, map_map.
      replace (map (fun x => snd (let '(tag, l) := x in (new_output_column pref tag, l))) ms)
        with (map snd ms) by (apply map_ext; intros [tag l]; reflexivity).
      apply (out_step_trans _ _ _ _ _ _ AO S).
    + destruct (output_member env b (tname t) (mname t)) as [[b2 l]|e] eqn:OM; cbn [bbind] in H; [|discriminate].
      apply output_member_out in OM. apply IH in H. destruct H as [new [-> S]].
      eexists. rewrite <- app_assoc. split; [reflexivity|].
      cbn [app map snd]. apply (out_step_trans _ _ _ _ [l] _ OM S).
Qed.

Lemma output_into_star_out env tn cols : forall b ocs b1 ocs1,
  output_into_star env b tn cols ocs = BOk (b1, ocs1) ->
  exists new, ocs1 = ocs ++ new /\ out_step env b b1 (map snd new).
Proof.
  induction cols as [|c rest IH]; intros b ocs b1 ocs1 H; cbn [output_into_star] in H.
  - bok H. exists []. rewrite app_nil_r. split; [reflexivity|apply out_step_refl].
  - destruct (output_member env b tn (columnName c)) as [[b2 l]|e] eqn:OM; cbn [bbind] in H; [|discriminate].
    apply output_member_out in OM. apply IH in H. destruct H as [new [-> S]].
    eexists. rewrite <- app_assoc. split; [reflexivity|].
    cbn [app map snd]. apply (out_step_trans _ _ _ _ [l] _ OM S).
Qed.

Lemma output_pairwise_out env cols : forall targets b ocs b1 ocs1,
  output_pairwise env b cols targets ocs = BOk (b1, ocs1) ->
  exists new, ocs1 = ocs ++ new /\ out_step env b b1 (map snd new).
Proof.
  induction cols as [|c crest IH]; intros targets b ocs b1 ocs1 H; cbn [output_pairwise] in H.
  - bok H. exists []. rewrite app_nil_r. split; [reflexivity|apply out_step_refl].
  - destruct targets as [|t trest].
    + bok H. exists []. rewrite app_nil_r. split; [reflexivity|apply out_step_refl].
    + destruct (output_member env b (tname t) (mname t)) as [[b2 l]|e] eqn:OM; cbn [bbind] in H; [|discriminate].
      apply output_member_out in OM. apply IH in H. destruct H as [new [-> S]].
      eexists. rewrite <- app_assoc. split; [reflexivity|].
      cbn [app map snd]. apply (out_step_trans _ _ _ _ [l] _ OM S).
Qed.

(* the input helpers do not touch the set of used outputs *)
Definition outsame (b b1 : teb) : Prop := b_outused b1 = b_outused b.

Lemma get_arg_outsame b n b1 a : get_arg b n = BOk (b1, a) -> outsame b b1.
Proof. intros H. apply get_arg_inv in H. destruct H as [_ ->]. reflexivity. Qed.

Lemma input_member_outsame b t m b1 l : input_member b t m = BOk (b1, l) -> outsame b b1.
Proof.
  unfold input_member. intros H.
  destruct (get_arg b t) as [[b2 a]|e] eqn:GA; cbn [bbind] in H; [|discriminate].
  destruct (get_member a m) as [l'|e]; cbn [bbind] in H; [|discriminate]. bok H.
  eapply get_arg_outsame. exact GA.
Qed.

Lemma all_struct_inputs_outsame b t b1 ms : all_struct_inputs b t = BOk (b1, ms) -> outsame b b1.
Proof.
  unfold all_struct_inputs. intros H.
  destruct (get_arg b t) as [[b2 a]|e] eqn:GA; cbn [bbind] in H; [|discriminate].
  destruct (get_all_struct_members a) as [l'|e]; cbn [bbind] in H; [|discriminate]. bok H.
  eapply get_arg_outsame. exact GA.
Qed.

Lemma input_slice_outsame b t b1 l : input_slice b t = BOk (b1, l) -> outsame b b1.
Proof.
  unfold input_slice. intros H.
  destruct (get_arg b t) as [[b2 a]|e] eqn:GA; cbn [bbind] in H; [|discriminate].
  destruct (get_slice a) as [l'|e]; cbn [bbind] in H; [|discriminate]. bok H.
  eapply get_arg_outsame. exact GA.
Qed.

Lemma teb_kind_outsame env b t b1 k : teb_kind env b t = BOk (b1, k) -> outsame b b1.
Proof.
  unfold teb_kind. intros H.
  destruct (get_arg b t) as [[b2 a]|e] eqn:GA; cbn [bbind] in H; [|discriminate]. bok H.
  eapply get_arg_outsame. exact GA.
Qed.

Lemma asterisk_sources_outsame sources : forall b cols b1 cols1,
  asterisk_sources b sources cols = BOk (b1, cols1) -> outsame b b1.
Proof.
  induction sources as [|s rest IH]; intros b cols b1 cols1 H; cbn [asterisk_sources] in H.
  - bok H. reflexivity.
  - destruct (is_star (mname s)).
    + destruct (all_struct_inputs b (tname s)) as [[b2 ms]|e] eqn:A; cbn [bbind] in H; [|discriminate].
      apply all_struct_inputs_outsame in A. apply IH in H. unfold outsame in *. congruence.
    + destruct (input_member b (tname s) (mname s)) as [[b2 l]|e] eqn:A; cbn [bbind] in H; [|discriminate].
      apply input_member_outsame in A. apply IH in H. unfold outsame in *. congruence.
Qed.

Lemma columns_sources_outsame env sources : forall b m rm b1 m1 rm1,
  columns_sources env b sources m rm = BOk (b1, (m1, rm1)) -> outsame b b1.
Proof.
  induction sources as [|s rest IH]; intros b m rm b1 m1 rm1 H; cbn [columns_sources] in H.
  - bok H. reflexivity.
  - destruct (is_star (mname s)).
    + destruct (teb_kind env b (tname s)) as [[b2 k]|e] eqn:TK; cbn [bbind] in H; [|discriminate].
      apply teb_kind_outsame in TK.
      assert (forall (H : bbind (all_struct_inputs b2 (tname s)) (fun '(b3, ms) =>
                 columns_sources env b3 rest
                   (fold_left (fun acc '(tag, l) => c2i_append acc tag l) ms m) rm)
                 = BOk (b1, (m1, rm1))), outsame b b1) as GEN.
      { intros H'.
        destruct (all_struct_inputs b2 (tname s)) as [[b3 ms]|e] eqn:A; cbn [bbind] in H'; [|discriminate].
        apply all_struct_inputs_outsame in A. apply IH in H'. unfold outsame in *. congruence. }
      destruct k; try (apply GEN; exact H).
      destruct rm; [discriminate|]. apply IH in H. unfold outsame in *. congruence.
    + destruct (input_member b (tname s) (mname s)) as [[b2 l]|e] eqn:A; cbn [bbind] in H; [|discriminate].
      apply input_member_outsame in A. apply IH in H. unfold outsame in *. congruence.
Qed.

Lemma columns_match_outsame columns m rm : forall b cols b1 cols1,
  columns_match b columns m rm cols = BOk (b1, cols1) -> outsame b b1.
Proof.
  induction columns as [|c rest IH]; intros b cols b1 cols1 H; cbn [columns_match] in H.
  - bok H. reflexivity.
  - destruct (c2i_get m (columnString c)) as [input|].
    + destruct input as [|l [|l2 input]]; try discriminate. apply IH in H. exact H.
    + destruct rm as [mapName|]; [|discriminate].
      destruct (input_member b mapName (columnString c)) as [[b2 l]|e] eqn:A; cbn [bbind] in H; [|discriminate].
      apply input_member_outsame in A. apply IH in H. unfold outsame in *. congruence.
Qed.

Lemma basic_sources_outsame columns : forall sources b cols b1 cols1,
  basic_sources b columns sources cols = BOk (b1, cols1) -> outsame b b1.
Proof.
  induction columns as [|c crest IH]; intros sources b cols b1 cols1 H; cbn [basic_sources] in H.
  - bok H. reflexivity.
  - destruct sources as [|[ma|lit] srest].
    + bok H. reflexivity.
    + destruct (input_member b (tname ma) (mname ma)) as [[b2 l]|e] eqn:A; cbn [bbind] in H; [|discriminate].
      apply input_member_outsame in A. apply IH in H. unfold outsame in *. congruence.
    + apply IH in H. exact H.
Qed.

Definition out_inv (env : tenv) (b : teb) : Prop :=
  b_outused b = rev (ids env (out_locators (b_exprs b))) /\ NoDup (b_outused b).

Lemma out_locators_app a b : out_locators (a ++ b) = out_locators a ++ out_locators b.
Proof. apply flat_map_app. Qed.

Lemma out_inv_input env b b1 te :
  out_inv env b -> outsame b b1 -> b_exprs b1 = b_exprs b ->
  match te with TOutput _ => False | _ => True end ->
  out_inv env (add_expr b1 te).
Proof.
  intros [E ND] S X T. unfold out_inv, outsame in *. cbn [add_expr b_outused b_exprs].
  rewrite S, X, out_locators_app. split; [|exact ND].
  replace (out_locators [te]) with (@nil locator) by (destruct te; try reflexivity; destruct T).
  rewrite app_nil_r. exact E.
Qed.

Lemma out_inv_output env b b1 ocs :
  out_inv env b -> out_step env b b1 (map snd ocs) -> b_exprs b1 = b_exprs b ->
  out_inv env (add_expr b1 (TOutput ocs)).
Proof.
  intros [E ND] [S N] X. unfold out_inv in *. cbn [add_expr b_outused b_exprs].
  split; [|apply N; exact ND].
  rewrite S, X, out_locators_app, E. unfold ids. rewrite map_app, rev_app_distr.
  cbn [out_locators flat_map]. rewrite app_nil_r. reflexivity.
Qed.

Lemma bind_expr_out env b e b1 : bind_expr env b e = BOk b1 -> out_inv env b -> out_inv env b1.
Proof.
  destruct e; cbn [bind_expr]; intros H INV.
  - bok H. apply (out_inv_input env b); [exact INV|reflexivity|reflexivity|exact I].
  - destruct (input_member b (tname m) (mname m)) as [[b2 l]|e] eqn:A; cbn [bbind] in H; [|discriminate].
    bok H. apply (out_inv_input env b); [exact INV|eapply input_member_outsame; exact A| |exact I].
    apply input_member_inv in A. apply A.
  - destruct (input_slice b t) as [[b2 l]|e] eqn:A; cbn [bbind] in H; [|discriminate].
    bok H. apply (out_inv_input env b); [exact INV|eapply input_slice_outsame; exact A| |exact I].
    apply input_slice_frame in A. apply A.
  - destruct (asterisk_sources b sources []) as [[b2 cs]|e] eqn:A; cbn [bbind] in H; [|discriminate].
    bok H. apply (out_inv_input env b); [exact INV|eapply asterisk_sources_outsame; exact A| |exact I].
    apply asterisk_sources_inv in A; [|constructor]. apply A.
  - destruct (columns_sources env b sources [] None) as [[b2 [m rm]]|e] eqn:A; cbn [bbind] in H; [|discriminate].
    destruct (columns_match b2 cols m rm []) as [[b3 cs]|e] eqn:A2; cbn [bbind] in H; [|discriminate].
    bok H. pose proof (columns_sources_outsame _ _ _ _ _ _ _ _ A) as O1.
    pose proof (columns_match_outsame _ _ _ _ _ _ _ A2) as O2.
    apply columns_sources_inv in A; [|apply c2i_ok_nil]. destruct A as [[_ F1] OK].
    apply columns_match_inv in A2; [|exact OK|constructor]. destruct A2 as [[_ F2] _].
    apply (out_inv_input env b); [exact INV|unfold outsame in *; congruence|congruence|exact I].
  - destruct (negb (Nat.eqb (length cols) (length vals))); [discriminate|].
    destruct (basic_sources b cols vals []) as [[b2 cs]|e] eqn:A; cbn [bbind] in H; [|discriminate].
    bok H. apply (out_inv_input env b); [exact INV|eapply basic_sources_outsame; exact A| |exact I].
    apply basic_sources_inv in A; [|constructor]. apply A.
  - repeat match type of H with
    | (if ?c then _ else _) = BOk _ => destruct c; try discriminate H
    end.
    + destruct (output_generated env b _ targets []) as [[b2 ocs]|e] eqn:A; cbn [bbind] in H; [|discriminate].
      bok H. pose proof (output_generated_frame _ _ _ _ _ _ _ A) as [_ F].
      apply output_generated_out in A. destruct A as [new [-> S]]. cbn [app].
      apply (out_inv_output env b); assumption.
    + destruct (output_into_star env b _ cols []) as [[b2 ocs]|e] eqn:A; cbn [bbind] in H; [|discriminate].
      bok H. pose proof (output_into_star_frame _ _ _ _ _ _ _ A) as [_ F].
      apply output_into_star_out in A. destruct A as [new [-> S]]. cbn [app].
      apply (out_inv_output env b); assumption.
    + destruct (output_pairwise env b cols targets []) as [[b2 ocs]|e] eqn:A; cbn [bbind] in H; [|discriminate].
      bok H. pose proof (output_pairwise_frame _ _ _ _ _ _ _ A) as [_ F].
      apply output_pairwise_out in A. destruct A as [new [-> S]]. cbn [app].
      apply (out_inv_output env b); assumption.
Qed.

Lemma bind_exprs_out env es : forall b b1,
  bind_exprs env b es = BOk b1 -> out_inv env b -> out_inv env b1.
Proof.
  induction es as [|e rest IH]; intros b b1 H INV; cbn [bind_exprs] in H.
  - bok H. exact INV.
  - destruct (bind_expr env b e) as [b2|er] eqn:B; cbn [bbind] in H; [|discriminate].
    eapply IH; [exact H|]. eapply bind_expr_out; eassumption.
Qed.

Lemma NoDup_rev_inv {A} (l : list A) : NoDup (rev l) -> NoDup l.
Proof.
  intros H. eapply Permutation_NoDup; [|exact H]. apply Permutation_sym, Permutation_rev.
Qed.

(* (e) no field or key is the destination of two output columns *)
Theorem outputs_distinct env es samples tbe :
  bind_types env es samples = BOk tbe ->
  NoDup (map (loc_identifier env) (out_locators tbe)).
Proof.
  intros H. apply bind_types_inv in H. destruct H as [infos [b [_ [B [_ ->]]]]].
  apply bind_exprs_out in B.
  - destruct B as [E ND]. rewrite E in ND. apply NoDup_rev_inv in ND. exact ND.
  - split; [reflexivity|constructor].
Qed.

(* ------------------------------ (d) continued: output destinations -- *)

Lemma output_member_lookup env b t m b1 l :
  output_member env b t m = BOk (b1, l) ->
  exists a, assoc_str t (b_infos b) = Some a /\ get_member a m = BOk l.
Proof.
  unfold output_member. intros H.
  destruct (get_arg b t) as [[b2 a]|e] eqn:GA; cbn [bbind] in H; [|discriminate].
  destruct (get_member a m) as [l'|e] eqn:GM; cbn [bbind] in H; [|discriminate].
  apply get_arg_inv in GA. destruct GA as [A _]. exists a. split; [exact A|].
  destruct l'; try discriminate H;
    (destruct (mark_output env b2 _) as [b3|e]; cbn [bbind] in H; [|discriminate]; bok H; exact GM).
Qed.

Lemma all_struct_outputs_lookup env b t b1 ms :
  all_struct_outputs env b t = BOk (b1, ms) ->
  exists a, assoc_str t (b_infos b) = Some a /\ get_all_struct_members a = BOk ms.
Proof.
  unfold all_struct_outputs. intros H.
  destruct (get_arg b t) as [[b2 a]|e] eqn:GA; cbn [bbind] in H; [|discriminate].
  destruct (get_all_struct_members a) as [ms'|e] eqn:GM; cbn [bbind] in H; [|discriminate].
  destruct (mark_outputs env b2 ms') as [b3|e]; cbn [bbind] in H; [|discriminate]. bok H.
  apply get_arg_inv in GA. destruct GA as [A _]. exists a. auto.
Qed.

(* what a destination of an output expression must be *)
Definition target_ok (infos : arginfos) (t : macc) : Prop :=
  exists a, assoc_str (tname t) infos = Some a /\
    if is_star (mname t)
    then exists tg tags fields, a = StructInfo tg tags fields /\ tags <> []
    else member_ok a (mname t).

Lemma get_all_struct_ok a ms :
  get_all_struct_members a = BOk ms -> exists tg tags fields, a = StructInfo tg tags fields /\ tags <> [].
Proof.
  unfold get_all_struct_members. destruct a as [tg tags fields| |]; try discriminate.
  destruct tags; [discriminate|]. intros _. exists tg, (s :: tags), fields. split; [reflexivity|discriminate].
Qed.

Lemma output_generated_targets env pref targets : forall b ocs b1 ocs1,
  output_generated env b pref targets ocs = BOk (b1, ocs1) ->
  forall t, In t targets -> target_ok (b_infos b) t.
Proof.
  induction targets as [|t0 rest IH]; intros b ocs b1 ocs1 H t HI; [destruct HI|].
  cbn [output_generated] in H. destruct (is_star (mname t0)) eqn:ST.
  - destruct (all_struct_outputs env b (tname t0)) as [[b2 ms]|e] eqn:AO; cbn [bbind] in H; [|discriminate].
    destruct HI as [<-|HI].
    + apply all_struct_outputs_lookup in AO. destruct AO as [a [A GM]]. exists a. split; [exact A|].
      rewrite ST. eapply get_all_struct_ok. exact GM.
    + apply all_struct_outputs_frame in AO. destruct AO as [I _]. rewrite <- I. eapply IH; eassumption.
  - destruct (output_member env b (tname t0) (mname t0)) as [[b2 l]|e] eqn:OM; cbn [bbind] in H; [|discriminate].
    destruct HI as [<-|HI].
    + apply output_member_lookup in OM. destruct OM as [a [A GM]]. exists a. split; [exact A|].
      rewrite ST. eapply get_member_ok. exact GM.
    + apply output_member_frame in OM. destruct OM as [I _]. rewrite <- I. eapply IH; eassumption.
Qed.

Lemma output_into_star_cols env tn cols : forall b ocs b1 ocs1,
  output_into_star env b tn cols ocs = BOk (b1, ocs1) ->
  forall c, In c cols -> exists a, assoc_str tn (b_infos b) = Some a /\ member_ok a (columnName c).
Proof.
  induction cols as [|c0 rest IH]; intros b ocs b1 ocs1 H c HI; [destruct HI|].
  cbn [output_into_star] in H.
  destruct (output_member env b tn (columnName c0)) as [[b2 l]|e] eqn:OM; cbn [bbind] in H; [|discriminate].
  destruct HI as [<-|HI].
  - apply output_member_lookup in OM. destruct OM as [a [A GM]]. exists a. split; [exact A|].
    eapply get_member_ok. exact GM.
  - apply output_member_frame in OM. destruct OM as [I _]. rewrite <- I. eapply IH; eassumption.
Qed.

Lemma output_pairwise_targets env cols : forall targets b ocs b1 ocs1,
  output_pairwise env b cols targets ocs = BOk (b1, ocs1) -> length cols = length targets ->
  forall t, In t targets -> exists a, assoc_str (tname t) (b_infos b) = Some a /\ member_ok a (mname t).
Proof.
  induction cols as [|c crest IH]; intros targets b ocs b1 ocs1 H L t HI.
  - destruct targets; [destruct HI|discriminate L].
  - destruct targets as [|t0 trest]; [destruct HI|]. cbn [output_pairwise] in H. cbn [length] in L.
    destruct (output_member env b (tname t0) (mname t0)) as [[b2 l]|e] eqn:OM; cbn [bbind] in H; [|discriminate].
    destruct HI as [<-|HI].
    + apply output_member_lookup in OM. destruct OM as [a [A GM]]. exists a. split; [exact A|].
      eapply get_member_ok. exact GM.
    + apply output_member_frame in OM. destruct OM as [I _]. rewrite <- I.
      eapply IH; [exact H|lia|exact HI].
Qed.

Lemma filter_length_le {A} (f : A -> bool) l : length (filter f l) <= length l.
Proof. induction l as [|x l IH]; simpl; [lia|]. destruct (f x); simpl; lia. Qed.

Lemma star_target_counts targets t :
  In t targets -> is_star (mname t) = true -> 1 <= starCountTypes targets.
Proof.
  intros HI ST. unfold starCountTypes.
  assert (In t (filter is_star_macc targets)) as F by (apply filter_In; split; [exact HI|exact ST]).
  destruct (filter is_star_macc targets); [destruct F|simpl; lia].
Qed.

(* the kinds the forms of an output expression are applied to:
   - a member destination &T.m is a tag of the struct T or any key of the map T;
   - &T.* without explicit columns is a struct with at least one tag;
   - &T.* with explicit columns: every column is a tag of the struct T, or T is a map *)
Lemma bind_expr_output_typed env b r cols targets b1 :
  bind_expr env b (Output r cols targets) = BOk b1 ->
  forall t, In t targets ->
  exists a, assoc_str (tname t) (b_infos b) = Some a /\
    (is_star (mname t) = false -> member_ok a (mname t)) /\
    (is_star (mname t) = true ->
       (exists tg tags fields, a = StructInfo tg tags fields /\ tags <> []) \/
       (cols <> [] /\ starCountColumns cols = 0 /\
        forall c, In c cols -> member_ok a (columnName c))).
Proof.
  cbn [bind_expr]. intros H t HI.
  destruct (Nat.eqb (length cols) 0 || (Nat.eqb (length cols) 1 && Nat.eqb (starCountColumns cols) 1)) eqn:C1.
  { destruct (output_generated env b _ targets []) as [[b2 ocs]|e] eqn:A; cbn [bbind] in H; [|discriminate].
    destruct (output_generated_targets _ _ _ _ _ _ _ A t HI) as [a [AS T]].
    exists a. split; [exact AS|]. destruct (is_star (mname t)).
    - split; [discriminate|]. intros _. left. exact T.
    - split; [intros _; exact T|discriminate]. }
  destruct (Nat.ltb 1 (length cols) && Nat.ltb 0 (starCountColumns cols)) eqn:C2; [discriminate|].
  assert (cols <> [] /\ starCountColumns cols = 0) as [NE SC].
  { apply orb_false_iff in C1. destruct C1 as [C1a C1b]. apply Nat.eqb_neq in C1a.
    split; [destruct cols; [simpl in C1a; congruence|discriminate]|].
    pose proof (filter_length_le (fun c => str_eqb (columnName c) [ch_star]) cols) as LE.
    fold (starCountColumns cols) in LE.
    apply andb_false_iff in C1b. apply andb_false_iff in C2.
    rewrite Nat.eqb_neq in C1b. rewrite Nat.eqb_neq in C1b.
    rewrite Nat.ltb_ge in C2. rewrite Nat.ltb_ge in C2. lia. }
  destruct (Nat.eqb (starCountTypes targets) 1 && Nat.eqb (length targets) 1) eqn:C3.
  { apply andb_prop in C3. destruct C3 as [C3a C3b]. apply Nat.eqb_eq in C3b.
    destruct targets as [|t0 [|t1 ts]]; try discriminate C3b. destruct HI as [<-|[]].
    destruct (output_into_star env b (tname t0) cols []) as [[b2 ocs]|e] eqn:A; cbn [bbind] in H; [|discriminate].
    assert (is_star (mname t0) = true) as ST.
    { unfold starCountTypes in C3a. cbn [filter] in C3a. unfold is_star_macc in C3a. unfold is_star, star.
      destruct (str_eqb (mname t0) [ch_star]); [reflexivity|discriminate C3a]. }
    pose proof (output_into_star_cols _ _ _ _ _ _ _ A) as CS.
    destruct cols as [|c0 cols']; [congruence|].
    destruct (CS c0 (or_introl eq_refl)) as [a [AS _]].
    exists a. split; [exact AS|]. split; [rewrite ST; discriminate|]. intros _. right.
    split; [exact NE|]. split; [exact SC|]. intros c Hc. destruct (CS c Hc) as [a' [AS' M]].
    rewrite AS in AS'. bok AS'. exact M. }
  destruct (Nat.ltb 0 (starCountTypes targets) && Nat.ltb 1 (length targets)) eqn:C4; [discriminate|].
  destruct (Nat.eqb (length cols) (length targets)) eqn:C5; [|discriminate].
  apply Nat.eqb_eq in C5.
  destruct (output_pairwise env b cols targets []) as [[b2 ocs]|e] eqn:A; cbn [bbind] in H; [|discriminate].
  destruct (output_pairwise_targets _ _ _ _ _ _ _ A C5 t HI) as [a [AS M]].
  exists a. split; [exact AS|]. split; [intros _; exact M|]. intros ST. exfalso.
  pose proof (star_target_counts _ _ HI ST) as S1.
  pose proof (filter_length_le is_star_macc targets) as LE. fold (starCountTypes targets) in LE.
  apply andb_false_iff in C3. apply andb_false_iff in C4.
  rewrite !Nat.eqb_neq in C3. rewrite !Nat.ltb_ge in C4.
  assert (1 <= length targets) by (destruct targets; [destruct HI|simpl; lia]). lia.
Qed.

Theorem output_targets_typed env es samples tbe infos :
  bind_types env es samples = BOk tbe -> generate_arg_info env samples [] = BOk infos ->
  forall r cols targets, In (Output r cols targets) es ->
  forall t, In t targets ->
  exists a, assoc_str (tname t) infos = Some a /\
    (is_star (mname t) = false -> member_ok a (mname t)) /\
    (is_star (mname t) = true ->
       (exists tg tags fields, a = StructInfo tg tags fields /\ tags <> []) \/
       (cols <> [] /\ starCountColumns cols = 0 /\
        forall c, In c cols -> member_ok a (columnName c))).
Proof.
  intros H G r cols targets HI t Ht.
  destruct (bind_types_each _ _ _ _ _ H G _ HI) as [b0 [b1 [B <-]]].
  eapply bind_expr_output_typed; eassumption.
Qed.

(* --------------------- completeness at the sample level: samples_ok -- *)
(* GenerateArgInfo accepts the samples iff each sample on its own is
   acceptable and no two samples have the same type name.  The code walks the
   samples in order, accumulating the map and reporting the first problem;
   this is the order-free reading. *)

Definition struct_ok (env : tenv) (t : tid) : bool :=
  match get_struct_fields (S (length env)) env [] t with
  | BOk fields => negb (has_dup_tag [] fields)
  | BErr _ => false
  end.

(* the type can be analysed: a map with string keys, a slice, a struct whose
   tagged fields are exported, well-formed, and pairwise distinct *)
Definition info_ok (env : tenv) (t : tid) : bool :=
  match t_kind (tget env t) with
  | KMap => t_keystr (tget env t)
  | KStruct => struct_ok env t
  | KSlice => true
  | _ => false
  end.

Definition sample_ok (env : tenv) (smp : option tid) : bool :=
  match smp with
  | None => false                                     (* nil *)
  | Some t =>
      container_kind (t_kind (tget env t)) &&         (* struct, map or slice *)
      match t_name (tget env t) with [] => false | _ => true end &&   (* named *)
      info_ok env t
  end.

Definition sample_name (env : tenv) (smp : option tid) : str :=
  match smp with Some t => t_name (tget env t) | None => [] end.

Fixpoint nodupb (l : list str) : bool :=
  match l with
  | [] => true
  | x :: r => negb (existsb (str_eqb x) r) && nodupb r
  end.

Definition samples_ok (env : tenv) (samples : list (option tid)) : bool :=
  forallb (sample_ok env) samples && nodupb (map (sample_name env) samples).

Lemma info_ok_spec env t : is_ok (get_arg_info env t) = info_ok env t.
Proof.
  unfold get_arg_info, info_ok, struct_ok. destruct (t_kind (tget env t)); try reflexivity.
  - destruct (get_struct_fields (S (length env)) env [] t) as [fs|e]; cbn [bbind]; [|reflexivity].
    destruct (has_dup_tag [] fs); reflexivity.
  - destruct (t_keystr (tget env t)); reflexivity.
Qed.

Definition fresh (keys : list str) (n : str) : bool := negb (existsb (str_eqb n) keys).

Lemma str_eqb_sym a : forall b, str_eqb a b = str_eqb b a.
Proof.
  induction a as [|x a IH]; intros [|y b]; cbn [str_eqb]; try reflexivity.
  rewrite IH, N.eqb_sym. reflexivity.
Qed.

Lemma forallb_fresh_snoc keys x names :
  forallb (fresh (keys ++ [x])) names =
  forallb (fresh keys) names && negb (existsb (str_eqb x) names).
Proof.
  induction names as [|n names IH]; cbn [forallb existsb]; [reflexivity|].
  rewrite IH. unfold fresh. rewrite existsb_app. cbn [existsb]. rewrite (str_eqb_sym x n).
  btauto.
Qed.

Lemma assoc_str_fresh {A} n (acc : list (str * A)) :
  fresh (map fst acc) n = match assoc_str n acc with Some _ => false | None => true end.
Proof.
  unfold fresh. induction acc as [|[k v] acc IH]; cbn [map fst existsb assoc_str]; [reflexivity|].
  destruct (str_eqb n k); [reflexivity|]. cbn [orb]. exact IH.
Qed.

Lemma generate_arg_info_ok env samples : forall acc,
  is_ok (generate_arg_info env samples acc) =
  forallb (sample_ok env) samples &&
  forallb (fresh (map fst acc)) (map (sample_name env) samples) &&
  nodupb (map (sample_name env) samples).
Proof.
  induction samples as [|smp rest IH]; intros acc; [reflexivity|].
  cbn [generate_arg_info forallb map nodupb]. destruct smp as [t|]; [|reflexivity].
  cbn [sample_ok sample_name]. rewrite <- info_ok_spec.
  assert (forall c nm, t_name (tget env t) = c :: nm ->
    is_ok (bbind (get_arg_info env t) (fun info =>
             match assoc_str (c :: nm) acc with
             | Some dupe => if Nat.eqb (ai_type dupe) t then BErr EDupSample else BErr ESameNameSample
             | None => generate_arg_info env rest (acc ++ [(c :: nm, info)])
             end)) =
    true && true && is_ok (get_arg_info env t) && forallb (sample_ok env) rest &&
    (fresh (map fst acc) (c :: nm) && forallb (fresh (map fst acc)) (map (sample_name env) rest)) &&
    (negb (existsb (str_eqb (c :: nm)) (map (sample_name env) rest)) &&
     nodupb (map (sample_name env) rest))) as GEN.
  { intros c nm Nm. destruct (get_arg_info env t) as [info|e]; cbn [bbind is_ok andb]; [|reflexivity].
    rewrite assoc_str_fresh. destruct (assoc_str (c :: nm) acc) as [d|].
    - destruct (Nat.eqb (ai_type d) t); cbn [is_ok]; btauto.
    - rewrite IH, map_app. cbn [map fst]. rewrite forallb_fresh_snoc. btauto. }
  destruct (t_kind (tget env t)); cbn [container_kind andb is_ok]; try reflexivity;
    (destruct (t_name (tget env t)) as [|c nm] eqn:Nm; [reflexivity|apply GEN; reflexivity]).
Qed.

Theorem samples_accepted_iff env samples :
  is_ok (generate_arg_info env samples []) = samples_ok env samples.
Proof.
  rewrite generate_arg_info_ok. unfold samples_ok. cbn [map fst].
  replace (forallb (fresh []) (map (sample_name env) samples)) with true; [btauto|].
  symmetry. apply forallb_forall. intros x _. reflexivity.
Qed.
