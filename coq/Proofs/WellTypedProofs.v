(* C07 - the converse direction: Prepare (bind_types) accepts EXACTLY the
   statements that are well typed for the samples (Proofs/WellTyped.v). *)
From Coq Require Import Permutation Btauto.
From SQLair.Base Require Import Bytes.
From SQLair.Model Require Import GenConsts Reflect TypeInfo Parser Bind.
From SQLair.Proofs Require Import BindFacts SortFacts StructFieldsProofs TotalityProofs
  BindTypesFacts BindTypesProofs WellTyped.

(* ------------------------------------------------ boolean membership -- *)

Lemma memb_In x l : memb x l = true <-> In x l.
Proof.
  unfold memb. rewrite existsb_exists. split.
  - intros [y [HI E]]. apply str_eqb_eq in E. subst. exact HI.
  - intros HI. exists x. split; [exact HI|apply str_eqb_refl].
Qed.

Lemma memb_ext x l l' : (forall n, In n l <-> In n l') -> memb x l = memb x l'.
Proof.
  intros H. destruct (memb x l) eqn:A; destruct (memb x l') eqn:B; try reflexivity.
  - apply memb_In in A. apply H in A. apply memb_In in A. congruence.
  - apply memb_In in B. apply H in B. apply memb_In in B. congruence.
Qed.

Lemma memb_false_notin x l : memb x l = false -> ~ In x l.
Proof. intros H HI. apply memb_In in HI. congruence. Qed.

(* ----------------------------- destinations not yet taken: fresh_all -- *)

(* the identifiers [ids] can be marked one after the other, starting from the
   set [used] of identifiers already taken *)
Fixpoint fresh_all (ids used : list str) : bool :=
  match ids with
  | [] => true
  | d :: ds => negb (memb d used) && fresh_all ds (d :: used)
  end.

Lemma fresh_all_app d1 : forall d2 u,
  fresh_all (d1 ++ d2) u = fresh_all d1 u && fresh_all d2 (rev d1 ++ u).
Proof.
  induction d1 as [|d d1 IH]; intros d2 u; cbn [app fresh_all rev]; [reflexivity|].
  rewrite IH, <- app_assoc. cbn [app]. rewrite andb_assoc. reflexivity.
Qed.

Lemma forallb_notin_cons d u ds :
  forallb (fun x => negb (memb x (d :: u))) ds =
  negb (existsb (str_eqb d) ds) && forallb (fun x => negb (memb x u)) ds.
Proof.
  induction ds as [|x ds IH]; cbn [forallb existsb]; [reflexivity|].
  rewrite IH. unfold memb at 1. cbn [existsb]. fold (memb x u).
  rewrite (BindTypesProofs.str_eqb_sym x d).
  destruct (str_eqb d x), (memb x u), (existsb (str_eqb d) ds); reflexivity.
Qed.

Lemma fresh_all_nodupb ds : forall u,
  fresh_all ds u = forallb (fun d => negb (memb d u)) ds && nodupb ds.
Proof.
  induction ds as [|d ds IH]; intros u; cbn [fresh_all forallb nodupb]; [reflexivity|].
  rewrite IH, forallb_notin_cons.
  destruct (memb d u), (existsb (str_eqb d) ds), (forallb (fun x => negb (memb x u)) ds), (nodupb ds);
    reflexivity.
Qed.

Lemma fresh_all_nil ds : fresh_all ds [] = nodupb ds.
Proof.
  rewrite fresh_all_nodupb.
  replace (forallb (fun d => negb (memb d [])) ds) with true; [reflexivity|].
  symmetry. apply forallb_forall. intros x _. reflexivity.
Qed.

(* ------------------------------------------------------ steps and specs -- *)

(* what a successful step of the builder does to the state: the infos stay,
   the identifiers [ids] are pushed on the used destinations, the names looked
   up are [names] (as a set) *)
Definition step (b b1 : teb) (names ids : list str) : Prop :=
  b_infos b1 = b_infos b /\ b_outused b1 = rev ids ++ b_outused b /\
  (forall n, In n (b_used b1) <-> In n names \/ In n (b_used b)).

Lemma step_refl b : step b b [] [].
Proof. split; [reflexivity|]. split; [reflexivity|]. intros n. cbn [In]. tauto. Qed.

Lemma step_trans b b1 b2 n1 i1 n2 i2 :
  step b b1 n1 i1 -> step b1 b2 n2 i2 -> step b b2 (n1 ++ n2) (i1 ++ i2).
Proof.
  intros [I1 [O1 U1]] [I2 [O2 U2]]. split; [congruence|]. split.
  - rewrite O2, O1, rev_app_distr, app_assoc. reflexivity.
  - intros n. rewrite U2, U1, in_app_iff. tauto.
Qed.

Lemma step_names b b1 names names' ids :
  step b b1 names ids -> (forall n, In n names <-> In n names') -> step b b1 names' ids.
Proof.
  intros [I [O U]] E. split; [exact I|]. split; [exact O|]. intros n. rewrite U, E. tauto.
Qed.

(* [r] succeeds exactly when the local condition [ok] holds and the
   identifiers [ids] are fresh; and then it is a step *)
Definition spec {X} (p : X -> teb) (r : bres X) (b : teb) (ok : bool) (names ids : list str) : Prop :=
  match r with
  | BOk x => ok = true /\ fresh_all ids (b_outused b) = true /\ step b (p x) names ids
  | BErr _ => ok && fresh_all ids (b_outused b) = false
  end.

Lemma spec_conv {X} (p : X -> teb) r b ok names ids ok' names' ids' :
  spec p r b ok names ids -> ok = ok' -> names = names' -> ids = ids' ->
  spec p r b ok' names' ids'.
Proof. intros S -> -> ->. exact S. Qed.

Lemma spec_names {X} (p : X -> teb) r b ok names names' ids :
  spec p r b ok names ids -> (forall n, In n names <-> In n names') -> spec p r b ok names' ids.
Proof.
  unfold spec. destruct r as [x|e]; [|auto]. intros [O [F S]] E.
  split; [exact O|]. split; [exact F|]. eapply step_names; eassumption.
Qed.

Lemma spec_ret {X} (p : X -> teb) (x : X) b : step b (p x) [] [] -> spec p (BOk x) b true [] [].
Proof. intros S. split; [reflexivity|]. split; [reflexivity|exact S]. Qed.

Lemma spec_bind {X Y} (pX : X -> teb) (pY : Y -> teb) (r : bres X) (k : X -> bres Y)
  b ok1 n1 i1 ok2 n2 i2 :
  spec pX r b ok1 n1 i1 ->
  (forall x, r = BOk x -> b_infos (pX x) = b_infos b -> spec pY (k x) (pX x) ok2 n2 i2) ->
  spec pY (bbind r k) b (ok1 && ok2) (n1 ++ n2) (i1 ++ i2).
Proof.
  intros S1 S2. unfold spec in *. rewrite fresh_all_app. destruct r as [x|e]; cbn [bbind].
  - destruct S1 as [O1 [F1 ST1]]. specialize (S2 x eq_refl (proj1 ST1)).
    pose proof ST1 as [I1 [U1 N1]]. rewrite U1 in S2. destruct (k x) as [y|e2].
    + destruct S2 as [O2 [F2 ST2]]. rewrite O1, O2, F1, F2. split; [reflexivity|].
      split; [reflexivity|]. eapply step_trans; eassumption.
    + rewrite O1, F1. cbn [andb]. exact S2.
  - destruct ok1; [|reflexivity]. cbn [andb] in *. rewrite S1. destruct ok2; reflexivity.
Qed.

(* the typed expression is appended: no effect on what matters here *)
Lemma spec_finish {X} (r : bres (teb * X)) (f : X -> texpr) b ok names ids :
  spec fst r b ok names ids ->
  spec (fun b1 : teb => b1) (bbind r (fun '(b1, x) => BOk (add_expr b1 (f x)))) b ok names ids.
Proof.
  unfold spec. destruct r as [[b1 x]|e]; cbn [bbind fst]; [|auto].
  intros [O [F S]]. split; [exact O|]. split; [exact F|exact S].
Qed.

(* ------------------------------------- what GenerateArgInfo guarantees -- *)

Section WithEnv.
Variable env : tenv.

(* the information stored under the name [n] *)
Definition info_inv (n : str) (a : arginfo) : Prop :=
  t_name (tget env (ai_type a)) = n /\ wf_info a /\
  match a with
  | StructInfo t _ fields =>
      t_kind (tget env t) = KStruct /\ forall f, In f fields -> sf_struct f = t
  | MapInfo t => t_kind (tget env t) = KMap
  | SliceInfo t => t_kind (tget env t) = KSlice
  end.

Definition infos_inv (infos : arginfos) : Prop :=
  forall n a, assoc_str n infos = Some a -> info_inv n a.

Lemma get_arg_info_struct t t' tags fields :
  get_arg_info env t = BOk (StructInfo t' tags fields) -> forall f, In f fields -> sf_struct f = t'.
Proof.
  unfold get_arg_info. intros H. destruct (t_kind (tget env t)); try discriminate H.
  - destruct (get_struct_fields (S (length env)) env [] t) as [fs|e] eqn:G; cbn [bbind] in H; [|discriminate H].
    destruct (has_dup_tag [] fs); [discriminate H|]. inversion H; subst.
    destruct (gsf_good _ _ _ _ _ G) as [G1 _]. intros f HI. apply (G1 f HI).
  - destruct (t_keystr (tget env t)); discriminate H.
Qed.

Lemma generate_arg_info_inv samples infos :
  generate_arg_info env samples [] = BOk infos -> infos_inv infos.
Proof.
  intros G n a A. apply BindTypesProofs.assoc_str_in_pair in A.
  destruct (generate_arg_info_entries _ _ _ _ G n a A) as [[]|[t [HI [Nm GA]]]].
  destruct (get_arg_info_kind _ _ _ GA) as [T K].
  split; [rewrite T; exact Nm|]. split; [eapply get_arg_info_wf; exact GA|].
  destruct a as [t' tags fields|t'|t']; cbn [ai_type] in T; subst t'.
  - split; [exact K|]. eapply get_arg_info_struct. exact GA.
  - apply K.
  - exact K.
Qed.

(* ------------------------------------------------------- the helpers -- *)

Definition use (b : teb) (n : str) : teb :=
  {| b_infos := b_infos b; b_used := n :: b_used b; b_outused := b_outused b; b_exprs := b_exprs b |}.

Lemma step_use b n : step b (use b n) [n] [].
Proof.
  split; [reflexivity|]. split; [reflexivity|]. intros x. cbn [use b_used In]. tauto.
Qed.

Lemma get_arg_eq b n :
  get_arg b n = match assoc_str n (b_infos b) with
                | Some a => BOk (use b n, a)
                | None => BErr ETypeMissing
                end.
Proof. reflexivity. Qed.

Lemma input_member_eq b t m :
  input_member b t m =
  match assoc_str t (b_infos b) with
  | Some a => match get_member a m with BOk l => BOk (use b t, l) | BErr e => BErr e end
  | None => BErr ETypeMissing
  end.
Proof.
  unfold input_member. rewrite get_arg_eq. destruct (assoc_str t (b_infos b)) as [a|]; [|reflexivity].
  cbn [bbind]. destruct (get_member a m); reflexivity.
Qed.

Lemma input_slice_eq b t :
  input_slice b t =
  match assoc_str t (b_infos b) with
  | Some a => match get_slice a with BOk l => BOk (use b t, l) | BErr e => BErr e end
  | None => BErr ETypeMissing
  end.
Proof.
  unfold input_slice. rewrite get_arg_eq. destruct (assoc_str t (b_infos b)) as [a|]; [|reflexivity].
  cbn [bbind]. destruct (get_slice a); reflexivity.
Qed.

Lemma all_struct_inputs_eq b t :
  all_struct_inputs b t =
  match assoc_str t (b_infos b) with
  | Some a => match get_all_struct_members a with BOk ms => BOk (use b t, ms) | BErr e => BErr e end
  | None => BErr ETypeMissing
  end.
Proof.
  unfold all_struct_inputs. rewrite get_arg_eq. destruct (assoc_str t (b_infos b)) as [a|]; [|reflexivity].
  cbn [bbind]. destruct (get_all_struct_members a); reflexivity.
Qed.

Lemma teb_kind_eq b t :
  teb_kind env b t =
  match assoc_str t (b_infos b) with
  | Some a => BOk (use b t, t_kind (tget env (ai_type a)))
  | None => BErr ETypeMissing
  end.
Proof.
  unfold teb_kind. rewrite get_arg_eq. destruct (assoc_str t (b_infos b)) as [a|]; reflexivity.
Qed.

Lemma get_member_okb a m : is_ok (get_member a m) = member_okb a m.
Proof.
  destruct a as [t tags fields|t|t]; cbn [get_member member_okb]; try reflexivity.
  destruct (find_tag m fields); reflexivity.
Qed.

Lemma get_member_id n a m l :
  info_inv n a -> get_member a m = BOk l -> loc_identifier env l = dot_id n m /\ notslice l.
Proof.
  intros [Nm [_ K]] H. destruct a as [t tags fields|t|t]; cbn [get_member ai_type] in *.
  - destruct (find_tag m fields) as [f|] eqn:F; [|discriminate H]. inversion H; subst l.
    apply find_tag_some in F. destruct F as [HI T]. destruct K as [_ K].
    cbn [loc_identifier]. rewrite (K f HI), Nm, T. split; [reflexivity|exact I].
  - inversion H; subst l. cbn [loc_identifier]. rewrite Nm. split; [reflexivity|exact I].
  - discriminate H.
Qed.

Lemma get_all_okb a :
  is_ok (get_all_struct_members a) = match a with StructInfo _ (_ :: _) _ => true | _ => false end.
Proof. destruct a as [t [|tg tags] fields|t|t]; reflexivity. Qed.

Lemma all_members_ids n a ms :
  info_inv n a -> get_all_struct_members a = BOk ms ->
  exists t tags fields, a = StructInfo t tags fields /\ tags <> [] /\ map fst ms = tags /\
    NoDup tags /\ map (fun p => loc_identifier env (snd p)) ms = map (dot_id n) tags.
Proof.
  intros [Nm [W K]] H.
  destruct (wf_all_members a ms W H) as [t [fields [Ea [M [F _]]]]]. subst a.
  cbn [ai_type] in Nm. destruct K as [_ K]. destruct W as [_ [D _]].
  exists t, (sort_strs (map sf_tag fields)), fields. split; [reflexivity|]. split.
  { intros E. cbn [get_all_struct_members] in H. rewrite E in H. discriminate H. }
  split; [exact M|]. split.
  { apply sort_strs_nodup. apply (has_dup_tag_spec _ _ D). }
  rewrite <- M, map_map. apply map_ext_in. intros [tag l] HI.
  rewrite Forall_forall in F. destruct (F _ HI) as [f [-> [If T]]].
  cbn [snd fst loc_identifier]. rewrite (K f If), Nm, T. reflexivity.
Qed.

(* --- inputs *)

Lemma input_member_spec b t m :
  spec fst (input_member b t m) b (has_member (b_infos b) {| tname := t; mname := m |}) [t] [].
Proof.
  rewrite input_member_eq. unfold spec, has_member. cbn [tname mname fresh_all].
  destruct (assoc_str t (b_infos b)) as [a|]; [|reflexivity].
  rewrite <- get_member_okb. destruct (get_member a m) as [l|e]; cbn [is_ok fst]; [|reflexivity].
  split; [reflexivity|]. split; [reflexivity|apply step_use].
Qed.

Lemma input_slice_spec b t :
  spec fst (input_slice b t) b (is_slice (b_infos b) t) [t] [].
Proof.
  rewrite input_slice_eq. unfold spec, is_slice. cbn [fresh_all].
  destruct (assoc_str t (b_infos b)) as [a|]; [|reflexivity].
  destruct a as [t0 tags fields|t0|t0]; cbn [get_slice fst]; try reflexivity.
  split; [reflexivity|]. split; [reflexivity|apply step_use].
Qed.

Lemma is_tagged_struct_eq infos t :
  is_tagged_struct infos t =
  match assoc_str t infos with Some a => is_ok (get_all_struct_members a) | None => false end.
Proof.
  unfold is_tagged_struct, struct_tags. destruct (assoc_str t infos) as [a|]; [|reflexivity].
  rewrite get_all_okb. destruct a as [t0 [|tg tags] fields|t0|t0]; reflexivity.
Qed.

Lemma all_struct_inputs_spec b t :
  spec fst (all_struct_inputs b t) b (is_tagged_struct (b_infos b) t) [t] [].
Proof.
  rewrite all_struct_inputs_eq, is_tagged_struct_eq. unfold spec. cbn [fresh_all].
  destruct (assoc_str t (b_infos b)) as [a|]; [|reflexivity].
  destruct (get_all_struct_members a) as [ms|e]; cbn [is_ok fst]; [|reflexivity].
  split; [reflexivity|]. split; [reflexivity|apply step_use].
Qed.

(* --- outputs *)

Lemma mark_output_spec b l :
  spec (fun b1 : teb => b1) (mark_output env b l) b true [] [loc_identifier env l].
Proof.
  unfold spec, mark_output. cbn [fresh_all]. unfold memb.
  destruct (existsb (str_eqb (loc_identifier env l)) (b_outused b)); [reflexivity|].
  split; [reflexivity|]. split; [reflexivity|].
  split; [reflexivity|]. split; [reflexivity|]. intros n. cbn [b_used In]. tauto.
Qed.

Lemma mark_outputs_spec ms : forall b,
  spec (fun b1 : teb => b1) (mark_outputs env b ms) b true []
    (map (fun p => loc_identifier env (snd p)) ms).
Proof.
  induction ms as [|[tag l] ms IH]; intros b; cbn [mark_outputs map snd].
  - apply (spec_ret (fun b1 : teb => b1)). apply step_refl.
  - eapply spec_conv; [eapply spec_bind; [apply mark_output_spec|]|reflexivity|reflexivity|reflexivity].
    intros b1 _ _. apply IH.
Qed.

Lemma output_member_spec b t m :
  infos_inv (b_infos b) ->
  spec fst (output_member env b t m) b (has_member (b_infos b) {| tname := t; mname := m |})
    [t] [dot_id t m].
Proof.
  intros INV. unfold output_member. rewrite get_arg_eq. unfold has_member. cbn [tname mname].
  destruct (assoc_str t (b_infos b)) as [a|] eqn:A; [|reflexivity]. cbn [bbind].
  rewrite <- get_member_okb. destruct (get_member a m) as [l|e] eqn:G; cbn [bbind is_ok]; [|reflexivity].
  destruct (get_member_id _ _ _ _ (INV _ _ A) G) as [ID NS].
  assert (spec fst (bbind (mark_output env (use b t) l) (fun b2 => BOk (b2, l))) b true [t] [dot_id t m]) as S.
  { rewrite <- ID. pose proof (mark_output_spec (use b t) l) as S. unfold spec in S |- *.
    change (b_outused (use b t)) with (b_outused b) in S.
    destruct (mark_output env (use b t) l) as [b2|e]; cbn [bbind fst]; [|exact S].
    destruct S as [_ [F S]]. split; [reflexivity|]. split; [exact F|].
    apply (step_trans _ _ _ [t] [] [] [_] (step_use b t) S). }
  destruct l; [exact S|exact S|destruct NS].
Qed.

Definition star_ids (infos : arginfos) (t : str) : list str :=
  match struct_tags infos t with Some tags => map (dot_id t) tags | None => [] end.

Lemma target_ids_eq infos t :
  target_ids infos t =
  if is_star (mname t) then star_ids infos (tname t) else [dot_id (tname t) (mname t)].
Proof. reflexivity. Qed.

Lemma all_struct_outputs_spec b t :
  infos_inv (b_infos b) ->
  spec fst (all_struct_outputs env b t) b (is_tagged_struct (b_infos b) t) [t]
    (star_ids (b_infos b) t).
Proof.
  intros INV. unfold all_struct_outputs. rewrite get_arg_eq, is_tagged_struct_eq.
  unfold star_ids, struct_tags.
  destruct (assoc_str t (b_infos b)) as [a|] eqn:A; [|reflexivity]. cbn [bbind].
  destruct (get_all_struct_members a) as [ms|e] eqn:G; cbn [bbind is_ok]; [|reflexivity].
  destruct (all_members_ids _ _ _ (INV _ _ A) G) as [t0 [tags [fields [-> [NE [M [ND ID]]]]]]].
  rewrite <- ID.
  pose proof (mark_outputs_spec ms (use b t)) as S. unfold spec in S |- *.
  change (b_outused (use b t)) with (b_outused b) in S.
  destruct (mark_outputs env (use b t) ms) as [b2|e]; cbn [bbind fst]; [|exact S].
  destruct S as [_ [F S]]. split; [reflexivity|]. split; [exact F|].
  apply (step_trans _ _ _ [t] [] [] _ (step_use b t) S).
Qed.

(* --- the loops *)

Lemma asterisk_sources_spec sources : forall b cols,
  spec fst (asterisk_sources b sources cols) b
    (forallb (asterisk_source_ok (b_infos b)) sources) (map tname sources) [].
Proof.
  induction sources as [|s rest IH]; intros b cols; cbn [asterisk_sources forallb map].
  - apply (spec_ret fst). apply step_refl.
  - unfold asterisk_source_ok at 1. destruct (is_star (mname s)).
    + eapply spec_conv;
        [eapply (spec_bind fst fst) with (ok2 := forallb (asterisk_source_ok (b_infos b)) rest)
           (n2 := map tname rest) (i2 := []); [apply all_struct_inputs_spec|]
        |reflexivity|reflexivity|reflexivity].
      intros [b1 ms] _ I. cbn [fst] in I |- *. rewrite <- I. apply IH.
    + eapply spec_conv;
        [eapply (spec_bind fst fst) with (ok2 := forallb (asterisk_source_ok (b_infos b)) rest)
           (n2 := map tname rest) (i2 := []); [apply input_member_spec|]
        |reflexivity|reflexivity|reflexivity].
      intros [b1 l] _ I. cbn [fst] in I |- *. rewrite <- I. apply IH.
Qed.

Lemma basic_sources_spec columns : forall sources b cols,
  length columns = length sources ->
  spec fst (basic_sources b columns sources cols) b
    (forallb (value_ok (b_infos b)) sources) (value_names sources) [].
Proof.
  induction columns as [|c crest IH]; intros sources b cols L.
  - destruct sources; [|discriminate L]. apply (spec_ret fst). apply step_refl.
  - destruct sources as [|[ma|lit] srest]; [discriminate L| |]; cbn [length] in L;
      cbn [basic_sources forallb value_ok].
    + change (value_names (VMem ma :: srest)) with ([tname ma] ++ value_names srest).
      eapply spec_conv;
        [eapply (spec_bind fst fst) with (ok2 := forallb (value_ok (b_infos b)) srest)
           (n2 := value_names srest) (i2 := []); [apply input_member_spec|]
        |reflexivity|reflexivity|reflexivity].
      intros [b1 l] _ I. cbn [fst] in I |- *. rewrite <- I. apply IH. lia.
    + change (value_names (VLit lit :: srest)) with (value_names srest). apply IH. lia.
Qed.

Lemma output_generated_spec pref targets : forall b ocs,
  infos_inv (b_infos b) ->
  spec fst (output_generated env b pref targets ocs) b
    (forallb (target_okb (b_infos b)) targets) (map tname targets)
    (flat_map (target_ids (b_infos b)) targets).
Proof.
  induction targets as [|t rest IH]; intros b ocs INV; cbn [output_generated forallb map flat_map].
  - apply (spec_ret fst). apply step_refl.
  - rewrite target_ids_eq. unfold target_okb at 1. destruct (is_star (mname t)).
    + eapply spec_conv;
        [eapply (spec_bind fst fst) with (ok2 := forallb (target_okb (b_infos b)) rest)
           (n2 := map tname rest) (i2 := flat_map (target_ids (b_infos b)) rest);
           [apply all_struct_outputs_spec; exact INV|]
        |reflexivity|reflexivity|reflexivity].
      intros [b1 ms] _ I. cbn [fst] in I |- *. rewrite <- I. apply IH. rewrite I. exact INV.
    + eapply spec_conv;
        [eapply (spec_bind fst fst) with (ok2 := forallb (target_okb (b_infos b)) rest)
           (n2 := map tname rest) (i2 := flat_map (target_ids (b_infos b)) rest);
           [apply output_member_spec; exact INV|]
        |reflexivity|reflexivity|reflexivity].
      intros [b1 l] _ I. cbn [fst] in I |- *. rewrite <- I. apply IH. rewrite I. exact INV.
Qed.

Lemma output_into_star_spec tn cols : forall b ocs,
  infos_inv (b_infos b) ->
  spec fst (output_into_star env b tn cols ocs) b
    (forallb (fun c => has_member (b_infos b) {| tname := tn; mname := columnName c |}) cols)
    (map (fun _ => tn) cols) (map (fun c => dot_id tn (columnName c)) cols).
Proof.
  induction cols as [|c rest IH]; intros b ocs INV; cbn [output_into_star forallb map].
  - apply (spec_ret fst). apply step_refl.
  - eapply spec_conv;
      [eapply (spec_bind fst fst) with
         (ok2 := forallb (fun c => has_member (b_infos b) {| tname := tn; mname := columnName c |}) rest)
         (n2 := map (fun _ => tn) rest) (i2 := map (fun c => dot_id tn (columnName c)) rest);
         [apply output_member_spec; exact INV|]
      |reflexivity|reflexivity|reflexivity].
    intros [b1 l] _ I. cbn [fst] in I |- *. rewrite <- I. apply IH. rewrite I. exact INV.
Qed.

Lemma output_pairwise_spec cols : forall targets b ocs,
  infos_inv (b_infos b) -> length cols = length targets ->
  spec fst (output_pairwise env b cols targets ocs) b
    (forallb (has_member (b_infos b)) targets) (map tname targets)
    (map (fun t => dot_id (tname t) (mname t)) targets).
Proof.
  induction cols as [|c crest IH]; intros targets b ocs INV L.
  - destruct targets; [|discriminate L]. apply (spec_ret fst). apply step_refl.
  - destruct targets as [|t trest]; [discriminate L|]. cbn [length] in L.
    cbn [output_pairwise forallb map].
    eapply spec_conv;
      [eapply (spec_bind fst fst) with (ok2 := forallb (has_member (b_infos b)) trest)
         (n2 := map tname trest) (i2 := map (fun t => dot_id (tname t) (mname t)) trest);
         [apply output_member_spec; exact INV|]
      |reflexivity|reflexivity|reflexivity].
    intros [b1 l] _ I. cbn [fst] in I |- *. rewrite <- I. apply IH; [rewrite I; exact INV|lia].
Qed.

(* --- "(c1, ...) VALUES (...)": the column-to-input map *)

Definition c2i_len (m : c2i) (k : str) : nat :=
  match c2i_get m k with Some v => length v | None => 0 end.

Lemma c2i_get_set m k v : forall k',
  c2i_get (c2i_set m k v) k' = if str_eqb k' k then Some v else c2i_get m k'.
Proof.
  induction m as [|[k0 v0] m IH]; intros k'; cbn [c2i_set c2i_get]; [reflexivity|].
  destruct (str_eqb k k0) eqn:E; cbn [c2i_get].
  - apply str_eqb_eq in E. subst k0. destruct (str_eqb k' k); reflexivity.
  - rewrite IH. destruct (str_eqb k' k0) eqn:E0; [|reflexivity].
    destruct (str_eqb k' k) eqn:E1; [|reflexivity].
    apply str_eqb_eq in E0. apply str_eqb_eq in E1. subst. rewrite str_eqb_refl in E. discriminate E.
Qed.

Lemma c2i_len_set m k l k' :
  c2i_len (c2i_set m k [l]) k' = if str_eqb k' k then 1 else c2i_len m k'.
Proof. unfold c2i_len. rewrite c2i_get_set. destruct (str_eqb k' k); reflexivity. Qed.

Lemma c2i_len_append m k l k' :
  c2i_len (c2i_append m k l) k' = if str_eqb k' k then c2i_len m k + 1 else c2i_len m k'.
Proof.
  unfold c2i_len, c2i_append. rewrite c2i_get_set. destruct (str_eqb k' k); [|reflexivity].
  destruct (c2i_get m k) as [v|]; [rewrite app_length; reflexivity|reflexivity].
Qed.

Lemma c2i_len_fold k : forall (ms : list (str * locator)) m,
  NoDup (map fst ms) ->
  c2i_len (fold_left (fun acc '(tag, l) => c2i_append acc tag l) ms m) k =
  if memb k (map fst ms) then c2i_len m k + 1 else c2i_len m k.
Proof.
  induction ms as [|[tag l] ms IH]; intros m ND; cbn [fold_left map fst]; [reflexivity|].
  inversion ND as [|x xs NI ND']; subst. rewrite (IH _ ND'), !c2i_len_append.
  unfold memb at 2. cbn [existsb]. fold (memb k (map fst ms)).
  destruct (str_eqb k tag) eqn:E; cbn [orb]; [|reflexivity].
  apply str_eqb_eq in E. subst tag.
  destruct (memb k (map fst ms)) eqn:M; [|reflexivity]. apply memb_In in M. contradiction.
Qed.

Lemma c2i_len_zero m k : c2i_ok m -> c2i_len m k = 0 -> c2i_get m k = None.
Proof.
  unfold c2i_len. intros OK H. destruct (c2i_get m k) as [v|] eqn:G; [|reflexivity].
  destruct (c2i_get_ok _ _ _ OK G) as [NE _]. destruct v; [congruence|discriminate H].
Qed.

(* the number of providers of a column, source by source *)
Definition count_step (infos : arginfos) (c : str) (n : nat) (s : macc) : nat :=
  if is_star (mname s) then
    match struct_tags infos (tname s) with
    | Some tags => if memb c tags then n + 1 else n
    | None => n
    end
  else if str_eqb (mname s) c then 1 else n.

Lemma providers_length infos c sources : forall acc,
  length (fold_left (provider_step infos c) sources acc) =
  fold_left (count_step infos c) sources (length acc).
Proof.
  induction sources as [|s rest IH]; intros acc; cbn [fold_left]; [reflexivity|].
  rewrite IH. f_equal. unfold provider_step, count_step.
  destruct (is_star (mname s)).
  - destruct (struct_tags infos (tname s)) as [tags|]; [|reflexivity].
    destruct (memb c tags); [rewrite app_length; reflexivity|reflexivity].
  - destruct (str_eqb (mname s) c); reflexivity.
Qed.

Definition opt_len {A} (o : option A) : nat := match o with Some _ => 1 | None => 0 end.

(* the map that takes the remaining columns, after the sources *)
Definition remaining (infos : arginfos) (sources : list macc) (rm : option str) : option str :=
  match map_sources infos sources with [] => rm | s :: _ => Some (tname s) end.

Lemma map_sources_cons infos s rest :
  map_sources infos (s :: rest) =
  if is_star (mname s) && is_map infos (tname s) then s :: map_sources infos rest
  else map_sources infos rest.
Proof. reflexivity. Qed.

Lemma step_use2 b t : step b (use (use b t) t) [t] [].
Proof.
  split; [reflexivity|]. split; [reflexivity|]. intros x. cbn [use b_used In]. tauto.
Qed.

Definition sources_okb (infos : arginfos) (sources : list macc) (rm : option str) : bool :=
  forallb (columns_source_ok infos) sources &&
  Nat.leb (length (map_sources infos sources) + opt_len rm) 1.

Lemma columns_sources_spec sources : forall b m rm,
  infos_inv (b_infos b) ->
  match columns_sources env b sources m rm with
  | BOk (b1, (m1, rm1)) =>
      sources_okb (b_infos b) sources rm = true /\
      step b b1 (map tname sources) [] /\
      rm1 = remaining (b_infos b) sources rm /\
      (forall k, c2i_len m1 k = fold_left (count_step (b_infos b) k) sources (c2i_len m k))
  | BErr _ => sources_okb (b_infos b) sources rm = false
  end.
Proof.
  induction sources as [|s rest IH]; intros b m rm INV; cbn [columns_sources].
  - unfold sources_okb, remaining. cbn [forallb map_sources filter length map fold_left].
    split; [destruct rm; reflexivity|]. split; [apply step_refl|]. split; reflexivity.
  - unfold sources_okb, remaining. rewrite map_sources_cons. cbn [forallb map fold_left].
    unfold columns_source_ok at 1 3, count_step at 2. destruct (is_star (mname s)) eqn:ST.
    + rewrite teb_kind_eq. unfold is_tagged_struct, struct_tags, is_map.
      destruct (assoc_str (tname s) (b_infos b)) as [a|] eqn:A; [|reflexivity]. cbn [bbind].
      pose proof (INV _ _ A) as IA. destruct IA as [Nm [W K]].
      destruct a as [t tags fields|t|t]; cbn [ai_type] in *.
      * (* a struct *)
        destruct K as [K Kf]. rewrite K. rewrite all_struct_inputs_eq.
        change (b_infos (use b (tname s))) with (b_infos b). rewrite A.
        destruct (get_all_struct_members (StructInfo t tags fields)) as [ms|e] eqn:G.
        2:{ cbn [bbind]. destruct tags; [reflexivity|discriminate G]. }
        cbn [bbind].
        destruct (all_members_ids _ _ _ (INV _ _ A) G) as [t0 [tags0 [fields0 [Ea [NE [M [ND ID]]]]]]].
        injection Ea as E1 E2 E3. subst t0 tags0 fields0.
        specialize (IH (use (use b (tname s)) (tname s))
                      (fold_left (fun acc '(tag, l) => c2i_append acc tag l) ms m) rm INV).
        change (b_infos (use (use b (tname s)) (tname s))) with (b_infos b) in IH.
        destruct (columns_sources env (use (use b (tname s)) (tname s)) rest _ rm) as [[b1 [m1 rm1]]|e].
        -- destruct IH as [OK [S [R C]]]. unfold sources_okb, remaining in OK, R.
           destruct tags as [|tg tags]; [congruence|]. cbn [orb andb]. split; [exact OK|].
           split.
           { eapply step_names; [apply (step_trans _ _ _ _ _ _ _ (step_use2 b (tname s)) S)|].
             intros n. cbn [app In]. tauto. }
           split; [exact R|]. intros k. rewrite C. f_equal.
           rewrite c2i_len_fold by (rewrite M; exact ND). rewrite M. reflexivity.
        -- unfold sources_okb in IH. destruct tags as [|tg tags]; [congruence|]. exact IH.
      * (* a map *)
        rewrite K. cbn [orb andb]. destruct rm as [mapName|].
        { cbn [opt_len length]. rewrite andb_comm.
          replace (S (length (map_sources (b_infos b) rest)) + 1 <=? 1) with false; [reflexivity|].
          symmetry. apply Nat.leb_gt. lia. }
        specialize (IH (use b (tname s)) m (Some (tname s)) INV).
        change (b_infos (use b (tname s))) with (b_infos b) in IH.
        destruct (columns_sources env (use b (tname s)) rest m (Some (tname s))) as [[b1 [m1 rm1]]|e].
        -- destruct IH as [OK [S [R C]]]. unfold sources_okb, remaining in OK, R.
           apply andb_prop in OK. destruct OK as [OK1 OK2]. apply Nat.leb_le in OK2.
           cbn [opt_len] in OK2 |- *. rewrite OK1. cbn [length andb]. split.
           { apply Nat.leb_le. lia. }
           split; [apply (step_trans _ _ _ [_] [] _ [] (step_use b (tname s)) S)|].
           split; [|exact C].
           destruct (map_sources (b_infos b) rest); [exact R|cbn [length] in OK2; lia].
        -- unfold sources_okb in IH. cbn [opt_len length] in IH |- *.
           rewrite Nat.add_0_r. replace (S (length (map_sources (b_infos b) rest)))
             with (length (map_sources (b_infos b) rest) + 1) by lia. exact IH.
      * (* a slice *)
        rewrite K. rewrite all_struct_inputs_eq.
        change (b_infos (use b (tname s))) with (b_infos b). rewrite A. reflexivity.
    + rewrite input_member_eq. unfold has_member. cbn [andb].
      destruct (assoc_str (tname s) (b_infos b)) as [a|] eqn:A; [|reflexivity].
      rewrite <- get_member_okb. destruct (get_member a (mname s)) as [l|e]; cbn [bbind is_ok]; [|reflexivity].
      specialize (IH (use b (tname s)) (c2i_set m (mname s) [l]) rm INV).
      change (b_infos (use b (tname s))) with (b_infos b) in IH.
      destruct (columns_sources env (use b (tname s)) rest _ rm) as [[b1 [m1 rm1]]|e].
      * destruct IH as [OK [S [R C]]]. split; [exact OK|].
        split; [apply (step_trans _ _ _ [_] [] _ [] (step_use b (tname s)) S)|].
        split; [exact R|]. intros k. rewrite C. f_equal. rewrite c2i_len_set.
        rewrite (BindTypesProofs.str_eqb_sym k (mname s)). reflexivity.
      * exact IH.
Qed.

Definition col_okb (m : c2i) (rm : option str) (c : column) : bool :=
  match c2i_len m (columnString c) with
  | 0 => match rm with Some _ => true | None => false end
  | 1 => true
  | _ => false
  end.

Lemma columns_match_spec columns m rm : c2i_ok m -> forall b cols,
  (forall n, rm = Some n -> is_map (b_infos b) n = true /\ In n (b_used b)) ->
  match columns_match b columns m rm cols with
  | BOk (b1, _) => forallb (col_okb m rm) columns = true /\ step b b1 [] []
  | BErr _ => forallb (col_okb m rm) columns = false
  end.
Proof.
  intros OK. induction columns as [|c rest IH]; intros b cols RM; cbn [columns_match forallb].
  - split; [reflexivity|apply step_refl].
  - unfold col_okb at 1 3, c2i_len.
    destruct (c2i_get m (columnString c)) as [input|] eqn:G.
    + destruct (c2i_get_ok _ _ _ OK G) as [NE _].
      destruct input as [|l [|l2 input]]; [congruence| |reflexivity]. cbn [length andb].
      apply IH. exact RM.
    + destruct rm as [mapName|]; [|reflexivity]. cbn [andb].
      destruct (RM mapName eq_refl) as [IM IU]. rewrite input_member_eq.
      unfold is_map in IM. destruct (assoc_str mapName (b_infos b)) as [a|] eqn:A; [|discriminate IM].
      destruct a as [t tags fields|t|t]; try discriminate IM. cbn [get_member bbind].
      specialize (IH (use b mapName) (cols ++ [TCIns (LMapKey t (columnString c)) (columnString c) true])).
      match type of IH with ?P -> _ => assert P as RM' end.
      { intros n E. injection E as <-. split; [unfold is_map; cbn [use b_infos]; rewrite A; reflexivity|].
        right. exact IU. }
      specialize (IH RM').
      destruct (columns_match (use b mapName) rest m (Some mapName) _) as [[b1 cs]|e]; [|exact IH].
      destruct IH as [F [I1 [O1 U1]]]. split; [exact F|].
      split; [exact I1|]. split; [exact O1|]. intros n. rewrite U1. cbn [use b_used In].
      split; [intros [[]|[<-|H]]; right; assumption|intros [[]|H]; right; right; exact H].
Qed.

Lemma forallb_ext' {A} (f g : A -> bool) l : (forall x, f x = g x) -> forallb f l = forallb g l.
Proof. intros H. induction l as [|x l IH]; cbn [forallb]; [reflexivity|]. rewrite H, IH. reflexivity. Qed.

Lemma col_okb_provided infos sources m1 rm1 c :
  (forall k, c2i_len m1 k = fold_left (count_step infos k) sources 0) ->
  rm1 = remaining infos sources None ->
  col_okb m1 rm1 c = column_provided infos sources c.
Proof.
  intros C R. unfold col_okb, column_provided, providers. rewrite C.
  pose proof (providers_length infos (columnString c) sources []) as PL. cbn [length] in PL.
  rewrite <- PL. subst rm1. unfold remaining.
  destruct (fold_left (provider_step infos (columnString c)) sources []) as [|p [|p2 ps]]; cbn [length].
  - destruct (map_sources infos sources); reflexivity.
  - reflexivity.
  - reflexivity.
Qed.

Lemma columns_insert_spec b r cols sources :
  infos_inv (b_infos b) ->
  spec (fun b1 : teb => b1) (bind_expr env b (ColumnsIns r cols sources)) b
    (expr_ok (b_infos b) (ColumnsIns r cols sources)) (map tname sources) [].
Proof.
  intros INV. cbn [bind_expr expr_ok]. unfold spec. cbn [fresh_all].
  pose proof (columns_sources_spec sources b [] None INV) as CS.
  destruct (columns_sources env b sources [] None) as [[b1 [m1 rm1]]|e] eqn:E; cbn [bbind].
  2:{ unfold sources_okb in CS. cbn [opt_len] in CS. rewrite Nat.add_0_r in CS. rewrite CS. reflexivity. }
  destruct CS as [OKs [S [R C]]]. unfold sources_okb in OKs. cbn [opt_len] in OKs.
  rewrite Nat.add_0_r in OKs. rewrite OKs. cbn [andb].
  apply columns_sources_inv in E; [|apply c2i_ok_nil]. destruct E as [_ OKm].
  pose proof S as [I1 [O1 U1]].
  assert (forall n, rm1 = Some n -> is_map (b_infos b1) n = true /\ In n (b_used b1)) as RM.
  { intros n E. rewrite R in E. unfold remaining in E.
    destruct (map_sources (b_infos b) sources) as [|s0 ms] eqn:MS; [discriminate E|].
    injection E as <-. assert (In s0 (map_sources (b_infos b) sources)) as HI by (rewrite MS; left; reflexivity).
    apply filter_In in HI. destruct HI as [HI P]. apply andb_prop in P. destruct P as [_ P].
    rewrite I1. split; [exact P|]. apply U1. left. apply in_map. exact HI. }
  pose proof (columns_match_spec cols m1 rm1 OKm b1 [] RM) as CM.
  assert (forallb (col_okb m1 rm1) cols = forallb (column_provided (b_infos b) sources) cols) as EQ.
  { apply forallb_ext'. intros c. apply col_okb_provided; [|exact R]. intros k. apply C. }
  rewrite <- EQ.
  destruct (columns_match b1 cols m1 rm1 []) as [[b2 cs]|e2]; cbn [bbind].
  - destruct CM as [F S2]. split; [exact F|]. split; [reflexivity|].
    pose proof (step_trans _ _ _ _ _ _ _ S S2) as S3. rewrite !app_nil_r in S3. exact S3.
  - rewrite CM. reflexivity.
Qed.

(* --- output expressions: the case analysis of bindTypes as a decision tree *)

Lemma star_types_le targets : starCountTypes targets <= length targets.
Proof. apply BindTypesProofs.filter_length_le. Qed.

Lemma star_cols_le cols : starCountColumns cols <= length cols.
Proof. apply BindTypesProofs.filter_length_le. Qed.

Definition finish_out (r : bres (teb * list (str * locator))) : bres teb :=
  bbind r (fun '(b1, ocs) => BOk (add_expr b1 (TOutput ocs))).

Ltac nb :=
  repeat (match goal with
          | |- context [Nat.eqb ?a ?b] => destruct (Nat.eqb_spec a b)
          | |- context [Nat.ltb ?a ?b] => destruct (Nat.ltb_spec a b)
          | |- context [Nat.leb ?a ?b] => destruct (Nat.leb_spec a b)
          end; try (exfalso; lia));
  cbn [andb orb negb]; try reflexivity.

Lemma bind_output_cases b r cols targets :
  bind_expr env b (Output r cols targets) =
  if explicit_columns cols then
    if Nat.leb 1 (starCountTypes targets) then
      match targets with
      | [t] => finish_out (output_into_star env b (tname t) cols [])
      | _ => BErr EStarTypes
      end
    else if Nat.eqb (length cols) (length targets)
         then finish_out (output_pairwise env b cols targets [])
         else BErr EMismatchColsTypes
  else if Nat.leb (length cols) 1 then
    finish_out (output_generated env b (match cols with c :: _ => tableName c | [] => [] end) targets [])
  else BErr EStarColumns.
Proof.
  cbn [bind_expr]. cbv zeta. unfold explicit_columns, finish_out.
  pose proof (star_cols_le cols) as LC. pose proof (star_types_le targets) as LT.
  destruct targets as [|t [|t2 ts]]; cbn [length] in *.
  - generalize dependent (starCountTypes []). intros st LT. nb.
  - generalize dependent (starCountTypes [t]). intros st LT. nb.
  - generalize dependent (starCountTypes (t :: t2 :: ts)). intros st LT. nb.
Qed.

Lemma star_count_zero targets :
  starCountTypes targets = 0 -> forall t, In t targets -> is_star (mname t) = false.
Proof.
  intros Z t HI. destruct (is_star (mname t)) eqn:ST; [|reflexivity].
  pose proof (star_target_counts _ _ HI ST). lia.
Qed.

Lemma ids_nostar infos targets :
  starCountTypes targets = 0 ->
  flat_map (target_ids infos) targets = map (fun t => dot_id (tname t) (mname t)) targets.
Proof.
  intros Z. pose proof (star_count_zero _ Z) as NS. clear Z.
  induction targets as [|t rest IH]; [reflexivity|]. cbn [flat_map map].
  rewrite target_ids_eq, (NS t (or_introl eq_refl)), IH; [reflexivity|].
  intros x Hx. apply NS. right. exact Hx.
Qed.

Lemma expr_dest_ids_flat infos r cols targets :
  (match targets with [t] => is_star (mname t) && explicit_columns cols | _ => false end) = false ->
  expr_dest_ids infos (Output r cols targets) = flat_map (target_ids infos) targets.
Proof.
  intros H. cbn [expr_dest_ids]. destruct targets as [|t [|t2 ts]]; try reflexivity.
  rewrite H. cbn [flat_map]. rewrite app_nil_r. reflexivity.
Qed.

Lemma output_spec b r cols targets :
  infos_inv (b_infos b) ->
  spec (fun b1 : teb => b1) (bind_expr env b (Output r cols targets)) b
    (expr_ok (b_infos b) (Output r cols targets)) (map tname targets)
    (expr_dest_ids (b_infos b) (Output r cols targets)).
Proof.
  intros INV. rewrite bind_output_cases. cbn [expr_ok]. unfold output_ok.
  destruct (explicit_columns cols) eqn:EX.
  - destruct (Nat.leb 1 (starCountTypes targets)) eqn:ST1.
    + destruct targets as [|t [|t2 ts]]; [reflexivity| |reflexivity].
      assert (is_star (mname t) = true) as IS.
      { apply Nat.leb_le in ST1. unfold starCountTypes in ST1. cbn [filter] in ST1.
        unfold is_star_macc in ST1. unfold is_star, star.
        destruct (str_eqb (mname t) [ch_star]); [reflexivity|cbn [length] in ST1; lia]. }
      cbn [expr_dest_ids]. rewrite IS, EX. cbn [andb map]. unfold finish_out. apply spec_finish.
      eapply spec_names; [apply output_into_star_spec; exact INV|].
      intros n. destruct cols as [|c cols]; [discriminate EX|]. cbn [map In]. split.
      * intros [H|H]; [left; exact H|]. apply in_map_iff in H. destruct H as [x [H _]]. left. exact H.
      * intros [H|[]]. left. exact H.
    + apply Nat.leb_gt in ST1. assert (starCountTypes targets = 0) as Z by lia.
      rewrite expr_dest_ids_flat.
      2:{ destruct targets as [|t [|t2 ts]]; try reflexivity.
          rewrite (star_count_zero _ Z t (or_introl eq_refl)). reflexivity. }
      rewrite (ids_nostar _ _ Z).
      destruct (Nat.eqb (length cols) (length targets)) eqn:L; [|reflexivity].
      apply Nat.eqb_eq in L. cbn [andb]. unfold finish_out. apply spec_finish.
      apply output_pairwise_spec; assumption.
  - rewrite expr_dest_ids_flat.
    2:{ destruct targets as [|t [|t2 ts]]; try reflexivity. rewrite EX. apply andb_false_r. }
    destruct (Nat.leb (length cols) 1); [|reflexivity]. cbn [andb].
    unfold finish_out. apply spec_finish. apply output_generated_spec. exact INV.
Qed.

(* ------------------------------------------------ one expression, all -- *)

Theorem bind_expr_spec b e :
  infos_inv (b_infos b) ->
  spec (fun b1 : teb => b1) (bind_expr env b e) b (expr_ok (b_infos b) e) (type_names e)
    (expr_dest_ids (b_infos b) e).
Proof.
  intros INV. destruct e as [chunk|r ma|r t|r sources|r cols sources|r cols vals|r cols targets].
  - cbn [bind_expr expr_ok type_names expr_dest_ids].
    apply (spec_ret (fun b1 : teb => b1)). split; [reflexivity|]. split; [reflexivity|].
    intros n. cbn [add_expr b_used In]. tauto.
  - cbn [bind_expr expr_ok type_names expr_dest_ids]. apply spec_finish.
    apply input_member_spec.
  - cbn [bind_expr expr_ok type_names expr_dest_ids]. apply spec_finish. apply input_slice_spec.
  - cbn [bind_expr expr_ok type_names expr_dest_ids]. apply spec_finish.
    apply asterisk_sources_spec.
  - apply columns_insert_spec. exact INV.
  - cbn [bind_expr expr_ok type_names expr_dest_ids].
    destruct (Nat.eqb (length cols) (length vals)) eqn:L; cbn [negb andb]; [|reflexivity].
    apply Nat.eqb_eq in L. apply spec_finish. apply basic_sources_spec. exact L.
  - apply output_spec. exact INV.
Qed.

Theorem bind_exprs_spec es : forall b,
  infos_inv (b_infos b) ->
  spec (fun b1 : teb => b1) (bind_exprs env b es) b (forallb (expr_ok (b_infos b)) es)
    (flat_map type_names es) (flat_map (expr_dest_ids (b_infos b)) es).
Proof.
  induction es as [|e rest IH]; intros b INV; cbn [bind_exprs forallb flat_map].
  - apply (spec_ret (fun b1 : teb => b1)). apply step_refl.
  - eapply (spec_bind (fun b1 : teb => b1) (fun b1 : teb => b1)) with
      (ok2 := forallb (expr_ok (b_infos b)) rest) (n2 := flat_map type_names rest)
      (i2 := flat_map (expr_dest_ids (b_infos b)) rest); [apply bind_expr_spec; exact INV|].
    intros b1 _ I. rewrite <- I. apply IH. rewrite I. exact INV.
Qed.
End WithEnv.

(* ------------------------------------------------------ the theorems -- *)

(* the check that every sample was used = every sample is named *)
Lemma all_used_named infos used es :
  (forall n, In n used <-> In n (flat_map type_names es)) ->
  forallb (fun '(name, _) => existsb (str_eqb name) used) infos = all_samples_named infos es.
Proof.
  intros H. unfold all_samples_named. apply forallb_ext'. intros [name a].
  apply (memb_ext name). exact H.
Qed.

(* C07 (iff), boolean form: for accepted samples, Prepare accepts the
   statement exactly when it is well typed *)
Theorem prepare_iff_bool env samples infos es :
  generate_arg_info env samples [] = BOk infos ->
  is_ok (bind_types env es samples) = well_typed env infos es.
Proof.
  intros G. unfold bind_types. rewrite G. cbn [bbind].
  pose proof (generate_arg_info_inv env _ _ G) as INV.
  pose proof (bind_exprs_spec env es
                {| b_infos := infos; b_used := []; b_outused := []; b_exprs := [] |} INV) as S.
  unfold spec in S. cbn [b_infos b_outused] in S. rewrite fresh_all_nil in S.
  unfold well_typed, dest_ids.
  destruct (bind_exprs env _ es) as [b1|e]; cbn [bbind].
  - destruct S as [O [F [I [_ U]]]]. cbn [b_infos b_used] in I, U. rewrite O, F, I.
    rewrite (all_used_named infos (b_used b1) es).
    + cbn [andb]. rewrite andb_true_r. destruct (all_samples_named infos es); reflexivity.
    + intros n. rewrite U. cbn [In]. tauto.
  - cbn [is_ok]. symmetry.
    destruct (forallb (expr_ok infos) es); [|reflexivity]. cbn [andb] in S |- *.
    rewrite S. apply andb_false_r.
Qed.

(* the same, on the builder: with the samples' information [infos], binding
   every expression and then checking that every sample was used *)
Theorem C07_iff env samples infos es :
  generate_arg_info env samples [] = BOk infos ->
  match bind_exprs env {| b_infos := infos; b_used := []; b_outused := []; b_exprs := [] |} es with
  | BOk b => forallb (fun '(name, _) => existsb (str_eqb name) (b_used b)) (b_infos b)
  | BErr _ => false
  end = well_typed env infos es.
Proof.
  intros G. rewrite <- (prepare_iff_bool env samples infos es G). unfold bind_types. rewrite G.
  cbn [bbind]. destruct (bind_exprs env _ es) as [b|e]; cbn [bbind]; [|reflexivity].
  destruct (forallb _ (b_infos b)); reflexivity.
Qed.

Theorem prepare_iff env es samples :
  is_ok (bind_types env es samples) = true <->
  exists infos, generate_arg_info env samples [] = BOk infos /\ well_typed env infos es = true.
Proof.
  split.
  - intros H. destruct (generate_arg_info env samples []) as [infos|e] eqn:G.
    + exists infos. split; [reflexivity|]. rewrite <- (prepare_iff_bool _ _ _ _ G). exact H.
    + unfold bind_types in H. rewrite G in H. discriminate H.
  - intros [infos [G W]]. rewrite (prepare_iff_bool _ _ _ _ G). exact W.
Qed.

(* with the sample-level completeness (samples_ok): Prepare accepts iff the
   samples are acceptable and the statement is well typed for them *)
Theorem prepare_iff_samples env es samples :
  is_ok (bind_types env es samples) =
  samples_ok env samples &&
  match generate_arg_info env samples [] with
  | BOk infos => well_typed env infos es
  | BErr _ => false
  end.
Proof.
  rewrite <- samples_accepted_iff.
  destruct (generate_arg_info env samples []) as [infos|e] eqn:G; cbn [is_ok andb].
  - apply prepare_iff_bool. exact G.
  - unfold bind_types. rewrite G. reflexivity.
Qed.
