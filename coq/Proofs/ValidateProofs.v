(* C08 - Query arguments are validated before anything reaches the driver. *)
From SQLair.Base Require Import Bytes.
From SQLair.Model Require Import GenConsts Reflect TypeInfo Parser Bind Iter.
From SQLair.Proofs Require Import BindFacts TotalityProofs.

(* ------------------------------------------------ (c) silence -- *)

(* what every iterator operation answers once the Query carries an error *)
Definition silent_out (e : err) (o : iop) : iout :=
  match o with
  | OpNext => OutBool false
  | OpGet _ => OutErr (Some e) StNothing
  | OpClose => OutErr (Some e) StNothing
  | OpCancel => OutNone
  end.

Definition errored (e : err) (i : iter) : Prop :=
  it_rows i = None /\ it_err i = Some e /\ it_dead i = None.

Lemma iter_step_errored e i o :
  errored e i -> errored e (fst (iter_step i o)) /\ snd (iter_step i o) = silent_out e o.
Proof.
  intros [R [E D]]. destruct o; cbn [iter_step silent_out].
  - unfold iter_next. rewrite E. cbn. unfold errored. cbn. auto.
  - unfold iter_get. rewrite E. cbn. unfold errored. auto.
  - unfold iter_close. rewrite R, E. cbn. unfold errored. cbn. auto.
  - rewrite R, D. cbn. unfold errored. auto.
Qed.

Lemma iter_run_errored e ops : forall i,
  errored e i ->
  errored e (fst (iter_run i ops)) /\ snd (iter_run i ops) = map (silent_out e) ops.
Proof.
  induction ops as [|o rest IH]; intros i Er; cbn [iter_run map].
  - split; [exact Er|reflexivity].
  - destruct (iter_step_errored e i o Er) as [Er1 O1].
    destruct (iter_step i o) as [i1 out]. cbn [fst snd] in *.
    destruct (IH i1 Er1) as [Er2 O2]. destruct (iter_run i1 rest) as [i2 outs].
    cbn [fst snd] in *. split; [exact Er2|]. subst. reflexivity.
Qed.

Lemma query_iter_errored e hasout run : errored e (query_iter (Some e) hasout run).
Proof. unfold errored. cbn. auto. Qed.

Theorem silent_get e hasout c : forall run1 run2,
  query_get (Some e) hasout run1 c = query_get (Some e) hasout run2 c /\
  gr_err (query_get (Some e) hasout run1 c) = Some e /\
  gr_iter (query_get (Some e) hasout run1 c) = None.
Proof. intros run1 run2. cbn. auto. Qed.

Theorem silent_getall e hasout c : forall run1 run2,
  query_getall (Some e) hasout run1 c = query_getall (Some e) hasout run2 c /\
  gar_err (query_getall (Some e) hasout run1 c) = Some e /\
  gar_appended (query_getall (Some e) hasout run1 c) = None /\
  gar_iter (query_getall (Some e) hasout run1 c) = None.
Proof. intros run1 run2. cbn. auto. Qed.

Theorem silent_iter e hasout ops : forall run1 run2,
  query_iter (Some e) hasout run1 = query_iter (Some e) hasout run2 /\
  it_rows (query_iter (Some e) hasout run1) = None /\
  snd (iter_close (query_iter (Some e) hasout run1)) = Some e /\
  snd (iter_run (query_iter (Some e) hasout run1) ops) = map (silent_out e) ops /\
  iter_rows_now (fst (iter_run (query_iter (Some e) hasout run1) ops)) = None.
Proof.
  intros run1 run2. split; [reflexivity|]. split; [reflexivity|]. split; [reflexivity|].
  destruct (iter_run_errored e ops _ (query_iter_errored e hasout run1)) as [[R [_ D]] O].
  split; [exact O|]. unfold iter_rows_now. rewrite R. exact D.
Qed.

(* --------------------------------------- (b) the validated map -- *)

Lemma t2v_get_none_notin m t : t2v_get m t = None -> ~ In t (map fst m).
Proof.
  induction m as [|[t' v] m IH]; cbn [t2v_get map fst]; intros H; [intros []|].
  destruct (Nat.eqb t t') eqn:E; [discriminate|]. apply Nat.eqb_neq in E.
  intros [H1|H1]; [congruence|]. apply IH in H. tauto.
Qed.

Lemma t2v_get_notin_none m t : ~ In t (map fst m) -> t2v_get m t = None.
Proof.
  induction m as [|[t' v] m IH]; cbn [t2v_get map fst]; intros H; [reflexivity|].
  destruct (Nat.eqb t t') eqn:E.
  - apply Nat.eqb_eq in E. subst. exfalso. apply H. left. reflexivity.
  - apply IH. intros HI. apply H. right. exact HI.
Qed.

Lemma t2v_get_some_in m t v : t2v_get m t = Some v -> In (t, v) m.
Proof.
  induction m as [|[t' v'] m IH]; cbn [t2v_get]; intros H; [discriminate|].
  destruct (Nat.eqb t t') eqn:E.
  - apply Nat.eqb_eq in E. subst. bok H. left. reflexivity.
  - right. apply IH. exact H.
Qed.

(* one step of ValidateInputs, inverted *)
Lemma validate_inputs_cons env a rest acc m :
  validate_inputs env (a :: rest) acc = BOk m ->
  exists t0 v0, a = AVal t0 v0 /\ validate_value env a = BOk tt /\
    container_kind (t_kind (tget env (fst (indirect env t0 v0)))) = true /\
    t2v_get acc (fst (indirect env t0 v0)) = None /\
    validate_inputs env rest (acc ++ [indirect env t0 v0]) = BOk m.
Proof.
  cbn [validate_inputs]. intros H.
  destruct (validate_value env a) as [[]|e] eqn:VV; cbn [bbind] in H; [|discriminate].
  destruct a as [|t0 v0]; [discriminate|]. exists t0, v0.
  destruct (indirect env t0 v0) as [t v]. cbn [fst].
  destruct (t2v_get acc t) eqn:G.
  - exfalso. binv H.
  - split; [reflexivity|]. split; [reflexivity|]. split; [|split; [reflexivity|]].
    + destruct (t_kind (tget env t)); try reflexivity; cbn [bbind] in H; discriminate.
    + binv H. exact H.
Qed.

Definition entry_of (env : tenv) (a : arg) (e : tid * val) : Prop :=
  exists t v, a = AVal t v /\ e = indirect env t v /\
              container_kind (t_kind (tget env (fst e))) = true.

Lemma validate_inputs_shape env args : forall acc m,
  validate_inputs env args acc = BOk m ->
  exists m', m = acc ++ m' /\ Forall2 (entry_of env) args m' /\
             (NoDup (map fst acc) -> NoDup (map fst m)).
Proof.
  induction args as [|a rest IH]; intros acc m H.
  - cbn [validate_inputs] in H. bok H. exists []. rewrite app_nil_r.
    split; [reflexivity|]. split; [constructor|auto].
  - apply validate_inputs_cons in H. destruct H as [t0 [v0 [-> [VV [K [G H]]]]]].
    apply IH in H. destruct H as [m' [-> [F ND]]].
    exists (indirect env t0 v0 :: m'). rewrite <- app_assoc. split; [reflexivity|].
    split.
    + constructor; [|exact F]. exists t0, v0. auto.
    + intros NDacc. rewrite <- app_assoc in ND. apply ND.
      rewrite map_app. cbn [map]. apply NoDup_app_single; [exact NDacc|].
      apply t2v_get_none_notin. exact G.
Qed.

(* the types under which the arguments are stored *)
Definition arg_type (env : tenv) (a : arg) : tid :=
  match a with AVal t v => fst (indirect env t v) | ANil => 0 end.

Lemma entries_types env args m :
  Forall2 (entry_of env) args m -> map fst m = map (arg_type env) args.
Proof.
  induction 1 as [|a e args m [t [v [-> [-> _]]]] F IH]; [reflexivity|].
  cbn [map arg_type]. rewrite IH. reflexivity.
Qed.

Lemma Forall2_len {A B} (R : A -> B -> Prop) l l' : Forall2 R l l' -> length l = length l'.
Proof. induction 1; simpl; congruence. Qed.

Theorem validate_inputs_accepts env args m :
  validate_inputs env args [] = BOk m ->
  NoDup (map fst m) /\ length m = length args /\ Forall2 (entry_of env) args m /\
  map fst m = map (arg_type env) args.
Proof.
  intros H. apply validate_inputs_shape in H. destruct H as [m' [-> [F ND]]]. cbn [app] in *.
  split; [apply ND; constructor|]. split; [symmetry; eapply Forall2_len; exact F|].
  split; [exact F|apply entries_types; exact F].
Qed.

(* ------------------------------------------- (a) rejections -- *)

(* an error of ValidateInputs is the error of BindInputs, whatever the statement *)
Lemma bind_inputs_validate_err env tbe args e :
  validate_inputs env args [] = BErr e -> bind_inputs env tbe args = BErr e.
Proof. intros H. unfold bind_inputs. rewrite H. reflexivity. Qed.

Lemma validate_inputs_each_valid env args : forall acc m,
  validate_inputs env args acc = BOk m -> forall a, In a args -> validate_value env a = BOk tt.
Proof.
  induction args as [|a0 rest IH]; intros acc m H a HI; [destruct HI|].
  apply validate_inputs_cons in H. destruct H as [t0 [v0 [E [VV [_ [_ H]]]]]].
  destruct HI as [<-|HI]; [exact VV|]. eapply IH; eassumption.
Qed.

Lemma reject_invalid_value env tbe args a e0 :
  In a args -> validate_value env a = BErr e0 -> exists e, bind_inputs env tbe args = BErr e.
Proof.
  intros HI VV. destruct (validate_inputs env args []) as [m|e] eqn:V.
  - pose proof (validate_inputs_each_valid _ _ _ _ V a HI). congruence.
  - exists e. apply bind_inputs_validate_err. exact V.
Qed.

Theorem reject_nil env tbe args :
  In ANil args -> exists e, bind_inputs env tbe args = BErr e.
Proof. intros HI. eapply reject_invalid_value; [exact HI|reflexivity]. Qed.

Theorem reject_nil_first env tbe rest : bind_inputs env tbe (ANil :: rest) = BErr ENilArg.
Proof. reflexivity. Qed.

Theorem reject_nil_pointer env tbe args t :
  In (AVal t VNilPtr) args -> t_kind (tget env t) = KPtr ->
  exists e, bind_inputs env tbe args = BErr e.
Proof.
  intros HI K. eapply reject_invalid_value; [exact HI|]. cbn [validate_value]. rewrite K. reflexivity.
Qed.

Theorem reject_nil_pointer_first env tbe rest t :
  t_kind (tget env t) = KPtr -> bind_inputs env tbe (AVal t VNilPtr :: rest) = BErr ENilPointer.
Proof.
  intros K. apply bind_inputs_validate_err. cbn [validate_inputs validate_value]. rewrite K. reflexivity.
Qed.

Theorem reject_nil_map env tbe args t entries :
  In (AVal t (VMap true entries)) args -> t_kind (tget env t) = KMap ->
  exists e, bind_inputs env tbe args = BErr e.
Proof.
  intros HI K. eapply reject_invalid_value; [exact HI|]. cbn [validate_value]. rewrite K. reflexivity.
Qed.

Theorem reject_nil_map_first env tbe rest t entries :
  t_kind (tget env t) = KMap -> bind_inputs env tbe (AVal t (VMap true entries) :: rest) = BErr ENilMap.
Proof.
  intros K. apply bind_inputs_validate_err. cbn [validate_inputs validate_value]. rewrite K. reflexivity.
Qed.

(* accepted arguments have pairwise different (indirected) types *)
Lemma validate_inputs_types_nodup env args m :
  validate_inputs env args [] = BOk m -> NoDup (map (arg_type env) args).
Proof.
  intros H. apply validate_inputs_accepts in H. destruct H as [ND [_ [_ E]]]. rewrite <- E. exact ND.
Qed.

Theorem reject_duplicate env tbe l1 a1 l2 a2 l3 :
  arg_type env a1 = arg_type env a2 ->
  exists e, bind_inputs env tbe (l1 ++ a1 :: l2 ++ a2 :: l3) = BErr e.
Proof.
  intros E. destruct (validate_inputs env (l1 ++ a1 :: l2 ++ a2 :: l3) []) as [m|e] eqn:V.
  - exfalso. apply validate_inputs_types_nodup in V. rewrite map_app in V. cbn [map] in V.
    apply NoDup_remove_2 in V. apply V. apply in_or_app. right.
    rewrite E. apply in_map. apply in_or_app. right. left. reflexivity.
  - exists e. apply bind_inputs_validate_err. exact V.
Qed.

(* the second of two arguments of one type is reported as a duplicate when it
   is what ValidateInputs meets first *)
Theorem reject_duplicate_adjacent env tbe t v v' rest :
  is_struct_or_map (t_kind (tget env t)) = true -> t_name (tget env t) <> [] ->
  validate_value env (AVal t v) = BOk tt -> validate_value env (AVal t v') = BOk tt ->
  slice_of env t = None -> ptr_to env t = None ->
  bind_inputs env tbe (AVal t v :: AVal t v' :: rest) = BErr EDupArg.
Proof.
  intros K Nm V1 V2 S P. apply bind_inputs_validate_err.
  assert (forall w, indirect env t w = (t, w)) as I.
  { intros w. unfold indirect. destruct (t_kind (tget env t)); try reflexivity; discriminate K. }
  cbn [validate_inputs]. rewrite V1. cbn [bbind]. rewrite I.
  destruct (t_name (tget env t)) as [|c nm] eqn:N; [congruence|].
  rewrite S, P. cbn [t2v_has_opt t2v_get app].
  destruct (t_kind (tget env t)) eqn:K'; try discriminate K; cbn [bbind];
    rewrite V2; cbn [bbind]; rewrite I, K', N, S, P; cbn [t2v_has_opt bbind t2v_get];
    rewrite Nat.eqb_refl; reflexivity.
Qed.

(* ---- the locators of a statement and where they are located -- *)

Definition tcol_locators (c : tcol) : list locator :=
  match c with TCIns l _ _ => [l] | TCLit _ _ => [] end.

Definition input_locators (e : texpr) : list locator :=
  match e with
  | TInput l => [l]
  | TInsert cols => flat_map tcol_locators cols
  | _ => []
  end.

Definition located (env : tenv) (m : t2v) (ls : list locator) (t : tid) : Prop :=
  exists l p, In l ls /\ locate_params env l m = BOk p /\ p_argtype p = t.

Lemma located_incl env m ls ls' t : incl ls ls' -> located env m ls t -> located env m ls' t.
Proof. intros I [l [p [HI H]]]. exists l, p. split; [apply I; exact HI|exact H]. Qed.

Lemma bind_col_used env m cnt c bc cnt' :
  bind_col env m cnt c = BOk (bc, cnt') ->
  (forall l, In l (tcol_locators c) -> exists p, locate_params env l m = BOk p) /\
  (forall t, bc_argtype bc = Some t -> located env m (tcol_locators c) t).
Proof.
  destruct c as [input column explicit|column literal]; cbn [bind_col tcol_locators]; intros H.
  - destruct (locate_params env input m) as [p|e] eqn:LP; cbn [bbind] in H; [|discriminate].
    split.
    + intros l [<-|[]]. exists p. exact LP.
    + intros t Ht. exists input, p. split; [left; reflexivity|]. split; [exact LP|].
      destruct (negb (p_bulk p) && Nat.ltb 1 (length (p_vals p))); [discriminate|].
      destruct (p_omit p && explicit); [discriminate|].
      destruct (p_omit p); bok H; cbn [bc_argtype] in Ht; congruence.
  - bok H. split; [intros l []|]. intros t Ht. discriminate Ht.
Qed.

Lemma bind_cols_used env m cols : forall cnt used bulk nr acc bcs cnt1 used1 nr1,
  bind_cols env m cnt used cols bulk nr acc = BOk (bcs, cnt1, used1, nr1) ->
  (forall l, In l (flat_map tcol_locators cols) -> exists p, locate_params env l m = BOk p) /\
  (forall t, In t used1 -> In t used \/ located env m (flat_map tcol_locators cols) t).
Proof.
  induction cols as [|c rest IH]; intros cnt used bulk nr acc bcs cnt1 used1 nr1 H; cbn [bind_cols] in H.
  - bok H. split; [intros l []|]. intros t Ht. left. exact Ht.
  - destruct (bind_col env m cnt c) as [[bc cnt']|e] eqn:BC; cbn [bbind] in H; [|discriminate].
    apply bind_col_used in BC. destruct BC as [BL BU].
    assert (exists bulk' nr' , bind_cols env m cnt'
              match bc_argtype bc with Some t => t :: used | None => used end
              rest bulk' nr' (acc ++ [bc]) = BOk (bcs, cnt1, used1, nr1)) as [bulk' [nr' H']].
    { destruct (bc_bulk bc); [|eauto]. destruct (negb bulk); [eauto|].
      destruct (negb (Nat.eqb (length (bc_vals bc)) nr)); [discriminate|eauto]. }
    apply IH in H'. destruct H' as [RL RU]. cbn [flat_map]. split.
    + intros l HI. apply in_app_or in HI. destruct HI as [HI|HI]; [apply BL|apply RL]; exact HI.
    + intros t Ht. apply RU in Ht. destruct Ht as [Ht|Ht].
      * destruct (bc_argtype bc) as [t'|] eqn:AT; [|left; exact Ht].
        destruct Ht as [<-|Ht]; [|left; exact Ht].
        right. eapply located_incl; [|apply BU; reflexivity]. apply incl_appl, incl_refl.
      * right. eapply located_incl; [|exact Ht]. apply incl_appr, incl_refl.
Qed.

Lemma add_to_query_used env m q e q' :
  add_to_query env m q e = BOk q' ->
  (forall l, In l (input_locators e) -> exists p, locate_params env l m = BOk p) /\
  (forall t, In t (q_argUsed q') -> In t (q_argUsed q) \/ located env m (input_locators e) t).
Proof.
  destruct e as [chunk|input|cols|ocs]; cbn [add_to_query input_locators]; intros H.
  - bok H. split; [intros l []|]. intros t Ht. left. exact Ht.
  - destruct (locate_params env input m) as [p|e] eqn:LP; cbn [bbind] in H; [|discriminate].
    split; [intros l [<-|[]]; exists p; exact LP|].
    destruct (p_omit p); [discriminate|]. destruct (p_bulk p); [discriminate|]. bok H.
    intros t Ht. cbn in Ht. destruct Ht as [<-|Ht]; [|left; exact Ht].
    right. exists input, p. split; [left; reflexivity|]. split; [exact LP|reflexivity].
  - binv H. bok H. apply bind_cols_used in E. exact E.
  - bok H. split; [intros l []|]. intros t Ht. left. exact Ht.
Qed.

Lemma add_all_used env m es : forall q q',
  add_all env m q es = BOk q' ->
  (forall l, In l (flat_map input_locators es) -> exists p, locate_params env l m = BOk p) /\
  (forall t, In t (q_argUsed q') ->
     In t (q_argUsed q) \/ located env m (flat_map input_locators es) t).
Proof.
  induction es as [|e rest IH]; intros q q' H; cbn [add_all] in H.
  - bok H. split; [intros l []|]. intros t Ht. left. exact Ht.
  - binv H. apply add_to_query_used in E. destruct E as [EL EU].
    apply IH in H. destruct H as [RL RU]. cbn [flat_map]. split.
    + intros l HI. apply in_app_or in HI. destruct HI as [HI|HI]; [apply EL|apply RL]; exact HI.
    + intros t Ht. apply RU in Ht. destruct Ht as [Ht|Ht].
      * apply EU in Ht. destruct Ht as [Ht|Ht]; [left; exact Ht|].
        right. eapply located_incl; [|exact Ht]. apply incl_appl, incl_refl.
      * right. eapply located_incl; [|exact Ht]. apply incl_appr, incl_refl.
Qed.

Lemma bind_inputs_inv env tbe args pq :
  bind_inputs env tbe args = BOk pq ->
  exists m q, validate_inputs env args [] = BOk m /\ add_all env m qb_init tbe = BOk q /\
    forallb (fun '(t, _) => existsb (Nat.eqb t) (q_argUsed q)) m = true.
Proof.
  unfold bind_inputs. intros H. binv H. exists a, a0. auto.
Qed.

(* on success: every locator of the statement finds its argument, and every
   argument is the argument of some locator of the statement *)
Theorem bind_inputs_accepts env tbe args pq :
  bind_inputs env tbe args = BOk pq ->
  exists m, validate_inputs env args [] = BOk m /\
    (forall l, In l (flat_map input_locators tbe) -> exists p, locate_params env l m = BOk p) /\
    (forall t, In t (map (arg_type env) args) -> located env m (flat_map input_locators tbe) t).
Proof.
  intros H. apply bind_inputs_inv in H. destruct H as [m [q [V [A U]]]].
  exists m. split; [exact V|]. apply add_all_used in A. destruct A as [AL AU].
  split; [exact AL|]. intros t Ht.
  apply validate_inputs_accepts in V. destruct V as [_ [_ [_ E]]]. rewrite <- E in Ht.
  apply in_map_iff in Ht. destruct Ht as [[t' v] [<- HI]].
  rewrite forallb_forall in U. apply U in HI. apply existsb_exists in HI.
  destruct HI as [x [HI EQ]]. apply Nat.eqb_eq in EQ. subst x.
  apply AU in HI. destruct HI as [[]|HI]. exact HI.
Qed.

(* an argument whose type no input of the statement uses *)
Theorem reject_unused env tbe args m t :
  validate_inputs env args [] = BOk m -> In t (map (arg_type env) args) ->
  ~ located env m (flat_map input_locators tbe) t ->
  (exists e, bind_inputs env tbe args = BErr e) /\
  (forall q, add_all env m qb_init tbe = BOk q -> bind_inputs env tbe args = BErr ENotUsed).
Proof.
  intros V HI NL. assert (forall pq, bind_inputs env tbe args <> BOk pq) as NOK.
  { intros pq H. apply bind_inputs_accepts in H. destruct H as [m' [V' [_ L]]].
    rewrite V in V'. bok V'. apply NL. apply L. exact HI. }
  split.
  - destruct (bind_inputs env tbe args) as [pq|e]; [exfalso; eapply NOK; reflexivity|eauto].
  - intros q A. unfold bind_inputs in *. rewrite V in *. cbn [bbind] in *. rewrite A in *. cbn [bbind] in *.
    match goal with |- (if ?c then _ else _) = _ => destruct c end;
      [exfalso; eapply NOK; reflexivity|reflexivity].
Qed.

(* a locator of the statement that cannot be located *)
Theorem reject_unlocatable env tbe args m l e0 :
  validate_inputs env args [] = BOk m -> In l (flat_map input_locators tbe) ->
  locate_params env l m = BErr e0 -> exists e, bind_inputs env tbe args = BErr e.
Proof.
  intros V HI LP. destruct (bind_inputs env tbe args) as [pq|e] eqn:B; [|eauto].
  exfalso. apply bind_inputs_accepts in B. destruct B as [m' [V' [L _]]].
  rewrite V in V'. bok V'. destruct (L l HI) as [p Hp]. congruence.
Qed.

(* the first failing expression determines the error *)
Lemma add_all_app_err env m pre : forall q q1 e post err,
  add_all env m q pre = BOk q1 -> add_to_query env m q1 e = BErr err ->
  add_all env m q (pre ++ e :: post) = BErr err.
Proof.
  induction pre as [|x pre IH]; intros q q1 e post err H1 H2; cbn [add_all app] in *.
  - bok H1. rewrite H2. reflexivity.
  - destruct (add_to_query env m q x) as [q'|e'] eqn:A; cbn [bbind] in *; [|discriminate].
    eapply IH; eassumption.
Qed.

Theorem bind_inputs_first_error env args m pre q e post err :
  validate_inputs env args [] = BOk m -> add_all env m qb_init pre = BOk q ->
  add_to_query env m q e = BErr err -> bind_inputs env (pre ++ e :: post) args = BErr err.
Proof.
  intros V A E. unfold bind_inputs. rewrite V. cbn [bbind].
  rewrite (add_all_app_err _ _ _ _ _ _ _ _ A E). reflexivity.
Qed.

(* the slice types under which a bulk argument for t can be given: []T, []*T *)
Definition bulk_type (env : tenv) (t st : tid) : Prop :=
  slice_of env t = Some st \/ exists p, ptr_to env t = Some p /\ slice_of env p = Some st.

Lemma locate_bulk_none env m t :
  (forall st, bulk_type env t st -> ~ In st (map fst m)) -> locate_bulk env m t = None.
Proof.
  intros H. unfold locate_bulk.
  assert (forall st, slice_of env t = Some st -> t2v_get m st = None) as A.
  { intros st S. apply t2v_get_notin_none. apply H. left. exact S. }
  assert (forall p st, ptr_to env t = Some p -> slice_of env p = Some st -> t2v_get m st = None) as B.
  { intros p st P S. apply t2v_get_notin_none. apply H. right. exists p. auto. }
  destruct (slice_of env t) as [st|].
  - rewrite (A st eq_refl). destruct (ptr_to env t) as [p|]; [|reflexivity].
    destruct (slice_of env p) as [spt|] eqn:S; [|reflexivity]. rewrite (B p spt eq_refl S). reflexivity.
  - destruct (ptr_to env t) as [p|]; [|reflexivity].
    destruct (slice_of env p) as [spt|] eqn:S; [|reflexivity]. rewrite (B p spt eq_refl S). reflexivity.
Qed.

Lemma locate_params_missing env m l :
  ~ In (loc_argtype l) (map fst m) ->
  (forall st, bulk_type env (loc_argtype l) st -> ~ In st (map fst m)) ->
  locate_params env l m = BErr (value_not_found env m (loc_argtype l)).
Proof.
  intros N B. apply t2v_get_notin_none in N. apply locate_bulk_none in B.
  destruct l as [f|mt key|st]; cbn [locate_params loc_argtype] in *; rewrite N; try rewrite B; reflexivity.
Qed.

(* ESameNameArg exactly when some argument's type has the missing type's name *)
Lemma value_not_found_cases env m t :
  (value_not_found env m t = ESameNameArg /\
   exists t', In t' (map fst m) /\ t_name (tget env t') = t_name (tget env t)) \/
  (value_not_found env m t = EArgMissing /\
   forall t', In t' (map fst m) -> t_name (tget env t') <> t_name (tget env t)).
Proof.
  unfold value_not_found.
  destruct (existsb (fun '(t0, _) => str_eqb (t_name (tget env t0)) (t_name (tget env t))) m) eqn:E.
  - left. split; [reflexivity|]. apply existsb_exists in E. destruct E as [[t' v] [HI EQ]].
    exists t'. split; [apply (in_map fst) in HI; exact HI|apply str_eqb_eq; exact EQ].
  - right. split; [reflexivity|]. intros t' HI EQ. apply in_map_iff in HI.
    destruct HI as [[t'' v] [<- HI]]. cbn [fst] in EQ.
    assert (existsb (fun '(t0, _) => str_eqb (t_name (tget env t0)) (t_name (tget env t))) m = true) as T.
    { apply existsb_exists. exists (t'', v). split; [exact HI|]. rewrite EQ. apply str_eqb_refl. }
    congruence.
Qed.

(* a missing argument: the statement has an input of a type for which there is
   neither an argument nor a slice of it *)
Theorem reject_missing env tbe args l :
  In l (flat_map input_locators tbe) ->
  ~ In (loc_argtype l) (map (arg_type env) args) ->
  (forall st, bulk_type env (loc_argtype l) st -> ~ In st (map (arg_type env) args)) ->
  exists e, bind_inputs env tbe args = BErr e.
Proof.
  intros HI N B. destruct (validate_inputs env args []) as [m|e] eqn:V.
  - pose proof (validate_inputs_accepts _ _ _ V) as [_ [_ [_ E]]]. rewrite <- E in N, B.
    eapply reject_unlocatable; [exact V|exact HI|apply locate_params_missing; assumption].
  - exists e. apply bind_inputs_validate_err. exact V.
Qed.

(* the error is "missing" (or "same name") when this input is the first to fail *)
Theorem reject_missing_first env args m pre q l post :
  validate_inputs env args [] = BOk m -> add_all env m qb_init pre = BOk q ->
  ~ In (loc_argtype l) (map (arg_type env) args) ->
  (forall st, bulk_type env (loc_argtype l) st -> ~ In st (map (arg_type env) args)) ->
  bind_inputs env (pre ++ TInput l :: post) args = BErr (value_not_found env m (loc_argtype l)).
Proof.
  intros V A N B. eapply bind_inputs_first_error; [exact V|exact A|].
  pose proof (validate_inputs_accepts _ _ _ V) as [_ [_ [_ E]]]. rewrite <- E in N, B.
  cbn [add_to_query]. rewrite (locate_params_missing _ _ _ N B). reflexivity.
Qed.

Lemma t2v_get_in m t v : NoDup (map fst m) -> In (t, v) m -> t2v_get m t = Some v.
Proof.
  induction m as [|[t' v'] m IH]; intros ND HI; [destruct HI|].
  cbn [map fst] in ND. inversion ND; subst. cbn [t2v_get]. destruct HI as [HI|HI].
  - bok HI. rewrite Nat.eqb_refl. reflexivity.
  - destruct (Nat.eqb t t') eqn:E; [|apply IH; assumption].
    apply Nat.eqb_eq in E. subst. exfalso. apply H1. apply (in_map fst) in HI. exact HI.
Qed.

Lemma Forall2_in_l {A B} (R : A -> B -> Prop) l l' a :
  Forall2 R l l' -> In a l -> exists b, In b l' /\ R a b.
Proof.
  induction 1 as [|x y l l' Rxy F IH]; intros HI; [destruct HI|].
  destruct HI as [<-|HI]; [exists y; split; [left; reflexivity|exact Rxy]|].
  destruct (IH HI) as [b [Hb Rb]]. exists b. split; [right; exact Hb|exact Rb].
Qed.

(* a validated argument is found under its indirected type *)
Lemma validated_arg_found env args m t v :
  validate_inputs env args [] = BOk m -> In (AVal t v) args ->
  t2v_get m (fst (indirect env t v)) = Some (snd (indirect env t v)).
Proof.
  intros V HI. apply validate_inputs_accepts in V. destruct V as [ND [_ [F _]]].
  destruct (Forall2_in_l _ _ _ _ F HI) as [e [He [t' [v' [E1 [E2 _]]]]]]. bok E1.
  apply t2v_get_in; [exact ND|]. destruct (indirect env t' v'); exact He.
Qed.

Lemma locate_map_no_key env m mt mv key :
  t2v_get m mt = Some mv -> map_index mv key = None ->
  locate_params env (LMapKey mt key) m = BErr EMapNoKey.
Proof. intros G I. cbn [locate_params]. rewrite G, I. reflexivity. Qed.

(* a map argument lacking a key the statement refers to *)
Theorem reject_map_no_key env tbe args t v mt mv key :
  In (LMapKey mt key) (flat_map input_locators tbe) ->
  In (AVal t v) args -> indirect env t v = (mt, mv) -> map_index mv key = None ->
  exists e, bind_inputs env tbe args = BErr e.
Proof.
  intros HL HA I MI. destruct (validate_inputs env args []) as [m|e] eqn:V.
  - eapply reject_unlocatable; [exact V|exact HL|]. apply locate_map_no_key with (mv := mv); [|exact MI].
    pose proof (validated_arg_found _ _ _ _ _ V HA) as G. rewrite I in G. exact G.
  - exists e. apply bind_inputs_validate_err. exact V.
Qed.

Theorem reject_map_no_key_first env args m pre q post t v mt mv key :
  validate_inputs env args [] = BOk m -> add_all env m qb_init pre = BOk q ->
  In (AVal t v) args -> indirect env t v = (mt, mv) -> map_index mv key = None ->
  bind_inputs env (pre ++ TInput (LMapKey mt key) :: post) args = BErr EMapNoKey.
Proof.
  intros V A HA I MI. eapply bind_inputs_first_error; [exact V|exact A|].
  pose proof (validated_arg_found _ _ _ _ _ V HA) as G. rewrite I in G. cbn [fst snd] in G.
  cbn [add_to_query]. rewrite (locate_map_no_key _ _ _ _ _ G MI). reflexivity.
Qed.

(* ---- a type together with its slice -- *)

Definition arg_check (env : tenv) (acc : t2v) (t : tid) : bres unit :=
  let d := tget env t in
  match t_kind d with
  | KMap | KStruct =>
      match t_name d with
      | [] => BErr EAnonymousArg
      | _ =>
          if t2v_has_opt acc (slice_of env t) then BErr ETypeAndSlice
          else if t2v_has_opt acc (match ptr_to env t with
                                   | Some p => slice_of env p
                                   | None => None
                                   end) then BErr ETypeAndSlice
          else BOk tt
      end
  | KSlice =>
      let e := t_elem d in
      let unnamed := match t_name d with [] => true | _ => false end in
      match t_kind (tget env e) with
      | KMap | KStruct =>
          if unnamed && t2v_has_opt acc (Some e) then BErr ETypeAndSlice else BOk tt
      | KPtr =>
          if unnamed && t2v_has_opt acc (Some (t_elem (tget env e))) then BErr ETypeAndSlice
          else BOk tt
      | _ => if unnamed then BErr EAnonymousSlice else BOk tt
      end
  | _ => BErr EUnsupportedArg
  end.

Lemma validate_inputs_cons_check env t0 v0 rest acc m :
  validate_inputs env (AVal t0 v0 :: rest) acc = BOk m ->
  arg_check env acc (fst (indirect env t0 v0)) = BOk tt.
Proof.
  cbn [validate_inputs]. intros H.
  destruct (validate_value env (AVal t0 v0)) as [[]|e]; cbn [bbind] in H; [|discriminate].
  destruct (indirect env t0 v0) as [t v]. cbn [fst].
  fold (arg_check env acc t) in H. destruct (arg_check env acc t) as [[]|e]; [reflexivity|discriminate].
Qed.

Lemma validate_inputs_split env l1 : forall a l2 acc m,
  validate_inputs env (l1 ++ a :: l2) acc = BOk m ->
  exists acc', validate_inputs env (a :: l2) acc' = BOk m /\
               map fst acc' = map fst acc ++ map (arg_type env) l1.
Proof.
  induction l1 as [|x l1 IH]; intros a l2 acc m H; cbn [app] in H.
  - exists acc. split; [exact H|]. cbn [map]. rewrite app_nil_r. reflexivity.
  - apply validate_inputs_cons in H. destruct H as [t0 [v0 [-> [_ [_ [_ H]]]]]].
    apply IH in H. destruct H as [acc' [H E]]. exists acc'. split; [exact H|].
    rewrite E, map_app. cbn [map arg_type]. rewrite <- app_assoc. reflexivity.
Qed.

Lemma find_type_spec p env : forall i j,
  find_type p env i = Some j -> exists k, j = i + k /\ p (nth k env dummy_tdef) = true.
Proof.
  induction env as [|d env IH]; intros i j H; cbn [find_type] in H; [discriminate|].
  destruct (p d) eqn:P.
  - bok H. exists 0. split; [lia|exact P].
  - apply IH in H. destruct H as [k [-> Pk]]. exists (S k). split; [lia|exact Pk].
Qed.

Lemma slice_of_spec env t st :
  slice_of env t = Some st ->
  t_kind (tget env st) = KSlice /\ t_name (tget env st) = [] /\ t_elem (tget env st) = t.
Proof.
  unfold slice_of. intros H. apply find_type_spec in H. destruct H as [k [-> P]]. cbn [plus].
  unfold tget. destruct (nth k env dummy_tdef) as [kd nm fs el ks sc]. cbn in *.
  apply andb_prop in P. destruct P as [P P3]. apply andb_prop in P. destruct P as [P1 P2].
  apply Nat.eqb_eq in P3. destruct kd; try discriminate P1. destruct nm; [|discriminate P2]. auto.
Qed.

Lemma ptr_to_spec env t p :
  ptr_to env t = Some p -> t_kind (tget env p) = KPtr /\ t_elem (tget env p) = t.
Proof.
  unfold ptr_to. intros H. apply find_type_spec in H. destruct H as [k [-> P]]. cbn [plus].
  unfold tget. destruct (nth k env dummy_tdef) as [kd nm fs el ks sc]. cbn in *.
  apply andb_prop in P. destruct P as [P P3]. apply andb_prop in P. destruct P as [P1 P2].
  apply Nat.eqb_eq in P3. destruct kd; try discriminate P1. auto.
Qed.

Lemma t2v_has_in acc t : In t (map fst acc) -> t2v_has_opt acc (Some t) = true.
Proof.
  intros HI. cbn [t2v_has_opt]. destruct (t2v_get acc t) eqn:G; [reflexivity|].
  apply t2v_get_none_notin in G. tauto.
Qed.

(* the slice arrives when the type is there *)
Lemma arg_check_slice_after_type env acc t st :
  is_struct_or_map (t_kind (tget env t)) = true -> bulk_type env t st ->
  In t (map fst acc) -> arg_check env acc st = BErr ETypeAndSlice.
Proof.
  intros K [S|[p [P S]]] HI; apply slice_of_spec in S; destruct S as [S1 [S2 S3]];
    unfold arg_check; rewrite S1, S2, S3.
  - destruct (t_kind (tget env t)); try discriminate K; rewrite (t2v_has_in _ _ HI); reflexivity.
  - apply ptr_to_spec in P. destruct P as [P1 P2]. rewrite P1, P2, (t2v_has_in _ _ HI). reflexivity.
Qed.

(* the type arrives when the slice is there *)
Lemma arg_check_type_after_slice env acc t st :
  is_struct_or_map (t_kind (tget env t)) = true -> bulk_type env t st ->
  In st (map fst acc) -> exists e, arg_check env acc t = BErr e.
Proof.
  intros K B HI. unfold arg_check.
  destruct (t_kind (tget env t)); try discriminate K;
    (destruct (t_name (tget env t)); [eauto|];
     destruct B as [S|[p [P S]]];
     [rewrite S, (t2v_has_in _ _ HI); eauto
     |rewrite P, S, (t2v_has_in _ _ HI); destruct (t2v_has_opt acc (slice_of env t)); eauto]).
Qed.

Lemma indirect_not_ptr env t v : t_kind (tget env t) <> KPtr -> indirect env t v = (t, v).
Proof. intros K. unfold indirect. destruct (t_kind (tget env t)); try reflexivity. congruence. Qed.

Theorem reject_type_and_slice env tbe args t v st sv :
  In (AVal t v) args -> In (AVal st sv) args ->
  is_struct_or_map (t_kind (tget env t)) = true -> bulk_type env t st ->
  exists e, bind_inputs env tbe args = BErr e.
Proof.
  intros H1 H2 K B. destruct (validate_inputs env args []) as [m|e] eqn:V;
    [exfalso|exists e; apply bind_inputs_validate_err; exact V].
  assert (t_kind (tget env st) = KSlice) as KS.
  { destruct B as [S|[p [_ S]]]; apply slice_of_spec in S; tauto. }
  assert (indirect env t v = (t, v)) as I1.
  { apply indirect_not_ptr. destruct (t_kind (tget env t)); try discriminate K; discriminate. }
  assert (indirect env st sv = (st, sv)) as I2.
  { apply indirect_not_ptr. rewrite KS. discriminate. }
  assert (forall l1 l2 acc, validate_inputs env (l1 ++ AVal st sv :: l2) acc = BOk m ->
            In (AVal t v) l1 -> False) as CaseA.
  { intros l1 l2 acc H HI. apply validate_inputs_split in H. destruct H as [acc' [H E]].
    apply validate_inputs_cons_check in H. rewrite I2 in H. cbn [fst] in H.
    rewrite (arg_check_slice_after_type env acc' t st K B) in H; [discriminate|].
    rewrite E. apply in_or_app. right. apply (in_map (arg_type env)) in HI.
    cbn [arg_type] in HI. rewrite I1 in HI. exact HI. }
  assert (forall l1 l2 acc, validate_inputs env (l1 ++ AVal t v :: l2) acc = BOk m ->
            In (AVal st sv) l1 -> False) as CaseB.
  { intros l1 l2 acc H HI. apply validate_inputs_split in H. destruct H as [acc' [H E]].
    apply validate_inputs_cons_check in H. rewrite I1 in H. cbn [fst] in H.
    destruct (arg_check_type_after_slice env acc' t st K B) as [e He]; [|congruence].
    rewrite E. apply in_or_app. right. apply (in_map (arg_type env)) in HI.
    cbn [arg_type] in HI. rewrite I2 in HI. exact HI. }
  apply in_split in H1. destruct H1 as [l1 [l2 ->]].
  apply in_app_or in H2. destruct H2 as [H2|[H2|H2]].
  - eapply CaseB; eassumption.
  - bok H2. destruct (t_kind (tget env st)); try discriminate K; discriminate KS.
  - apply in_split in H2. destruct H2 as [l3 [l4 ->]].
    apply (CaseA (l1 ++ AVal t v :: l3) l4 []).
    + rewrite <- app_assoc. exact V.
    + apply in_or_app. right. left. reflexivity.
Qed.
