(* The insert/select round trip through the miniature SQL engine (C17):
   which field types survive it, one row through rows.Scan, and the scan side
   of the round trip for one row. *)
From Coq Require Import String Permutation.
From SQLair.Base Require Import Bytes Sexp.
From SQLair.Model Require Import GenConsts Reflect TypeInfo Parser Bind Scan MiniSql.
From SQLair.Proofs Require Import ItoaFacts BindFacts InsertView PathFacts.

(* ------------------------------------------------- storable field types -- *)

(* the kinds convertAssign fills from an integer driver value *)
Definition scalar_name (n : str) : bool :=
  negb (str_eqb n (lit "interface")) &&
  (str_eqb n (lit "bool") || existsb (fun k => str_eqb n (lit k)) scalar_kinds).

(* a type whose values are leaves for the driver: a sql.Scanner, or a scalar
   kind *)
Definition leaf_type (env : tenv) (ft : tid) : bool :=
  let d := tget env ft in
  t_scanner d || match t_kind d with KOther n => scalar_name n | _ => false end.

(* a field type the round trip supports: a leaf type, or a pointer to one *)
Definition storable (env : tenv) (ft : tid) : bool :=
  let d := tget env ft in
  leaf_type env ft ||
  match t_kind d with KPtr => leaf_type env (t_elem d) | _ => false end.

Definition is_bool (env : tenv) (ft : tid) : bool :=
  let d := tget env ft in negb (t_scanner d) && kind_other_is (t_kind d) "bool".

(* a well-formed leaf of type ft: the zero flag says whether it is the zero
   value (identity 0), a bool is 0 or 1 *)
Definition leaf_fits (env : tenv) (ft : tid) (x : val) : bool :=
  match x with
  | VLeaf id z => Bool.eqb z (N.eqb id 0) && (if is_bool env ft then N.leb id 1 else true)
  | _ => false
  end.

(* a value of a storable type *)
Definition fits (env : tenv) (ft : tid) (x : val) : bool :=
  if leaf_type env ft then leaf_fits env ft x
  else
    match x with
    | VNilPtr => true
    | VPtr y => leaf_fits env (t_elem (tget env ft)) y
    | _ => false
    end.

(* ------------------------------------ what rows.Scan stores for a column -- *)

Definition proxy (env : tenv) (ft : tid) : bool :=
  negb (kind_eqb (t_kind (tget env ft)) KPtr) && negb (t_scanner (tget env ft)).

(* the value that ends up in a field of type ft for the driver value c: a
   non-pointer, non-Scanner field goes through a pointer proxy (NULL gives the
   zero value), the others are converted directly *)
Definition scan_value (env : tenv) (ft : tid) (c : cell) : option val :=
  if proxy env ft then
    match c with
    | CNull => Some (zero_val scan_fuel env ft)
    | _ => conv scan_fuel env ft c
    end
  else conv scan_fuel env ft c.

Lemma conv_unfold f env t c :
  conv (S f) env t c =
  let d := tget env t in
  if t_scanner d then Some (leaf_of c)
  else
    match t_kind d with
    | KPtr =>
        match c with
        | CNull => Some VNilPtr
        | _ => option_map VPtr (conv f env (t_elem d) c)
        end
    | KOther n =>
        if str_eqb n (lit "interface") then Some (leaf_of c)
        else if str_eqb n (lit "bool") then
          match c with
          | CInt id => if N.leb id 1 then Some (leaf_of c) else None
          | CNull => None
          end
        else if existsb (fun k => str_eqb n (lit k)) scalar_kinds then
          match c with
          | CInt _ => Some (leaf_of c)
          | CNull => None
          end
        else None
    | KSlice =>
        if kind_other_is (t_kind (tget env (t_elem d))) "uint8" && str_eqb (t_name d) [] then
          match c with
          | CNull => Some (VSlice true [])
          | CInt id => Some (VSlice false (map (fun b => VLeaf b (N.eqb b 0)) (itoa id)))
          end
        else None
    | _ => None
    end.
Proof. reflexivity. Qed.

Lemma leaf_fits_inv env ft x :
  leaf_fits env ft x = true ->
  exists id, x = VLeaf id (N.eqb id 0) /\ (is_bool env ft = true -> N.leb id 1 = true).
Proof.
  destruct x as [id z| | | | | |]; simpl; try discriminate. intros H.
  apply andb_prop in H. destruct H as [Hz Hb]. apply eqb_prop in Hz. subst z.
  exists id. split; [reflexivity|]. intros B. rewrite B in Hb. exact Hb.
Qed.

(* an integer driver value converts to the leaf with that identity *)
Lemma conv_leaf f env ft id :
  leaf_type env ft = true -> (is_bool env ft = true -> N.leb id 1 = true) ->
  conv (S f) env ft (CInt id) = Some (VLeaf id (N.eqb id 0)).
Proof.
  unfold leaf_type, is_bool. intros L B. rewrite conv_unfold. cbv zeta.
  destruct (t_scanner (tget env ft)); [reflexivity|]. cbn [orb negb andb] in L, B.
  destruct (t_kind (tget env ft)) as [| | | |n]; try discriminate.
  unfold scalar_name in L. apply andb_prop in L. destruct L as [L1 L2].
  apply negb_true_iff in L1. rewrite L1.
  unfold kind_other_is in B.
  destruct (str_eqb n (lit "bool")) eqn:Eb.
  - rewrite (B eq_refl). reflexivity.
  - cbn [orb] in L2. rewrite L2. reflexivity.
Qed.

Lemma zero_val_leaf env ft :
  proxy env ft = true -> leaf_type env ft = true -> zero_val scan_fuel env ft = VLeaf 0 true.
Proof.
  unfold proxy, leaf_type. intros P L. apply andb_prop in P. destruct P as [P1 P2].
  apply negb_true_iff in P2. rewrite P2 in L. cbn [orb] in L.
  change scan_fuel with (S 15). cbn [zero_val]. rewrite P2.
  destruct (t_kind (tget env ft)); try discriminate. reflexivity.
Qed.

(* The heart of the round trip, for one field: the driver value database/sql
   derives from a field value of a storable type (or NULL when the column was
   omitted, which happens for zero values only) is scanned back to exactly
   that field value. *)
Lemma field_value_roundtrip env ft fv (om : bool) :
  storable env ft = true -> fits env ft fv = true -> (om = true -> is_zero fv = true) ->
  exists c, to_cell fv = Some c /\ scan_value env ft (if om then CNull else c) = Some fv.
Proof.
  unfold storable, fits. intros St Fi Om.
  destruct (leaf_type env ft) eqn:L.
  - (* a leaf *)
    destruct (leaf_fits_inv _ _ _ Fi) as [id [E B]]. subst fv.
    exists (CInt id). split; [reflexivity|].
    unfold scan_value. destruct (proxy env ft) eqn:P.
    + destruct om.
      * specialize (Om eq_refl). simpl in Om. apply N.eqb_eq in Om. subst id.
        rewrite (zero_val_leaf _ _ P L). reflexivity.
      * change scan_fuel with (S 15). apply conv_leaf; assumption.
    + destruct om.
      * specialize (Om eq_refl). simpl in Om. apply N.eqb_eq in Om. subst id.
        change scan_fuel with (S 15). rewrite conv_unfold. cbv zeta.
        unfold proxy in P. unfold leaf_type in L.
        destruct (t_scanner (tget env ft)); [reflexivity|].
        cbn [orb negb andb] in P, L. rewrite andb_true_r in P. apply negb_false_iff in P.
        destruct (t_kind (tget env ft)); try discriminate.
      * change scan_fuel with (S 15). apply conv_leaf; assumption.
  - (* a pointer to a leaf *)
    cbn [orb] in St.
    assert (Sc : t_scanner (tget env ft) = false).
    { unfold leaf_type in L. apply orb_false_iff in L. tauto. }
    destruct (t_kind (tget env ft)) eqn:K; try discriminate.
    assert (P : proxy env ft = false) by (unfold proxy; rewrite K; reflexivity).
    unfold scan_value. rewrite P. change scan_fuel with (S 15).
    destruct fv as [| |y| | | |]; try discriminate.
    + exists CNull. split; [reflexivity|].
      assert (E : (if om then CNull else CNull) = CNull) by (destruct om; reflexivity).
      rewrite E, conv_unfold. cbv zeta. rewrite Sc, K. reflexivity.
    + destruct (leaf_fits_inv _ _ _ Fi) as [id [E B]]. subst y.
      exists (CInt id). split; [reflexivity|].
      destruct om; [specialize (Om eq_refl); discriminate|].
      rewrite conv_unfold. cbv zeta. rewrite Sc, K.
      rewrite (conv_leaf 14 env _ id St B). reflexivity.
Qed.

(* ------------------------------------------------------------ rows.Scan -- *)

Definition target_of (env : tenv) (t : tid) (ty : sfield -> tid) (f : sfield) : target :=
  if proxy env (ty f) then TProxyField t (sf_index f) (ty f) else TDirect t (sf_index f) (ty f).

Definition pend_of (t : tid) (xv : sfield -> val) (f : sfield) : pending :=
  PField t (sf_index f) (xv f).

(* all conversions succeed: the directly written fields are written in column
   order, the proxied ones are queued in column order *)
Lemma rows_scan_spec env t ty (cl : sfield -> cell) (xv : sfield -> val) : forall fs m pend,
  Forall (fun f => scan_value env (ty f) (cl f) = Some (xv f)) fs ->
  rows_scan_cells env (map (target_of env t ty) fs) (map cl fs) m pend =
  (fold_left apply_pending (map (pend_of t xv) (filter (fun f => negb (proxy env (ty f))) fs)) m,
   SOk (pend ++ map (pend_of t xv) (filter (fun f => negb (negb (proxy env (ty f)))) fs))).
Proof.
  induction fs as [|f fs IH]; intros m pend F.
  - simpl. rewrite app_nil_r. reflexivity.
  - inversion F as [|? ? Hf Ffs]; subst. cbn [map rows_scan_cells filter].
    unfold target_of at 1. unfold scan_value in Hf.
    destruct (proxy env (ty f)) eqn:P; cbn [negb].
    + destruct (cl f) as [|id] eqn:C.
      * assert (Hx : zero_val scan_fuel env (ty f) = xv f) by congruence.
        rewrite IH by exact Ffs. cbn [map]. unfold pend_of.
        rewrite <- Hx, <- app_assoc. reflexivity.
      * rewrite Hf. rewrite IH by exact Ffs. cbn [map]. unfold pend_of.
        rewrite <- app_assoc. reflexivity.
    + rewrite Hf. rewrite IH by exact Ffs. cbn [map fold_left]. reflexivity.
Qed.

(* ------------------------------------------------------------- ScanArgs -- *)

Definition dest_ok (env : tenv) (t : tid) (ty : sfield -> tid) (v0 : val) (f : sfield) : Prop :=
  sf_struct f = t /\ field_by_index v0 (sf_index f) <> None /\
  type_by_index env t (sf_index f) = Some (ty f).

Lemma scan_targets_spec env t ty v0 outputs : forall suffix pre seen used acc,
  outputs = map LField (pre ++ suffix) ->
  (N.of_nat (length outputs) <= max_int)%N ->
  Forall (dest_ok env t ty v0) suffix ->
  exists seen' used',
    scan_targets env outputs [(t, v0)]
      (map marker_name (seq (length pre) (length suffix))) seen used acc
    = BOk (acc ++ map (target_of env t ty) suffix, seen', used') /\
    (forall i, In i seen \/ (length pre <= i < length pre + length suffix) -> In i seen') /\
    (forall u, In u used \/ (suffix <> [] /\ u = t) -> In u used').
Proof.
  induction suffix as [|f rest IH]; intros pre seen used acc E B F.
  - exists seen, used. cbn [length seq map scan_targets]. rewrite app_nil_r.
    split; [reflexivity|]. split.
    + intros i [H|H]; [exact H|lia].
    + intros u [H|[H _]]; [exact H|congruence].
  - inversion F as [|? ? [Hs [Hv Ht]] Frest]; subst outputs.
    cbn [length seq map scan_targets]. rewrite marker_roundtrip
      by (rewrite map_length, app_length in B; cbn [length] in B; lia).
    assert (N : nth_error (map LField (pre ++ f :: rest)) (length pre) = Some (LField f)).
    { rewrite nth_error_map, nth_error_app2 by lia. rewrite Nat.sub_diag. reflexivity. }
    rewrite N. cbn [locate_scan_target]. rewrite Hs. cbn [t2v_get]. rewrite Nat.eqb_refl.
    unfold field_of. destruct (field_by_index v0 (sf_index f)) as [fx|] eqn:Fx; [|congruence].
    cbn [bbind]. rewrite Ht.
    assert (T : (if negb (kind_eqb (t_kind (tget env (ty f))) KPtr) && negb (t_scanner (tget env (ty f)))
                 then BOk (TProxyField t (sf_index f) (ty f))
                 else BOk (TDirect t (sf_index f) (ty f))) = BOk (target_of env t ty f)).
    { unfold target_of, proxy. destruct (negb _ && negb _); reflexivity. }
    rewrite T. cbn [bbind loc_argtype].
    destruct (IH (pre ++ [f]) (length pre :: seen) (sf_struct f :: used)
                 (acc ++ [target_of env t ty f])) as [seen' [used' [R [Sn U]]]].
    { rewrite <- app_assoc. reflexivity. }
    { exact B. }
    { exact Frest. }
    rewrite app_length in R, Sn. cbn [length] in R, Sn.
    replace (length pre + 1) with (S (length pre)) in R, Sn by lia.
    exists seen', used'. rewrite R. split.
    + rewrite <- app_assoc. reflexivity.
    + split.
      * intros i [Hi|Hi]; apply Sn.
        -- left. right. exact Hi.
        -- destruct (Nat.eq_dec i (length pre)) as [Ei|Ei]; [left; left; congruence|right; lia].
      * intros u [Hu|[_ Hu]]; apply U; left; [right; exact Hu|left; congruence].
Qed.

Lemma scan_args_spec env t pt ty v0 ofs :
  t_kind (tget env pt) = KPtr -> t_elem (tget env pt) = t -> t_kind (tget env t) = KStruct ->
  ofs <> [] -> (N.of_nat (length ofs) <= max_int)%N -> Forall (dest_ok env t ty v0) ofs ->
  scan_args env (map LField ofs) (map marker_name (seq 0 (length ofs))) [AVal pt (VPtr v0)]
  = BOk ([(t, v0)], map (target_of env t ty) ofs).
Proof.
  intros Kp Ep Ks NE B F. unfold scan_args.
  cbn [validate_outputs validate_value]. rewrite Kp. cbn [bbind]. rewrite Ep, Ks.
  cbn [bbind t2v_get app validate_outputs].
  rewrite !map_length, seq_length, Nat.ltb_irrefl.
  destruct (scan_targets_spec env t ty v0 (map LField ofs) ofs [] [] [] []) as [seen [used [R [Sn U]]]];
    [reflexivity|rewrite map_length; exact B|exact F|].
  cbn [length app] in R, Sn. rewrite R. cbn [bbind app].
  assert (C1 : forallb (fun i => existsb (Nat.eqb i) seen) (seq 0 (length ofs)) = true).
  { apply forallb_forall. intros i Hi. apply in_seq in Hi. apply existsb_exists.
    exists i. split; [apply Sn; right; lia|apply Nat.eqb_refl]. }
  rewrite C1. cbn [negb forallb].
  assert (C2 : existsb (Nat.eqb t) used = true).
  { apply existsb_exists. exists t. split; [apply U; right; split; [exact NE|reflexivity]|apply Nat.eqb_refl]. }
  rewrite C2. reflexivity.
Qed.

(* ------------------------------------------------ one row, scanned back -- *)

(* the value of a field and the driver value it is sent as *)
Definition fval (v : val) (f : sfield) : val :=
  match field_by_index v (sf_index f) with Some x => x | None => VNilIface end.
Definition fcell (v : val) (f : sfield) : cell :=
  match to_cell (fval v f) with Some c => c | None => CNull end.

(* a source field the round trip supports: its type is storable, no nil
   embedded pointer on its path, its value is a well-formed value of that
   type *)
Definition src_ok (env : tenv) (t : tid) (ty : sfield -> tid) (v : val) (f : sfield) : Prop :=
  type_by_index env t (sf_index f) = Some (ty f) /\ storable env (ty f) = true /\
  field_by_index v (sf_index f) <> None /\ fits env (ty f) (fval v f) = true.

Definition divf (f g : sfield) : Prop := diverging (sf_index f) (sf_index g).

(* Scanning the row (NULL for the omitted columns, the cell of the field value
   for the others) into any destination with allocated embedded pointers
   gives a destination whose tagged fields are those of the source. *)
Lemma scan_row_roundtrip env t pt ty ofs (om : sfield -> bool) v v0 :
  t_kind (tget env pt) = KPtr -> t_elem (tget env pt) = t -> t_kind (tget env t) = KStruct ->
  ofs <> [] -> (N.of_nat (length ofs) <= max_int)%N -> pairwise divf ofs ->
  Forall (dest_ok env t ty v0) ofs ->
  Forall (src_ok env t ty v) ofs ->
  (forall f, In f ofs -> om f = true -> is_zero (fval v f) = true) ->
  exists v',
    scan_row env (map LField ofs) (map marker_name (seq 0 (length ofs)))
      (map (fun f => if om f then CNull else fcell v f) ofs) [AVal pt (VPtr v0)]
    = (Some [(t, v')], None) /\
    forall f, In f ofs -> field_by_index v' (sf_index f) = field_by_index v (sf_index f).
Proof.
  intros Kp Ep Ks NE B PW FD FS OM. unfold scan_row.
  rewrite (scan_args_spec env t pt ty v0 ofs Kp Ep Ks NE B FD).
  set (cl := fun f => if om f then CNull else fcell v f).
  assert (SV : Forall (fun f => scan_value env (ty f) (cl f) = Some (fval v f)) ofs).
  { apply Forall_forall. intros f Hf. rewrite Forall_forall in FS.
    destruct (FS f Hf) as [_ [St [_ Fi]]].
    destruct (field_value_roundtrip env (ty f) (fval v f) (om f) St Fi (OM f Hf)) as [c [Tc Sc]].
    unfold cl, fcell. rewrite Tc. exact Sc. }
  rewrite (rows_scan_spec env t ty cl (fval v) ofs [(t, v0)] [] SV).
  cbn [app]. rewrite <- fold_left_app, <- map_app.
  set (order := filter (fun f => negb (proxy env (ty f))) ofs ++
                filter (fun f => negb (negb (proxy env (ty f)))) ofs).
  assert (PO : Permutation order ofs) by apply filter_partition_perm.
  set (ws := map (fun f => (sf_index f, fval v f)) order).
  assert (EW : map (pend_of t (fval v)) order = map (fun w => PField t (fst w) (snd w)) ws).
  { unfold ws. rewrite map_map. reflexivity. }
  rewrite EW, apply_pending_fields.
  exists (fold_left wr ws v0). split; [reflexivity|].
  assert (PWo : pairwise wdiv ws).
  { unfold ws. apply pairwise_map. unfold wdiv. cbn [fst].
    eapply pairwise_perm; [|apply Permutation_sym; exact PO|exact PW].
    intros a b. apply diverging_sym. }
  assert (Vo : Forall (fun w => field_by_index v0 (fst w) <> None) ws).
  { unfold ws. apply Forall_map. cbn [fst]. apply Forall_forall. intros f Hf.
    rewrite Forall_forall in FD. apply (FD f). eapply Permutation_in; [exact PO|exact Hf]. }
  destruct (writes_spec ws v0 PWo Vo) as [G _].
  intros f Hf.
  assert (Hw : In (sf_index f, fval v f) ws).
  { unfold ws. apply in_map_iff. exists f. split; [reflexivity|].
    eapply Permutation_in; [apply Permutation_sym; exact PO|exact Hf]. }
  pose proof (G _ Hw) as Gf. cbn [fst snd] in Gf. rewrite Gf.
  rewrite Forall_forall in FS. destruct (FS f Hf) as [_ [_ [Nn _]]].
  unfold fval. destruct (field_by_index v (sf_index f)); [reflexivity|congruence].
Qed.
