(* Get/set algebra of the destinations of a scan (C06): index paths into struct
   values, map entries, the TypeToValue association list; locations, writes to
   locations, independence, and commutation of independent writes. *)
From Coq Require Import Permutation.
From SQLair.Base Require Import Bytes.
From SQLair.Model Require Import Reflect TypeInfo Scan.
From SQLair.Proofs Require Import BindFacts.

(* ------------------------------------------------------------ lists -- *)

Lemma nth_error_replace_same {A} (l : list A) : forall n x y,
  nth_error l n = Some y -> nth_error (replace_nth l n x) n = Some x.
Proof.
  induction l as [|a l IH]; intros [|n] x y H; simpl in *; try discriminate; [reflexivity|].
  eapply IH. exact H.
Qed.

Lemma nth_error_replace_other {A} (l : list A) : forall n k x,
  n <> k -> nth_error (replace_nth l n x) k = nth_error l k.
Proof.
  induction l as [|a l IH]; intros [|n] [|k] x H; simpl; try reflexivity; try congruence.
  apply IH. congruence.
Qed.

Lemma replace_nth_comm {A} (l : list A) : forall n k x y,
  n <> k -> replace_nth (replace_nth l n x) k y = replace_nth (replace_nth l k y) n x.
Proof.
  induction l as [|a l IH]; intros [|n] [|k] x y H; simpl; try reflexivity; try congruence.
  f_equal. apply IH. congruence.
Qed.

Lemma replace_nth_twice {A} (l : list A) : forall n x y,
  replace_nth (replace_nth l n x) n y = replace_nth l n y.
Proof.
  induction l as [|a l IH]; intros [|n] x y; simpl; try reflexivity.
  f_equal. apply IH.
Qed.

Lemma replace_nth_same {A} (l : list A) : forall n x,
  nth_error l n = Some x -> replace_nth l n x = l.
Proof.
  induction l as [|a l IH]; intros [|n] x H; simpl in *; try discriminate.
  - congruence.
  - f_equal. apply IH. exact H.
Qed.

(* pairwise: every two elements at different positions are related *)
Fixpoint pairwise {A} (R : A -> A -> Prop) (l : list A) : Prop :=
  match l with
  | [] => True
  | x :: r => Forall (R x) r /\ pairwise R r
  end.

Lemma pairwise_app {A} (R : A -> A -> Prop) l1 l2 :
  pairwise R (l1 ++ l2) <->
  pairwise R l1 /\ pairwise R l2 /\ (forall a b, In a l1 -> In b l2 -> R a b).
Proof.
  induction l1 as [|x l1 IH]; simpl.
  - split; [intros H; repeat split; [exact H|intros a b []]|tauto].
  - rewrite Forall_app, IH. split.
    + intros [[F1 F2] [P1 [P2 P3]]]. repeat split; try assumption.
      intros a b [Ha|Ha] Hb; [subst a; rewrite Forall_forall in F2; apply F2; exact Hb|apply P3; assumption].
    + intros [[F1 P1] [P2 P3]]. repeat split; try assumption.
      * apply Forall_forall. intros b Hb. apply P3; [left; reflexivity|exact Hb].
      * intros a b Ha Hb. apply P3; [right; exact Ha|exact Hb].
Qed.

Lemma pairwise_perm {A} (R : A -> A -> Prop) :
  (forall a b, R a b -> R b a) ->
  forall l l', Permutation l l' -> pairwise R l -> pairwise R l'.
Proof.
  intros Sym l l' P. induction P as [|x l l' P IH|x y l|l l' l'' P1 IH1 P2 IH2]; simpl.
  - trivial.
  - intros [F Pw]. split; [|apply IH; exact Pw].
    rewrite Forall_forall in *. intros b Hb. apply F. eapply Permutation_in; [apply Permutation_sym; exact P|exact Hb].
  - intros [F1 [F2 Pw]]. inversion F1 as [|? ? Ryx F1']; subst.
    repeat split; try assumption. constructor; [apply Sym; exact Ryx|exact F2].
  - intros H. apply IH2, IH1, H.
Qed.

Lemma pairwise_nth {A} (R : A -> A -> Prop) :
  (forall a b, R a b -> R b a) ->
  forall l i j a b, pairwise R l -> i <> j -> nth_error l i = Some a -> nth_error l j = Some b -> R a b.
Proof.
  intros Sym l. induction l as [|x l IH]; intros i j a b Pw Ne Hi Hj.
  - destruct i; discriminate.
  - destruct Pw as [F Pw]. rewrite Forall_forall in F.
    destruct i as [|i], j as [|j]; simpl in Hi, Hj.
    + congruence.
    + inversion Hi; subst. apply F. eapply nth_error_In; exact Hj.
    + inversion Hj; subst. apply Sym, F. eapply nth_error_In; exact Hi.
    + eapply IH; [exact Pw| |exact Hi|exact Hj]. congruence.
Qed.

Lemma pairwise_of_nth {A} (R : A -> A -> Prop) : forall l,
  (forall i j a b, i <> j -> nth_error l i = Some a -> nth_error l j = Some b -> R a b) -> pairwise R l.
Proof.
  induction l as [|x l IH]; intros H; simpl; [trivial|]. split.
  - apply Forall_forall. intros b Hb. apply In_nth_error in Hb. destruct Hb as [j Hj].
    apply (H 0 (S j)); [lia|reflexivity|exact Hj].
  - apply IH. intros i j a b Ne Hi Hj. apply (H (S i) (S j)); [lia|exact Hi|exact Hj].
Qed.

Fixpoint filter_map {A B} (f : A -> option B) (l : list A) : list B :=
  match l with
  | [] => []
  | x :: r => match f x with Some y => y :: filter_map f r | None => filter_map f r end
  end.

Lemma filter_map_app {A B} (f : A -> option B) l1 l2 :
  filter_map f (l1 ++ l2) = filter_map f l1 ++ filter_map f l2.
Proof.
  induction l1 as [|x l1 IH]; simpl; [reflexivity|]. destruct (f x); simpl; rewrite IH; reflexivity.
Qed.

Lemma filter_map_in {A B} (f : A -> option B) l y :
  In y (filter_map f l) <-> exists x, In x l /\ f x = Some y.
Proof.
  induction l as [|a l IH]; simpl.
  - split; [intros []|intros [x [[] _]]].
  - destruct (f a) as [b|] eqn:E; simpl; rewrite IH; split.
    + intros [H|[x [H1 H2]]]; [subst; exists a; auto|exists x; auto].
    + intros [x [[H1|H1] H2]]; [subst; left; congruence|right; exists x; auto].
    + intros [x [H1 H2]]; exists x; auto.
    + intros [x [[H1|H1] H2]]; [subst; congruence|exists x; auto].
Qed.

Lemma filter_map_perm {A B} (f : A -> option B) l l' :
  Permutation l l' -> Permutation (filter_map f l) (filter_map f l').
Proof.
  intros P. induction P as [|x l l' P IH|x y l|l l' l'' P1 IH1 P2 IH2]; simpl.
  - constructor.
  - destruct (f x); [constructor|]; exact IH.
  - destruct (f x), (f y); try apply Permutation_refl. apply perm_swap.
  - eapply Permutation_trans; eassumption.
Qed.

Lemma filter_map_ext_in {A B} (f g : A -> option B) l :
  (forall x, In x l -> f x = g x) -> filter_map f l = filter_map g l.
Proof.
  induction l as [|a l IH]; intros H; simpl; [reflexivity|].
  rewrite (H a (or_introl eq_refl)), IH; [reflexivity|]. intros x Hx. apply H. right. exact Hx.
Qed.

Lemma filter_map_map {A B C} (f : B -> option C) (g : A -> B) l :
  filter_map f (map g l) = filter_map (fun x => f (g x)) l.
Proof. induction l as [|a l IH]; simpl; [reflexivity|]. rewrite IH. reflexivity. Qed.

Lemma map_filter_map {A B C} (g : B -> C) (f : A -> option B) l :
  map g (filter_map f l) = filter_map (fun x => option_map g (f x)) l.
Proof.
  induction l as [|a l IH]; simpl; [reflexivity|]. destruct (f a); simpl; rewrite IH; reflexivity.
Qed.

Lemma filter_partition_perm {A} (f : A -> bool) l :
  Permutation (filter f l ++ filter (fun x => negb (f x)) l) l.
Proof.
  induction l as [|a l IH]; simpl; [constructor|].
  destruct (f a); simpl.
  - constructor. exact IH.
  - apply Permutation_sym. apply Permutation_cons_app. apply Permutation_sym. exact IH.
Qed.

(* ------------------------------------------------------ index paths -- *)

Fixpoint is_prefix (p q : list nat) : bool :=
  match p, q with
  | [], _ => true
  | a :: p', b :: q' => Nat.eqb a b && is_prefix p' q'
  | _ :: _, [] => false
  end.

(* neither path leads through the other *)
Definition incomparable (p q : list nat) : Prop :=
  is_prefix p q = false /\ is_prefix q p = false.

Lemma is_prefix_spec p : forall q, is_prefix p q = true <-> exists r, q = p ++ r.
Proof.
  induction p as [|a p IH]; intros q; simpl.
  - split; [intros _; exists q; reflexivity|reflexivity].
  - destruct q as [|b q].
    + split; [discriminate|intros [r H]; discriminate].
    + rewrite andb_true_iff, Nat.eqb_eq, IH. split.
      * intros [E [r H]]. subst. exists r. reflexivity.
      * intros [r H]. inversion H; subst. split; [reflexivity|exists r; reflexivity].
Qed.

Lemma is_prefix_refl p : is_prefix p p = true.
Proof. apply is_prefix_spec. exists []. rewrite app_nil_r. reflexivity. Qed.

Lemma incomparable_sym p q : incomparable p q -> incomparable q p.
Proof. unfold incomparable. tauto. Qed.

Lemma incomparable_irrefl p : ~ incomparable p p.
Proof. intros [H _]. rewrite is_prefix_refl in H. discriminate. Qed.

Lemma incomparable_cons i j p q :
  incomparable (i :: p) (j :: q) <-> i <> j \/ (i = j /\ incomparable p q).
Proof.
  unfold incomparable. simpl. destruct (Nat.eqb i j) eqn:E.
  - apply Nat.eqb_eq in E. subst j. rewrite Nat.eqb_refl. simpl. split; [intros H; right; tauto|intros [H|H]; tauto].
  - assert (Nat.eqb j i = false) as E' by (rewrite Nat.eqb_sym; exact E).
    rewrite E'. apply Nat.eqb_neq in E. simpl. split; [intros _; left; exact E|tauto].
Qed.

Lemma incomparable_nil_l q : ~ incomparable [] q.
Proof. intros [H _]. discriminate. Qed.
Lemma incomparable_nil_r p : ~ incomparable p [].
Proof. intros [_ H]. discriminate. Qed.

(* --------------------------------- FieldByIndex / its setter, uniformly -- *)

Definition struct_fields (v : val) : option (list val) :=
  match v with
  | VStruct fs => Some fs
  | VPtr (VStruct fs) => Some fs
  | _ => None
  end.

Definition rebuild (v : val) (fs : list val) : val :=
  match v with VPtr _ => VPtr (VStruct fs) | _ => VStruct fs end.

Lemma fbi_cons v i p :
  field_by_index v (i :: p) =
  match struct_fields v with
  | Some fs => match nth_error fs i with Some f => field_by_index f p | None => None end
  | None => None
  end.
Proof. destruct v as [| |w| | | |]; try reflexivity. destruct w; reflexivity. Qed.

Lemma sbi_cons v i p x :
  set_by_index v (i :: p) x =
  match struct_fields v with
  | Some fs =>
      match nth_error fs i with
      | Some f => option_map (fun f' => rebuild v (replace_nth fs i f')) (set_by_index f p x)
      | None => None
      end
  | None => None
  end.
Proof. destruct v as [| |w| | | |]; try reflexivity. destruct w; reflexivity. Qed.

Lemma struct_fields_rebuild v fs fs' :
  struct_fields v = Some fs -> struct_fields (rebuild v fs') = Some fs'.
Proof. destruct v as [| |w| | | |]; try discriminate; reflexivity. Qed.

Lemma rebuild_rebuild v fs fs' :
  struct_fields v = Some fs -> rebuild (rebuild v fs') fs = rebuild v fs.
Proof. destruct v as [| |w| | | |]; try discriminate; reflexivity. Qed.

Lemma rebuild_same v fs : struct_fields v = Some fs -> rebuild v fs = v.
Proof.
  destruct v as [| |w| | | |]; try discriminate.
  - destruct w; try discriminate. simpl. intros H. inversion H. reflexivity.
  - simpl. intros H. inversion H. reflexivity.
Qed.

(* the setter succeeds exactly where the getter does *)
Lemma sbi_succeeds p : forall v x y,
  field_by_index v p = Some y -> exists v', set_by_index v p x = Some v'.
Proof.
  induction p as [|i p IH]; intros v x y H.
  - exists x. reflexivity.
  - rewrite fbi_cons in H. rewrite sbi_cons.
    destruct (struct_fields v) as [fs|]; [|discriminate].
    destruct (nth_error fs i) as [f|]; [|discriminate].
    destruct (IH f x y H) as [f' Hf']. rewrite Hf'. simpl. eexists. reflexivity.
Qed.

Lemma sbi_fails p : forall v x, field_by_index v p = None -> set_by_index v p x = None.
Proof.
  induction p as [|i p IH]; intros v x H.
  - discriminate.
  - rewrite fbi_cons in H. rewrite sbi_cons.
    destruct (struct_fields v) as [fs|]; [|reflexivity].
    destruct (nth_error fs i) as [f|]; [|reflexivity].
    rewrite (IH f x H). reflexivity.
Qed.

Lemma sbi_some_readable p v x v' :
  set_by_index v p x = Some v' -> exists y, field_by_index v p = Some y.
Proof.
  intros H. destruct (field_by_index v p) as [y|] eqn:E; [exists y; reflexivity|].
  rewrite (sbi_fails p v x E) in H. discriminate.
Qed.

(* reading the written path gives the written value *)
Lemma get_set_same p : forall v x v',
  set_by_index v p x = Some v' -> field_by_index v' p = Some x.
Proof.
  induction p as [|i p IH]; intros v x v' H.
  - simpl in *. congruence.
  - rewrite sbi_cons in H. rewrite fbi_cons.
    destruct (struct_fields v) as [fs|] eqn:S; [|discriminate].
    destruct (nth_error fs i) as [f|] eqn:N; [|discriminate].
    destruct (set_by_index f p x) as [f'|] eqn:F; [|discriminate].
    simpl in H. inversion H; subst v'.
    rewrite (struct_fields_rebuild v fs _ S), (nth_error_replace_same fs i f' f N).
    eapply IH. exact F.
Qed.

(* reading an incomparable path is not affected *)
Lemma get_set_other p : forall q v x v',
  incomparable p q -> set_by_index v p x = Some v' -> field_by_index v' q = field_by_index v q.
Proof.
  induction p as [|i p IH]; intros q v x v' I H.
  - exfalso. eapply incomparable_nil_l. exact I.
  - destruct q as [|j q]; [exfalso; eapply incomparable_nil_r; exact I|].
    rewrite sbi_cons in H. rewrite !fbi_cons.
    destruct (struct_fields v) as [fs|] eqn:S; [|discriminate].
    destruct (nth_error fs i) as [f|] eqn:N; [|discriminate].
    destruct (set_by_index f p x) as [f'|] eqn:F; [|discriminate].
    simpl in H. inversion H; subst v'.
    rewrite (struct_fields_rebuild v fs _ S).
    apply incomparable_cons in I. destruct I as [Ne|[E I]].
    + rewrite nth_error_replace_other by exact Ne. reflexivity.
    + subst j. rewrite (nth_error_replace_same fs i f' f N), N. eapply IH; eassumption.
Qed.

Definition obind {A B} (o : option A) (k : A -> option B) : option B :=
  match o with Some a => k a | None => None end.

(* writes at incomparable paths commute *)
Lemma set_set_comm p : forall q v x y,
  incomparable p q ->
  obind (set_by_index v p x) (fun v1 => set_by_index v1 q y) =
  obind (set_by_index v q y) (fun v2 => set_by_index v2 p x).
Proof.
  induction p as [|i p IH]; intros q v x y I.
  - exfalso. eapply incomparable_nil_l. exact I.
  - destruct q as [|j q]; [exfalso; eapply incomparable_nil_r; exact I|].
    rewrite (sbi_cons v i p x), (sbi_cons v j q y).
    destruct (struct_fields v) as [fs|] eqn:S; [|reflexivity].
    apply incomparable_cons in I. destruct I as [Ne|[E I]].
    + destruct (nth_error fs i) as [f|] eqn:Ni; destruct (nth_error fs j) as [g|] eqn:Nj;
        cbn [obind]; try reflexivity.
      * destruct (set_by_index f p x) as [f'|] eqn:F; destruct (set_by_index g q y) as [g'|] eqn:G;
          cbn [obind option_map]; try reflexivity.
        -- rewrite !sbi_cons, !(struct_fields_rebuild v fs _ S).
           rewrite (nth_error_replace_other fs i j f' Ne), Nj, G.
           rewrite (nth_error_replace_other fs j i g') by congruence. rewrite Ni, F.
           cbn [option_map]. rewrite (replace_nth_comm fs i j f' g' Ne).
           f_equal. destruct v as [| |w| | | |]; try discriminate; reflexivity.
        -- rewrite sbi_cons, (struct_fields_rebuild v fs _ S).
           rewrite (nth_error_replace_other fs i j f' Ne), Nj, G. reflexivity.
        -- rewrite sbi_cons, (struct_fields_rebuild v fs _ S).
           rewrite (nth_error_replace_other fs j i g') by congruence. rewrite Ni, F. reflexivity.
      * destruct (set_by_index f p x) as [f'|] eqn:F; cbn [obind option_map]; [|reflexivity].
        rewrite sbi_cons, (struct_fields_rebuild v fs _ S).
        rewrite (nth_error_replace_other fs i j f' Ne), Nj. reflexivity.
      * destruct (set_by_index g q y) as [g'|] eqn:G; cbn [obind option_map]; [|reflexivity].
        rewrite sbi_cons, (struct_fields_rebuild v fs _ S).
        rewrite (nth_error_replace_other fs j i g') by congruence. rewrite Ni. reflexivity.
    + subst j. destruct (nth_error fs i) as [f|] eqn:Ni; [|reflexivity].
      specialize (IH q f x y I).
      destruct (set_by_index f p x) as [f'|] eqn:F; destruct (set_by_index f q y) as [g'|] eqn:G;
        cbn [obind option_map] in *.
      * rewrite !sbi_cons, !(struct_fields_rebuild v fs _ S).
        rewrite (nth_error_replace_same fs i f' f Ni), (nth_error_replace_same fs i g' f Ni).
        rewrite <- IH. destruct (set_by_index f' q y) as [h|]; cbn [option_map]; [|reflexivity].
        rewrite !replace_nth_twice. f_equal.
        destruct v as [| |w| | | |]; try discriminate; reflexivity.
      * rewrite sbi_cons, (struct_fields_rebuild v fs _ S), (nth_error_replace_same fs i f' f Ni), IH.
        reflexivity.
      * rewrite sbi_cons, (struct_fields_rebuild v fs _ S), (nth_error_replace_same fs i g' f Ni), <- IH.
        reflexivity.
      * reflexivity.
Qed.

(* --------------------------------------------------------- map entries -- *)

Lemma str_eqb_sym a b : str_eqb a b = str_eqb b a.
Proof.
  destruct (str_eqb a b) eqn:E.
  - apply str_eqb_eq in E. subst. symmetry. apply str_eqb_refl.
  - destruct (str_eqb b a) eqn:E'; [|reflexivity].
    apply str_eqb_eq in E'. subst. rewrite str_eqb_refl in E. discriminate.
Qed.

Lemma str_eqb_neq a b : str_eqb a b = false <-> a <> b.
Proof.
  split.
  - intros E H. subst. rewrite str_eqb_refl in E. discriminate.
  - intros H. destruct (str_eqb a b) eqn:E; [|reflexivity]. apply str_eqb_eq in E. contradiction.
Qed.

Lemma assoc_map_set es k x : forall k',
  assoc_str k' (map_set es k x) = if str_eqb k' k then Some x else assoc_str k' es.
Proof.
  induction es as [|[k0 v0] es IH]; intros k'; simpl.
  - reflexivity.
  - destruct (str_eqb k k0) eqn:E; simpl.
    + apply str_eqb_eq in E. subst k0. destruct (str_eqb k' k); reflexivity.
    + rewrite IH. destruct (str_eqb k' k0) eqn:E0; [|reflexivity].
      apply str_eqb_eq in E0. subst k0. rewrite str_eqb_sym, E. reflexivity.
Qed.

Lemma assoc_map_set_same es k x : assoc_str k (map_set es k x) = Some x.
Proof. rewrite assoc_map_set, str_eqb_refl. reflexivity. Qed.

Lemma assoc_map_set_other es k k' x : k' <> k -> assoc_str k' (map_set es k x) = assoc_str k' es.
Proof. intros H. rewrite assoc_map_set. apply str_eqb_neq in H. rewrite H. reflexivity. Qed.

(* --------------------------------------------------------- TypeToValue -- *)

Lemma t2v_get_set_same m t v : t2v_get m t <> None -> t2v_get (t2v_set m t v) t = Some v.
Proof.
  induction m as [|[t' v'] m IH]; simpl; [congruence|].
  destruct (Nat.eqb t t') eqn:E; simpl; rewrite E; [reflexivity|]. exact IH.
Qed.

Lemma t2v_get_set_other m t t' v : t <> t' -> t2v_get (t2v_set m t v) t' = t2v_get m t'.
Proof.
  intros Ne. induction m as [|[t0 v0] m IH]; simpl; [reflexivity|].
  destruct (Nat.eqb t t0) eqn:E; simpl.
  - apply Nat.eqb_eq in E. subst t0. apply Nat.eqb_neq in Ne. rewrite Nat.eqb_sym, Ne. reflexivity.
  - rewrite IH. reflexivity.
Qed.

Lemma t2v_set_keys m t v : map fst (t2v_set m t v) = map fst m.
Proof.
  induction m as [|[t0 v0] m IH]; simpl; [reflexivity|].
  destruct (Nat.eqb t t0); simpl; [reflexivity|]. rewrite IH. reflexivity.
Qed.

Lemma t2v_set_none m t v : t2v_get m t = None -> t2v_set m t v = m.
Proof.
  induction m as [|[t0 v0] m IH]; simpl; [reflexivity|].
  destruct (Nat.eqb t t0); [discriminate|]. intros H. rewrite IH by exact H. reflexivity.
Qed.

Lemma t2v_set_same m t v : t2v_get m t = Some v -> t2v_set m t v = m.
Proof.
  induction m as [|[t0 v0] m IH]; simpl; [reflexivity|].
  destruct (Nat.eqb t t0); [intros H; inversion H; reflexivity|]. intros H. rewrite IH by exact H. reflexivity.
Qed.

Lemma t2v_set_twice m t v v' : t2v_set (t2v_set m t v) t v' = t2v_set m t v'.
Proof.
  induction m as [|[t0 v0] m IH]; simpl; [reflexivity|].
  destruct (Nat.eqb t t0) eqn:E; simpl; rewrite E; [reflexivity|]. rewrite IH. reflexivity.
Qed.

Lemma t2v_set_comm m t t' v v' :
  t <> t' -> t2v_set (t2v_set m t v) t' v' = t2v_set (t2v_set m t' v') t v.
Proof.
  intros Ne. induction m as [|[t0 v0] m IH]; simpl; [reflexivity|].
  destruct (Nat.eqb t t0) eqn:E; destruct (Nat.eqb t' t0) eqn:E'; simpl; rewrite ?E, ?E'; try reflexivity.
  - apply Nat.eqb_eq in E. apply Nat.eqb_eq in E'. congruence.
  - rewrite IH. reflexivity.
Qed.

(* ------------------------------------------------------------ locations -- *)

(* a place in the destinations: a field of the struct of type t, or a key of
   the map of type mt *)
Inductive loc :=
| LocField (t : tid) (path : list nat)
| LocKey (mt : tid) (key : str).

Definition loc_type (l : loc) : tid :=
  match l with LocField t _ => t | LocKey mt _ => mt end.

Definition read_loc (m : t2v) (l : loc) : option val :=
  match l with
  | LocField t p => match t2v_get m t with Some s => field_by_index s p | None => None end
  | LocKey mt k => match t2v_get m mt with Some (VMap _ es) => assoc_str k es | _ => None end
  end.

Definition write_loc (m : t2v) (l : loc) (x : val) : t2v :=
  match l with
  | LocField t p => write_field m t p x
  | LocKey mt k => write_key m mt k x
  end.

(* the place can be written: the path can be walked / the map is there *)
Definition writable (m : t2v) (l : loc) : Prop :=
  match l with
  | LocField t p => exists s y, t2v_get m t = Some s /\ field_by_index s p = Some y
  | LocKey mt _ => exists n es, t2v_get m mt = Some (VMap n es)
  end.

Definition loc_indep (a b : loc) : Prop :=
  match a, b with
  | LocField t p, LocField t' q => t <> t' \/ incomparable p q
  | LocKey t k, LocKey t' k' => t <> t' \/ k <> k'
  | LocField t _, LocKey t' _ => t <> t'
  | LocKey t _, LocField t' _ => t <> t'
  end.

Definition loc_indepb (a b : loc) : bool :=
  match a, b with
  | LocField t p, LocField t' q => negb (Nat.eqb t t') || (negb (is_prefix p q) && negb (is_prefix q p))
  | LocKey t k, LocKey t' k' => negb (Nat.eqb t t') || negb (str_eqb k k')
  | LocField t _, LocKey t' _ => negb (Nat.eqb t t')
  | LocKey t _, LocField t' _ => negb (Nat.eqb t t')
  end.

Lemma loc_indepb_spec a b : loc_indepb a b = true <-> loc_indep a b.
Proof.
  destruct a as [t p|t k], b as [t' q|t' k']; simpl;
    rewrite ?orb_true_iff, ?andb_true_iff, ?negb_true_iff, ?Nat.eqb_neq, ?str_eqb_neq;
    unfold incomparable; tauto.
Qed.

Lemma loc_indep_sym a b : loc_indep a b -> loc_indep b a.
Proof.
  destruct a, b; simpl; intros H; try (intros E; apply H; congruence).
  - destruct H as [H|H]; [left; congruence|right; apply incomparable_sym; exact H].
  - destruct H as [H|H]; [left|right]; congruence.
Qed.

Lemma loc_indep_irrefl a : ~ loc_indep a a.
Proof.
  destruct a; simpl; intros [H|H]; try congruence. eapply incomparable_irrefl. exact H.
Qed.

(* a write only looks at, and only replaces, the value of its own type *)
Definition loc_upd (cur : option val) (l : loc) (x : val) : option val :=
  match l with
  | LocField _ p => match cur with Some s => set_by_index s p x | None => None end
  | LocKey _ k => match cur with Some (VMap n es) => Some (VMap n (map_set es k x)) | _ => None end
  end.

Lemma write_loc_upd m l x :
  write_loc m l x =
  match loc_upd (t2v_get m (loc_type l)) l x with
  | Some v => t2v_set m (loc_type l) v
  | None => m
  end.
Proof.
  destruct l as [t p|mt k]; simpl; unfold write_field, write_key.
  - destruct (t2v_get m t); reflexivity.
  - destruct (t2v_get m mt) as [[]|]; reflexivity.
Qed.

Lemma write_loc_keys m l x : map fst (write_loc m l x) = map fst m.
Proof.
  rewrite write_loc_upd. destruct (loc_upd _ l x); [apply t2v_set_keys|reflexivity].
Qed.

Lemma get_write_other_type m l x t :
  loc_type l <> t -> t2v_get (write_loc m l x) t = t2v_get m t.
Proof.
  intros Ne. rewrite write_loc_upd. destruct (loc_upd _ l x); [|reflexivity].
  apply t2v_get_set_other. exact Ne.
Qed.

Lemma loc_upd_some_get m l x v : loc_upd (t2v_get m (loc_type l)) l x = Some v -> t2v_get m (loc_type l) <> None.
Proof. destruct l; simpl; destruct (t2v_get m _); congruence. Qed.

Lemma get_write_same_type m l x :
  t2v_get (write_loc m l x) (loc_type l) =
  match loc_upd (t2v_get m (loc_type l)) l x with
  | Some v => Some v
  | None => t2v_get m (loc_type l)
  end.
Proof.
  rewrite write_loc_upd. destruct (loc_upd _ l x) as [v|] eqn:U; [|reflexivity].
  apply t2v_get_set_same. eapply loc_upd_some_get. exact U.
Qed.

(* lands: what is written at a writable place is read back *)
Lemma read_write_same m l x : writable m l -> read_loc (write_loc m l x) l = Some x.
Proof.
  intros W. destruct l as [t p|mt k].
  - destruct W as [s [y [G F]]]. unfold read_loc.
    change t with (loc_type (LocField t p)) at 1. rewrite get_write_same_type. simpl. rewrite G.
    destruct (sbi_succeeds p s x y F) as [s' S]. rewrite S. eapply get_set_same. exact S.
  - destruct W as [n [es G]]. unfold read_loc.
    change mt with (loc_type (LocKey mt k)) at 1. rewrite get_write_same_type. simpl. rewrite G.
    apply assoc_map_set_same.
Qed.

(* frame: an independent place reads as before *)
Lemma read_write_other m l l' x : loc_indep l l' -> read_loc (write_loc m l x) l' = read_loc m l'.
Proof.
  intros I. destruct (Nat.eq_dec (loc_type l) (loc_type l')) as [E|Ne].
  - destruct l as [t p|mt k], l' as [t' q|mt' k']; simpl in E, I; subst; try congruence.
    + destruct I as [I|I]; [congruence|]. unfold read_loc.
      change t' with (loc_type (LocField t' p)) at 1. rewrite get_write_same_type. simpl.
      destruct (t2v_get m t') as [s|]; [|reflexivity].
      destruct (set_by_index s p x) as [s'|] eqn:S; [|reflexivity].
      eapply get_set_other; eassumption.
    + destruct I as [I|I]; [congruence|]. unfold read_loc.
      change mt' with (loc_type (LocKey mt' k)) at 1. rewrite get_write_same_type. simpl.
      destruct (t2v_get m mt') as [[]|]; try reflexivity.
      apply assoc_map_set_other. congruence.
  - destruct l' as [t' q|mt' k']; simpl in *; rewrite (get_write_other_type m l x _ Ne); reflexivity.
Qed.

Lemma writable_write_other m l l' x : loc_indep l l' -> writable m l' -> writable (write_loc m l x) l'.
Proof.
  intros I W. destruct l' as [t' q|mt' k'].
  - pose proof (read_write_other m l _ x I) as R. simpl in R.
    destruct W as [s [y [G F]]]. rewrite G, F in R. simpl.
    destruct (t2v_get (write_loc m l x) t') as [s'|]; [|discriminate]. exists s', y. auto.
  - destruct W as [n [es G]]. simpl.
    destruct (Nat.eq_dec (loc_type l) mt') as [E|Ne].
    + rewrite <- E. rewrite get_write_same_type. destruct l as [t p|mt k]; simpl in *.
      * congruence.
      * subst mt'. rewrite G. eexists _, _. reflexivity.
    + rewrite (get_write_other_type m l x _ Ne). eauto.
Qed.

(* -------------------------------------------------- sequences of writes -- *)

Definition apply_writes (m : t2v) (ws : list (loc * val)) : t2v :=
  fold_left (fun m w => write_loc m (fst w) (snd w)) ws m.

Lemma apply_writes_app m ws1 ws2 : apply_writes m (ws1 ++ ws2) = apply_writes (apply_writes m ws1) ws2.
Proof. apply fold_left_app. Qed.

Lemma apply_writes_keys ws : forall m, map fst (apply_writes m ws) = map fst m.
Proof.
  induction ws as [|w ws IH]; intros m; simpl; [reflexivity|].
  unfold apply_writes in *. simpl. rewrite IH. apply write_loc_keys.
Qed.

Lemma apply_writes_frame ws : forall m l,
  (forall w, In w ws -> loc_indep (fst w) l) -> read_loc (apply_writes m ws) l = read_loc m l.
Proof.
  induction ws as [|w ws IH]; intros m l H; [reflexivity|].
  unfold apply_writes in *. simpl. rewrite IH.
  - apply read_write_other. apply H. left. reflexivity.
  - intros w' Hw'. apply H. right. exact Hw'.
Qed.

Lemma apply_writes_writable ws : forall m l,
  (forall w, In w ws -> loc_indep (fst w) l) -> writable m l -> writable (apply_writes m ws) l.
Proof.
  induction ws as [|w ws IH]; intros m l H W; [exact W|].
  unfold apply_writes in *. simpl. apply IH.
  - intros w' Hw'. apply H. right. exact Hw'.
  - apply writable_write_other; [apply H; left; reflexivity|exact W].
Qed.

Lemma apply_writes_other_type ws : forall m t,
  (forall w, In w ws -> loc_type (fst w) <> t) -> t2v_get (apply_writes m ws) t = t2v_get m t.
Proof.
  induction ws as [|w ws IH]; intros m t H; [reflexivity|].
  unfold apply_writes in *. simpl. rewrite IH.
  - apply get_write_other_type. apply H. left. reflexivity.
  - intros w' Hw'. apply H. right. exact Hw'.
Qed.

(* with pairwise independent places, every write of the sequence lands *)
Lemma apply_writes_lands ws m l x :
  pairwise loc_indep (map fst ws) -> In (l, x) ws -> writable m l ->
  read_loc (apply_writes m ws) l = Some x.
Proof.
  intros Pw Hin W. apply in_split in Hin. destruct Hin as [ws1 [ws2 E]]. subst ws.
  rewrite map_app in Pw. simpl in Pw. apply pairwise_app in Pw. destruct Pw as [_ [[F _] X]].
  rewrite apply_writes_app. change ((l, x) :: ws2) with ([(l, x)] ++ ws2). rewrite apply_writes_app.
  rewrite apply_writes_frame.
  - unfold apply_writes at 1. simpl. apply read_write_same. apply apply_writes_writable; [|exact W].
    intros w Hw. apply X; [apply in_map; exact Hw|left; reflexivity].
  - intros w Hw. apply loc_indep_sym. rewrite Forall_forall in F. apply F. apply in_map. exact Hw.
Qed.

(* ------------------------------- destinations up to the order of map keys -- *)

(* Go maps are unordered: two map values are the same when they have the same
   nil-ness and the same entry for every key *)
Definition val_eqv (v v' : val) : Prop :=
  v = v' \/ exists n es es', v = VMap n es /\ v' = VMap n es' /\ forall k, assoc_str k es = assoc_str k es'.

Lemma val_eqv_refl v : val_eqv v v.
Proof. left. reflexivity. Qed.

Lemma val_eqv_sym v v' : val_eqv v v' -> val_eqv v' v.
Proof.
  intros [H|[n [es [es' [H1 [H2 H3]]]]]]; [left; congruence|].
  right. exists n, es', es. repeat split; try assumption. intros k. symmetry. apply H3.
Qed.

Lemma val_eqv_trans a b c : val_eqv a b -> val_eqv b c -> val_eqv a c.
Proof.
  intros [H|[n [es [es' [H1 [H2 H3]]]]]] [H'|[n' [fs [fs' [H1' [H2' H3']]]]]]; subst.
  - left. reflexivity.
  - right. eauto 6.
  - right. eauto 6.
  - inversion H1'; subst. right. exists n', es, fs'. repeat split. intros k. rewrite H3. apply H3'.
Qed.

Definition t2v_eqv (m m' : t2v) : Prop :=
  Forall2 (fun a b => fst a = fst b /\ val_eqv (snd a) (snd b)) m m'.

Lemma t2v_eqv_refl m : t2v_eqv m m.
Proof. induction m; constructor; [split; [reflexivity|apply val_eqv_refl]|assumption]. Qed.

Lemma t2v_eqv_trans a b c : t2v_eqv a b -> t2v_eqv b c -> t2v_eqv a c.
Proof.
  intros H. revert c. induction H as [|x y a b [E V] F IH]; intros c H'; inversion H' as [|? z ? c' [E' V'] F']; subst.
  - constructor.
  - constructor; [split; [congruence|eapply val_eqv_trans; eassumption]|apply IH; assumption].
Qed.

Definition oval_eqv (a b : option val) : Prop :=
  match a, b with
  | Some v, Some v' => val_eqv v v'
  | None, None => True
  | _, _ => False
  end.

Lemma t2v_eqv_get m m' t : t2v_eqv m m' -> oval_eqv (t2v_get m t) (t2v_get m' t).
Proof.
  intros H. induction H as [|[t1 v1] [t2 v2] m m' [E V] F IH]; simpl in *; [trivial|].
  subst t2. destruct (Nat.eqb t t1); [exact V|exact IH].
Qed.

Lemma t2v_eqv_set m m' t v v' : t2v_eqv m m' -> val_eqv v v' -> t2v_eqv (t2v_set m t v) (t2v_set m' t v').
Proof.
  intros H V. induction H as [|[t1 v1] [t2 v2] m m' [E V1] F IH]; simpl in *; [constructor|].
  subst t2. destruct (Nat.eqb t t1).
  - constructor; [split; [reflexivity|exact V]|exact F].
  - constructor; [split; [reflexivity|exact V1]|exact IH].
Qed.

Lemma loc_upd_eqv a b l x : oval_eqv a b -> oval_eqv (loc_upd a l x) (loc_upd b l x).
Proof.
  intros H. destruct a as [v|], b as [v'|]; simpl in H; try contradiction.
  - destruct H as [H|[n [es [es' [H1 [H2 H3]]]]]].
    + subst v'. destruct (loc_upd (Some v) l x); simpl; [apply val_eqv_refl|trivial].
    + subst. destruct l as [t p|mt k]; simpl.
      * destruct p as [|i p]; simpl; [apply val_eqv_refl|trivial].
      * right. exists n, (map_set es k x), (map_set es' k x). repeat split.
        intros k'. rewrite !assoc_map_set, H3. reflexivity.
  - destruct l; simpl; trivial.
Qed.

Lemma write_loc_eqv m m' l x : t2v_eqv m m' -> t2v_eqv (write_loc m l x) (write_loc m' l x).
Proof.
  intros H. rewrite !write_loc_upd.
  pose proof (loc_upd_eqv _ _ l x (t2v_eqv_get m m' (loc_type l) H)) as U.
  destruct (loc_upd (t2v_get m (loc_type l)) l x) as [v|], (loc_upd (t2v_get m' (loc_type l)) l x) as [v'|];
    simpl in U; try contradiction; [|exact H].
  apply t2v_eqv_set; assumption.
Qed.

Lemma apply_writes_eqv ws : forall m m', t2v_eqv m m' -> t2v_eqv (apply_writes m ws) (apply_writes m' ws).
Proof.
  induction ws as [|w ws IH]; intros m m' H; [exact H|].
  unfold apply_writes in *. simpl. apply IH. apply write_loc_eqv. exact H.
Qed.

(* two independent writes commute: exactly for struct fields, up to the order
   in which new keys are added for map keys *)
Definition upd_total (s : val) (l : loc) (x : val) : val :=
  match loc_upd (Some s) l x with Some v => v | None => s end.

Lemma write_loc_total m l x s :
  t2v_get m (loc_type l) = Some s -> write_loc m l x = t2v_set m (loc_type l) (upd_total s l x).
Proof.
  intros G. rewrite write_loc_upd, G. unfold upd_total.
  destruct (loc_upd (Some s) l x); [reflexivity|]. symmetry. apply t2v_set_same. exact G.
Qed.

Lemma map_set_comm_ext es k k' x y : k <> k' ->
  forall k0, assoc_str k0 (map_set (map_set es k x) k' y) = assoc_str k0 (map_set (map_set es k' y) k x).
Proof.
  intros Ne k0. rewrite !assoc_map_set.
  destruct (str_eqb k0 k') eqn:E1; destruct (str_eqb k0 k) eqn:E2; try reflexivity.
  apply str_eqb_eq in E1. apply str_eqb_eq in E2. congruence.
Qed.

Lemma upd_total_comm_eq s t p q x y :
  incomparable p q ->
  upd_total (upd_total s (LocField t p) x) (LocField t q) y =
  upd_total (upd_total s (LocField t q) y) (LocField t p) x.
Proof.
  intros I. unfold upd_total. cbn [loc_upd].
  pose proof (set_set_comm p q s x y I) as C.
  destruct (set_by_index s p x) as [s1|] eqn:S1; destruct (set_by_index s q y) as [s2|] eqn:S2;
    cbn [obind] in C.
  - assert (exists v, set_by_index s1 q y = Some v) as [v Hv].
    { destruct (sbi_some_readable q s y s2 S2) as [z Hz].
      apply (sbi_succeeds q s1 y z). rewrite (get_set_other p q s x s1 I S1). exact Hz. }
    rewrite <- C, Hv. reflexivity.
  - rewrite C, ?S1, ?S2. reflexivity.
  - rewrite <- C, ?S1, ?S2. reflexivity.
  - rewrite ?S1, ?S2. reflexivity.
Qed.

Lemma upd_total_comm s l l' x y :
  loc_type l = loc_type l' -> loc_indep l l' ->
  val_eqv (upd_total (upd_total s l x) l' y) (upd_total (upd_total s l' y) l x).
Proof.
  intros E I. destruct l as [t p|mt k], l' as [t' q|mt' k']; simpl in E, I; subst; try congruence.
  - destruct I as [I|I]; [congruence|]. left. apply upd_total_comm_eq. exact I.
  - destruct I as [I|I]; [congruence|]. unfold upd_total. simpl.
    destruct s as [| | | |n es| |]; try (left; reflexivity).
    right. eexists _, _, _. repeat split. apply map_set_comm_ext. exact I.
Qed.

Lemma write_write_comm_difftype m l l' x y :
  loc_type l <> loc_type l' ->
  write_loc (write_loc m l x) l' y = write_loc (write_loc m l' y) l x.
Proof.
  intros Ne.
  rewrite (write_loc_upd (write_loc m l x) l' y), (get_write_other_type m l x _ Ne).
  rewrite (write_loc_upd (write_loc m l' y) l x), (get_write_other_type m l' y (loc_type l)) by congruence.
  rewrite (write_loc_upd m l x), (write_loc_upd m l' y).
  destruct (loc_upd (t2v_get m (loc_type l)) l x) as [v|];
    destruct (loc_upd (t2v_get m (loc_type l')) l' y) as [v'|]; try reflexivity.
  apply t2v_set_comm. exact Ne.
Qed.

Lemma write_write_comm m l l' x y :
  loc_indep l l' ->
  t2v_eqv (write_loc (write_loc m l x) l' y) (write_loc (write_loc m l' y) l x).
Proof.
  intros I. destruct (Nat.eq_dec (loc_type l) (loc_type l')) as [E|Ne].
  - destruct (t2v_get m (loc_type l)) as [s|] eqn:G.
    + rewrite (write_loc_total m l x s G).
      assert (t2v_get m (loc_type l') = Some s) as G' by (rewrite <- E; exact G).
      rewrite (write_loc_total m l' y s G').
      rewrite (write_loc_total _ l' y (upd_total s l x)).
      2:{ rewrite <- E. apply t2v_get_set_same. congruence. }
      rewrite (write_loc_total _ l x (upd_total s l' y)).
      2:{ rewrite E. apply t2v_get_set_same. congruence. }
      rewrite <- E, !t2v_set_twice. apply t2v_eqv_set; [apply t2v_eqv_refl|].
      apply upd_total_comm; assumption.
    + assert (forall l0 z, loc_type l0 = loc_type l -> write_loc m l0 z = m) as W.
      { intros l0 z E0. rewrite write_loc_upd, E0, G. destruct l0; reflexivity. }
      rewrite (W l x eq_refl), (W l' y (eq_sym E)), (W l x eq_refl).
      apply t2v_eqv_refl.
  - rewrite (write_write_comm_difftype m l l' x y Ne). apply t2v_eqv_refl.
Qed.

(* pairwise independent writes can be performed in any order *)
Lemma apply_writes_perm ws ws' :
  Permutation ws ws' -> forall m m',
  pairwise loc_indep (map fst ws) -> t2v_eqv m m' ->
  t2v_eqv (apply_writes m ws) (apply_writes m' ws').
Proof.
  intros P. induction P as [|w l l' P IH|a b l|l l' l'' P1 IH1 P2 IH2]; intros m m' Pw H.
  - exact H.
  - unfold apply_writes in *. simpl. apply IH; [apply Pw|apply write_loc_eqv; exact H].
  - unfold apply_writes. simpl. apply apply_writes_eqv.
    destruct Pw as [F _]. inversion F as [|? ? I _]; subst.
    eapply t2v_eqv_trans; [apply write_write_comm; exact I|].
    apply write_loc_eqv, write_loc_eqv. exact H.
  - eapply t2v_eqv_trans; [apply IH1; [exact Pw|exact H]|].
    apply IH2; [|apply t2v_eqv_refl].
    eapply pairwise_perm; [exact loc_indep_sym|apply Permutation_map; exact P1|exact Pw].
Qed.

(* and exactly so when no place is a map key *)
Definition is_field_loc (l : loc) : bool := match l with LocField _ _ => true | LocKey _ _ => false end.

Lemma write_write_comm_eq m l l' x y :
  loc_indep l l' -> is_field_loc l = true -> is_field_loc l' = true ->
  write_loc (write_loc m l x) l' y = write_loc (write_loc m l' y) l x.
Proof.
  intros I F F'. destruct l as [t p|]; [|discriminate]. destruct l' as [t' q|]; [|discriminate].
  destruct (Nat.eq_dec t t') as [E|Ne].
  - subst t'. destruct I as [I|I]; [congruence|].
    destruct (t2v_get m t) as [s|] eqn:G.
    + rewrite (write_loc_total m (LocField t p) x s G), (write_loc_total m (LocField t q) y s G).
      rewrite (write_loc_total _ (LocField t q) y (upd_total s (LocField t p) x)).
      2:{ apply t2v_get_set_same. simpl. congruence. }
      rewrite (write_loc_total _ (LocField t p) x (upd_total s (LocField t q) y)).
      2:{ apply t2v_get_set_same. simpl. congruence. }
      simpl loc_type. rewrite !t2v_set_twice. f_equal. apply upd_total_comm_eq. exact I.
    + simpl. unfold write_field. rewrite G. rewrite G. reflexivity.
  - apply write_write_comm_difftype. exact Ne.
Qed.

Lemma apply_writes_perm_eq ws ws' :
  Permutation ws ws' -> forall m,
  pairwise loc_indep (map fst ws) -> Forall (fun w => is_field_loc (fst w) = true) ws ->
  apply_writes m ws = apply_writes m ws'.
Proof.
  intros P. induction P as [|w l l' P IH|a b l|l l' l'' P1 IH1 P2 IH2]; intros m Pw Fl.
  - reflexivity.
  - unfold apply_writes in *. simpl. apply IH; [apply Pw|inversion Fl; assumption].
  - unfold apply_writes. simpl. f_equal.
    destruct Pw as [F _]. inversion F as [|? ? I _]; subst.
    inversion Fl as [|? ? Fb Fl']; subst. inversion Fl' as [|? ? Fa _]; subst.
    apply write_write_comm_eq; assumption.
  - rewrite IH1 by assumption. apply IH2.
    + eapply pairwise_perm; [exact loc_indep_sym|apply Permutation_map; exact P1|exact Pw].
    + rewrite Forall_forall in *. intros w Hw. apply Fl. eapply Permutation_in; [apply Permutation_sym; exact P1|exact Hw].
Qed.
