(* Reading and writing struct fields by index path (reflect's FieldByIndex):
   get-after-set, frame, and a batch of writes at pairwise diverging paths.
   Used by the round-trip proof (C17). *)
From Coq Require Import Permutation.
From SQLair.Base Require Import Bytes.
From SQLair.Model Require Import Reflect TypeInfo Bind Scan.

(* two index paths part ways at some position (neither is a prefix of the
   other): they address disjoint parts of a value *)
Fixpoint diverging (p q : list nat) : Prop :=
  match p, q with
  | i :: p', j :: q' => i <> j \/ (i = j /\ diverging p' q')
  | _, _ => False
  end.

Lemma diverging_sym p : forall q, diverging p q -> diverging q p.
Proof.
  induction p as [|i p IH]; intros [|j q] H; simpl in *; try contradiction.
  destruct H as [H|[E H]]; [left; congruence|right; split; [congruence|apply IH; exact H]].
Qed.

Lemma diverging_irrefl p : ~ diverging p p.
Proof. induction p as [|i p IH]; simpl; [tauto|]. intros [H|[_ H]]; [congruence|tauto]. Qed.

(* ---------------------------------------------------------- replace_nth -- *)

Lemma nth_error_replace_same {A} (l : list A) : forall i x y,
  nth_error l i = Some y -> nth_error (replace_nth l i x) i = Some x.
Proof.
  induction l as [|a l IH]; intros [|i] x y H; simpl in *; try discriminate; [reflexivity|].
  eapply IH. exact H.
Qed.

Lemma nth_error_replace_other {A} (l : list A) : forall i j x,
  i <> j -> nth_error (replace_nth l i x) j = nth_error l j.
Proof.
  induction l as [|a l IH]; intros [|i] [|j] x H; simpl; try reflexivity; try congruence.
  apply IH. congruence.
Qed.

(* ------------------------------------------- one step of a path, uniformly -- *)

(* the struct a path step goes through: the value itself, or what an embedded
   pointer points to *)
Definition fields_of (v : val) : option (list val) :=
  match v with
  | VStruct fs => Some fs
  | VPtr (VStruct fs) => Some fs
  | _ => None
  end.

Definition rebuild (v : val) (fs' : list val) : val :=
  match v with
  | VPtr _ => VPtr (VStruct fs')
  | _ => VStruct fs'
  end.

Lemma field_by_index_step v i p :
  field_by_index v (i :: p) =
  match fields_of v with
  | Some fs => match nth_error fs i with Some f => field_by_index f p | None => None end
  | None => None
  end.
Proof. destruct v as [| |w| | | |]; try reflexivity. destruct w; reflexivity. Qed.

Lemma set_by_index_step v i p x :
  set_by_index v (i :: p) x =
  match fields_of v with
  | Some fs =>
      match nth_error fs i with
      | Some f => option_map (fun f' => rebuild v (replace_nth fs i f')) (set_by_index f p x)
      | None => None
      end
  | None => None
  end.
Proof. destruct v as [| |w| | | |]; try reflexivity. destruct w; reflexivity. Qed.

Lemma fields_of_rebuild v fs fs' : fields_of v = Some fs -> fields_of (rebuild v fs') = Some fs'.
Proof.
  destruct v as [| |w| | | |]; simpl; try discriminate; [|reflexivity].
  destruct w; simpl; try discriminate. reflexivity.
Qed.

(* ------------------------------------------------------ get after set -- *)

Lemma get_set_same p : forall v x v1,
  set_by_index v p x = Some v1 -> field_by_index v1 p = Some x.
Proof.
  induction p as [|i p IH]; intros v x v1 H.
  - simpl in *. congruence.
  - rewrite set_by_index_step in H. rewrite field_by_index_step.
    destruct (fields_of v) as [fs|] eqn:F; [|discriminate].
    destruct (nth_error fs i) as [f|] eqn:N; [|discriminate].
    destruct (set_by_index f p x) as [f'|] eqn:S; [|discriminate].
    simpl in H. inversion H; subst.
    rewrite (fields_of_rebuild _ _ _ F), (nth_error_replace_same _ _ _ _ N).
    eapply IH. exact S.
Qed.

Lemma get_set_other p : forall q v x v1,
  diverging p q -> set_by_index v p x = Some v1 -> field_by_index v1 q = field_by_index v q.
Proof.
  induction p as [|i p IH]; intros [|j q] v x v1 D H; simpl in D; try contradiction.
  rewrite set_by_index_step in H. rewrite !field_by_index_step.
  destruct (fields_of v) as [fs|] eqn:F; [|discriminate].
  destruct (nth_error fs i) as [f|] eqn:N; [|discriminate].
  destruct (set_by_index f p x) as [f'|] eqn:S; [|discriminate].
  simpl in H. inversion H; subst.
  rewrite (fields_of_rebuild _ _ _ F).
  destruct D as [D|[E D]].
  - rewrite nth_error_replace_other by exact D. reflexivity.
  - subst j. rewrite (nth_error_replace_same _ _ _ _ N), N. eapply IH; [exact D|exact S].
Qed.

Lemma set_defined p : forall v x,
  field_by_index v p <> None -> exists v1, set_by_index v p x = Some v1.
Proof.
  induction p as [|i p IH]; intros v x H.
  - simpl. eexists. reflexivity.
  - rewrite field_by_index_step in H. rewrite set_by_index_step.
    destruct (fields_of v) as [fs|]; [|congruence].
    destruct (nth_error fs i) as [f|]; [|congruence].
    destruct (IH f x H) as [f' E]. rewrite E. simpl. eexists. reflexivity.
Qed.

(* ------------------------------------------------------------ pairwise -- *)

Fixpoint pairwise {A} (R : A -> A -> Prop) (l : list A) : Prop :=
  match l with
  | [] => True
  | a :: l' => Forall (R a) l' /\ pairwise R l'
  end.

Lemma pairwise_perm {A} (R : A -> A -> Prop) :
  (forall a b, R a b -> R b a) ->
  forall l l', Permutation l l' -> pairwise R l -> pairwise R l'.
Proof.
  intros Sym l l' P. induction P as [|a l l' P IH|a b l|l l' l'' P1 IH1 P2 IH2]; intros H.
  - exact I.
  - destruct H as [F H]. split; [eapply Permutation_Forall; [exact P|exact F]|apply IH; exact H].
  - destruct H as [Fb [Fa H]]. inversion Fb as [|? ? Rba Fb']; subst.
    split; [constructor; [apply Sym; exact Rba|exact Fa]|split; [exact Fb'|exact H]].
  - apply IH2, IH1, H.
Qed.

Lemma pairwise_app {A} (R : A -> A -> Prop) l1 : forall l2,
  pairwise R l1 -> pairwise R l2 -> (forall a b, In a l1 -> In b l2 -> R a b) ->
  pairwise R (l1 ++ l2).
Proof.
  induction l1 as [|a l1 IH]; intros l2 H1 H2 X; simpl; [exact H2|].
  destruct H1 as [F H1]. split.
  - apply Forall_app. split; [exact F|]. apply Forall_forall. intros b Hb. apply X; [left; reflexivity|exact Hb].
  - apply IH; [exact H1|exact H2|]. intros a' b Ha Hb. apply X; [right; exact Ha|exact Hb].
Qed.

Lemma pairwise_map {A B} (f : A -> B) (R : B -> B -> Prop) l :
  pairwise R (map f l) <-> pairwise (fun a b => R (f a) (f b)) l.
Proof.
  induction l as [|a l IH]; simpl; [tauto|]. rewrite IH, Forall_map. tauto.
Qed.

Lemma pairwise_impl {A} (R S : A -> A -> Prop) l :
  (forall a b, In a l -> In b l -> R a b -> S a b) -> pairwise R l -> pairwise S l.
Proof.
  induction l as [|a l IH]; intros X H; simpl in *; [exact I|]. destruct H as [F H]. split.
  - apply Forall_forall. intros b Hb. apply X; [left; reflexivity|right; exact Hb|].
    rewrite Forall_forall in F. apply F. exact Hb.
  - apply IH; [|exact H]. intros a' b Ha Hb. apply X; right; assumption.
Qed.

(* distinct keys: anything that holds of elements with different keys holds
   pairwise *)
Lemma pairwise_of_nodup {A B} (g : A -> B) (R : A -> A -> Prop) l :
  NoDup (map g l) ->
  (forall a b, In a l -> In b l -> g a <> g b -> R a b) ->
  pairwise R l.
Proof.
  induction l as [|a l IH]; intros ND X; simpl in *; [exact I|].
  inversion ND as [|? ? NI ND']; subst. split.
  - apply Forall_forall. intros b Hb. apply X; [left; reflexivity|right; exact Hb|].
    intros E. apply NI. rewrite E. apply in_map. exact Hb.
  - apply IH; [exact ND'|]. intros a' b Ha Hb. apply X; right; assumption.
Qed.

Lemma pairwise_in {A} (R : A -> A -> Prop) l :
  (forall a b, R a b -> R b a) -> pairwise R l ->
  forall a b, In a l -> In b l -> a = b \/ R a b.
Proof.
  intros Sym. induction l as [|c l IH]; intros H a b Ha Hb; simpl in *; [contradiction|].
  destruct H as [F H]. rewrite Forall_forall in F.
  destruct Ha as [Ha|Ha], Hb as [Hb|Hb]; subst.
  - left. reflexivity.
  - right. apply F. exact Hb.
  - right. apply Sym, F. exact Ha.
  - apply IH; assumption.
Qed.

Lemma filter_partition_perm {A} (p : A -> bool) l :
  Permutation (filter p l ++ filter (fun x => negb (p x)) l) l.
Proof.
  induction l as [|a l IH]; simpl; [constructor|].
  destruct (p a); simpl.
  - constructor. exact IH.
  - apply Permutation_sym, Permutation_cons_app, Permutation_sym. exact IH.
Qed.

(* ------------------------------------------------------ batch of writes -- *)

Definition wr (v : val) (w : list nat * val) : val :=
  match set_by_index v (fst w) (snd w) with
  | Some v' => v'
  | None => v
  end.

Definition wdiv (a b : list nat * val) : Prop := diverging (fst a) (fst b).

(* writes at pairwise diverging, valid paths: afterwards every written path
   holds what was written to it, and paths diverging from all of them are
   untouched *)
Lemma writes_spec : forall ws v0,
  pairwise wdiv ws ->
  Forall (fun w => field_by_index v0 (fst w) <> None) ws ->
  (forall w, In w ws -> field_by_index (fold_left wr ws v0) (fst w) = Some (snd w)) /\
  (forall q, Forall (fun w => diverging (fst w) q) ws ->
             field_by_index (fold_left wr ws v0) q = field_by_index v0 q).
Proof.
  induction ws as [|w ws IH]; intros v0 PW V.
  - split; [intros w []|intros q _; reflexivity].
  - destruct PW as [Fw PW]. inversion V as [|? ? Vw Vws]; subst.
    destruct (set_defined (fst w) v0 (snd w) Vw) as [v1 S].
    assert (E1 : wr v0 w = v1) by (unfold wr; rewrite S; reflexivity).
    cbn [fold_left]. rewrite E1.
    assert (V1 : Forall (fun w' => field_by_index v1 (fst w') <> None) ws).
    { rewrite Forall_forall in *. intros w' Hw'.
      rewrite (get_set_other _ _ _ _ _ (Fw w' Hw') S). apply Vws. exact Hw'. }
    destruct (IH v1 PW V1) as [G Fr]. split.
    + intros w' [Hw'|Hw'].
      * subst w'. rewrite Fr; [eapply get_set_same; exact S|].
        rewrite Forall_forall in *. intros w' Hw'. apply diverging_sym. apply Fw. exact Hw'.
      * apply G. exact Hw'.
    + intros q Fq. inversion Fq as [|? ? Dq Fq']; subst.
      rewrite Fr by exact Fq'. eapply get_set_other; [exact Dq|exact S].
Qed.

(* the same at the level of the destination map: one struct destination *)
Lemma apply_pending_fields t : forall ws v0,
  fold_left apply_pending (map (fun w => PField t (fst w) (snd w)) ws) [(t, v0)] =
  [(t, fold_left wr ws v0)].
Proof.
  induction ws as [|w ws IH]; intros v0; [reflexivity|].
  cbn [map fold_left]. unfold apply_pending at 2. unfold write_field, wr.
  cbn [t2v_get]. rewrite Nat.eqb_refl.
  destruct (set_by_index v0 (fst w) (snd w)) as [v1|].
  - cbn [t2v_set]. rewrite Nat.eqb_refl. apply IH.
  - apply IH.
Qed.
