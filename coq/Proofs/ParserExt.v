(* Monotonicity of the parser state ("ext"): every function of the parser
   model, whatever it returns, leaves the parser in a state reached from the
   entry state by consuming a prefix of the unread input.  Restoring to a
   checkpoint taken at or after the entry state preserves this. *)
From SQLair.Base Require Import Bytes Utf8.
From SQLair.Model Require Import GenUnicode GenConsts Parser.
From SQLair.Proofs Require Import Utf8Facts.

Definition ext (a b : pstate) : Prop :=
  exists c, rest a = c ++ rest b /\ pos b = pos a + length c.

Lemma ext_refl a : ext a a.
Proof. exists []. simpl. split; [reflexivity|lia]. Qed.

Lemma ext_trans a b c : ext a b -> ext b c -> ext a c.
Proof.
  intros [x [Hx Px]] [y [Hy Py]]. exists (x ++ y). rewrite app_length, <- app_assoc, <- Hy.
  split; [assumption|lia].
Qed.

Lemma ext_pos a b : ext a b -> pos a <= pos b.
Proof. intros [c [_ H]]. lia. Qed.

Lemma ext_len a b : ext a b -> length (rest b) <= length (rest a).
Proof. intros [c [H _]]. rewrite H, app_length. lia. Qed.

Lemma ext_same_pos a b : ext a b -> pos a = pos b -> rest a = rest b.
Proof.
  intros [c [H P]] E. assert (length c = 0) by lia. destruct c; [assumption|discriminate].
Qed.

Lemma slice_ext a b : ext a b -> rest a = slice a b ++ rest b.
Proof.
  intros [c [H P]]. unfold slice. rewrite H. replace (pos b - pos a) with (length c + 0) by lia.
  rewrite firstn_app_2. simpl. rewrite app_nil_r. reflexivity.
Qed.

Lemma slice_ext_length a b : ext a b -> length (slice a b) = pos b - pos a.
Proof.
  intros [c [H P]]. unfold slice. rewrite H. replace (pos b - pos a) with (length c + 0) by lia.
  rewrite firstn_app_2. simpl. rewrite app_nil_r. lia.
Qed.

(* ------------------------------------------------------------ advance -- *)

Lemma advance_ext st : ext st (advance st).
Proof.
  unfold advance. destruct (rest st) as [|b t] eqn:R; [apply ext_refl|].
  destruct (decode_rune (b :: t)) as [r size] eqn:D.
  assert (Hle : size <= length (b :: t)).
  { pose proof (decode_size_le (b :: t)) as H. rewrite D in H. exact H. }
  assert (Hc : exists c, b :: t = c ++ skipn size (b :: t) /\ length c = size).
  { exists (firstn size (b :: t)). rewrite firstn_skipn, firstn_length. split; [reflexivity|lia]. }
  destruct Hc as [c [Hc Lc]].
  destruct (N.eqb r 10); exists c; simpl; rewrite R; (split; [exact Hc|lia]).
Qed.

Lemma advance_progress st : at_end st = false -> length (rest (advance st)) < length (rest st).
Proof.
  unfold at_end, advance. destruct (rest st) as [|b t] eqn:R; [discriminate|intros _].
  destruct (decode_rune (b :: t)) as [r size] eqn:D.
  assert (H1 : 1 <= size).
  { pose proof (decode_size_pos (b :: t)) as H. rewrite D in H. apply H. discriminate. }
  assert (Hl : length (skipn size (b :: t)) < length (b :: t)).
  { rewrite skipn_length. cbn [length]. lia. }
  destruct (N.eqb r 10); simpl in *; lia.
Qed.

(* ----------------------------------------------------- proof machinery -- *)

(* "transitive form" of an ext lemma, from a root state st0; a type class so
   that the lemma for a call is found from the head symbol of the call *)
Class ExtFn {A} (f : pstate -> pstate * A) : Prop :=
  ext_prf : forall st0 s s' r, ext st0 s -> f s = (s', r) -> ext st0 s'.

Lemma ext_fn_intro {A} (f : pstate -> pstate * A) :
  (forall s s' r, f s = (s', r) -> ext s s') -> ExtFn f.
Proof. intros H st0 s s' r E0 E. eapply ext_trans; [exact E0|eapply H; exact E]. Qed.

Create HintDb extdb.

Lemma advance_ext' st0 s : ext st0 s -> ext st0 (advance s).
Proof. intros H. eapply ext_trans; [exact H|apply advance_ext]. Qed.
#[export] Hint Resolve advance_ext' ext_refl : extdb.

(* Finds a match scrutinee inside T that does not itself contain a match. *)
Ltac find_scrut T :=
  match T with
  | context [match ?x with _ => _ end] =>
      lazymatch x with
      | context [match _ with _ => _ end] => fail
      | _ => x
      end
  end.

(* For every recorded call  E : g s = (s1, _)  record that s1 extends the root. *)
Ltac ext_record st0 :=
  repeat match goal with
         | E : ?g ?s = (?s1, _) |- _ =>
             lazymatch goal with
             | _ : ext st0 s1 |- _ => fail
             | _ => let inst := constr:(_ : ExtFn g) in
                    assert (ext st0 s1) by (eapply (@ext_prf _ g inst); [|exact E]; eauto 3 with extdb)
             end
         end.

Ltac norm_in H :=
  cbv beta iota zeta delta [andThen] in H.

Ltac destruct_scrut H :=
  let T := type of H in
  let x := find_scrut T in
  let ty := type of x in
  lazymatch ty with
  | prod pstate _ =>
      let s1 := fresh "s" in let r1 := fresh "r" in let E := fresh "E" in
      destruct x as [s1 r1] eqn:E
  | _ => destruct x eqn:?
  end; norm_in H.

Ltac ext_finish st0 :=
  match goal with
  | H : (_, _) = (_, _) |- _ => inversion H; subst; clear H
  | H : Some _ = Some _ |- _ => inversion H; subst; clear H
  end; ext_record st0; eauto 3 with extdb.

Ltac ext_go st0 H :=
  norm_in H;
  repeat (ext_record st0; destruct_scrut H); try discriminate; try (ext_finish st0);
  try (ext_record st0; assumption).


#[export] Instance skipChar_ext c : ExtFn (skipChar c).
Proof.
  intros st0 s s' r E0 H. unfold skipChar in H. ext_go st0 H.
Qed.

Lemma skipCharFind_loop_ext fuel : forall c st0 s s',
  ext st0 s -> skipCharFind_loop fuel c s = Some (Some s') -> ext st0 s'.
Proof.
  induction fuel as [|f IH]; intros c st0 s s' E0 H; simpl in H; [discriminate|].
  ext_go st0 H. eapply IH; [|exact H]. eauto with extdb.
Qed.

#[export] Instance skipCharFind_ext c : ExtFn (skipCharFind c).
Proof.
  intros st0 s s' r E0 H. unfold skipCharFind in H.
  destruct (skipCharFind_loop (fuel_of s) c s) as [[s1|]|] eqn:E; inversion H; subst; auto.
  eapply skipCharFind_loop_ext; eauto.
Qed.

#[export] Instance skipString_ext kw : ExtFn (skipString kw).
Proof.
  apply ext_fn_intro. intros s s' r H. unfold skipString in H.
  destruct (prefix_fold kw (rest s)) eqn:P; inversion H; subst; [|apply ext_refl].
  assert (L : length kw <= length (rest s)).
  { clear H. revert P. generalize (rest s). induction kw as [|k kw IH]; intros l P; simpl; [lia|].
    destruct l; simpl in P; [discriminate|]. apply andb_prop in P. destruct P as [_ P].
    apply IH in P. simpl. lia. }
  exists (firstn (length kw) (rest s)). simpl. rewrite firstn_skipn, firstn_length. split; [reflexivity|lia].
Qed.
Lemma strlit_loop_ext fuel : forall c m st0 s s',
  ext st0 s -> strlit_loop fuel c m s = Some (Some s') -> ext st0 s'.
Proof.
  induction fuel as [|f IH]; intros c m st0 s s' E0 H; simpl in H; [discriminate|].
  ext_go st0 H. eapply IH; [|exact H]. assumption.
Qed.

#[export] Instance skipStringLiteral_ext : ExtFn skipStringLiteral.
Proof.
  intros st0 s s' r E0 H. unfold skipStringLiteral in H.
  ext_go st0 H.
  all: try match goal with
  | E : strlit_loop _ _ _ ?x = Some (Some ?y) |- ext _ ?y => eapply strlit_loop_ext; [|exact E]; assumption
  end.
Qed.

Lemma comment_loop_ext fuel : forall c st0 s s',
  ext st0 s -> comment_loop fuel c s = Some s' -> ext st0 s'.
Proof.
  induction fuel as [|f IH]; intros c st0 s s' E0 H; simpl in H; [discriminate|].
  ext_go st0 H. all: try (eapply IH; [|exact H]; eauto 3 with extdb).
Qed.

#[export] Instance skipComment_ext : ExtFn skipComment.
Proof.
  intros st0 s s' r E0 H. unfold skipComment in H.
  ext_go st0 H.
  all: try match goal with
  | E : comment_loop _ _ ?x = Some ?y |- ext _ ?y => eapply comment_loop_ext; [|exact E]; assumption
  end.
Qed.

#[export] Instance skipBlanks_loop_ext fuel : ExtFn (skipBlanks_loop fuel).
Proof.
  induction fuel as [|f IH]; intros st0 s s' r E0 H; simpl in H.
  - inversion H; subst; assumption.
  - ext_go st0 H. all: try (eapply IH; [|exact H]; eauto 3 with extdb).
Qed.

#[export] Instance skipBlanks_ext : ExtFn skipBlanks.
Proof. unfold skipBlanks. intros st0 s s' r E0 H. eapply skipBlanks_loop_ext; eauto. Qed.

#[export] Instance parens_loop_ext fuel n : ExtFn (parens_loop fuel n).
Proof.
  revert n. induction fuel as [|f IH]; intros n st0 s s' r E0 H; simpl in H.
  - inversion H; subst; assumption.
  - ext_go st0 H. all: try (eapply IH; [|exact H]; eauto 3 with extdb).
Qed.

#[export] Instance skipEnclosedParentheses_ext : ExtFn skipEnclosedParentheses.
Proof. intros st0 s s' r E0 H. unfold skipEnclosedParentheses in H. ext_go st0 H. Qed.

#[export] Instance litlist_loop_ext fuel : ExtFn (litlist_loop fuel).
Proof.
  induction fuel as [|f IH]; intros st0 s s' r E0 H; simpl in H.
  - inversion H; subst; assumption.
  - ext_go st0 H. all: try (eapply IH; [|exact H]; eauto 3 with extdb).
Qed.

#[export] Instance skipLiteralInList_ext : ExtFn skipLiteralInList.
Proof. unfold skipLiteralInList. intros st0 s s' r E0 H. eapply litlist_loop_ext; eauto. Qed.

Lemma namechars_loop_ext fuel : forall st0 s s',
  ext st0 s -> namechars_loop fuel s = Some s' -> ext st0 s'.
Proof.
  induction fuel as [|f IH]; intros st0 s s' E0 H; simpl in H; [discriminate|].
  ext_go st0 H. eapply IH; [|exact H]; eauto with extdb.
Qed.

Ltac use_namechars :=
  match goal with
  | E : namechars_loop _ ?x = Some ?y |- ext ?st0 _ =>
      lazymatch goal with
      | _ : ext st0 y |- _ => fail
      | _ => assert (ext st0 y) by (eapply namechars_loop_ext; [|exact E]; eauto with extdb)
      end
  end.

#[export] Instance parseIdentifier_ext : ExtFn parseIdentifier.
Proof.
  intros st0 s s' r E0 H. unfold parseIdentifier in H. ext_go st0 H.
  all: try use_namechars; eauto 3 with extdb.
Qed.

#[export] Instance parseIdentifierAsterisk_ext : ExtFn parseIdentifierAsterisk.
Proof.
  intros st0 s s' r E0 H. unfold parseIdentifierAsterisk in H. ext_go st0 H.
Qed.

#[export] Instance parseTypeName_ext : ExtFn parseTypeName.
Proof.
  intros st0 s s' r E0 H. unfold parseTypeName in H. ext_go st0 H.
  all: try use_namechars; eauto 3 with extdb.
Qed.

#[export] Instance parseColumnAccessor_ext : ExtFn parseColumnAccessor.
Proof. intros st0 s s' r E0 H. unfold parseColumnAccessor in H. ext_go st0 H. Qed.

#[export] Instance parseSliceAccessor_ext : ExtFn parseSliceAccessor.
Proof. intros st0 s s' r E0 H. unfold parseSliceAccessor in H. ext_go st0 H. Qed.

#[export] Instance parseTypeAndMember_ext : ExtFn parseTypeAndMember.
Proof. intros st0 s s' r E0 H. unfold parseTypeAndMember in H. ext_go st0 H. Qed.

#[export] Instance parseTargetType_ext : ExtFn parseTargetType.
Proof. intros st0 s s' r E0 H. unfold parseTargetType in H. ext_go st0 H. Qed.

#[export] Instance parseInputMemberAccessor_ext : ExtFn parseInputMemberAccessor.
Proof.
  intros st0 s s' r E0 H. unfold parseInputMemberAccessor in H. ext_go st0 H.
Qed.

Section ParseListExt.
  Context {T : Type} (parseFn : pstate -> pstate * res T).
  Context (parseFn_ext : ExtFn parseFn).

  Lemma parseList_loop_ext fuel : forall cp first acc st0 s s' r,
    ext st0 cp -> ext st0 s -> parseList_loop parseFn fuel cp first acc s = (s', r) -> ext st0 s'.
  Proof using parseFn_ext.
    induction fuel as [|f IH]; intros cp first acc st0 s s' r Ecp E0 H; simpl in H.
    - inversion H; subst; assumption.
    - ext_go st0 H. all: try (refine (IH _ _ _ _ _ _ _ _ _ H); eauto 3 with extdb).
  Qed.

  #[export] Instance parseList_ext : ExtFn (parseList parseFn).
  Proof using parseFn_ext.
    intros st0 s s' r E0 H. unfold parseList in H. ext_go st0 H.
    all: try (refine (parseList_loop_ext _ _ _ _ _ _ _ _ _ _ H); eauto 3 with extdb).
  Qed.
End ParseListExt.

#[export] Instance parseColumns_ext : ExtFn parseColumns.
Proof. intros st0 s s' r E0 H. unfold parseColumns, is_fuel_err in H. ext_go st0 H. Qed.

#[export] Instance parseTargetTypes_ext : ExtFn parseTargetTypes.
Proof. intros st0 s s' r E0 H. unfold parseTargetTypes in H. ext_go st0 H. Qed.

#[export] Instance parseOutputExpr_ext : ExtFn parseOutputExpr.
Proof. intros st0 s s' r E0 H. unfold parseOutputExpr in H. ext_go st0 H. Qed.

#[export] Instance parseSliceInputExpr_ext : ExtFn parseSliceInputExpr.
Proof. intros st0 s s' r E0 H. unfold parseSliceInputExpr in H. ext_go st0 H. Qed.

#[export] Instance parseMemberInputExpr_ext : ExtFn parseMemberInputExpr.
Proof. intros st0 s s' r E0 H. unfold parseMemberInputExpr in H. ext_go st0 H. Qed.

#[export] Instance parseComplexInsertValues_ext : ExtFn parseComplexInsertValues.
Proof. intros st0 s s' r E0 H. unfold parseComplexInsertValues, is_fuel_err in H. ext_go st0 H. Qed.

#[export] Instance parseAsteriskInsertExpr_ext : ExtFn parseAsteriskInsertExpr.
Proof. intros st0 s s' r E0 H. unfold parseAsteriskInsertExpr in H. ext_go st0 H. Qed.

Lemma basicvals_loop_ext fuel : forall cp ip acc st0 s s' r,
  ext st0 cp -> ext st0 s -> basicvals_loop fuel cp ip acc s = (s', r) -> ext st0 s'.
Proof.
  induction fuel as [|f IH]; intros cp ip acc st0 s s' r Ecp E0 H; simpl in H.
  - inversion H; subst; assumption.
  - ext_go st0 H. all: try (refine (IH _ _ _ _ _ _ _ _ _ H); eauto 3 with extdb).
Qed.

#[export] Instance parseBasicInsertValues_ext : ExtFn parseBasicInsertValues.
Proof.
  intros st0 s s' r E0 H. unfold parseBasicInsertValues, is_fuel_err in H. ext_go st0 H.
  all: try (refine (basicvals_loop_ext _ _ _ _ _ _ _ _ _ _ H); eauto 3 with extdb).
Qed.

#[export] Instance parseInsertExpr_ext : ExtFn parseInsertExpr.
Proof. intros st0 s s' r E0 H. unfold parseInsertExpr, is_fuel_err in H. ext_go st0 H. Qed.

#[export] Instance parseInputExpr_ext : ExtFn parseInputExpr.
Proof. intros st0 s s' r E0 H. unfold parseInputExpr in H. ext_go st0 H. Qed.

#[export] Instance advance_loop_ext fuel : ExtFn (advance_loop fuel).
Proof.
  induction fuel as [|f IH]; intros st0 s s' r E0 H; simpl in H.
  - inversion H; subst; assumption.
  - ext_go st0 H. all: try (eapply IH; [|exact H]; eauto 3 with extdb).
Qed.

#[export] Instance advanceToNextExpression_ext : ExtFn advanceToNextExpression.
Proof.
  intros st0 s s' r E0 H. unfold advanceToNextExpression in H. ext_go st0 H.
Qed.
