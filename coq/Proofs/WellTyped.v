(* C07 - "Prepare accepts EXACTLY the statements that are well-typed for the
   samples": an independent, declarative reading of the property text as a
   boolean predicate [well_typed] on the parsed statement and the type
   information of the samples.  No builder state is threaded: every clause
   looks at one expression and at [infos] only; the two global clauses (every
   sample named, no destination twice) look at the whole statement.
   Definitions only; the proofs are in Proofs/WellTypedProofs.v. *)
From SQLair.Base Require Import Bytes.
From SQLair.Model Require Import GenConsts Reflect TypeInfo Parser Bind.
From SQLair.Proofs Require Import BindFacts TotalityProofs BindTypesProofs.

Definition memb (x : str) (l : list str) : bool := existsb (str_eqb x) l.

(* ------------------------------------------------ kinds of the samples -- *)

(* [m] is a member of a sample: an existing db tag of a struct, any key of a map *)
Definition member_okb (a : arginfo) (m : str) : bool :=
  match a with
  | StructInfo _ _ fields => match find_tag m fields with Some _ => true | None => false end
  | MapInfo _ => true
  | SliceInfo _ => false
  end.

(* T.m : T has a sample and m is a member of it *)
Definition has_member (infos : arginfos) (ma : macc) : bool :=
  match assoc_str (tname ma) infos with
  | Some a => member_okb a (mname ma)
  | None => false
  end.

(* the db tags (sorted) of the struct sample called [t] *)
Definition struct_tags (infos : arginfos) (t : str) : option (list str) :=
  match assoc_str t infos with
  | Some (StructInfo _ tags _) => Some tags
  | _ => None
  end.

(* T.* : T is a struct sample with at least one db tag *)
Definition is_tagged_struct (infos : arginfos) (t : str) : bool :=
  match struct_tags infos t with Some (_ :: _) => true | _ => false end.

Definition is_map (infos : arginfos) (t : str) : bool :=
  match assoc_str t infos with Some (MapInfo _) => true | _ => false end.

Definition is_slice (infos : arginfos) (t : str) : bool :=
  match assoc_str t infos with Some (SliceInfo _) => true | _ => false end.

(* ------------------------------------------------------------- inputs -- *)

(* a source of an asterisk INSERT: $T.* with T a struct with tags, or $T.m *)
Definition asterisk_source_ok (infos : arginfos) (s : macc) : bool :=
  if is_star (mname s) then is_tagged_struct infos (tname s) else has_member infos s.

(* a source of "(c1, ...) VALUES (...)": as above, or $M.* with M a map *)
Definition columns_source_ok (infos : arginfos) (s : macc) : bool :=
  if is_star (mname s) then is_tagged_struct infos (tname s) || is_map infos (tname s)
  else has_member infos s.

(* the sources $M.* with M a map *)
Definition map_sources (infos : arginfos) (sources : list macc) : list macc :=
  filter (fun s => is_star (mname s) && is_map infos (tname s)) sources.

(* The sources providing column [c], reading the sources from left to right:
   $T.* (T a struct) provides every db tag of T, in addition to what was
   provided before; $T.m provides the column m and replaces what was
   provided for m before. *)
Definition provider_step (infos : arginfos) (c : str) (acc : list macc) (s : macc) : list macc :=
  if is_star (mname s) then
    match struct_tags infos (tname s) with
    | Some tags => if memb c tags then acc ++ [s] else acc
    | None => acc
    end
  else if str_eqb (mname s) c then [s] else acc.

Definition providers (infos : arginfos) (c : str) (sources : list macc) : list macc :=
  fold_left (provider_step infos c) sources [].

(* a listed column has exactly one provider; or none, and then the map does *)
Definition column_provided (infos : arginfos) (sources : list macc) (c : column) : bool :=
  match providers infos (columnString c) sources with
  | [_] => true
  | [] => match map_sources infos sources with [] => false | _ => true end
  | _ => false
  end.

Definition value_ok (infos : arginfos) (v : value) : bool :=
  match v with VMem ma => has_member infos ma | VLit _ => true end.

(* ------------------------------------------------------------ outputs -- *)

(* explicit columns: at least one column, none of them an asterisk *)
Definition explicit_columns (cols : list column) : bool :=
  negb (Nat.eqb (length cols) 0) && Nat.eqb (starCountColumns cols) 0.

(* a destination when the columns are generated: &T.* with T a struct with
   tags, or &T.m *)
Definition target_okb (infos : arginfos) (t : macc) : bool :=
  if is_star (mname t) then is_tagged_struct infos (tname t) else has_member infos t.

Definition output_ok (infos : arginfos) (cols : list column) (targets : list macc) : bool :=
  if explicit_columns cols then
    if Nat.leb 1 (starCountTypes targets) then
      (* "c1, c2 AS &T.*": one destination; every column is a member of T (a
         tag of the struct T, or T is a map) *)
      match targets with
      | [t] => forallb (fun c => has_member infos {| tname := tname t; mname := columnName c |}) cols
      | _ => false
      end
    else
      (* "(c1, c2) AS (&T.m1, &U.m2)": pairwise, the counts agree *)
      Nat.eqb (length cols) (length targets) && forallb (has_member infos) targets
  else
    (* no columns, or the single column "*" / "t.*": the columns are generated
       from the destinations *)
    Nat.leb (length cols) 1 && forallb (target_okb infos) targets.

(* ------------------------------------------------ one expression at a time -- *)

Definition expr_ok (infos : arginfos) (e : expr) : bool :=
  match e with
  | Bypass _ => true
  | MemberIn _ ma => has_member infos ma
  | SliceIn _ t => is_slice infos t
  | AsteriskIns _ sources => forallb (asterisk_source_ok infos) sources
  | ColumnsIns _ cols sources =>
      forallb (columns_source_ok infos) sources &&
      Nat.leb (length (map_sources infos sources)) 1 &&
      forallb (column_provided infos sources) cols
  | BasicIns _ cols vals =>
      Nat.eqb (length cols) (length vals) && forallb (value_ok infos) vals
  | Output _ cols targets => output_ok infos cols targets
  end.

(* ------------------------------------------------------- destinations -- *)

Definition dot_id (t m : str) : str := t ++ [46%N] ++ m.

Definition target_ids (infos : arginfos) (t : macc) : list str :=
  if is_star (mname t) then
    match struct_tags infos (tname t) with
    | Some tags => map (dot_id (tname t)) tags
    | None => []
    end
  else [dot_id (tname t) (mname t)].

(* the destination identifiers of one expression, in textual order *)
Definition expr_dest_ids (infos : arginfos) (e : expr) : list str :=
  match e with
  | Output _ cols targets =>
      match targets with
      | [t] =>
          if is_star (mname t) && explicit_columns cols
          then map (fun c => dot_id (tname t) (columnName c)) cols
          else target_ids infos t
      | _ => flat_map (target_ids infos) targets
      end
  | _ => []
  end.

(* [env] is not needed: the identifiers are built from the type names of the
   statement, which are the type names of the samples *)
Definition dest_ids (env : tenv) (infos : arginfos) (es : list expr) : list str :=
  flat_map (expr_dest_ids infos) es.

(* ------------------------------------------------------- the statement -- *)

Definition all_samples_named (infos : arginfos) (es : list expr) : bool :=
  forallb (fun '(name, _) => memb name (flat_map type_names es)) infos.

Definition well_typed (env : tenv) (infos : arginfos) (es : list expr) : bool :=
  forallb (expr_ok infos) es &&
  all_samples_named infos es &&
  nodupb (dest_ids env infos es).
