(* C13 at the level of the connection pool (Model/Pool.v): whatever a call did
   and however it failed, when it returns it holds no connection, so no
   sequence of calls can exhaust a pool, of any capacity >= 1. *)
From SQLair.Base Require Import Bytes.
From SQLair.Model Require Import Iter Pool.
From SQLair.Proofs Require Import IterProofs.
Require Import Lia Arith.

(* released (IterProofs.v) = iter.rows is nil and the result set, if there was
   one, is closed: nothing is held *)
Lemma released_holds_nothing i : released i -> conns_held i = 0.
Proof.
  intros [R D]. unfold conns_held, iter_rows_now. rewrite R.
  destruct (it_dead i) as [r|]; [|reflexivity].
  destruct (D r eq_refl) as [C _]. rewrite C. reflexivity.
Qed.

Lemma released_opt_holds_nothing i : released_opt i -> conns_held_opt i = 0.
Proof.
  destruct i as [it|]; simpl; [apply released_holds_nothing|reflexivity].
Qed.

(* the script the driver plays for the call starts in the state database/sql
   hands out a result set in *)
Definition call_fresh (c : call) : Prop := fresh_run (call_run c).

(* (1) every call, on every path *)
Theorem call_holds_nothing c : call_fresh c -> call_held c = 0.
Proof.
  intros F. unfold call_held. apply released_opt_holds_nothing.
  destruct c as [q h r g|q h r g|q h r ops]; unfold call_fresh in F; cbn [call_run] in F;
    cbn [call_final].
  - apply get_releases. exact F.
  - apply getall_releases. exact F.
  - cbn [released_opt]. apply close_releases. exact F.
Qed.

(* with a free connection a call never blocks and gives back what it took *)
Lemma pool_step_level cap n c : n < cap -> call_fresh c -> pool_step cap n c = Some n.
Proof.
  intros Lt F. unfold pool_step, pool_acquire. rewrite (call_holds_nothing c F).
  destruct (call_runs c); [|reflexivity].
  destruct (Nat.leb cap n) eqn:L; [apply Nat.leb_le in L; lia|].
  f_equal. lia.
Qed.

(* the level of the pool is the same after any sequence of calls *)
Theorem pool_level_invariant cap calls : forall n,
  n < cap -> Forall call_fresh calls -> pool_run_from cap n calls = Some n.
Proof.
  induction calls as [|c calls IH]; intros n Lt F; [reflexivity|].
  inversion F as [|c' l' Fc Fr]; subst. cbn [pool_run_from].
  rewrite (pool_step_level cap n c Lt Fc). apply IH; assumption.
Qed.

(* (2) no sequence of calls, failed or not, blocks a pool of capacity >= 1 *)
Theorem no_exhaustion cap calls :
  1 <= cap -> Forall call_fresh calls -> exists n, pool_run cap calls = Some n /\ n = 0.
Proof.
  intros Cap F. exists 0. split; [|reflexivity].
  unfold pool_run. apply pool_level_invariant; [lia|exact F].
Qed.

(* (3) the contrast: a full pool blocks every call that runs a statement *)
Lemma pool_full_blocks cap n c : cap <= n -> call_runs c = true -> pool_step cap n c = None.
Proof.
  intros Le R. unfold pool_step, pool_acquire. rewrite R.
  destruct (Nat.leb cap n) eqn:L; [reflexivity|]. apply Nat.leb_gt in L. lia.
Qed.

(* a session over a plain result with at least one row that the application
   leaves after the first Next, without Close, keeps its connection *)
Lemma abandoned_holds hasout r x rest :
  reading r -> r_pending r = x :: rest ->
  conns_held (session_no_close None hasout (RunRows r) [OpNext]) = 1.
Proof.
  intros Rd P. destruct (reading_next_some r x rest Rd P) as [r' [N [Rd' _]]].
  assert (Q : query_iter None hasout (RunRows r) =
              {| it_hasout := hasout; it_rows := Some r; it_err := None; it_started := false;
                 it_result := None; it_dead := None |}).
  { unfold query_iter, rows_columns. destruct Rd as [C _]. rewrite C. destruct hasout; reflexivity. }
  unfold session_no_close. rewrite Q. cbn [iter_run iter_step]. unfold iter_next.
  cbn [it_err it_rows]. rewrite N. cbn [fst]. unfold conns_held, iter_rows_now. cbn [it_rows it_with].
  destruct Rd' as [C' _]. rewrite C'. reflexivity.
Qed.

Definition two_rows : rows :=
  {| r_pending := [{| row_id := 1; row_ok := true |}; {| row_id := 2; row_ok := true |}];
     r_fail := None; r_close_err := None; r_more := false; r_closed := false; r_lasterr := None;
     r_hiteof := false; r_ctxdone := false; r_current := None; r_driver_closes := 0 |}.

(* Iterator.Close must be run: Iter; Next on two rows and no Close holds the
   connection; on a pool of capacity 1 the next call that runs a statement
   blocks; the same session with the Close holds nothing *)
Theorem close_is_needed :
  conns_held (session_no_close None true (RunRows two_rows) [OpNext]) = 1 /\
  pool_acquire 1 0 true (conns_held (session_no_close None true (RunRows two_rows) [OpNext])) = Some 1 /\
  (forall c, call_runs c = true -> pool_step 1 1 c = None) /\
  call_held (CIter None true (RunRows two_rows) [OpNext]) = 0.
Proof.
  split; [vm_compute; reflexivity|]. split; [vm_compute; reflexivity|].
  split; [intros c R; apply pool_full_blocks; [lia|exact R]|vm_compute; reflexivity].
Qed.
