(* C06, end to end: Get on one row, stated on the outputs of the statement and
   the result columns (no targets). *)
From Coq Require Import Permutation.
From SQLair.Base Require Import Bytes.
From SQLair.Model Require Import GenConsts Reflect TypeInfo Bind Scan.
From SQLair.Proofs Require Import BindFacts ScanAlgebra ScanProofs ScanOrder ScanFields.

(* the value a cell gives to the member an output denotes: database/sql's
   conversion to the member's type; NULL gives a plain field (not a pointer,
   not a Scanner) its zero value *)
Definition output_value (env : tenv) (l : locator) (c : cell) : option val :=
  match l with
  | LField f =>
      match type_by_index env (sf_struct f) (sf_index f) with
      | Some ft =>
          if negb (kind_eqb (t_kind (tget env ft)) KPtr) && negb (t_scanner (tget env ft))
          then match c with CNull => Some (zero_val scan_fuel env ft) | _ => conv scan_fuel env ft c end
          else conv scan_fuel env ft c
      | None => None
      end
  | LMapKey mt _ => conv scan_fuel env (t_elem (tget env mt)) c
  | LSlice _ => None
  end.

Lemma locate_stored env l m tg c :
  locate_scan_target env l m = BOk tg -> stored env tg c = output_value env l c.
Proof.
  destruct l as [f|mt k|st]; intros H.
  - apply locate_field_ok in H. destruct H as [s [y [ft [_ [_ [T [[E [K Sc]]|[E KS]]]]]]]]; subst tg;
      unfold output_value; rewrite T.
    + rewrite K, Sc. reflexivity.
    + destruct KS as [K|Sc]; [rewrite K|rewrite Sc, andb_false_r]; reflexivity.
  - apply locate_key_ok in H. destruct H as [E _]. subst tg. reflexivity.
  - discriminate.
Qed.

Definition outputs_independent (outputs : list locator) : Prop :=
  forall i j li lj a b, i <> j -> nth_error outputs i = Some li -> nth_error outputs j = Some lj ->
    locator_loc li = Some a -> locator_loc lj = Some b -> loc_indep a b.

Theorem get_row_lands env outputs cols cells args m' :
  scan_row env outputs cols cells args = (Some m', None) ->
  length cells = length cols ->
  NoDup (filter_map marker_index cols) ->
  outputs_independent outputs ->
  Forall (arg_map_wf env) args ->
  (forall mt k, In (LMapKey mt k) outputs -> t_kind (tget env mt) = KMap) ->
  exists m,
    validate_outputs env args [] = BOk m /\ map fst m' = map fst m /\
    (* the value under the alias of output i is in the member output i denotes *)
    (forall j c cell i l,
       nth_error cols j = Some c -> nth_error cells j = Some cell ->
       marker_index c = Some i -> nth_error outputs i = Some l ->
       exists lc x, locator_loc l = Some lc /\ output_value env l cell = Some x /\ read_loc m' lc = Some x) /\
    (* every place independent of the members the statement names is as before *)
    (forall lc, (forall l lo, In l outputs -> locator_loc l = Some lo -> loc_indep lo lc) ->
       read_loc m' lc = read_loc m lc) /\
    (forall t, (forall l, In l outputs -> loc_argtype l <> t) -> t2v_get m' t = t2v_get m t).
Proof.
  intros SR Len ND OI WF OM.
  unfold scan_row in SR. destruct (scan_args env outputs cols args) as [[m tgs]|e] eqn:SA; [|discriminate].
  destruct (rows_scan_cells env tgs cells m []) as [m1 [pend|e]] eqn:R; [|discriminate].
  inversion SR as [Em]. clear SR.
  pose proof (targets_independent_from_outputs env outputs cols args m tgs SA ND OI) as TI.
  pose proof (key_targets_are_maps_wf env outputs cols args m tgs SA WF OM) as KM.
  pose proof SA as SA0. apply scan_args_iff in SA0. destruct SA0 as [V [[_ [S _]] Et]].
  assert (length cells = length tgs) as Lt by (rewrite Et, map_length; exact Len).
  destruct (lands_and_frame env outputs cols args cells m tgs m1 pend _ SA R eq_refl Lt TI KM)
    as [Lands [Frame [FrameT Keys]]].
  assert (forall tg lt, In tg tgs -> target_loc tg = Some lt ->
            exists l, In l outputs /\ locator_loc l = Some lt) as TO.
  { intros tg lt Hin Hl. rewrite Et in Hin. apply in_map_iff in Hin. destruct Hin as [c [Ec Hc]].
    destruct (S c Hc) as [st Hst]. unfold step_of in Ec. rewrite Hst in Ec. subst tg.
    pose proof (col_step_ok env outputs m c st Hst) as [_ [_ [Fo T]]].
    destruct (marker_index c) as [i|].
    - destruct T as [lo [Nl L]]. exists lo. split; [eapply nth_error_In; exact Nl|].
      rewrite <- (locate_target_loc env lo m _ L). exact Hl.
    - rewrite (proj2 Fo eq_refl) in Hl. discriminate. }
  exists m. split; [exact V|]. split; [exact Keys|]. split; [|split].
  - intros j c cell i l Hc Hcell Mi Nl.
    destruct (S c (nth_error_In _ _ Hc)) as [st Hst].
    pose proof (col_step_ok env outputs m c st Hst) as [_ [_ [Fo T]]]. rewrite Mi in T.
    destruct T as [l' [Nl' L]]. rewrite Nl in Nl'. inversion Nl'; subst l'.
    assert (nth_error tgs j = Some (fst st)) as Htg.
    { rewrite Et, nth_error_map, Hc. simpl. unfold step_of. rewrite Hst. reflexivity. }
    assert (fst st <> TForeign) as Nf.
    { intros E. apply Fo in E. congruence. }
    destruct (Lands j (fst st) cell Htg Hcell Nf) as [x [St Rd]].
    rewrite read_target_loc, (locate_target_loc env l m _ L) in Rd.
    destruct (locator_loc l) as [lc|] eqn:Ll; [|discriminate].
    exists lc, x. split; [reflexivity|]. split; [|exact Rd].
    rewrite <- (locate_stored env l m (fst st) cell L). exact St.
  - intros lc H. apply Frame. intros tg lt Hin Hl. destruct (TO tg lt Hin Hl) as [l [Il Ll]]. eapply H; eassumption.
  - intros t H. apply FrameT. intros tg Hin E.
    destruct (target_loc tg) as [lt|] eqn:Hl.
    + destruct (TO tg lt Hin Hl) as [l [Il Ll]]. apply (H l Il).
      rewrite (target_loc_type tg lt Hl) in E. inversion E.
      destruct l; simpl in Ll; inversion Ll; reflexivity.
    + apply target_loc_none in Hl. subst tg. discriminate.
Qed.

(* a decision procedure for the independence of the outputs *)
Lemma pairwiseb_spec (ls : list loc) : pairwiseb loc_indepb ls = true -> pairwise loc_indep ls.
Proof.
  induction ls as [|l ls IH]; simpl; [trivial|]. intros H.
  apply andb_prop in H. destruct H as [F P]. split; [|apply IH; exact P].
  apply Forall_forall. intros l' Hl'. rewrite forallb_forall in F. apply loc_indepb_spec, F, Hl'.
Qed.

Lemma indep_of_pairwise {A} (f : A -> option loc) (l : list A) :
  pairwise loc_indep (filter_map f l) ->
  forall i j x y a b, i <> j -> nth_error l i = Some x -> nth_error l j = Some y ->
    f x = Some a -> f y = Some b -> loc_indep a b.
Proof.
  induction l as [|h t IH]; intros H i j x y a b Ne Hi Hj Fa Fb.
  - destruct i; discriminate.
  - simpl in H.
    assert (pairwise loc_indep (filter_map f t) /\
            (forall l0, f h = Some l0 -> forall l', In l' (filter_map f t) -> loc_indep l0 l')) as [P F].
    { destruct (f h) as [l0|]; [|split; [exact H|discriminate]].
      destruct H as [F P]. split; [exact P|]. intros l1 E l' Hl'. inversion E; subst.
      rewrite Forall_forall in F. apply F. exact Hl'. }
    destruct i as [|i], j as [|j]; simpl in Hi, Hj.
    + congruence.
    + inversion Hi; subst. apply (F a Fa). apply filter_map_in. exists y. split; [eapply nth_error_In; exact Hj|exact Fb].
    + inversion Hj; subst. apply loc_indep_sym. apply (F b Fb). apply filter_map_in.
      exists x. split; [eapply nth_error_In; exact Hi|exact Fa].
    + eapply (IH P i j); try eassumption. congruence.
Qed.

Definition outputs_independentb (outputs : list locator) : bool :=
  pairwiseb loc_indepb (filter_map locator_loc outputs).

Lemma outputs_independentb_spec outputs : outputs_independentb outputs = true -> outputs_independent outputs.
Proof.
  intros H i j li lj a b. apply (indep_of_pairwise locator_loc outputs). apply pairwiseb_spec. exact H.
Qed.
