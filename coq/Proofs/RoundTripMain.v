(* The insert/select round trip (C17): the insert side (what `(*) VALUES
   ($T.*)` binds for one value and for a slice), the rows the miniature engine
   returns for `&T.*`, and the round-trip theorems. *)
From Coq Require Import String Permutation.
From SQLair.Base Require Import Bytes Sexp.
From SQLair.Model Require Import GenConsts Reflect TypeInfo Parser Bind Scan MiniSql.
From SQLair.Proofs Require Import ItoaFacts BindFacts InsertView PathFacts RoundTrip.

(* ------------------------------------------------------ small list facts -- *)

Lemma opt_all_map {A B} (f : A -> option B) (g : A -> B) l :
  (forall x, In x l -> f x = Some (g x)) -> opt_all f l = Some (map g l).
Proof.
  induction l as [|a l IH]; intros H; [reflexivity|]. cbn [opt_all map].
  rewrite (H a (or_introl eq_refl)), IH; [reflexivity|]. intros x Hx. apply H. right. exact Hx.
Qed.

Lemma map_seq_nth {A B} (g : A -> B) (d : A) l :
  map g l = map (fun r => g (nth r l d)) (seq 0 (length l)).
Proof.
  induction l as [|a l IH]; [reflexivity|]. cbn [length seq map nth]. f_equal.
  rewrite IH at 1. rewrite <- seq_shift, map_map. reflexivity.
Qed.

Lemma combine_map_same {A B C} (g : A -> B) (h : A -> C) l :
  combine (map g l) (map h l) = map (fun x => (g x, h x)) l.
Proof. induction l as [|a l IH]; [reflexivity|]. simpl. rewrite IH. reflexivity. Qed.

Lemma str_eqb_neq a b : a <> b -> str_eqb a b = false.
Proof.
  intros H. destruct (str_eqb a b) eqn:E; [|reflexivity]. apply str_eqb_eq in E. contradiction.
Qed.

Lemma existsb_str_in x l : existsb (str_eqb x) l = true <-> In x l.
Proof.
  rewrite existsb_exists. split.
  - intros [y [Hy E]]. apply str_eqb_eq in E. subst. exact Hy.
  - intros H. exists x. split; [exact H|apply str_eqb_refl].
Qed.

(* ------------------------------------------------------------- the rows -- *)

(* the row stored for a source value: the non-omitted columns *)
Definition row_of (om : sfield -> bool) (ofs : list sfield) (e : val) : row :=
  map (fun f => (sf_tag f, fcell e f)) (filter (fun f => negb (om f)) ofs).

Lemma row_get_notin r c : ~ In c (map fst r) -> row_get r c = CNull.
Proof.
  induction r as [|[c' x] r IH]; intros H; [reflexivity|]. cbn [row_get]. cbn [map fst In] in H.
  rewrite str_eqb_neq by (intros E; apply H; left; congruence). apply IH. tauto.
Qed.

Lemma row_get_row_of om e : forall ofs f,
  NoDup (map sf_tag ofs) -> In f ofs ->
  row_get (row_of om ofs e) (sf_tag f) = if om f then CNull else fcell e f.
Proof.
  induction ofs as [|g ofs IH]; intros f ND Hf; [contradiction|].
  cbn [map] in ND. inversion ND as [|? ? NI ND']; subst.
  unfold row_of. cbn [filter].
  destruct Hf as [Hf|Hf].
  - subst g. destruct (om f) eqn:O; cbn [negb].
    + apply row_get_notin. rewrite map_map. cbn [fst]. intros H. apply NI.
      apply in_map_iff in H. destruct H as [h [E Hh]]. apply filter_In in Hh.
      rewrite <- E. apply in_map. tauto.
    + cbn [map row_get]. rewrite str_eqb_refl. reflexivity.
  - assert (NE : sf_tag f <> sf_tag g).
    { intros E. apply NI. rewrite <- E. apply in_map. exact Hf. }
    destruct (om g); cbn [negb].
    + apply IH; assumption.
    + cbn [map row_get]. rewrite str_eqb_neq by exact NE. apply IH; assumption.
Qed.

(* SELECT of the tags over the stored rows: NULL for the omitted columns *)
Lemma select_rows om ofs vs tbl :
  NoDup (map sf_tag ofs) ->
  mini_select (map sf_tag ofs) (tbl ++ map (row_of om ofs) vs) =
  mini_select (map sf_tag ofs) tbl ++
  map (fun e => map (fun f => if om f then CNull else fcell e f) ofs) vs.
Proof.
  intros ND. unfold mini_select. rewrite map_app, map_map. f_equal.
  apply map_ext. intros e. rewrite map_map. apply map_ext_in. intros f Hf.
  apply row_get_row_of; assumption.
Qed.

(* --------------------------------------------- the view of bound columns -- *)

(* bound column bc is the column of field f: named by its tag, omitted as
   [om] says, holding in row r the field of the r-th source value *)
Definition colview (om : sfield -> bool) (vs : list val) (f : sfield) (bc : bcol) : Prop :=
  bc_column bc = sf_tag f /\ bc_omit bc = om f /\
  (forall r, r < length vs -> bc_value bc r = fval (nth r vs VNilIface) f) /\
  bc_vals bc <> [].

Lemma colview_vals om vs ofs bcs :
  Forall2 (colview om vs) ofs bcs -> Forall (fun bc => bc_vals bc <> []) bcs.
Proof. induction 1 as [|f bc ofs bcs [_ [_ [_ N]]] F IH]; constructor; assumption. Qed.

Lemma view_columns om vs ofs bcs :
  Forall2 (colview om vs) ofs bcs ->
  insert_columns bcs = map sf_tag (filter (fun f => negb (om f)) ofs).
Proof.
  unfold insert_columns, live. induction 1 as [|f bc ofs bcs [C [O _]] F IH]; [reflexivity|].
  cbn [filter]. rewrite O. destruct (om f); cbn [negb map]; rewrite IH; congruence.
Qed.

Lemma view_row om vs ofs bcs r :
  Forall2 (colview om vs) ofs bcs -> r < length vs ->
  map (fun bc => bc_value bc r) (live bcs) =
  map (fval (nth r vs VNilIface)) (filter (fun f => negb (om f)) ofs).
Proof.
  unfold live. intros F Hr. induction F as [|f bc ofs bcs [C [O [V _]]] F IH]; [reflexivity|].
  cbn [filter]. rewrite O. destruct (om f); cbn [negb map]; rewrite IH; [reflexivity|].
  rewrite (V r Hr). reflexivity.
Qed.

Lemma view_tuples om vs ofs bcs :
  Forall2 (colview om vs) ofs bcs ->
  insert_tuples bcs (length vs) =
  map (fun e => map (fval e) (filter (fun f => negb (om f)) ofs)) vs.
Proof.
  intros F. unfold insert_tuples.
  rewrite (map_seq_nth (fun e => map (fval e) (filter (fun f => negb (om f)) ofs)) VNilIface vs).
  apply map_ext_in. intros r Hr. apply in_seq in Hr. apply view_row; [exact F|lia].
Qed.

(* the table after the insert, given that every sent value is supported *)
Lemma view_insert om vs ofs bcs tbl :
  Forall2 (colview om vs) ofs bcs ->
  (forall e f, In e vs -> In f ofs -> to_cell (fval e f) <> None) ->
  exists tuples,
    opt_all (opt_all to_cell) (insert_tuples bcs (length vs)) = Some tuples /\
    length tuples = length vs /\
    mini_insert (insert_columns bcs) tuples tbl = tbl ++ map (row_of om ofs) vs.
Proof.
  intros F TC. set (lf := filter (fun f => negb (om f)) ofs).
  exists (map (fun e => map (fcell e) lf) vs). split; [|split].
  - rewrite (view_tuples om vs ofs bcs F). fold lf.
    rewrite (opt_all_map (opt_all to_cell) (fun l => map (fun x => match to_cell x with Some c => c | None => CNull end) l)).
    + rewrite map_map. f_equal. apply map_ext. intros e. rewrite map_map. reflexivity.
    + intros l Hl. apply in_map_iff in Hl. destruct Hl as [e [E He]]. subst l.
      apply opt_all_map. intros x Hx. apply in_map_iff in Hx. destruct Hx as [f [E Hf]]. subst x.
      unfold lf in Hf. apply filter_In in Hf.
      destruct (to_cell (fval e f)) eqn:T; [reflexivity|]. exfalso. eapply TC; [exact He|apply Hf|exact T].
  - rewrite map_length. reflexivity.
  - unfold mini_insert. f_equal. rewrite map_map. apply map_ext. intros e.
    rewrite (view_columns om vs ofs bcs F). fold lf. unfold row_of. fold lf.
    apply combine_map_same.
Qed.

(* ----------------------------------- `(*) VALUES ($T.*)`: what is bound -- *)

Definition star_insert (ms : list (str * locator)) : list tcol :=
  map (fun '(tag, l) => TCIns l tag false) ms.

Definition members_of (ofs : list sfield) : list (str * locator) :=
  map (fun f => (sf_tag f, LField f)) ofs.

Lemma star_insert_members ofs :
  star_insert (members_of ofs) = map (fun f => TCIns (LField f) (sf_tag f) false) ofs.
Proof. unfold star_insert, members_of. rewrite map_map. reflexivity. Qed.

(* one value of the struct type *)
Definition om_single (v : val) (f : sfield) : bool := is_zero (fval v f) && sf_omit f.

Lemma bind_col_single env t v cnt f :
  sf_struct f = t -> field_by_index v (sf_index f) <> None ->
  exists bc cnt',
    bind_col env [(t, v)] cnt (TCIns (LField f) (sf_tag f) false) = BOk (bc, cnt') /\
    colview (om_single v) [v] f bc /\ bc_bulk bc = false.
Proof.
  intros Hs Hv. cbn [bind_col locate_params]. rewrite Hs. cbn [t2v_get]. rewrite Nat.eqb_refl.
  unfold field_of, colview, om_single, fval.
  destruct (field_by_index v (sf_index f)) as [x|] eqn:Fx; [|congruence].
  cbn [bbind p_bulk p_vals p_omit p_argtype negb length Nat.ltb Nat.leb andb].
  rewrite andb_false_r.
  destruct (is_zero x && sf_omit f) eqn:O.
  - eexists. eexists. split; [reflexivity|]. cbn [bc_column bc_omit bc_bulk bc_vals].
    split; [|reflexivity]. split; [reflexivity|]. split; [reflexivity|]. split; [|discriminate].
    intros r Hr. cbn [length] in Hr. assert (r = 0) by lia. subst r.
    unfold bc_value. cbn [bc_vals nth]. rewrite Fx. reflexivity.
  - eexists. eexists. split; [reflexivity|]. cbn [bc_column bc_omit bc_bulk bc_vals].
    split; [|reflexivity]. split; [reflexivity|]. split; [reflexivity|]. split; [|discriminate].
    intros r Hr. cbn [length] in Hr. assert (r = 0) by lia. subst r.
    unfold bc_value. cbn [bc_vals nth]. rewrite Fx. reflexivity.
Qed.

Lemma bind_cols_single env t v : forall ofs cnt used numRows acc,
  Forall (fun f => sf_struct f = t /\ field_by_index v (sf_index f) <> None) ofs ->
  exists bcs' cnt' used',
    bind_cols env [(t, v)] cnt used (map (fun f => TCIns (LField f) (sf_tag f) false) ofs)
              false numRows acc
    = BOk (acc ++ bcs', cnt', used', numRows) /\
    Forall2 (colview (om_single v) [v]) ofs bcs'.
Proof.
  induction ofs as [|f ofs IH]; intros cnt used numRows acc F.
  - exists [], cnt, used. cbn [map bind_cols]. rewrite app_nil_r. split; [reflexivity|constructor].
  - apply Forall_cons_iff in F. destruct F as [[Hs Hv] Frest].
    destruct (bind_col_single env t v cnt f Hs Hv) as [bc [cnt1 [BC [CV B]]]].
    cbn [map bind_cols]. rewrite BC. cbn [bbind]. rewrite B.
    destruct (IH cnt1 (match bc_argtype bc with Some t0 => t0 :: used | None => used end)
                 numRows (acc ++ [bc]) Frest) as [bcs' [cnt' [used' [R V]]]].
    exists (bc :: bcs'), cnt', used'. rewrite R. split.
    + rewrite <- app_assoc. reflexivity.
    + constructor; assumption.
Qed.

(* a slice of values of the struct type: one bulk statement *)
Definition om_bulk (vs : list val) (f : sfield) : bool :=
  sf_omit f && forallb (fun e => is_zero (fval e f)) vs.

(* an element of a slice []T or []*T *)
Definition is_struct_val (e : val) : Prop :=
  exists fs, e = VStruct fs \/ e = VPtr (VStruct fs).

(* an omitempty field is zero in every element or in none *)
Definition no_mix (vs : list val) (f : sfield) : Prop :=
  sf_omit f = true ->
  (forall e, In e vs -> is_zero (fval e f) = true) \/
  (forall e, In e vs -> is_zero (fval e f) = false).

(* one iteration of the bulk loop, for an element that is a struct or a
   non-nil pointer to one *)
Lemma field_bulk_step f e rest first omit acc :
  is_struct_val e -> sf_index f <> [] -> field_by_index e (sf_index f) <> None ->
  field_bulk f (e :: rest) first omit acc =
  (let v := fval e f in
   if sf_omit f then
     if first && is_zero v then field_bulk f rest false true (acc ++ [v])
     else if negb (Bool.eqb (is_zero v) omit) then BErr EMixZero
     else field_bulk f rest false omit (acc ++ [v])
   else field_bulk f rest false omit (acc ++ [v])).
Proof.
  intros [fs [E|E]] NEp Hv; subst e; cbn [field_bulk]; unfold field_of, fval in *.
  - destruct (field_by_index (VStruct fs) (sf_index f)) as [x|]; [reflexivity|congruence].
  - assert (P : field_by_index (VPtr (VStruct fs)) (sf_index f) =
                field_by_index (VStruct fs) (sf_index f)).
    { destruct (sf_index f) as [|i p]; [congruence|reflexivity]. }
    rewrite P in *.
    destruct (field_by_index (VStruct fs) (sf_index f)) as [x|]; [reflexivity|congruence].
Qed.

Lemma field_bulk_rest f : sf_index f <> [] -> forall elems omit acc,
  Forall is_struct_val elems ->
  (forall e, In e elems -> field_by_index e (sf_index f) <> None) ->
  (sf_omit f = true -> forall e, In e elems -> is_zero (fval e f) = omit) ->
  field_bulk f elems false omit acc = BOk (acc ++ map (fun e => fval e f) elems, omit).
Proof.
  intros NEp. induction elems as [|e rest IH]; intros omit acc St Hv U.
  - cbn [field_bulk map]. rewrite app_nil_r. reflexivity.
  - apply Forall_cons_iff in St. destruct St as [Se Strest].
    rewrite (field_bulk_step f e rest false omit acc Se NEp (Hv e (or_introl eq_refl))).
    cbv zeta. cbn [andb map].
    assert (Tail : field_bulk f rest false omit (acc ++ [fval e f]) =
                   BOk (acc ++ fval e f :: map (fun e => fval e f) rest, omit)).
    { rewrite IH.
      - rewrite <- app_assoc. reflexivity.
      - exact Strest.
      - intros e' He'. apply Hv. right. exact He'.
      - intros O e' He'. apply U; [exact O|right; exact He']. }
    destruct (sf_omit f) eqn:O; [|exact Tail].
    rewrite (U eq_refl e (or_introl eq_refl)), eqb_reflx. cbn [negb]. exact Tail.
Qed.

Lemma field_bulk_first f e rest :
  sf_index f <> [] ->
  Forall is_struct_val (e :: rest) ->
  (forall e', In e' (e :: rest) -> field_by_index e' (sf_index f) <> None) ->
  no_mix (e :: rest) f ->
  field_bulk f (e :: rest) true false [] =
  BOk (map (fun e' => fval e' f) (e :: rest), om_bulk (e :: rest) f).
Proof.
  intros NEp St Hv NM. apply Forall_cons_iff in St. destruct St as [Se Strest].
  rewrite (field_bulk_step f e rest true false [] Se NEp (Hv e (or_introl eq_refl))).
  cbv zeta. cbn [andb map app].
  assert (Hrest : forall e', In e' rest -> field_by_index e' (sf_index f) <> None).
  { intros e' He'. apply Hv. right. exact He'. }
  unfold om_bulk. destruct (sf_omit f) eqn:O.
  - cbn [andb forallb].
    destruct (NM O) as [Z|Z].
    + rewrite (Z e (or_introl eq_refl)). cbn [andb].
      assert (All : forallb (fun e0 => is_zero (fval e0 f)) rest = true).
      { apply forallb_forall. intros e' He'. apply Z. right. exact He'. }
      rewrite All.
      rewrite (field_bulk_rest f NEp rest true [fval e f] Strest Hrest).
      * reflexivity.
      * intros _ e' He'. apply Z. right. exact He'.
    + rewrite (Z e (or_introl eq_refl)). cbn [andb negb eqb].
      rewrite (field_bulk_rest f NEp rest false [fval e f] Strest Hrest).
      * reflexivity.
      * intros _ e' He'. apply Z. right. exact He'.
  - cbn [andb]. rewrite (field_bulk_rest f NEp rest false [fval e f] Strest Hrest).
    + reflexivity.
    + intros C. congruence.
Qed.

Lemma bc_value_map (g : val -> val) vs bc r :
  bc_vals bc = map g vs -> r < length vs -> bc_value bc r = g (nth r vs VNilIface).
Proof.
  intros E Hr. unfold bc_value. rewrite E.
  destruct vs as [|a [|b vs]].
  - simpl in Hr. lia.
  - simpl in Hr. assert (r = 0) by lia. subst r. reflexivity.
  - set (l := a :: b :: vs) in *. change (nth r (map g l) VNilIface = g (nth r l VNilIface)).
    rewrite (nth_indep (map g l) VNilIface (g VNilIface)) by (rewrite map_length; exact Hr).
    apply map_nth.
Qed.

(* st is the slice type under which locateBulkType finds the argument for the
   struct type t: []T, or []*T *)
Definition bulk_slice_type (env : tenv) (t st : tid) : Prop :=
  slice_of env t = Some st \/
  (exists p, ptr_to env t = Some p /\ slice_of env p = Some st /\ slice_of env t <> Some st).

Lemma locate_bulk_ok env t st x :
  bulk_slice_type env t st -> locate_bulk env [(st, x)] t = Some (st, x).
Proof.
  unfold locate_bulk. intros [S|[p [P [S N]]]].
  - rewrite S. cbn [t2v_get]. rewrite Nat.eqb_refl. reflexivity.
  - rewrite P, S. destruct (slice_of env t) as [st'|].
    + cbn [t2v_get]. destruct (Nat.eqb st' st) eqn:E.
      * apply Nat.eqb_eq in E. congruence.
      * rewrite Nat.eqb_refl. reflexivity.
    + cbn [t2v_get]. rewrite Nat.eqb_refl. reflexivity.
Qed.

Lemma bind_col_bulk env t st nl vs cnt f :
  sf_struct f = t -> Nat.eqb t st = false -> bulk_slice_type env t st ->
  sf_index f <> [] ->
  vs <> [] -> Forall is_struct_val vs ->
  (forall e, In e vs -> field_by_index e (sf_index f) <> None) ->
  no_mix vs f ->
  exists bc cnt',
    bind_col env [(st, VSlice nl vs)] cnt (TCIns (LField f) (sf_tag f) false) = BOk (bc, cnt') /\
    colview (om_bulk vs) vs f bc /\ bc_bulk bc = true /\ length (bc_vals bc) = length vs.
Proof.
  intros Hs Ne Sl NEp NE St Hv NM. cbn [bind_col locate_params]. rewrite Hs. cbn [t2v_get]. rewrite Ne.
  rewrite (locate_bulk_ok env t st _ Sl). cbn [slice_elems].
  destruct vs as [|e rest]; [congruence|].
  rewrite (field_bulk_first f e rest NEp St Hv NM).
  cbn [bbind p_bulk p_vals p_omit p_argtype negb andb]. rewrite andb_false_r.
  destruct (om_bulk (e :: rest) f) eqn:O.
  - eexists. eexists. split; [reflexivity|]. cbn [bc_bulk bc_vals]. unfold colview.
    cbn [bc_column bc_omit]. rewrite map_length.
    split; [split; [reflexivity|split; [symmetry; exact O|split; [|discriminate]]]|split; reflexivity].
    intros r Hr. apply (bc_value_map (fun e' => fval e' f)); [reflexivity|exact Hr].
  - eexists. eexists. split; [reflexivity|]. cbn [bc_bulk bc_vals]. unfold colview.
    cbn [bc_column bc_omit]. rewrite map_length.
    split; [split; [reflexivity|split; [symmetry; exact O|split; [|discriminate]]]|split; reflexivity].
    intros r Hr. apply (bc_value_map (fun e' => fval e' f)); [reflexivity|exact Hr].
Qed.

Lemma bind_cols_bulk env t st nl vs :
  Nat.eqb t st = false -> bulk_slice_type env t st -> vs <> [] -> Forall is_struct_val vs ->
  forall ofs cnt used (bulk : bool) numRows acc,
  Forall (fun f => sf_struct f = t /\ sf_index f <> [] /\
                   (forall e, In e vs -> field_by_index e (sf_index f) <> None) /\
                   no_mix vs f) ofs ->
  (bulk = true -> numRows = length vs) ->
  exists bcs' cnt' used',
    bind_cols env [(st, VSlice nl vs)] cnt used
              (map (fun f => TCIns (LField f) (sf_tag f) false) ofs) bulk numRows acc
    = BOk (acc ++ bcs', cnt', used', match ofs with [] => numRows | _ => length vs end) /\
    Forall2 (colview (om_bulk vs) vs) ofs bcs'.
Proof.
  intros Ne Sl NE St. induction ofs as [|f ofs IH]; intros cnt used bulk numRows acc F Bk.
  - exists [], cnt, used. cbn [map bind_cols]. rewrite app_nil_r. split; [reflexivity|constructor].
  - apply Forall_cons_iff in F. destruct F as [[Hs [NEp [Hv NM]]] Frest].
    destruct (bind_col_bulk env t st nl vs cnt f Hs Ne Sl NEp NE St Hv NM) as [bc [cnt1 [BC [CV [B L]]]]].
    cbn [map bind_cols]. rewrite BC. cbn [bbind]. rewrite B.
    set (used1 := match bc_argtype bc with Some t0 => t0 :: used | None => used end).
    destruct (IH cnt1 used1 true (length vs) (acc ++ [bc]) Frest (fun _ => eq_refl))
      as [bcs' [cnt' [used' [R V]]]].
    assert (NR : match ofs with [] => length vs | _ :: _ => length vs end = length vs)
      by (destruct ofs; reflexivity).
    rewrite NR in R.
    exists (bc :: bcs'), cnt', used'. split; [|constructor; assumption].
    destruct bulk; cbn [negb].
    + rewrite (Bk eq_refl), L, Nat.eqb_refl. cbn [negb]. rewrite R, <- app_assoc. reflexivity.
    + rewrite L, R, <- app_assoc. reflexivity.
Qed.

(* ------------------------------------------------- a mix is rejected -- *)

(* an omitempty field that is zero in some elements and not in others *)
Definition mixedb (vs : list val) (f : sfield) : bool :=
  sf_omit f && negb (forallb (fun e => is_zero (fval e f)) vs)
            && negb (forallb (fun e => negb (is_zero (fval e f))) vs).

Lemma mixedb_false vs f : mixedb vs f = false -> no_mix vs f.
Proof.
  unfold mixedb, no_mix. intros H O. rewrite O in H. cbn [andb] in H.
  destruct (forallb (fun e => is_zero (fval e f)) vs) eqn:A.
  - left. intros e He. rewrite forallb_forall in A. apply A. exact He.
  - cbn [negb andb] in H. apply negb_false_iff in H. right. intros e He.
    rewrite forallb_forall in H. apply negb_true_iff. apply H. exact He.
Qed.

Lemma forallb_false_ex {A} (p : A -> bool) l :
  forallb p l = false -> exists e, In e l /\ p e = false.
Proof.
  induction l as [|a l IH]; cbn [forallb]; [discriminate|]. intros Hp.
  destruct (p a) eqn:Pa.
  - destruct (IH Hp) as [e [He Pe]]. exists e. split; [right; exact He|exact Pe].
  - exists a. split; [left; reflexivity|exact Pa].
Qed.

Lemma mixedb_true vs f :
  mixedb vs f = true ->
  sf_omit f = true /\
  exists e1 e2, In e1 vs /\ In e2 vs /\ is_zero (fval e1 f) = false /\ is_zero (fval e2 f) = true.
Proof.
  unfold mixedb. intros H. apply andb_prop in H. destruct H as [H H2].
  apply andb_prop in H. destruct H as [O H1]. split; [exact O|].
  apply negb_true_iff in H1. apply negb_true_iff in H2.
  pose proof (fun p => forallb_false_ex p vs) as X.
  destruct (X _ H1) as [e1 [He1 P1]]. destruct (X _ H2) as [e2 [He2 P2]].
  apply negb_false_iff in P2. exists e1, e2. repeat split; assumption.
Qed.

Lemma field_bulk_rest_mixed f : sf_index f <> [] -> sf_omit f = true -> forall elems omit acc,
  Forall is_struct_val elems ->
  (forall e, In e elems -> field_by_index e (sf_index f) <> None) ->
  (exists e, In e elems /\ is_zero (fval e f) <> omit) ->
  field_bulk f elems false omit acc = BErr EMixZero.
Proof.
  intros NEp O. induction elems as [|e rest IH]; intros omit acc St Hv [e' [He' D]]; [contradiction|].
  apply Forall_cons_iff in St. destruct St as [Se Strest].
  rewrite (field_bulk_step f e rest false omit acc Se NEp (Hv e (or_introl eq_refl))).
  cbv zeta. rewrite O. cbn [andb].
  destruct (Bool.eqb (is_zero (fval e f)) omit) eqn:E; cbn [negb]; [|reflexivity].
  apply eqb_prop in E. apply IH; [exact Strest|intros x Hx; apply Hv; right; exact Hx|].
  destruct He' as [He'|He']; [subst e'; congruence|]. exists e'. split; assumption.
Qed.

Lemma field_bulk_mixed f e rest :
  sf_index f <> [] -> Forall is_struct_val (e :: rest) ->
  (forall e', In e' (e :: rest) -> field_by_index e' (sf_index f) <> None) ->
  mixedb (e :: rest) f = true ->
  field_bulk f (e :: rest) true false [] = BErr EMixZero.
Proof.
  intros NEp St Hv M. destruct (mixedb_true _ _ M) as [O [e1 [e2 [H1 [H2 [Z1 Z2]]]]]].
  apply Forall_cons_iff in St. destruct St as [Se Strest].
  rewrite (field_bulk_step f e rest true false [] Se NEp (Hv e (or_introl eq_refl))).
  cbv zeta. rewrite O. cbn [andb app].
  assert (Hrest : forall x, In x rest -> field_by_index x (sf_index f) <> None).
  { intros x Hx. apply Hv. right. exact Hx. }
  destruct (is_zero (fval e f)) eqn:Ze.
  - (* the first is zero: e1 is not, and it is in the rest *)
    apply (field_bulk_rest_mixed f NEp O rest true _ Strest Hrest).
    destruct H1 as [H1|H1]; [subst e1; congruence|]. exists e1. split; [exact H1|congruence].
  - cbn [eqb negb].
    apply (field_bulk_rest_mixed f NEp O rest false _ Strest Hrest).
    destruct H2 as [H2|H2]; [subst e2; congruence|]. exists e2. split; [exact H2|congruence].
Qed.

Lemma bind_col_mixed env t st nl vs cnt f :
  sf_struct f = t -> Nat.eqb t st = false -> bulk_slice_type env t st ->
  sf_index f <> [] -> Forall is_struct_val vs ->
  (forall e, In e vs -> field_by_index e (sf_index f) <> None) ->
  mixedb vs f = true ->
  bind_col env [(st, VSlice nl vs)] cnt (TCIns (LField f) (sf_tag f) false) = BErr EMixZero.
Proof.
  intros Hs Ne Sl NEp St Hv M. cbn [bind_col locate_params]. rewrite Hs. cbn [t2v_get]. rewrite Ne.
  rewrite (locate_bulk_ok env t st _ Sl). cbn [slice_elems].
  destruct vs as [|e rest].
  - unfold mixedb in M. cbn [forallb negb andb] in M. rewrite andb_false_r in M. discriminate.
  - rewrite (field_bulk_mixed f e rest NEp St Hv M). reflexivity.
Qed.

Lemma bind_cols_mixed env t st nl vs :
  Nat.eqb t st = false -> bulk_slice_type env t st -> vs <> [] -> Forall is_struct_val vs ->
  forall ofs cnt used (bulk : bool) numRows acc,
  Forall (fun f => sf_struct f = t /\ sf_index f <> [] /\
                   (forall e, In e vs -> field_by_index e (sf_index f) <> None)) ofs ->
  (bulk = true -> numRows = length vs) ->
  (exists f, In f ofs /\ mixedb vs f = true) ->
  bind_cols env [(st, VSlice nl vs)] cnt used
            (map (fun f => TCIns (LField f) (sf_tag f) false) ofs) bulk numRows acc
  = BErr EMixZero.
Proof.
  intros Ne Sl NE St. induction ofs as [|f ofs IH]; intros cnt used bulk numRows acc F Bk [g [Hg Mg]];
    [contradiction|].
  apply Forall_cons_iff in F. destruct F as [[Hs [NEp Hv]] Frest].
  cbn [map bind_cols].
  destruct (mixedb vs f) eqn:M.
  - rewrite (bind_col_mixed env t st nl vs cnt f Hs Ne Sl NEp St Hv M). reflexivity.
  - destruct (bind_col_bulk env t st nl vs cnt f Hs Ne Sl NEp NE St Hv (mixedb_false _ _ M))
      as [bc [cnt1 [BC [_ [B L]]]]].
    rewrite BC. cbn [bbind]. rewrite B.
    assert (Hg' : exists g', In g' ofs /\ mixedb vs g' = true).
    { destruct Hg as [Hg|Hg]; [subst g; congruence|]. exists g. split; assumption. }
    destruct bulk; cbn [negb].
    + rewrite (Bk eq_refl), L, Nat.eqb_refl. cbn [negb]. apply IH; [exact Frest|reflexivity|exact Hg'].
    + rewrite L. apply IH; [exact Frest|reflexivity|exact Hg'].
Qed.
