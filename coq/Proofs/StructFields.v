(* Facts about the struct information typeinfo computes (getStructFields,
   getArgInfo, getAllStructMembers): tags are distinct, the sorted tag list
   enumerates the fields, all fields belong to the struct, and their index
   paths pairwise diverge.  Used by the round trip (C17). *)
From Coq Require Import Permutation.
From SQLair.Base Require Import Bytes.
From SQLair.Model Require Import Reflect TypeInfo.
From SQLair.Proofs Require Import BindFacts PathFacts.

(* ------------------------------------------------------------- sorting -- *)

Lemma insert_str_perm x l : Permutation (insert_str x l) (x :: l).
Proof.
  induction l as [|y l IH]; simpl; [reflexivity|].
  destruct (str_leb x y); [reflexivity|].
  eapply perm_trans; [apply perm_skip; exact IH|apply perm_swap].
Qed.

Lemma sort_strs_perm l : Permutation (sort_strs l) l.
Proof.
  induction l as [|x l IH]; simpl; [constructor|].
  eapply perm_trans; [apply insert_str_perm|constructor; exact IH].
Qed.

(* ---------------------------------------------------------------- tags -- *)

Lemma existsb_str_eqb_in x l : existsb (str_eqb x) l = true <-> In x l.
Proof.
  rewrite existsb_exists. split.
  - intros [y [Hy E]]. apply str_eqb_eq in E. subst. exact Hy.
  - intros H. exists x. split; [exact H|apply str_eqb_refl].
Qed.

Lemma has_dup_tag_false : forall fs seen,
  has_dup_tag seen fs = false ->
  NoDup (map sf_tag fs) /\ forall f, In f fs -> ~ In (sf_tag f) seen.
Proof.
  induction fs as [|f fs IH]; intros seen H.
  - split; [constructor|intros f []].
  - cbn [has_dup_tag] in H. apply orb_false_iff in H. destruct H as [H1 H2].
    destruct (IH _ H2) as [ND NI]. split.
    + cbn [map]. constructor; [|exact ND]. intros Hin. apply in_map_iff in Hin.
      destruct Hin as [g [E Hg]]. apply (NI g Hg). left. congruence.
    + intros g [Hg|Hg].
      * subst g. intros Hin. apply existsb_str_eqb_in in Hin. congruence.
      * intros Hin. apply (NI g Hg). right. exact Hin.
Qed.

Lemma find_tag_some tag : forall fs f, find_tag tag fs = Some f -> In f fs /\ sf_tag f = tag.
Proof.
  induction fs as [|g fs IH]; intros f H; [discriminate|]. cbn [find_tag] in H.
  destruct (str_eqb (sf_tag g) tag) eqn:E.
  - inversion H; subst. split; [left; reflexivity|apply str_eqb_eq; exact E].
  - destruct (IH f H) as [I T]. split; [right; exact I|exact T].
Qed.

Lemma find_tag_in tag : forall fs, In tag (map sf_tag fs) -> find_tag tag fs <> None.
Proof.
  induction fs as [|g fs IH]; intros H; [contradiction|]. cbn [find_tag].
  destruct (str_eqb (sf_tag g) tag) eqn:E; [discriminate|].
  destruct H as [H|H]; [subst; rewrite str_eqb_refl in E; discriminate|apply IH; exact H].
Qed.

Lemma find_tag_unique : forall fs f,
  NoDup (map sf_tag fs) -> In f fs -> find_tag (sf_tag f) fs = Some f.
Proof.
  induction fs as [|g fs IH]; intros f ND Hf; [contradiction|].
  cbn [map] in ND. inversion ND as [|? ? NI ND']; subst. cbn [find_tag].
  destruct Hf as [Hf|Hf].
  - subst. rewrite str_eqb_refl. reflexivity.
  - destruct (str_eqb (sf_tag g) (sf_tag f)) eqn:E.
    + apply str_eqb_eq in E. exfalso. apply NI. rewrite E. apply in_map. exact Hf.
    + apply IH; assumption.
Qed.

(* the fields in the order of the (sorted) tag list: what `*` expands to *)
Definition tag_fields (tags : list str) (fields : list sfield) : list sfield :=
  flat_map (fun tag => match find_tag tag fields with Some f => [f] | None => [] end) tags.

Lemma tag_fields_tags fields : forall tags,
  (forall tag, In tag tags -> In tag (map sf_tag fields)) ->
  map sf_tag (tag_fields tags fields) = tags.
Proof.
  induction tags as [|tag tags IH]; intros H; [reflexivity|].
  unfold tag_fields. cbn [flat_map]. rewrite map_app. fold (tag_fields tags fields).
  rewrite IH by (intros x Hx; apply H; right; exact Hx).
  pose proof (find_tag_in tag fields (H tag (or_introl eq_refl))) as N.
  destruct (find_tag tag fields) as [f|] eqn:F; [|congruence].
  apply find_tag_some in F. destruct F as [_ T]. cbn [map app]. rewrite T. reflexivity.
Qed.

Lemma tag_fields_in tags fields f : In f (tag_fields tags fields) -> In f fields.
Proof.
  unfold tag_fields. rewrite in_flat_map. intros [tag [_ H]].
  destruct (find_tag tag fields) as [g|] eqn:F; [|contradiction].
  destruct H as [H|[]]. subst g. apply find_tag_some in F. tauto.
Qed.

Lemma tag_fields_all tags fields f :
  NoDup (map sf_tag fields) -> In (sf_tag f) tags -> In f fields -> In f (tag_fields tags fields).
Proof.
  intros ND Ht Hf. unfold tag_fields. rewrite in_flat_map. exists (sf_tag f). split; [exact Ht|].
  rewrite (find_tag_unique fields f ND Hf). left. reflexivity.
Qed.

Lemma members_tag_fields t tags fields ms :
  get_all_struct_members (StructInfo t tags fields) = BOk ms ->
  tags <> [] /\ ms = map (fun f => (sf_tag f, LField f)) (tag_fields tags fields).
Proof.
  cbn [get_all_struct_members]. destruct tags as [|tag0 tags0] eqn:ET; [discriminate|].
  rewrite <- ET. intros H. inversion H; subst ms; clear H. split; [congruence|].
  clear ET. unfold tag_fields. induction tags as [|tag tags IH]; [reflexivity|].
  cbn [flat_map]. rewrite map_app, <- IH.
  destruct (find_tag tag fields) as [f|] eqn:F; [|reflexivity].
  apply find_tag_some in F. destruct F as [_ T]. cbn [map]. rewrite T. reflexivity.
Qed.

(* ---------------------------------------------------- getStructFields -- *)

Definition divp (p q : list nat) : Prop := diverging p q.

(* the fields of struct type st: all carry st, and their index paths
   pairwise diverge *)
Definition fields_wf (st : tid) (fs : list sfield) : Prop :=
  Forall (fun f => sf_struct f = st) fs /\ pairwise divp (map sf_index fs).

(* ... and, for the inner loop from field position i on: every path starts at
   a position >= i *)
Definition from_pos (i : nat) (f : sfield) : Prop :=
  exists j p, sf_index f = j :: p /\ i <= j.

Lemma from_pos_weaken i f : from_pos (S i) f -> from_pos i f.
Proof. intros [j [p [E L]]]. exists j, p. split; [exact E|lia]. Qed.

Lemma get_struct_fields_wf_pos env : forall fuel embedding st fs,
  get_struct_fields fuel env embedding st = BOk fs -> fields_wf st fs /\ Forall (from_pos 0) fs.
Proof.
  induction fuel as [|fuel IHf]; intros embedding st fs H; [discriminate|].
  cbn [get_struct_fields] in H.
  destruct (existsb (Nat.eqb st) embedding); [discriminate|].
  match type of H with ?g _ _ = _ => set (go := g) in H end.
  revert fs H. generalize 0 as i. generalize (t_fields (tget env st)) as flds.
  assert (Q : forall flds i res, go flds i = BOk res ->
                                 fields_wf st res /\ Forall (from_pos i) res).
  { induction flds as [|f flds IH]; intros i res H.
    - inversion H; subst. split; [split; constructor|constructor].
    - assert (Step : go (f :: flds) i =
        let rest := go flds (S i) in
        match f_anon f, f_tag f with
        | true, [] =>
            if negb (f_exported f) then rest
            else
              let ft := tget env (f_type f) in
              let st' := match t_kind ft with KPtr => t_elem ft | _ => f_type f end in
              match t_kind (tget env st') with
              | KStruct =>
                  bbind (get_struct_fields fuel env (embedding ++ [st]) st') (fun nested =>
                  bbind rest (fun r => BOk (map (reparent st i) nested ++ r)))
              | _ => rest
              end
        | _, [] => rest
        | _, tag =>
            if negb (f_exported f) then BErr ENotExported
            else
              bbind (parse_tag tag) (fun '(name, omit) =>
              bbind rest (fun r =>
                BOk ({| sf_name := f_name f; sf_struct := st; sf_index := [i];
                        sf_tag := name; sf_omit := omit |} :: r)))
        end) by reflexivity.
      rewrite Step in H. clear Step. cbv zeta in H.
      set (rest := go flds (S i)) in *.
      assert (R : forall r, rest = BOk r -> fields_wf st r /\ Forall (from_pos i) r).
      { intros r Hr. destruct (IH (S i) r Hr) as [W P]. split; [exact W|].
        eapply Forall_impl; [|exact P]. intros a. apply from_pos_weaken. }
      assert (Tagged : forall tag,
        (if negb (f_exported f) then BErr ENotExported
         else bbind (parse_tag tag) (fun '(name, omit) =>
              bbind rest (fun r =>
                BOk ({| sf_name := f_name f; sf_struct := st; sf_index := [i];
                        sf_tag := name; sf_omit := omit |} :: r)))) = BOk res ->
        fields_wf st res /\ Forall (from_pos i) res).
      { intros tag Ht. destruct (negb (f_exported f)); [discriminate|].
        destruct (parse_tag tag) as [[name omit]|e]; cbn [bbind] in Ht; [|discriminate].
        destruct rest as [r|e] eqn:Er; cbn [bbind] in Ht; [|discriminate].
        inversion Ht; subst res; clear Ht.
        destruct (IH (S i) r Er) as [[Ws Wp] P]. split; [split|].
        - constructor; [reflexivity|exact Ws].
        - cbn [map sf_index pairwise]. split; [|exact Wp].
          apply Forall_map. eapply Forall_impl; [|exact P].
          intros a [j [p [E L]]]. unfold divp. rewrite E. cbn [diverging]. left. lia.
        - constructor; [exists i, []; split; [reflexivity|lia]|].
          eapply Forall_impl; [|exact P]. intros a. apply from_pos_weaken. }
      destruct (f_anon f); destruct (f_tag f) as [|c tag] eqn:Etag.
      + (* embedded *)
        destruct (negb (f_exported f)); [apply R; exact H|].
        set (st' := match t_kind (tget env (f_type f)) with
                    | KPtr => t_elem (tget env (f_type f)) | _ => f_type f end) in *.
        destruct (t_kind (tget env st')); try (apply R; exact H).
        destruct (get_struct_fields fuel env (embedding ++ [st]) st') as [nested|e] eqn:En;
          cbn [bbind] in H; [|discriminate].
        destruct rest as [r|e] eqn:Er; cbn [bbind] in H; [|discriminate].
        inversion H; subst res; clear H.
        destruct (IHf _ _ _ En) as [[_ Np] _].
        destruct (IH (S i) r Er) as [[Ws Wp] P].
        split; [split|].
        * apply Forall_app. split; [|exact Ws]. apply Forall_map. apply Forall_forall.
          intros a _. reflexivity.
        * rewrite map_app. apply pairwise_app; [| exact Wp|].
          -- rewrite map_map. cbn [reparent sf_index]. rewrite <- (map_map sf_index (cons i)).
             apply pairwise_map. eapply pairwise_impl; [|exact Np].
             intros a b _ _ D. unfold divp in *. cbn [diverging]. right. split; [reflexivity|exact D].
          -- intros a b Ha Hb. rewrite map_map in Ha. cbn [reparent sf_index] in Ha.
             apply in_map_iff in Ha. destruct Ha as [x [Ea _]].
             apply in_map_iff in Hb. destruct Hb as [y [Eb Hy]].
             rewrite Forall_forall in P. destruct (P y Hy) as [j [p [E L]]].
             subst a b. unfold divp. rewrite E. cbn [diverging]. left. lia.
        * apply Forall_app. split.
          -- apply Forall_map. apply Forall_forall. intros a _.
             exists i, (sf_index a). split; [reflexivity|lia].
          -- eapply Forall_impl; [|exact P]. intros a. apply from_pos_weaken.
      + apply (Tagged (c :: tag)). exact H.
      + apply R. exact H.
      + apply (Tagged (c :: tag)). exact H. }
  intros flds i fs H. apply (Q flds i fs H).
Qed.

Lemma get_struct_fields_wf env fuel embedding st fs :
  get_struct_fields fuel env embedding st = BOk fs -> fields_wf st fs.
Proof. intros H. apply (get_struct_fields_wf_pos env fuel embedding st fs H). Qed.

(* no tagged field has the empty index path *)
Lemma get_struct_fields_nonempty env fuel embedding st fs :
  get_struct_fields fuel env embedding st = BOk fs -> Forall (fun f => sf_index f <> []) fs.
Proof.
  intros H. destruct (get_struct_fields_wf_pos env fuel embedding st fs H) as [_ P].
  eapply Forall_impl; [|exact P]. intros f [j [p [E _]]]. congruence.
Qed.

(* ---------------------------------------------------------- getArgInfo -- *)

Lemma get_arg_info_struct env t t' tags fields :
  get_arg_info env t = BOk (StructInfo t' tags fields) ->
  t' = t /\ t_kind (tget env t) = KStruct /\
  get_struct_fields (S (length env)) env [] t = BOk fields /\
  has_dup_tag [] fields = false /\ tags = sort_strs (map sf_tag fields).
Proof.
  unfold get_arg_info. destruct (t_kind (tget env t)) eqn:K.
  - destruct (get_struct_fields (S (length env)) env [] t) as [fs|e]; cbn [bbind]; [|discriminate].
    destruct (has_dup_tag [] fs) eqn:D; [discriminate|].
    intros H. inversion H; subst. repeat split; assumption.
  - destruct (t_keystr (tget env t)); discriminate.
  - discriminate.
  - discriminate.
  - discriminate.
Qed.

(* everything the round trip needs to know about an accepted struct type *)
Lemma struct_info_facts env t tags fields ms :
  get_arg_info env t = BOk (StructInfo t tags fields) ->
  get_all_struct_members (StructInfo t tags fields) = BOk ms ->
  let ofs := tag_fields tags fields in
  t_kind (tget env t) = KStruct /\
  ms = map (fun f => (sf_tag f, LField f)) ofs /\
  ofs <> [] /\
  map sf_tag ofs = tags /\
  NoDup tags /\
  (forall f, In f ofs <-> In f fields) /\
  Forall (fun f => sf_struct f = t) ofs /\
  pairwise (fun f g => diverging (sf_index f) (sf_index g)) ofs /\
  Forall (fun f => sf_index f <> []) ofs.
Proof.
  intros GI GM ofs.
  destruct (get_arg_info_struct _ _ _ _ _ GI) as [_ [K [GF [HD ET]]]].
  destruct (members_tag_fields _ _ _ _ GM) as [NE EM].
  destruct (has_dup_tag_false _ _ HD) as [ND _].
  destruct (get_struct_fields_wf _ _ _ _ _ GF) as [WS WP].
  assert (PT : Permutation tags (map sf_tag fields)) by (rewrite ET; apply sort_strs_perm).
  assert (TS : map sf_tag ofs = tags).
  { apply tag_fields_tags. intros tag Ht. eapply Permutation_in; [exact PT|exact Ht]. }
  assert (NDt : NoDup tags).
  { eapply Permutation_NoDup; [apply Permutation_sym; exact PT|exact ND]. }
  assert (IFF : forall f, In f ofs <-> In f fields).
  { intros f. split; [apply tag_fields_in|]. intros Hf. apply tag_fields_all; [exact ND| |exact Hf].
    eapply Permutation_in; [apply Permutation_sym; exact PT|]. apply in_map. exact Hf. }
  split; [exact K|]. split; [exact EM|]. split.
  { intros E. apply NE. rewrite <- TS, E. reflexivity. }
  split; [exact TS|]. split; [exact NDt|]. split; [exact IFF|]. split; [|split].
  - apply Forall_forall. intros f Hf. rewrite Forall_forall in WS. apply WS. apply IFF. exact Hf.
  - apply (pairwise_of_nodup sf_tag); [rewrite TS; exact NDt|].
    intros a b Ha Hb Ne.
    assert (PWf : pairwise (fun f g => diverging (sf_index f) (sf_index g)) fields).
    { apply (pairwise_map sf_index divp). exact WP. }
    assert (Sym : forall f g : sfield, diverging (sf_index f) (sf_index g) ->
                                       diverging (sf_index g) (sf_index f)).
    { intros f g. apply diverging_sym. }
    destruct (pairwise_in _ fields Sym PWf a b) as [E|D].
    + apply IFF, Ha.
    + apply IFF, Hb.
    + subst b. congruence.
    + exact D.
  - apply Forall_forall. intros f Hf.
    pose proof (get_struct_fields_nonempty _ _ _ _ _ GF) as NEp. rewrite Forall_forall in NEp.
    apply NEp, IFF, Hf.
Qed.
