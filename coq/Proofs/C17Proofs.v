(* C17: the insert/select round trip theorems, assembled. *)
From Coq Require Import String Permutation.
From SQLair.Base Require Import Bytes Sexp.
From SQLair.Model Require Import GenConsts Reflect TypeInfo Parser Bind Scan MiniSql.
From SQLair.Proofs Require Import ItoaFacts BindFacts InsertView PathFacts RoundTrip
  RoundTripMain StructFields.

(* the type of a tagged field *)
Definition ftype (env : tenv) (t : tid) (f : sfield) : tid :=
  match type_by_index env t (sf_index f) with Some ft => ft | None => 0 end.

(* field f of the value v (of struct type t) is supported by the round trip:
   its type is storable, there is no nil embedded pointer on its path, and its
   value is a well-formed value of that type *)
Definition field_ok (env : tenv) (t : tid) (v : val) (f : sfield) : Prop :=
  exists ft fv,
    type_by_index env t (sf_index f) = Some ft /\ storable env ft = true /\
    field_by_index v (sf_index f) = Some fv /\ fits env ft fv = true.

(* the same as a check *)
Definition field_okb (env : tenv) (t : tid) (v : val) (f : sfield) : bool :=
  match type_by_index env t (sf_index f), field_by_index v (sf_index f) with
  | Some ft, Some fv => storable env ft && fits env ft fv
  | _, _ => false
  end.

Lemma field_okb_ok env t v fields :
  forallb (field_okb env t v) fields = true -> forall f, In f fields -> field_ok env t v f.
Proof.
  intros H f Hf. rewrite forallb_forall in H. specialize (H f Hf). unfold field_okb in H.
  destruct (type_by_index env t (sf_index f)) as [ft|] eqn:T; [|discriminate].
  destruct (field_by_index v (sf_index f)) as [fv|] eqn:V; [|discriminate].
  apply andb_prop in H. destruct H as [S F]. exists ft, fv. repeat split; assumption.
Qed.

Lemma field_ok_src env t v f : field_ok env t v f -> src_ok env t (ftype env t) v f.
Proof.
  intros [ft [fv [T [S [V F]]]]]. unfold src_ok, ftype, fval. rewrite T, V.
  repeat split; try assumption. discriminate.
Qed.

Lemma src_ok_to_cell env t ty v f : src_ok env t ty v f -> to_cell (fval v f) <> None.
Proof.
  intros [_ [S [_ F]]].
  destruct (field_value_roundtrip env (ty f) (fval v f) false S F) as [c [E _]]; [discriminate|].
  congruence.
Qed.

(* the columns of `&T.*` and what they are scanned into *)
Lemma members_fst ofs : map fst (members_of ofs) = map sf_tag ofs.
Proof. unfold members_of. rewrite map_map. reflexivity. Qed.
Lemma members_snd ofs : map snd (members_of ofs) = map LField ofs.
Proof. unfold members_of. rewrite map_map. reflexivity. Qed.

(* ------------------------------------------------------------- single -- *)

Lemma roundtrip_single_full env t pt tags fields ms v v0 cnt used :
  get_arg_info env t = BOk (StructInfo t tags fields) ->
  get_all_struct_members (StructInfo t tags fields) = BOk ms ->
  (N.of_nat (length ms) <= max_int)%N ->
  t_kind (tget env pt) = KPtr -> t_elem (tget env pt) = t ->
  (forall f, In f fields -> field_ok env t v f) ->
  (forall f, In f fields -> field_by_index v0 (sf_index f) <> None) ->
  exists bcs cnt' used' tuple cells v',
    (* `(*) VALUES ($T.*)` with the argument v *)
    bind_cols env [(t, v)] cnt used (star_insert ms) false 1 [] = BOk (bcs, cnt', used', 1) /\
    insert_columns bcs =
      map sf_tag (filter (fun f => negb (is_zero (fval v f) && sf_omit f)) (tag_fields tags fields)) /\
    opt_all (opt_all to_cell) (insert_tuples bcs 1) = Some [tuple] /\
    (* the engine *)
    mini_select (map fst ms) (mini_insert (insert_columns bcs) [tuple] []) = [cells] /\
    (* `&T.*` into a destination holding v0 *)
    scan_row env (map snd ms) (map marker_name (seq 0 (length ms))) cells [AVal pt (VPtr v0)]
      = (Some [(t, v')], None) /\
    (forall f, In f fields -> field_by_index v' (sf_index f) = field_by_index v (sf_index f)) /\
    Forall (fun bc => bc_vals bc <> []) bcs.
Proof.
  intros GI GM BND Kp Ep FOK V0.
  destruct (struct_info_facts env t tags fields ms GI GM) as [K [EM [NE [TS [NDt [IFF [WS [PW NEP]]]]]]]].
  set (ofs := tag_fields tags fields) in *.
  fold (members_of ofs) in EM. subst ms.
  unfold members_of in BND. rewrite map_length in BND.
  assert (SRC : Forall (src_ok env t (ftype env t) v) ofs).
  { apply Forall_forall. intros f Hf. apply field_ok_src, FOK, IFF, Hf. }
  assert (F1 : Forall (fun f => sf_struct f = t /\ field_by_index v (sf_index f) <> None) ofs).
  { apply Forall_forall. intros f Hf. rewrite Forall_forall in WS, SRC.
    split; [apply WS; exact Hf|]. destruct (SRC f Hf) as [_ [_ [N _]]]. exact N. }
  destruct (bind_cols_single env t v ofs cnt used 1 [] F1) as [bcs [cnt' [used' [BC CV]]]].
  cbn [app] in BC.
  destruct (view_insert (om_single v) [v] ofs bcs [] CV) as [tuples [OA [LT MI]]].
  { intros e f [He|[]] Hf. subst e. rewrite Forall_forall in SRC.
    eapply src_ok_to_cell. apply SRC. exact Hf. }
  destruct tuples as [|tuple [|t2 tuples]]; cbn [length] in LT; try lia.
  cbn [length] in OA. cbn [app map] in MI.
  exists bcs, cnt', used', tuple.
  exists (map (fun f => if om_single v f then CNull else fcell v f) ofs).
  assert (DST : Forall (dest_ok env t (ftype env t) v0) ofs).
  { apply Forall_forall. intros f Hf. rewrite Forall_forall in WS, SRC. unfold dest_ok.
    split; [apply WS; exact Hf|]. split; [apply V0, IFF, Hf|].
    destruct (SRC f Hf) as [T _]. exact T. }
  destruct (scan_row_roundtrip env t pt (ftype env t) ofs (om_single v) v v0 Kp Ep K NE BND PW DST SRC)
    as [v' [SR EQ]].
  { intros f _ O. unfold om_single in O. apply andb_prop in O. tauto. }
  exists v'. rewrite star_insert_members, members_fst, members_snd.
  unfold members_of. rewrite map_length.
  split; [exact BC|]. split; [apply (view_columns _ _ _ _ CV)|]. split; [exact OA|].
  split.
  - rewrite MI. pose proof (select_rows (om_single v) ofs [v] [] (eq_ind_r (fun l => NoDup l) NDt TS)) as SEL.
    cbn [app map] in SEL. exact SEL.
  - split; [exact SR|]. split; [intros f Hf; apply EQ, IFF, Hf|apply (colview_vals _ _ _ _ CV)].
Qed.

Theorem roundtrip_single env t pt tags fields ms v v0 cnt used :
  get_arg_info env t = BOk (StructInfo t tags fields) ->
  get_all_struct_members (StructInfo t tags fields) = BOk ms ->
  (N.of_nat (length ms) <= max_int)%N ->
  t_kind (tget env pt) = KPtr -> t_elem (tget env pt) = t ->
  (forall f, In f fields -> field_ok env t v f) ->
  (forall f, In f fields -> field_by_index v0 (sf_index f) <> None) ->
  exists bcs cnt' used' tuple cells v',
    bind_cols env [(t, v)] cnt used (star_insert ms) false 1 [] = BOk (bcs, cnt', used', 1) /\
    insert_columns bcs =
      map sf_tag (filter (fun f => negb (is_zero (fval v f) && sf_omit f)) (tag_fields tags fields)) /\
    opt_all (opt_all to_cell) (insert_tuples bcs 1) = Some [tuple] /\
    mini_select (map fst ms) (mini_insert (insert_columns bcs) [tuple] []) = [cells] /\
    scan_row env (map snd ms) (map marker_name (seq 0 (length ms))) cells [AVal pt (VPtr v0)]
      = (Some [(t, v')], None) /\
    forall f, In f fields -> field_by_index v' (sf_index f) = field_by_index v (sf_index f).
Proof.
  intros GI GM BND Kp Ep FOK V0.
  destruct (roundtrip_single_full env t pt tags fields ms v v0 cnt used GI GM BND Kp Ep FOK V0)
    as [bcs [cnt' [used' [tuple [cells [v' [H1 [H2 [H3 [H4 [H5 [H6 _]]]]]]]]]]]].
  exists bcs, cnt', used', tuple, cells, v'. repeat split; assumption.
Qed.

(* --------------------------------------------------------------- bulk -- *)

Lemma find_type_some p : forall env i k,
  find_type p env i = Some k -> exists j, k = i + j /\ p (nth j env dummy_tdef) = true.
Proof.
  induction env as [|d env IH]; intros i k H; [discriminate|]. cbn [find_type] in H.
  destruct (p d) eqn:P.
  - inversion H; subst. exists 0. split; [lia|exact P].
  - destruct (IH _ _ H) as [j [E Pj]]. exists (S j). split; [lia|exact Pj].
Qed.

Lemma slice_of_kind env t st : slice_of env t = Some st -> t_kind (tget env st) = KSlice.
Proof.
  unfold slice_of. intros H. apply find_type_some in H. destruct H as [j [E P]].
  cbn [plus] in E. subst j. unfold tget.
  apply andb_prop in P. destruct P as [P _]. apply andb_prop in P. destruct P as [P _].
  destruct (t_kind (nth st env dummy_tdef)); try discriminate. reflexivity.
Qed.

Theorem roundtrip_bulk env t st pt tags fields ms nl vs cnt used :
  get_arg_info env t = BOk (StructInfo t tags fields) ->
  get_all_struct_members (StructInfo t tags fields) = BOk ms ->
  (N.of_nat (length ms) <= max_int)%N ->
  t_kind (tget env pt) = KPtr -> t_elem (tget env pt) = t ->
  bulk_slice_type env t st ->
  vs <> [] -> Forall is_struct_val vs ->
  (forall e f, In e vs -> In f fields -> field_ok env t e f) ->
  (forall f, In f fields -> no_mix vs f) ->
  exists bcs cnt' used' tuples rows,
    (* `(*) VALUES ($T.*)` with the slice vs as argument: one statement *)
    bind_cols env [(st, VSlice nl vs)] cnt used (star_insert ms) false 1 []
      = BOk (bcs, cnt', used', length vs) /\
    insert_columns bcs =
      map sf_tag (filter (fun f => negb (om_bulk vs f)) (tag_fields tags fields)) /\
    opt_all (opt_all to_cell) (insert_tuples bcs (length vs)) = Some tuples /\
    (* the engine *)
    mini_select (map fst ms) (mini_insert (insert_columns bcs) tuples []) = rows /\
    length rows = length vs /\
    (* `&T.*`, row by row: row i gives back element i *)
    forall i e cells v0,
      nth_error vs i = Some e -> nth_error rows i = Some cells ->
      (forall f, In f fields -> field_by_index v0 (sf_index f) <> None) ->
      exists v',
        scan_row env (map snd ms) (map marker_name (seq 0 (length ms))) cells [AVal pt (VPtr v0)]
          = (Some [(t, v')], None) /\
        forall f, In f fields -> field_by_index v' (sf_index f) = field_by_index e (sf_index f).
Proof.
  intros GI GM BND Kp Ep Sl NEv St FOK NM.
  destruct (struct_info_facts env t tags fields ms GI GM) as [K [EM [NE [TS [NDt [IFF [WS [PW NEP]]]]]]]].
  set (ofs := tag_fields tags fields) in *.
  fold (members_of ofs) in EM. subst ms.
  unfold members_of in BND. rewrite map_length in BND.
  assert (Ne : Nat.eqb t st = false).
  { apply Nat.eqb_neq. intros E. subst st.
    assert (t_kind (tget env t) = KSlice); [|congruence].
    destruct Sl as [S|[p [_ [S _]]]]; eapply slice_of_kind; exact S. }
  assert (SRC : forall e, In e vs -> Forall (src_ok env t (ftype env t) e) ofs).
  { intros e He. apply Forall_forall. intros f Hf. apply field_ok_src, FOK; [exact He|apply IFF, Hf]. }
  assert (F1 : Forall (fun f => sf_struct f = t /\ sf_index f <> [] /\
                         (forall e, In e vs -> field_by_index e (sf_index f) <> None) /\
                         no_mix vs f) ofs).
  { apply Forall_forall. intros f Hf. rewrite Forall_forall in WS, NEP.
    split; [apply WS; exact Hf|]. split; [apply NEP; exact Hf|]. split; [|apply NM, IFF, Hf].
    intros e He. pose proof (SRC e He) as S. rewrite Forall_forall in S.
    destruct (S f Hf) as [_ [_ [N _]]]. exact N. }
  destruct (bind_cols_bulk env t st nl vs Ne Sl NEv St ofs cnt used false 1 [] F1)
    as [bcs [cnt' [used' [BC CV]]]]; [discriminate|].
  cbn [app] in BC.
  assert (NR : match ofs with [] => 1 | _ :: _ => length vs end = length vs).
  { destruct ofs; [congruence|reflexivity]. }
  rewrite NR in BC.
  destruct (view_insert (om_bulk vs) vs ofs bcs [] CV) as [tuples [OA [LT MI]]].
  { intros e f He Hf. pose proof (SRC e He) as S. rewrite Forall_forall in S.
    eapply src_ok_to_cell. apply S. exact Hf. }
  cbn [app] in MI.
  assert (NDo : NoDup (map sf_tag ofs)) by (rewrite TS; exact NDt).
  pose proof (select_rows (om_bulk vs) ofs vs [] NDo) as SEL. cbn [app map] in SEL.
  exists bcs, cnt', used', tuples.
  exists (map (fun e => map (fun f => if om_bulk vs f then CNull else fcell e f) ofs) vs).
  rewrite star_insert_members, members_fst, members_snd. unfold members_of. rewrite !map_length.
  split; [exact BC|]. split; [apply (view_columns _ _ _ _ CV)|]. split; [exact OA|].
  split; [rewrite MI; exact SEL|]. split; [reflexivity|].
  intros i e cells v0 Hi Hc V0.
  rewrite nth_error_map, Hi in Hc. cbn [option_map] in Hc. inversion Hc; subst cells; clear Hc.
  assert (He : In e vs) by (eapply nth_error_In; exact Hi).
  assert (DST : Forall (dest_ok env t (ftype env t) v0) ofs).
  { apply Forall_forall. intros f Hf. rewrite Forall_forall in WS. unfold dest_ok.
    split; [apply WS; exact Hf|]. split; [apply V0, IFF, Hf|].
    pose proof (SRC e He) as S. rewrite Forall_forall in S. destruct (S f Hf) as [T _]. exact T. }
  destruct (scan_row_roundtrip env t pt (ftype env t) ofs (om_bulk vs) e v0 Kp Ep K NE BND PW DST (SRC e He))
    as [v' [SR EQ]].
  { intros f _ O. unfold om_bulk in O. apply andb_prop in O. destruct O as [_ O].
    rewrite forallb_forall in O. apply O. exact He. }
  exists v'. split; [exact SR|]. intros f Hf. apply EQ, IFF, Hf.
Qed.

(* an omitempty field that is zero in some elements and not in others: the
   bulk insert is rejected (EMixZero), nothing reaches the database *)
Theorem bulk_mix_rejected env t st tags fields ms nl vs cnt used :
  get_arg_info env t = BOk (StructInfo t tags fields) ->
  get_all_struct_members (StructInfo t tags fields) = BOk ms ->
  bulk_slice_type env t st ->
  vs <> [] -> Forall is_struct_val vs ->
  (forall e f, In e vs -> In f fields -> field_by_index e (sf_index f) <> None) ->
  (exists f, In f fields /\ mixedb vs f = true) ->
  bind_cols env [(st, VSlice nl vs)] cnt used (star_insert ms) false 1 [] = BErr EMixZero.
Proof.
  intros GI GM Sl NEv St FV [g [Hg Mg]].
  destruct (struct_info_facts env t tags fields ms GI GM) as [K [EM [NE [TS [NDt [IFF [WS [PW NEP]]]]]]]].
  set (ofs := tag_fields tags fields) in *.
  fold (members_of ofs) in EM. subst ms.
  assert (Ne : Nat.eqb t st = false).
  { apply Nat.eqb_neq. intros E. subst st.
    assert (t_kind (tget env t) = KSlice); [|congruence].
    destruct Sl as [S|[p [_ [S _]]]]; eapply slice_of_kind; exact S. }
  rewrite star_insert_members.
  apply (bind_cols_mixed env t st nl vs Ne Sl NEv St ofs cnt used false 1 []).
  - apply Forall_forall. intros f Hf. rewrite Forall_forall in WS, NEP.
    split; [apply WS; exact Hf|]. split; [apply NEP; exact Hf|].
    intros e He. apply FV; [exact He|apply IFF, Hf].
  - discriminate.
  - exists g. split; [apply IFF, Hg|exact Mg].
Qed.

(* ------------------------------------- the pieces, composed (examples) -- *)

Definition first_insert (te : list texpr) : option texpr :=
  find (fun e => match e with TInsert _ => true | _ => false end) te.

(* the select list of a generated statement: (column, alias) per output *)
Definition select_list (toks : list sqltok) : list (str * str) :=
  flat_map (fun t => match t with TOut c n => [(c, marker_name n)] | _ => [] end) toks.

(* Parse and prepare both statements (Parser, BindTypes), bind the insert
   arguments (BindInputs), run the INSERT the typed expression denotes and the
   SELECT of the generated select list on the miniature engine, starting from
   the empty table, and scan row i into destination i (ScanArgs, rows.Scan,
   OnSuccess).  Everything but the engine is the model of sqlair. *)
Definition run_roundtrip (env : tenv) (insq selq : str) (samples : list (option tid))
  (ins_args : list arg) (dests : list arg) : option (list (option t2v * option serr)) :=
  match parse insq, parse selq with
  | Ok ia, Ok sa =>
      match bind_types env ia samples, bind_types env sa samples with
      | BOk ite, BOk ste =>
          match bind_inputs env ite ins_args, bind_inputs env ste [],
                validate_inputs env ins_args [], first_insert ite with
          | BOk ipq, BOk spq, BOk m, Some ie =>
              match insert_denotation env m ie with
              | Some (cols, tuples) =>
                  let tbl := mini_insert cols tuples [] in
                  let sl := select_list (pq_toks spq) in
                  let rows := mini_select (map fst sl) tbl in
                  Some (map (fun '(cells, dest) =>
                               scan_row env (pq_outputs spq) (map snd sl) cells [dest])
                            (combine rows dests))
              | None => None
              end
          | _, _, _, _ => None
          end
      | _, _ => None
      end
  | _, _ => None
  end.
