(* sort.Strings as modelled by insertion sort over the byte-lexicographic
   order: the result is a sorted permutation of the input (C05, C04). *)
From Coq Require Import Permutation Sorted.
From SQLair.Base Require Import Bytes.

Lemma str_ltb_irrefl a : str_ltb a a = false.
Proof.
  induction a as [|x a IH]; [reflexivity|]. cbn [str_ltb].
  rewrite N.ltb_irrefl, N.eqb_refl, IH. reflexivity.
Qed.

Lemma str_ltb_cons x a y b :
  str_ltb (x :: a) (y :: b) = true <-> (x < y)%N \/ (x = y /\ str_ltb a b = true).
Proof.
  cbn [str_ltb]. rewrite orb_true_iff, andb_true_iff, N.ltb_lt, N.eqb_eq. tauto.
Qed.

Lemma str_ltb_trans a : forall b c,
  str_ltb a b = true -> str_ltb b c = true -> str_ltb a c = true.
Proof.
  induction a as [|x a IH]; intros [|y b] [|z c] H1 H2; try discriminate; try reflexivity.
  apply str_ltb_cons in H1. apply str_ltb_cons in H2. apply str_ltb_cons.
  destruct H1 as [H1|[E1 H1]]; destruct H2 as [H2|[E2 H2]].
  - left. lia.
  - left. lia.
  - left. lia.
  - right. split; [lia|]. eapply IH; eassumption.
Qed.

Lemma str_ltb_trich a : forall b, str_ltb a b = true \/ a = b \/ str_ltb b a = true.
Proof.
  induction a as [|x a IH]; intros [|y b].
  - right. left. reflexivity.
  - left. reflexivity.
  - right. right. reflexivity.
  - rewrite !str_ltb_cons. destruct (N.lt_trichotomy x y) as [L|[E|G]].
    + left. left. exact L.
    + destruct (IH b) as [H|[H|H]].
      * left. right. split; assumption.
      * right. left. subst. reflexivity.
      * right. right. right. split; [symmetry; exact E|exact H].
    + right. right. left. exact G.
Qed.

Lemma str_ltb_asym a b : str_ltb a b = true -> str_ltb b a = false.
Proof.
  intros H. destruct (str_ltb b a) eqn:E; [|reflexivity].
  pose proof (str_ltb_trans _ _ _ H E) as T. rewrite str_ltb_irrefl in T. discriminate.
Qed.

(* str_leb is a total preorder (in fact a total order) *)
Lemma str_leb_refl a : str_leb a a = true.
Proof. unfold str_leb. rewrite str_ltb_irrefl. reflexivity. Qed.

Lemma str_leb_total a b : str_leb a b = true \/ str_leb b a = true.
Proof.
  unfold str_leb. destruct (str_ltb b a) eqn:E.
  - right. rewrite (str_ltb_asym _ _ E). reflexivity.
  - left. reflexivity.
Qed.

Lemma str_leb_trans a b c : str_leb a b = true -> str_leb b c = true -> str_leb a c = true.
Proof.
  unfold str_leb. rewrite !negb_true_iff. intros H1 H2.
  destruct (str_ltb c a) eqn:E; [|reflexivity]. exfalso.
  destruct (str_ltb_trich a b) as [L|[L|L]].
  - pose proof (str_ltb_trans _ _ _ E L) as T. congruence.
  - subst. congruence.
  - congruence.
Qed.

Lemma str_leb_antisym a b : str_leb a b = true -> str_leb b a = true -> a = b.
Proof.
  unfold str_leb. rewrite !negb_true_iff. intros H1 H2.
  destruct (str_ltb_trich a b) as [L|[L|L]]; [congruence|exact L|congruence].
Qed.

Definition str_le (a b : str) : Prop := str_leb a b = true.

Lemma insert_str_perm x l : Permutation (x :: l) (insert_str x l).
Proof.
  induction l as [|y l IH]; cbn [insert_str]; [apply Permutation_refl|].
  destruct (str_leb x y); [apply Permutation_refl|].
  eapply Permutation_trans; [apply perm_swap|]. apply perm_skip. exact IH.
Qed.

Lemma sort_strs_perm l : Permutation l (sort_strs l).
Proof.
  induction l as [|x l IH]; [constructor|]. unfold sort_strs. cbn [fold_right].
  eapply Permutation_trans; [apply perm_skip; exact IH|]. apply insert_str_perm.
Qed.

Lemma insert_str_sorted x l : StronglySorted str_le l -> StronglySorted str_le (insert_str x l).
Proof.
  intros S. induction S as [|y l S IH F]; cbn [insert_str].
  - constructor; constructor.
  - destruct (str_leb x y) eqn:E.
    + constructor; [constructor; assumption|]. constructor; [exact E|].
      rewrite Forall_forall in *. intros z Hz. eapply str_leb_trans; [exact E|apply F; exact Hz].
    + constructor; [exact IH|].
      assert (Lyx : str_le y x).
      { destruct (str_leb_total x y) as [T|T]; [congruence|exact T]. }
      rewrite Forall_forall in *. intros z Hz.
      apply (Permutation_in _ (Permutation_sym (insert_str_perm x l))) in Hz.
      destruct Hz as [Hz|Hz]; [subst; exact Lyx|apply F; exact Hz].
Qed.

Lemma sort_strs_sorted l : StronglySorted str_le (sort_strs l).
Proof.
  induction l as [|x l IH]; [constructor|]. unfold sort_strs. cbn [fold_right].
  apply insert_str_sorted. exact IH.
Qed.

Lemma sort_strs_locally_sorted l : Sorted str_le (sort_strs l).
Proof. apply StronglySorted_Sorted. apply sort_strs_sorted. Qed.

Lemma sort_strs_in x l : In x (sort_strs l) <-> In x l.
Proof.
  split; apply Permutation_in; [apply Permutation_sym|]; apply sort_strs_perm.
Qed.

Lemma sort_strs_length l : length (sort_strs l) = length l.
Proof. symmetry. apply Permutation_length. apply sort_strs_perm. Qed.

Lemma sort_strs_nodup l : NoDup l -> NoDup (sort_strs l).
Proof. intros H. eapply Permutation_NoDup; [apply sort_strs_perm|exact H]. Qed.
