(* C13, C14, C15: the iterator protocol and resource accounting, over the
   model of Iter.v (sqlair's Iterator / Get / GetAll on top of the database/sql
   Rows specification). *)
From SQLair.Base Require Import Bytes.
From SQLair.Model Require Import Iter.

(* ------------------------------------------------ environment: rows -- *)

(* the driver's Rows.Close has been called exactly once iff the rows are
   closed; an error, a cancellation or hitEOF is only recorded in rows that
   are closed *)
Definition wf_rows (r : rows) : Prop :=
  r_driver_closes r = (if r_closed r then 1 else 0) /\
  (forall x, r_lasterr r = Some (LErr x) -> r_closed r = true) /\
  (r_ctxdone r = true -> r_closed r = true) /\
  (r_hiteof r = true -> r_closed r = true).

Definition fresh_rows (r : rows) : Prop :=
  r_closed r = false /\ r_lasterr r = None /\ r_hiteof r = false /\ r_ctxdone r = false /\
  r_current r = None /\ r_driver_closes r = 0.

Lemma fresh_wf r : fresh_rows r -> wf_rows r.
Proof.
  intros [C [L [E [X [_ D]]]]]. unfold wf_rows. rewrite C, D, L, E, X.
  repeat split; intros; congruence.
Qed.

(* the error the rows have recorded, as Rows.Err reports it *)
Definition recorded (r : rows) (x : err) : Prop := r_closed r = true /\ rows_err r = Some x.

Lemma rows_close_with_spec r e r' ce :
  wf_rows r -> rows_close_with r e = (r', ce) ->
  r_closed r' = true /\ wf_rows r' /\
  (r_closed r = true -> r' = r /\ ce = None) /\
  r_more r' = r_more r /\ r_hiteof r' = r_hiteof r /\ r_ctxdone r' = r_ctxdone r.
Proof.
  intros [W1 [W2 [W3 W4]]] H. unfold rows_close_with in H. destruct (r_closed r) eqn:C.
  - inversion H; subst. unfold wf_rows. rewrite C. repeat split; auto.
  - inversion H; subst; clear H. unfold wf_rows, rows_with. simpl.
    repeat split; auto; try lia; intros; try congruence.
Qed.

(* the rows will not deliver anything any more: closed, or at the end of a
   result set that the driver says is followed by another one *)
Definition at_eof (r : rows) : Prop :=
  r_closed r = false /\ r_more r = true /\ r_pending r = [] /\ r_lasterr r = Some LEOF /\
  (forall e, r_fail r <> Some (0, e)).
Definition finished_rows (r : rows) : Prop := r_closed r = true \/ at_eof r.

Lemma rows_next_spec r r' b :
  wf_rows r -> rows_next r = (r', b) ->
  wf_rows r' /\
  (b = false -> finished_rows r') /\
  (finished_rows r -> b = false /\ finished_rows r') /\
  (r_closed r = true -> r' = r /\ b = false) /\
  r_more r' = r_more r.
Proof.
  intros W H. unfold rows_next in H.
  destruct (r_ctxdone r) eqn:X.
  { inversion H; subst. destruct W as [W1 [W2 [W3 W4]]]. pose proof (W3 X) as C.
    unfold finished_rows. repeat split; auto. }
  destruct (r_closed r) eqn:C.
  { inversion H; subst. unfold finished_rows. repeat split; auto; apply W. }
  destruct W as [W1 [W2 [W3 W4]]]. rewrite C in W1.
  assert (He : r_hiteof r = false) by (destruct (r_hiteof r) eqn:E; [specialize (W4 eq_refl); congruence|reflexivity]).
  assert (Fin : forall e, r_fail r = Some (0, e) -> ~ finished_rows r).
  { intros e F [K|[_ [_ [_ [_ K]]]]]; [congruence|]. apply (K e F). }
  destruct (r_fail r) as [[[|k] e]|] eqn:F;
    [|destruct (r_pending r) as [|x rest] eqn:P; [destruct (r_more r) eqn:M|]
     |destruct (r_pending r) as [|x rest] eqn:P; [destruct (r_more r) eqn:M|]];
    inversion H; subst; clear H;
    unfold set_hiteof, rows_close, rows_close_with, rows_with, wf_rows, finished_rows, at_eof; simpl;
    rewrite ?W1, ?X, ?He, ?M; simpl;
    try (intuition (try congruence; try discriminate; eauto); fail).
  all: try (intuition (try congruence; try discriminate; eauto);
            try (right; repeat split; auto; intros; discriminate); fail).
Qed.

Lemma rows_cancel_spec r :
  wf_rows r ->
  wf_rows (rows_cancel r) /\ r_closed (rows_cancel r) = true /\
  (r_closed r = true -> rows_cancel r = r) /\
  (r_closed r = false -> rows_err (rows_cancel r) = Some ErrCtx).
Proof.
  intros W. unfold rows_cancel. destruct (r_closed r) eqn:C.
  - repeat split; auto; try congruence; apply W.
  - destruct W as [W1 [W2 [W3 W4]]]. rewrite C in W1.
    assert (He : r_hiteof r = false) by (destruct (r_hiteof r) eqn:E; [specialize (W4 eq_refl); congruence|reflexivity]).
    unfold rows_close_with, rows_with, wf_rows, rows_err, lasterr_or. simpl. rewrite He, W1. simpl.
    repeat split; auto; intros; try congruence.
Qed.

(* ------------------------------------------------------ iterator -- *)

(* An iterator is well formed when its rows are, and rows it no longer holds
   (iter.rows == nil) are closed. *)
Definition wf_iter (i : iter) : Prop :=
  match it_rows i with
  | Some r => wf_rows r /\ it_err i = None /\ it_dead i = None
  | None => forall r, it_dead i = Some r -> wf_rows r /\ r_closed r = true
  end.

(* nothing is held any more: the result set, if there was one, has been closed
   at the driver exactly once *)
Definition released (i : iter) : Prop :=
  it_rows i = None /\
  forall r, it_dead i = Some r -> r_closed r = true /\ r_driver_closes r = 1.

Definition fresh_run (run : runres) : Prop :=
  match run with RunRows r => fresh_rows r | _ => True end.

Lemma query_iter_wf qerr hasout run : fresh_run run -> wf_iter (query_iter qerr hasout run).
Proof.
  intros F. unfold query_iter. destruct qerr; [unfold wf_iter; simpl; intros r H; discriminate|].
  destruct run as [e|r|id]; try (unfold wf_iter; simpl; intros r H; discriminate).
  simpl in F. pose proof (fresh_wf r F) as W.
  destruct hasout.
  - unfold rows_columns. destruct F as [C _]. rewrite C. unfold wf_iter. simpl. auto.
  - unfold wf_iter. simpl. auto.
Qed.

Lemma iter_next_wf i i' b : wf_iter i -> iter_next i = (i', b) -> wf_iter i'.
Proof.
  unfold wf_iter, iter_next. intros W H.
  destruct (it_err i) eqn:E; [inversion H; subst; simpl; rewrite ?E; exact W|].
  destruct (it_rows i) as [r|] eqn:R; [|inversion H; subst; simpl; rewrite ?R, ?E; exact W].
  destruct (rows_next r) as [r' b'] eqn:N. inversion H; subst; clear H. simpl.
  destruct W as [W [_ D]]. destruct (rows_next_spec _ _ _ W N) as [W' _]. auto.
Qed.

Lemma iter_get_state i a : fst (fst (iter_get i a)) = i.
Proof.
  unfold iter_get. destruct (it_err i); [reflexivity|].
  destruct (it_started i); simpl.
  - destruct (it_rows i); [|reflexivity]. destruct a; try reflexivity.
    destruct (rows_scan r); reflexivity.
  - destruct a; reflexivity.
Qed.

Lemma iter_close_spec i i' e :
  wf_iter i -> iter_close i = (i', e) ->
  wf_iter i' /\ released i' /\ it_err i' = e /\ it_started i' = true.
Proof.
  unfold wf_iter, iter_close, released. intros W H.
  destruct (it_rows i) as [r|] eqn:R.
  - destruct W as [W [E D]]. destruct (rows_close r) as [r' cerr] eqn:C. rewrite E in H.
    inversion H; subst; clear H. simpl.
    unfold rows_close in C. destruct (rows_close_with_spec _ _ _ _ W C) as [A [B _]].
    assert (B' := B). destruct B' as [B1 B2]. rewrite A in B1.
    split; [intros r0 H0; inversion H0; subst; auto|].
    split; [split; [reflexivity|intros r0 H0; inversion H0; subst; auto]|].
    auto.
  - inversion H; subst; clear H. simpl. split; [exact W|]. split; [|auto]. split; [reflexivity|].
    intros r0 H. destruct (W r0 H) as [[B _] C]. rewrite C in B. auto.
Qed.

Lemma iter_step_wf i o : wf_iter i -> wf_iter (fst (iter_step i o)).
Proof.
  intros W. destruct o; simpl.
  - destruct (iter_next i) as [i' b] eqn:N. simpl. eapply iter_next_wf; eauto.
  - pose proof (iter_get_state i a) as G. destruct (iter_get i a) as [[i' e] st]. simpl in *. subst. exact W.
  - destruct (iter_close i) as [i' e] eqn:C. simpl. eapply iter_close_spec in C; [|exact W]. apply C.
  - unfold wf_iter in *. destruct (it_rows i) as [r|] eqn:R; simpl.
    + destruct W as [W [E D]]. destruct (rows_cancel_spec r W) as [W' _]. auto.
    + destruct (it_dead i) as [r|] eqn:D; simpl; [|rewrite R; intros r H; rewrite D in H; discriminate].
      intros r0 H. inversion H; subst. destruct (W r eq_refl) as [W' C].
      destruct (rows_cancel_spec r W') as [A [B _]]. auto.
Qed.

Lemma iter_run_wf ops : forall i, wf_iter i -> wf_iter (fst (iter_run i ops)).
Proof.
  induction ops as [|o ops IH]; intros i W; simpl; [exact W|].
  pose proof (iter_step_wf i o W) as W1. destruct (iter_step i o) as [i1 out]. simpl in W1.
  specialize (IH i1 W1). destruct (iter_run i1 ops) as [i2 outs]. simpl in *. exact IH.
Qed.

(* C13, iterators: whatever calls were made before, once Close returns the
   result set has been closed at the driver exactly once. *)
Theorem close_releases qerr hasout run ops :
  fresh_run run ->
  released (fst (iter_run (query_iter qerr hasout run) (ops ++ [OpClose]))).
Proof.
  intros F. pose proof (query_iter_wf qerr hasout run F) as W0.
  revert W0. generalize (query_iter qerr hasout run).
  induction ops as [|o ops IH]; intros i W; simpl.
  - destruct (iter_close i) as [i' e] eqn:C. simpl. eapply iter_close_spec in C; [|exact W]. apply C.
  - pose proof (iter_step_wf i o W) as W1. destruct (iter_step i o) as [i1 out]. simpl in W1.
    specialize (IH i1 W1). destruct (iter_run i1 (ops ++ [OpClose])) as [i2 outs]. simpl in *. exact IH.
Qed.

(* ---------------------------------------------------- C14: Close -- *)

Definition close_of (p : iop * iout) : list (option err) :=
  match p with (OpClose, OutErr e _) => [e] | _ => [] end.
Definition close_outs (outs : list (iop * iout)) : list (option err) := flat_map close_of outs.

(* once iter.rows is nil, no call changes iter.err or iter.rows *)
Lemma step_after_close i o :
  it_rows i = None -> it_rows (fst (iter_step i o)) = None /\ it_err (fst (iter_step i o)) = it_err i.
Proof.
  intros R. destruct o; simpl.
  - unfold iter_next. rewrite R. destruct (it_err i); simpl; auto.
  - pose proof (iter_get_state i a) as G. destruct (iter_get i a) as [[i' e] st]. simpl in *. subst. auto.
  - unfold iter_close. rewrite R. simpl. auto.
  - rewrite R. destruct (it_dead i); simpl; auto.
Qed.

Lemma closes_after_close ops : forall i,
  it_rows i = None ->
  Forall (fun e => e = it_err i) (close_outs (combine ops (snd (iter_run i ops)))).
Proof.
  induction ops as [|o ops IH]; intros i R; simpl; [constructor|].
  destruct (step_after_close i o R) as [R1 E1].
  destruct (iter_step i o) as [i1 out] eqn:S. simpl in R1, E1.
  specialize (IH i1 R1). destruct (iter_run i1 ops) as [i2 outs]. simpl in *.
  apply Forall_app. split.
  - destruct o; simpl in S |- *; try (constructor; fail).
    unfold iter_close in S. rewrite R in S. inversion S; subst. constructor; [reflexivity|constructor].
  - rewrite E1 in IH. exact IH.
Qed.

Definition run_closes (i : iter) (ops : list iop) : list (option err) :=
  close_outs (combine ops (snd (iter_run i ops))).

Lemma run_closes_cons i o ops :
  run_closes i (o :: ops) =
  close_of (o, snd (iter_step i o)) ++ run_closes (fst (iter_step i o)) ops.
Proof.
  unfold run_closes. cbn [iter_run]. destruct (iter_step i o) as [i1 out]. cbn [fst snd].
  destruct (iter_run i1 ops) as [i2 outs]. cbn [snd combine close_outs flat_map]. reflexivity.
Qed.

(* C14: every Close call of a sequence returns the same result. *)
Theorem close_idempotent ops : forall i,
  wf_iter i ->
  forall e1 e2, In e1 (run_closes i ops) -> In e2 (run_closes i ops) -> e1 = e2.
Proof.
  induction ops as [|o ops IH]; intros i W e1 e2 H1 H2; [simpl in *; tauto|].
  rewrite run_closes_cons in H1, H2.
  pose proof (iter_step_wf i o W) as W1.
  destruct o; simpl in H1, H2, W1.
  - destruct (iter_next i) as [i' b]. simpl in *. eapply IH; eauto.
  - destruct (iter_get i a) as [[i' e] st]. simpl in *. eapply IH; eauto.
  - destruct (iter_close i) as [i' e] eqn:C. simpl in *.
    destruct (iter_close_spec _ _ _ W C) as [_ [[R _] [E _]]].
    pose proof (closes_after_close ops i' R) as F. fold (run_closes i' ops) in F.
    rewrite E in F. rewrite Forall_forall in F.
    destruct H1 as [H1|H1]; destruct H2 as [H2|H2]; subst; auto.
    + symmetry. apply F. exact H2.
    + rewrite (F _ H1), (F _ H2). reflexivity.
  - simpl in *. eapply IH; eauto.
Qed.

(* --------------------------------------------- C14: Next is sticky -- *)

Definition ended (i : iter) : Prop :=
  it_err i <> None \/ it_rows i = None \/ (exists r, it_rows i = Some r /\ finished_rows r).

Lemma ended_next_false i : wf_iter i -> ended i -> snd (iter_next i) = false /\ ended (fst (iter_next i)).
Proof.
  intros W En. unfold iter_next.
  destruct (it_err i) eqn:E; [simpl; split; auto; left; simpl; rewrite ?E; discriminate|].
  destruct (it_rows i) as [r|] eqn:R; [|simpl; split; auto; right; left; simpl; rewrite ?R; auto].
  destruct En as [En|[En|[r0 [En C]]]]; try congruence. rewrite R in En. inversion En; subst r0.
  unfold wf_iter in W. rewrite R in W. destruct W as [W _].
  destruct (rows_next r) as [r' b] eqn:N. destruct (rows_next_spec _ _ _ W N) as [_ [_ [K _]]].
  destruct (K C) as [K1 K2]. subst. simpl. split; auto. right. right. exists r'. simpl. auto.
Qed.

Lemma next_false_ended i i' : wf_iter i -> iter_next i = (i', false) -> ended i'.
Proof.
  intros W H. unfold iter_next in H.
  destruct (it_err i) eqn:E; [inversion H; subst; left; simpl; rewrite ?E; discriminate|].
  destruct (it_rows i) as [r|] eqn:R; [|inversion H; subst; right; left; simpl; rewrite ?R; auto].
  destruct (rows_next r) as [r' b] eqn:N. inversion H; subst; clear H.
  unfold wf_iter in W. rewrite R in W. destruct W as [W _].
  destruct (rows_next_spec _ _ _ W N) as [_ [K _]]. right. right. exists r'. simpl. auto.
Qed.

Lemma ended_step i o : wf_iter i -> ended i -> ended (fst (iter_step i o)).
Proof.
  intros W En. destruct o; simpl.
  - destruct (ended_next_false i W En) as [_ K]. destruct (iter_next i). exact K.
  - pose proof (iter_get_state i a) as G. destruct (iter_get i a) as [[i' e] st]. simpl in *. subst. exact En.
  - destruct (iter_close i) as [i' e] eqn:C. simpl.
    destruct (iter_close_spec _ _ _ W C) as [_ [[R _] _]]. right. left. exact R.
  - destruct (it_rows i) as [r|] eqn:R.
    + right. right. exists (rows_cancel r). simpl. split; auto.
      unfold wf_iter in W. rewrite R in W. destruct W as [W _].
      left. apply (rows_cancel_spec r W).
    + destruct (it_dead i); simpl; right; left; simpl; rewrite ?R; auto.
Qed.

Definition next_outs (outs : list (iop * iout)) : list bool :=
  flat_map (fun '(o, out) => match o, out with OpNext, OutBool b => [b] | _, _ => [] end) outs.

(* C14: once the iteration has ended (Next returned false, an error, Close, a
   cancelled context) every later Next returns false. *)
Theorem next_false_sticky ops : forall i,
  wf_iter i -> ended i ->
  Forall (fun b => b = false) (next_outs (combine ops (snd (iter_run i ops)))).
Proof.
  induction ops as [|o ops IH]; intros i W En; simpl; [constructor|].
  pose proof (iter_step_wf i o W) as W1. pose proof (ended_step i o W En) as En1.
  destruct (iter_step i o) as [i1 out] eqn:S. simpl in W1, En1.
  specialize (IH i1 W1 En1). destruct (iter_run i1 ops) as [i2 outs]. simpl in *.
  apply Forall_app. split; [|exact IH].
  destruct o; simpl in S |- *; try (constructor; fail).
  destruct (ended_next_false i W En) as [K _]. destruct (iter_next i) as [i' b]. simpl in K.
  inversion S; subst. constructor; [reflexivity|constructor].
Qed.

(* C14: Get before the first Next is an error unless it fetches the Outcome;
   Get once the iteration has ended is an error.  (Second part: for drivers
   with a single result set.  When the driver announces a further result set
   database/sql keeps the rows open at the end of the first one and Scan hands
   out the last row again; sqlair does not support multiple result sets.) *)
Theorem get_guards i a :
  (it_started i = false -> a <> GOutcome -> snd (fst (iter_get i a)) <> None) /\
  (wf_iter i -> it_started i = true -> ended i ->
   (forall r, it_rows i = Some r -> r_more r = false) -> snd (fst (iter_get i a)) <> None).
Proof.
  split.
  - intros S A. unfold iter_get. destruct (it_err i); [simpl; discriminate|]. rewrite S. simpl.
    destruct a; simpl; try discriminate. congruence.
  - intros W S En Nm. unfold iter_get. destruct (it_err i) eqn:E; [simpl; discriminate|].
    rewrite S. simpl. destruct (it_rows i) as [r|] eqn:R; [|simpl; discriminate].
    destruct En as [En|[En|[r0 [En C]]]]; try congruence. rewrite R in En. inversion En; subst r0.
    assert (Cl : r_closed r = true).
    { destruct C as [C|[_ [M _]]]; [exact C|]. rewrite (Nm r eq_refl) in M. discriminate. }
    destruct a; simpl; try discriminate.
    unfold rows_scan. destruct (r_lasterr r) as [[|e0]|]; rewrite ?Cl; simpl; discriminate.
Qed.

(* C14: an error recorded by the rows (a failed fetch, a cancelled context, a
   failing driver close) is what Close returns: never nil. *)
Theorem close_surfaces i r x :
  wf_iter i -> it_rows i = Some r -> recorded r x ->
  snd (iter_close i) = Some x.
Proof.
  intros W R [Cl Re]. unfold iter_close. rewrite R. unfold wf_iter in W. rewrite R in W.
  destruct W as [W [E _]]. unfold rows_close, rows_close_with. rewrite Cl, E. simpl. rewrite Re. reflexivity.
Qed.

(* a fetch failure is recorded by the rows *)
Theorem fetch_failure_recorded r r' e :
  wf_rows r -> r_closed r = false -> r_fail r = Some (0, e) -> rows_next r = (r', false) ->
  recorded r' (ErrDriver e).
Proof.
  intros [W1 [W2 [W3 W4]]] C F H. unfold rows_next in H.
  assert (X : r_ctxdone r = false) by (destruct (r_ctxdone r) eqn:X; [specialize (W3 eq_refl); congruence|reflexivity]).
  rewrite X, C, F in H. inversion H; subst; clear H.
  unfold recorded, set_hiteof, rows_close, rows_close_with, rows_with, rows_err, lasterr_or. simpl. auto.
Qed.

(* so is the cancellation of the query's context while the rows are open *)
Theorem cancel_recorded r :
  wf_rows r -> r_closed r = false -> recorded (rows_cancel r) ErrCtx.
Proof.
  intros W C. destruct (rows_cancel_spec r W) as [_ [A [_ B]]]. split; auto.
Qed.

(* ------------------------------------------- C13: Get / GetAll / Run -- *)

Lemma iter_get_wf i a : wf_iter i -> wf_iter (fst (fst (iter_get i a))).
Proof. intros W. rewrite iter_get_state. exact W. Qed.

Definition released_opt (i : option iter) : Prop :=
  match i with Some it => released it | None => True end.

(* C13: when Query.Get (and Run = Get without arguments) returns, the result
   set the call opened has been closed at the driver exactly once, for every
   result script (rows, fetch failures, close failures), every query error and
   every argument list. *)
Ltac get_step :=
  match goal with
  | |- context [iter_get ?i ?a] =>
      let G := fresh "G" in
      pose proof (iter_get_state i a) as G; destruct (iter_get i a) as [[? ?] ?]; cbn [fst] in G; subst
  | W : wf_iter ?i |- context [iter_next ?i] =>
      let N := fresh "N" in
      destruct (iter_next i) as [? ?] eqn:N; pose proof (iter_next_wf _ _ _ W N)
  | W : wf_iter ?i |- context [iter_close ?i] =>
      let C := fresh "C" in
      destruct (iter_close i) as [? ?] eqn:C; pose proof (iter_close_spec _ _ _ W C)
  | |- context [match ?x with _ => _ end] =>
      lazymatch x with
      | context [match _ with _ => _ end] => fail
      | _ => destruct x
      end
  end.

Theorem get_releases qerr hasout run c :
  fresh_run run -> released_opt (gr_iter (query_get qerr hasout run c)).
Proof.
  intros F. unfold query_get. destruct qerr; [exact I|].
  destruct (negb hasout && match g_dests c with Some _ => true | None => false end); [exact I|].
  pose proof (query_iter_wf None hasout run F) as W0.
  generalize dependent (query_iter None hasout run). intros i0 W0.
  repeat (get_step; cbv beta iota zeta); simpl; try exact I;
    match goal with H : _ /\ released _ /\ _ |- _ => apply H end.
Qed.

Lemma getall_loop_spec fuel : forall i c acc any i' lerr ids any',
  wf_iter i -> getall_loop fuel i c acc any = (i', lerr, ids, any') ->
  wf_iter i' /\ (lerr <> None -> released i').
Proof.
  induction fuel as [|f IH]; intros i c acc any i' lerr ids any' W H; simpl in H.
  - inversion H; subst. split; [exact W|congruence].
  - destruct (iter_next i) as [i1 more] eqn:N. pose proof (iter_next_wf _ _ _ W N) as W1.
    destruct (negb more).
    + inversion H; subst. split; [exact W1|congruence].
    + destruct (ga_bad_elem c).
      * destruct (iter_close i1) as [i2 e] eqn:C. inversion H; subst.
        destruct (iter_close_spec _ _ _ W1 C) as [A [B _]]. auto.
      * pose proof (iter_get_state i1 (ga_dests c)) as G.
        destruct (iter_get i1 (ga_dests c)) as [[i2 gerr] st]. simpl in G. subst i2.
        destruct gerr.
        -- destruct (iter_close i1) as [i3 e0] eqn:C. inversion H; subst.
           destruct (iter_close_spec _ _ _ W1 C) as [A [B _]]. auto.
        -- eapply IH; [exact W1|exact H].
Qed.

(* C13: the same for GetAll, including every early return inside the loop. *)
Theorem getall_releases qerr hasout run c :
  fresh_run run -> released_opt (gar_iter (query_getall qerr hasout run c)).
Proof.
  intros F. unfold query_getall. destruct qerr; [exact I|].
  destruct (ga_outcome c) as [[|]|]; try exact I;
  (destruct (negb hasout && ga_has_slices c); [exact I|];
   destruct (ga_bad_slice c); [exact I|]; unfold getall_body;
   pose proof (query_iter_wf None hasout run F) as W0;
   destruct (getall_loop (S (S (rows_total run))) (query_iter None hasout run) c [] false)
     as [[[i1 lerr] ids] any] eqn:L;
   destruct (getall_loop_spec _ _ _ _ _ _ _ _ _ W0 L) as [W1 R1];
   destruct lerr; [simpl; apply R1; congruence|];
   destruct (iter_close i1) as [i2 cerr] eqn:C;
   destruct (iter_close_spec _ _ _ W1 C) as [_ [B _]];
   destruct cerr; [exact B|]; destruct (negb any && hasout); exact B).
Qed.

(* ------------------------------------------------ C15: Get / GetAll -- *)

(* C15: GetAll leaves the caller's slices unchanged whenever it returns an
   error, whatever the error and wherever it occurred. *)
Theorem getall_all_or_nothing qerr hasout run c :
  gar_err (query_getall qerr hasout run c) <> None ->
  gar_appended (query_getall qerr hasout run c) = None.
Proof.
  unfold query_getall. destruct qerr; [reflexivity|].
  destruct (ga_outcome c) as [[|]|]; try reflexivity;
  (destruct (negb hasout && ga_has_slices c); [reflexivity|];
   destruct (ga_bad_slice c); [reflexivity|]; unfold getall_body;
   destruct (getall_loop _ _ c [] false) as [[[i1 lerr] ids] any];
   destruct lerr; [reflexivity|];
   destruct (iter_close i1) as [i2 cerr]; destruct cerr; [reflexivity|];
   destruct (negb any && hasout); [reflexivity|]; simpl; congruence).
Qed.


(* ------------------------------------- C15 / C14: plain result sets -- *)

(* rows being read without incident: open, nothing recorded, no scripted
   failure ahead, every remaining row converts *)
Definition reading (r : rows) : Prop :=
  r_closed r = false /\ r_lasterr r = None /\ r_fail r = None /\ r_close_err r = None /\
  r_driver_closes r = 0 /\ forallb row_ok (r_pending r) = true /\ r_more r = false /\
  r_ctxdone r = false /\ r_hiteof r = false.

Lemma reading_next_some r x rest :
  reading r -> r_pending r = x :: rest ->
  exists r', rows_next r = (r', true) /\ reading r' /\ r_pending r' = rest /\ r_current r' = Some x /\
             row_ok x = true.
Proof.
  intros [C [L [Fl [Ce [D [Ok [Mo [Xd He]]]]]]]] P. unfold rows_next. rewrite Xd, C, Fl, P.
  rewrite P in Ok. simpl in Ok. apply andb_prop in Ok. destruct Ok as [Okx Okr].
  eexists. split; [reflexivity|]. unfold reading, rows_with. simpl. repeat split; auto.
Qed.

Lemma reading_next_none r :
  reading r -> r_pending r = [] ->
  exists r', rows_next r = (r', false) /\ r_closed r' = true /\ rows_err r' = None /\
             r_close_err r' = None /\ r_driver_closes r' = 1.
Proof.
  intros [C [L [Fl [Ce [D [Ok [Mo [Xd He]]]]]]]] P. unfold rows_next. rewrite Xd, C, Fl, P, Mo.
  unfold rows_close, rows_close_with, rows_with, set_hiteof, rows_with. simpl. rewrite Ce. simpl.
  eexists. split; [reflexivity|]. unfold rows_err, lasterr_or. simpl.
  repeat split; auto; try (rewrite D; reflexivity).
Qed.

Definition live_iter (i : iter) (r : rows) : Prop :=
  it_rows i = Some r /\ it_err i = None.

(* GetAll's loop over a plain result: reads every row, in order, each once *)
Lemma getall_loop_plain : forall n fuel r i c acc any,
  length (r_pending r) = n -> n < fuel ->
  reading r -> live_iter i r ->
  ga_bad_elem c = None -> ga_dests c = GValid ->
  exists i' r', getall_loop fuel i c acc any =
                (i', None, acc ++ map row_id (r_pending r), any || negb (Nat.eqb n 0)) /\
                live_iter i' r' /\ r_closed r' = true /\ rows_err r' = None /\ r_close_err r' = None.
Proof.
  induction n as [|n IH]; intros fuel r i c acc any Len Fu Rd [R E] Be De.
  - destruct fuel as [|f]; [lia|]. cbn [getall_loop].
    destruct (r_pending r) as [|x rest] eqn:P; [|simpl in Len; lia].
    destruct (reading_next_none r Rd P) as [r' [N [C [L [Ce D]]]]].
    unfold iter_next. rewrite E, R, N. cbn [negb].
    eexists. exists r'. split; [simpl; rewrite app_nil_r, orb_false_r; reflexivity|].
    unfold live_iter. simpl. auto.
  - destruct fuel as [|f]; [lia|]. cbn [getall_loop].
    destruct (r_pending r) as [|x rest] eqn:P; [simpl in Len; lia|].
    destruct (reading_next_some r x rest Rd P) as [r' [N [Rd' [P' [Cu Okx]]]]].
    unfold iter_next. rewrite E, R, N. cbn [negb]. rewrite Be.
    unfold iter_get. cbn [it_err it_with it_started it_rows]. rewrite De.
    unfold rows_scan. destruct Rd' as [C' [L' Rest']]. rewrite L', C', Cu, Okx.
    simpl in Len.
    destruct (IH f r' (it_with i (Some r') None true (it_dead i)) c (acc ++ [row_id x]) true) as [i' [r'' [G K]]];
      try lia; auto.
    + rewrite P'. lia.
    + unfold reading. auto.
    + unfold live_iter. simpl. auto.
    + exists i', r''. split; [|exact K].
      cbn [negb]. rewrite G, P'. cbn [map]. rewrite <- app_assoc. simpl. rewrite orb_true_r. reflexivity.
Qed.

(* C15: on a plain result GetAll appends exactly one element per row, in row
   order, and ErrNoRows is returned exactly when there are outputs and no row. *)
Lemma getall_body_plain r c :
  reading r -> ga_bad_elem c = None -> ga_dests c = GValid ->
  let res := getall_body true (RunRows r) c in
  match r_pending r with
  | [] => gar_err res = Some ErrNoRows /\ gar_appended res = None
  | _ => gar_err res = None /\ gar_appended res = Some (map row_id (r_pending r))
  end.
Proof.
  intros Rd Be De. unfold getall_body. cbv zeta.
  assert (Q : query_iter None true (RunRows r) =
              {| it_hasout := true; it_rows := Some r; it_err := None; it_started := false;
                 it_result := None; it_dead := None |}).
  { unfold query_iter, rows_columns. destruct Rd as [C _]. rewrite C. reflexivity. }
  rewrite Q.
  assert (Fu : length (r_pending r) < S (S (rows_total (RunRows r)))) by (simpl; lia).
  assert (Lv : live_iter {| it_hasout := true; it_rows := Some r; it_err := None; it_started := false;
                            it_result := None; it_dead := None |} r) by (unfold live_iter; simpl; auto).
  destruct (getall_loop_plain (length (r_pending r)) (S (S (rows_total (RunRows r)))) r
              {| it_hasout := true; it_rows := Some r; it_err := None; it_started := false;
                 it_result := None; it_dead := None |} c [] false eq_refl Fu Rd Lv Be De)
    as [i' [r' [G [[R' E'] [C' [L' Ce']]]]]].
  rewrite G. unfold iter_close. rewrite R'. unfold rows_close, rows_close_with. rewrite C'.
  rewrite L', E'. cbn [fst snd].
  destruct (r_pending r) as [|x rest]; simpl; auto.
Qed.

Theorem getall_appends r c :
  reading r ->
  ga_outcome c <> Some false -> ga_bad_slice c = None -> ga_bad_elem c = None -> ga_dests c = GValid ->
  let res := query_getall None true (RunRows r) c in
  match r_pending r with
  | [] => gar_err res = Some ErrNoRows /\ gar_appended res = None
  | _ => gar_err res = None /\ gar_appended res = Some (map row_id (r_pending r))
  end.
Proof.
  intros Rd Oc Bs Be De. unfold query_getall.
  destruct (ga_outcome c) as [[|]|]; try congruence; simpl; rewrite Bs;
    apply getall_body_plain; assumption.
Qed.

(* C15: Get stores the first row; ErrNoRows (destinations untouched) exactly
   when the result is empty, for a statement with outputs. *)
Theorem get_first_or_norows r c :
  reading r -> g_outcome c = None -> g_dests c = Some GValid ->
  let res := query_get None true (RunRows r) c in
  match r_pending r with
  | [] => gr_err res = Some ErrNoRows /\ gr_row res = None
  | x :: _ => gr_err res = None /\ gr_row res = Some (row_id x)
  end.
Proof.
  intros Rd Oc De. unfold query_get. rewrite Oc, De. cbn [negb andb].
  assert (Q : query_iter None true (RunRows r) =
              {| it_hasout := true; it_rows := Some r; it_err := None; it_started := false;
                 it_result := None; it_dead := None |}).
  { unfold query_iter, rows_columns. destruct Rd as [C _]. rewrite C. reflexivity. }
  rewrite Q. cbv zeta. unfold iter_next. cbn [it_err it_rows].
  destruct (r_pending r) as [|x rest] eqn:P.
  - destruct (reading_next_none r Rd P) as [r' [N [C [L [Ce D]]]]]. rewrite N. cbn [negb].
    unfold iter_close. cbn [it_rows it_with it_err]. unfold rows_close, rows_close_with. rewrite C.
    rewrite L. simpl. auto.
  - destruct (reading_next_some r x rest Rd P) as [r' [N [Rd' [P' [Cu Okx]]]]]. rewrite N. cbn [negb].
    unfold iter_get. cbn [it_err it_with it_started it_rows]. unfold rows_scan.
    destruct Rd' as [C' [L' [Fl' [Ce' [D' [Ok' [Mo' [Xd' He']]]]]]]]. rewrite L', C', Cu, Okx. cbn [negb].
    cbv beta iota. unfold iter_close. cbn [it_rows it_with it_err].
    unfold rows_close, rows_close_with. rewrite C'.
    unfold rows_with, rows_err, lasterr_or. cbn [r_lasterr r_hiteof r_ctxdone]. rewrite L', Ce', Xd', He'. simpl. auto.
Qed.

(* C15: a statement without outputs: Get returns nil and fills the Outcome with
   the driver's result; a statement with outputs never reports success on an
   empty result *)
Theorem get_exec_outcome id :
  let res := query_get None false (RunResult id) {| g_outcome := Some true; g_dests := None |} in
  gr_err res = None /\ gr_outcome res = Some (Some id).
Proof. simpl. auto. Qed.
