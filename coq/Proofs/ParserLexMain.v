(* C02, main loop: synchronisation of the parser's main loop with the lexical
   automaton of ParserLex.v, and the property theorems. *)
From SQLair.Base Require Import Bytes Utf8.
From SQLair.Model Require Import GenUnicode GenConsts Parser.
From SQLair.Proofs Require Import Utf8Facts ParserExt ParserTiling ParserFuel ParserLex.
Local Open Scope N_scope.

(* ----------------------------------------------- advanceToNextExpression -- *)

#[export] Instance advance_loop_sync fuel : SyncFn (advance_loop fuel).
Proof.
  induction fuel as [|f IH]; intros inp s s' r S H; simpl in H.
  - inversion H; subst; assumption.
  - lex_go inp H. all: try (eapply IH; [|exact H]; lex_solve).
Qed.

(* where advanceToNextExpression stops: at the end of the input, or on a rune
   that may start an expression *)
Definition stopc (c : N) : bool := (is_trigger c || isNameChar c)%bool.
Definition stops (s : pstate) : Prop := at_end s = true \/ stopc (cur s) = true.

Lemma advance_loop_stops fuel : forall s s' r,
  advance_loop fuel s = (s', r) ->
  match r with
  | Ok true => at_end s' = true
  | Ok false => stops s'
  | No => False
  | Err _ => True
  end.
Proof.
  induction fuel as [|f IH]; intros s s' r H; simpl in H; [inversion H; subst; exact I|].
  walk H; try (apply IH in H; exact H); inv_pair; try exact I; unfold stops, stopc; auto.
  - right. match goal with E : is_trigger _ = true |- _ => rewrite E end. reflexivity.
  - right. match goal with E : isNameChar _ = true |- _ => rewrite E end. apply orb_true_r.
Qed.

Lemma stopc_not k c : stopc k = false -> stopc c = true -> c <> k.
Proof. intros F T E. subst c. congruence. Qed.

Lemma stopc_not_special c : stopc c = true -> special c = false.
Proof.
  unfold stopc. intros H. apply orb_prop in H. destruct H; lex_solve.
Qed.

Lemma skipBlanks_stops s : stops s -> skipBlanks s = (s, Ok tt).
Proof.
  intros St. unfold skipBlanks, fuel_of. simpl.
  destruct (at_end s) eqn:AE; [reflexivity|].
  destruct St as [St|St]; [congruence|].
  assert (C45 : cur s <> 45) by (apply (stopc_not 45); [vm_compute; reflexivity|exact St]).
  assert (C47 : cur s <> 47) by (apply (stopc_not 47); [vm_compute; reflexivity|exact St]).
  assert (B : is_blank (cur s) = false).
  { destruct (is_blank (cur s)) eqn:B; [|reflexivity]. exfalso.
    unfold is_blank, mem_N, blanks in B. simpl in B.
    repeat (apply orb_prop in B; destruct B as [B|B]); try discriminate;
      apply N.eqb_eq in B; revert B; apply stopc_not; try exact St; vm_compute; reflexivity. }
  assert (SC : skipComment s = (s, No)).
  { apply N.eqb_neq in C45. apply N.eqb_neq in C47.
    unfold skipComment, skipChar, ch_minus, ch_slash. rewrite AE, C45. cbn [negb andb].
    rewrite AE, C47. reflexivity. }
  rewrite SC, B. reflexivity.
Qed.

#[export] Instance advanceToNextExpression_sync : SyncFn advanceToNextExpression.
Proof. intros inp s s' r S H. unfold advanceToNextExpression in H. lex_go inp H. Qed.

Lemma advanceToNextExpression_stops s s' r :
  advanceToNextExpression s = (s', r) -> match r with Err _ => True | _ => stops s' end.
Proof.
  intros H. unfold advanceToNextExpression in H.
  destruct (negb (at_end s) && Nat.eqb (pos s) 0 && isNameChar (cur s))%bool eqn:B.
  - inversion H; subst. apply andb_prop in B. destruct B as [_ B]. right. unfold stopc.
    rewrite B. apply orb_true_r.
  - destruct (advance_loop (fuel_of s) s) as [s1 r1] eqn:L.
    pose proof (advance_loop_stops _ _ _ _ L) as P.
    destruct r1 as [[|]| |e]; try (inversion H; subst; try exact I).
    + left. exact P.
    + rewrite (skipBlanks_stops _ P) in H. inversion H; subst. exact P.
    + destruct P.
Qed.

(* ------------------------------------------------------------ main loop -- *)

(* The property of one segment [e] that starts after the prefix [pre] of the
   input: an expression (non-bypass segment) starts outside literals and
   comments and ends outside (indeed in state Normal). *)
Definition seg_ok (pre : str) (e : expr) : Prop :=
  is_bypass e = false ->
  normal_like (lexq Normal pre) = true /\ lexq Normal (pre ++ raw_of e) = Normal.

Definition bounded (segs : list expr) : Prop :=
  forall s1 e s2, segs = s1 ++ e :: s2 -> seg_ok (flat s1) e.

Lemma bounded_nil : bounded [].
Proof. intros s1 e s2 H. destruct s1; discriminate. Qed.

Lemma bounded_snoc acc e : bounded acc -> seg_ok (flat acc) e -> bounded (acc ++ [e]).
Proof.
  intros B S s1 e' s2 H.
  destruct s2 as [|x s2'].
  - apply app_inj_tail in H. destruct H as [H1 H2]. subst. exact S.
  - assert (NE : x :: s2' <> []) by discriminate.
    destruct (exists_last NE) as [l [a L]]. rewrite L in H.
    change (s1 ++ e' :: l ++ [a]) with (s1 ++ (e' :: l) ++ [a]) in H.
    rewrite app_assoc in H. apply app_inj_tail in H. destruct H as [H1 H2].
    eapply B. exact H1.
Qed.

Lemma bounded_add_bypass prev cstart acc : bounded acc -> bounded (add_bypass prev cstart acc).
Proof.
  intros B. unfold add_bypass. destruct (Nat.eqb (pos prev) (pos cstart)); [exact B|].
  apply bounded_snoc; [exact B|]. intros H. discriminate.
Qed.

Lemma good_stop_normal_like q s :
  good q s -> at_end s = false -> stopc (cur s) = true -> normal_like q = true.
Proof.
  intros G AE St. good_cases q G; try reflexivity.
  destruct G as [G|G]; [discriminate|]. rewrite G in St. vm_compute in St. discriminate.
Qed.

Lemma seg_ok_intro inp pre st1 st2 e :
  inp = pre ++ rest st1 -> synced inp st1 -> at_end st1 = false -> stops st1 ->
  ext st1 st2 -> snorm inp st2 -> raw_of e = slice st1 st2 -> seg_ok pre e.
Proof.
  intros I [q1 [[pre1 [I1 Q1]] G1]] AE St E [pre2 [I2 Q2]] Raw _.
  destruct St as [St|St]; [congruence|].
  rewrite I in I1. apply app_inv_tail in I1. subst pre1.
  split.
  - rewrite Q1. eapply good_stop_normal_like; eassumption.
  - rewrite Raw. rewrite (slice_ext _ _ E) in I. rewrite app_assoc in I. rewrite I in I2.
    apply app_inv_tail in I2. rewrite I2. exact Q2.
Qed.

Lemma synced_end inp s : synced inp s -> at_end s = true -> unclosed (lexq Normal inp) = false.
Proof.
  intros [q [[pre [I Q]] G]] AE. rewrite (at_end_true_rest _ AE), app_nil_r in I. subst pre.
  rewrite Q. destruct q; simpl in G; try reflexivity; destruct G.
Qed.

Lemma parse_loop_lex fuel : forall inp prev acc st segs,
  ext prev st -> inp = flat acc ++ rest prev -> synced inp st -> bounded acc ->
  parse_loop fuel prev acc st = Ok segs ->
  bounded segs /\ unclosed (lexq Normal inp) = false.
Proof.
  induction fuel as [|f IH]; intros inp prev acc st segs E I S B H; simpl in H; [discriminate|].
  destruct (advanceToNextExpression st) as [st1 r1] eqn:A.
  assert (E1 : ext prev st1) by (exact (ext_prf (f:=advanceToNextExpression) _ _ _ _ E A)).
  assert (S1 : synced inp st1) by (exact (sync_prf (f:=advanceToNextExpression) _ _ _ _ S A)).
  pose proof (advanceToNextExpression_stops _ _ _ A) as St1.
  assert (H' : (if at_end st1 then Ok (add_bypass prev st1 acc)
          else match parseOutputExpr st1 with
               | (_, Err e) => Err e
               | (st2, Ok out) => parse_loop f st2 (add_bypass prev st1 acc ++ [out]) st2
               | (st2, No) =>
                   match parseInputExpr st2 with
                   | (_, Err e) => Err e
                   | (st3, Ok inp) => parse_loop f st3 (add_bypass prev st1 acc ++ [inp]) st3
                   | (st3, No) => parse_loop f prev acc (advance st3)
                   end
               end) = Ok segs /\ stops st1).
  { destruct r1; try (split; [exact H|exact St1]). discriminate. }
  clear H St1. destruct H' as [H St1].
  assert (F : inp = flat (add_bypass prev st1 acc) ++ rest st1)
    by (rewrite add_bypass_flat by exact E1; exact I).
  destruct (at_end st1) eqn:AE.
  - inversion H; subst segs. split.
    + apply bounded_add_bypass. exact B.
    + eapply synced_end; eassumption.
  - destruct (parseOutputExpr st1) as [st2 r2] eqn:O.
    pose proof (parseOutputExpr_spec _ _ _ O) as SO.
    assert (E2 : ext st1 st2) by (exact (ext_prf (f:=parseOutputExpr) _ _ _ _ (ext_refl _) O)).
    destruct r2 as [out| |e]; [| |discriminate].
    + destruct SO as [Raw NB].
      assert (N2 : snorm inp st2) by (exact (norm_prf (f:=parseOutputExpr) _ _ _ _ S1 O)).
      eapply IH; [apply ext_refl| |apply snorm_synced; exact N2| |exact H].
      * rewrite flat_app. unfold flat at 2. simpl. rewrite app_nil_r, Raw, <- app_assoc.
        rewrite <- (slice_ext _ _ E2). exact F.
      * apply bounded_snoc; [apply bounded_add_bypass; exact B|].
        eapply seg_ok_intro; eassumption.
    + simpl in SO. subst st2.
      destruct (parseInputExpr st1) as [st3 r3] eqn:P.
      pose proof (parseInputExpr_spec _ _ _ P) as SP.
      assert (E3 : ext st1 st3) by (exact (ext_prf (f:=parseInputExpr) _ _ _ _ (ext_refl _) P)).
      destruct r3 as [ie| |e]; [| |discriminate].
      * destruct SP as [Raw NB].
        assert (N3 : snorm inp st3) by (exact (norm_prf (f:=parseInputExpr) _ _ _ _ S1 P)).
        eapply IH; [apply ext_refl| |apply snorm_synced; exact N3| |exact H].
        -- rewrite flat_app. unfold flat at 2. simpl. rewrite app_nil_r, Raw, <- app_assoc.
           rewrite <- (slice_ext _ _ E3). exact F.
        -- apply bounded_snoc; [apply bounded_add_bypass; exact B|].
           eapply seg_ok_intro; eassumption.
      * simpl in SP. subst st3.
        eapply IH; [|exact I| |exact B|exact H].
        -- eapply ext_trans; [exact E1|apply advance_ext].
        -- apply advance_plain_sync; [exact S1|].
           destruct St1 as [St1|St1]; [congruence|]. apply stopc_not_special. exact St1.
Qed.

Lemma synced_init inp : synced inp (init inp).
Proof. apply snorm_synced. exists []. split; reflexivity. Qed.

(* B1 *)
Theorem parse_ok_closed inp segs : parse inp = Ok segs -> unclosed (lex_state_at_end inp) = false.
Proof.
  unfold parse. intros H.
  eapply parse_loop_lex in H; [exact (proj2 H)|apply ext_refl|reflexivity|apply synced_init|apply bounded_nil].
Qed.

Theorem parse_unclosed_rejected inp :
  unclosed (lex_state_at_end inp) = true -> exists e, parse inp = Err e.
Proof.
  intros U. destruct (parse_total inp) as [[segs H]|[e [H _]]].
  - apply parse_ok_closed in H. congruence.
  - exists e. exact H.
Qed.

(* B2 *)
Theorem parse_boundaries inp segs s1 e s2 :
  parse inp = Ok segs -> segs = s1 ++ e :: s2 -> is_bypass e = false ->
  normal_like (lexq Normal (concat (map raw_of s1))) = true /\
  lexq Normal (concat (map raw_of s1) ++ raw_of e) = Normal.
Proof.
  unfold parse. intros H D NB.
  eapply parse_loop_lex in H; [|apply ext_refl|reflexivity|apply synced_init|apply bounded_nil].
  destruct H as [B _]. exact (B _ _ _ D NB).
Qed.

(* B2 together with the position of the segment in the input (C01 tiling) *)
Theorem parse_boundaries_full inp segs s1 e s2 :
  parse inp = Ok segs -> segs = s1 ++ e :: s2 -> is_bypass e = false ->
  (let pre := concat (map raw_of s1) in
   inp = pre ++ raw_of e ++ concat (map raw_of s2) /\
   normal_like (lexq Normal pre) = true /\
   lexq Normal (pre ++ raw_of e) = Normal).
Proof.
  intros H D NB pre. split.
  - pose proof (parse_tiling _ _ H) as T. rewrite D in T.
    rewrite map_app, concat_app in T. simpl in T. symmetry. exact T.
  - eapply parse_boundaries; eassumption.
Qed.

(* contrapositive reading: a segment that starts or ends strictly inside a
   literal or a comment is plain SQL (a bypass segment) *)
Theorem parse_inside_is_bypass inp segs s1 e s2 :
  parse inp = Ok segs -> segs = s1 ++ e :: s2 ->
  normal_like (lexq Normal (concat (map raw_of s1))) = false \/
  normal_like (lexq Normal (concat (map raw_of s1) ++ raw_of e)) = false ->
  is_bypass e = true.
Proof.
  intros H D X. destruct (is_bypass e) eqn:NB; [reflexivity|].
  destruct (parse_boundaries _ _ _ _ _ H D NB) as [B1 B2].
  rewrite B1, B2 in X. destruct X; discriminate.
Qed.

Print Assumptions parse_ok_closed.
Print Assumptions parse_unclosed_rejected.
Print Assumptions parse_boundaries_full.
Print Assumptions parse_inside_is_bypass.
