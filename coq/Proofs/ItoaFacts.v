(* strconv.Itoa / Atoi round trip: Atoi (Itoa n) = n, hence Itoa is injective.
   Used for placeholder names (C03) and column aliases (C05, C06). *)
From Coq Require Import ZArith ZifyN ZifyNat ZifyBool.
From SQLair.Base Require Import Bytes.

Ltac Zify.zify_post_hook ::= Z.div_mod_to_equations.

Lemma atoi_digits_app l1 l2 a :
  atoi_digits (l1 ++ l2) a =
  match atoi_digits l1 a with Some b => atoi_digits l2 b | None => None end.
Proof.
  revert a. induction l1 as [|c l1 IH]; intros a; simpl; [reflexivity|].
  destruct (is_dec c); [apply IH|reflexivity].
Qed.

Lemma digit_is_dec n : is_dec (48 + N.modulo n 10) = true.
Proof. unfold is_dec. lia. Qed.

Lemma itoa_fuel_spec fuel : forall n acc,
  (n < 2 ^ N.of_nat fuel)%N ->
  exists ds k, itoa_fuel fuel n acc = ds ++ acc /\
               forall a, atoi_digits ds a = Some (a * 10 ^ k + n)%N.
Proof.
  induction fuel as [|f IH]; intros n acc H.
  - simpl in H. assert (n = 0%N) by lia. subst. exists [], 0%N. simpl. split; [reflexivity|].
    intros a. f_equal. lia.
  - cbn [itoa_fuel]. destruct (N.ltb n 10) eqn:L.
    + exists [(48 + N.modulo n 10)%N], 1%N. split; [reflexivity|]. intros a.
      cbn [atoi_digits]. rewrite digit_is_dec. f_equal. apply N.ltb_lt in L.
      rewrite N.mod_small by exact L. lia.
    + apply N.ltb_ge in L.
      assert (Hd : (N.div n 10 < 2 ^ N.of_nat f)%N).
      { rewrite Nat2N.inj_succ, N.pow_succ_r' in H. lia. }
      destruct (IH (N.div n 10) ((48 + N.modulo n 10)%N :: acc) Hd) as [ds [k [E A]]].
      exists (ds ++ [(48 + N.modulo n 10)%N]), (k + 1)%N. split.
      * rewrite E, <- app_assoc. reflexivity.
      * intros a. rewrite atoi_digits_app, A. cbn [atoi_digits]. rewrite digit_is_dec. f_equal.
        rewrite N.pow_add_r. lia.
Qed.

Lemma atoi_itoa n : atoi_digits (itoa n) 0 = Some n.
Proof.
  unfold itoa.
  assert (H : (n < 2 ^ N.of_nat (S (N.to_nat (N.log2 n))))%N).
  { rewrite Nat2N.inj_succ, N2Nat.id. destruct n as [|p]; [cbn; lia|].
    apply N.log2_spec. lia. }
  destruct (itoa_fuel_spec _ n [] H) as [ds [k [E A]]].
  rewrite E, app_nil_r, A. f_equal; try lia.
Qed.

Lemma itoa_inj a b : itoa a = itoa b -> a = b.
Proof.
  intros H. pose proof (atoi_itoa a) as Ha. rewrite H, atoi_itoa in Ha. congruence.
Qed.

Lemma itoa_nat_inj a b : itoa_nat a = itoa_nat b -> a = b.
Proof. unfold itoa_nat. intros H. apply itoa_inj in H. lia. Qed.

Lemma atoi_digits_all_dec l : forall a b, atoi_digits l a = Some b -> forallb is_dec l = true.
Proof.
  induction l as [|c l IH]; intros a b H; simpl in *; [reflexivity|].
  destruct (is_dec c); [simpl; eapply IH; exact H|discriminate].
Qed.

Lemma itoa_digits n : forallb is_dec (itoa n) = true.
Proof. eapply atoi_digits_all_dec. apply atoi_itoa. Qed.

Lemma itoa_fuel_nonempty fuel : forall n acc, acc <> [] -> itoa_fuel fuel n acc <> [].
Proof.
  induction fuel as [|f IH]; intros n acc H; cbn [itoa_fuel]; [exact H|].
  destruct (N.ltb n 10); [discriminate|]. apply IH. discriminate.
Qed.

Lemma itoa_nonempty n : itoa n <> [].
Proof.
  unfold itoa. cbn [itoa_fuel]. destruct (N.ltb n 10); [discriminate|].
  apply itoa_fuel_nonempty. discriminate.
Qed.
