(* C09, C10, C11 (and the context part of C20): invariants of the statement
   cache model of Cache.v, proved for every history (every list of operations of
   any number of threads, Statements and DBs, with reference drops and
   garbage-collection steps at any position). *)
From SQLair.Base Require Import Bytes.
From SQLair.Model Require Import Cache.

(* ------------------------------------------------------------ lists -- *)

Lemma set_nth_length {A} (l : list A) n v : length (set_nth l n v) = length l.
Proof. revert n. induction l as [|x l IH]; intros [|n]; simpl; auto. Qed.

Lemma nth_set_nth {A} (l : list A) n m v d :
  nth m (set_nth l n v) d = if Nat.eqb m n && Nat.ltb n (length l) then v else nth m l d.
Proof.
  revert n m. induction l as [|x l IH]; intros n m.
  - destruct n; simpl; rewrite andb_false_r; reflexivity.
  - destruct n as [|n]; destruct m as [|m]; simpl; auto.
    rewrite IH. replace (S n <? S (length l)) with (n <? length l); [reflexivity|].
    destruct (Nat.ltb_spec n (length l)); destruct (Nat.ltb_spec (S n) (S (length l))); auto; lia.
Qed.

Lemma nth_app_one {A} (l : list A) x m d :
  nth m (l ++ [x]) d = if Nat.ltb m (length l) then nth m l d else if Nat.eqb m (length l) then x else d.
Proof.
  destruct (Nat.ltb_spec m (length l)).
  - apply app_nth1. exact H.
  - rewrite app_nth2 by lia. destruct (Nat.eqb_spec m (length l)).
    + subst. rewrite Nat.sub_diag. reflexivity.
    + destruct (m - length l) as [|k] eqn:E; [lia|]. simpl. destruct k; reflexivity.
Qed.

(* ------------------------------------------------------- invariant -- *)

Definition active (w : world) (t ds : nat) : Prop :=
  th_phase (tget w t) = PHit ds \/ th_phase (tget w t) = PPrepared ds \/ th_phase (tget w t) = PStored ds.

Record Inv (w : world) : Prop := {
  inv_cache : forall s d ds, w_cache w s d = Some ds ->
      ds < length (w_heap w) /\ ds_stmt (hget w ds) = s /\ ds_db (hget w ds) = d /\
      ds_closes (hget w ds) = 0 /\ ds_evicted (hget w ds) = false /\
      w_sentry w s = true /\ w_dentry w d = true;
  inv_index : forall s d, w_index w d s = true <-> w_cache w s d <> None;
  inv_sbound : forall s, w_sentry w s = true -> s < w_ns w;
  inv_dbound : forall d, w_dentry w d = true -> d < w_nd w;
  inv_sref : forall s, w_sref w s = true -> w_sentry w s = true;
  inv_dref : forall d, w_dref w d = true -> w_dentry w d = true;
  inv_closure : forall t, t < length (w_threads w) -> holds_closure (tget w t) = true ->
      w_sentry w (th_s (tget w t)) = true /\ w_dentry w (th_d (tget w t)) = true;
  inv_thread_ds : forall t ds, t < length (w_threads w) -> held_ds (tget w t) = Some ds ->
      ds < length (w_heap w) /\ ds_stmt (hget w ds) = th_s (tget w t) /\
      ds_db (hget w ds) = th_d (tget w t) /\ ds_sql (hget w ds) = th_q (tget w t);
  inv_active_open : forall t ds, t < length (w_threads w) -> active w t ds ->
      ds_closes (hget w ds) = 0;
  inv_prepared : forall t ds, t < length (w_threads w) -> th_phase (tget w t) = PPrepared ds ->
      ds_evicted (hget w ds) = false /\
      (forall s d, w_cache w s d <> Some ds) /\
      (forall t', t' < length (w_threads w) -> t' <> t -> held_ds (tget w t') <> Some ds);
  inv_heap : forall ds, ds < length (w_heap w) ->
      ds_closes (hget w ds) <= 1 /\
      (ds_evicted (hget w ds) = true ->
         ds_closes (hget w ds) = (if ds_finalized (hget w ds) then 1 else 0)) /\
      (ds_evicted (hget w ds) = false -> ds_finalized (hget w ds) = false) /\
      (ds_evicted (hget w ds) = false -> ds_closes (hget w ds) = 0 ->
         w_cache w (ds_stmt (hget w ds)) (ds_db (hget w ds)) = Some ds \/
         exists t, t < length (w_threads w) /\ th_phase (tget w t) = PPrepared ds);
  inv_no_panic : forall n, ~ In (EvPanic n) (w_log w)
}.

Lemma inv_w0 : Inv w0.
Proof.
  constructor; simpl; intros; try discriminate; try lia; try tauto.
  - split; [discriminate|intros H; congruence].
Qed.

(* ------------------------------------------------- small-step facts -- *)

Definition th_with_phase (th : thread) (p : phase) : thread :=
  {| th_s := th_s th; th_d := th_d th; th_q := th_q th; th_tx := th_tx th; th_ctx := th_ctx th;
     th_query_held := th_query_held th; th_phase := p |}.

Lemma tget_set_phase w t p t' :
  tget (set_phase w t p) t' =
  if Nat.eqb t' t && Nat.ltb t (length (w_threads w)) then th_with_phase (tget w t) p else tget w t'.
Proof. unfold tget, set_phase. simpl. rewrite nth_set_nth. reflexivity. Qed.

Lemma threads_set_phase w t p : length (w_threads (set_phase w t p)) = length (w_threads w).
Proof. unfold set_phase. simpl. apply set_nth_length. Qed.

Lemma hget_set_phase w t p ds : hget (set_phase w t p) ds = hget w ds.
Proof. reflexivity. Qed.

Definition ds_closed_once (x : dstmt) : dstmt :=
  {| ds_stmt := ds_stmt x; ds_db := ds_db x; ds_sql := ds_sql x; ds_closes := S (ds_closes x);
     ds_evicted := ds_evicted x; ds_finalized := ds_finalized x |}.

Lemma hget_close_ds w ds ds' :
  hget (close_ds w ds) ds' =
  if Nat.eqb ds' ds && Nat.ltb ds (length (w_heap w)) then ds_closed_once (hget w ds) else hget w ds'.
Proof. unfold hget, close_ds. simpl. rewrite nth_set_nth. reflexivity. Qed.

Lemma heap_close_ds w ds : length (w_heap (close_ds w ds)) = length (w_heap w).
Proof. unfold close_ds. simpl. apply set_nth_length. Qed.

Lemma log_close_ds w ds : w_log (close_ds w ds) = w_log w ++ [EvClose ds].
Proof. reflexivity. Qed.

Lemma tget_default_phase w t : length (w_threads w) <= t -> th_phase (tget w t) = PFinished.
Proof. intros H. unfold tget. rewrite nth_overflow by exact H. reflexivity. Qed.

Lemma phase_bound w t : th_phase (tget w t) <> PFinished -> t < length (w_threads w).
Proof.
  intros H. destruct (Nat.lt_ge_cases t (length (w_threads w))); [assumption|].
  exfalso. apply H. apply tget_default_phase. assumption.
Qed.

Ltac beq :=
  repeat match goal with
         | H : context [Nat.eqb ?a ?b] |- _ => destruct (Nat.eqb_spec a b); subst; simpl in H
         | |- context [Nat.eqb ?a ?b] => destruct (Nat.eqb_spec a b); subst; simpl
         | H : context [Nat.ltb ?a ?b] |- _ => destruct (Nat.ltb_spec a b); simpl in H
         | |- context [Nat.ltb ?a ?b] => destruct (Nat.ltb_spec a b); simpl
         end.

Ltac start I := destruct I; constructor; unfold active, tget, hget in *; simpl in *; auto.

(* operations that only touch the user's references or the cancellation set *)
Lemma inv_drop_stmt w s : Inv w -> Inv (step w (DropStmt s)).
Proof.
  intros I. start I.
  intros s0 H. unfold upd in H. destruct (Nat.eqb s0 s); [discriminate|auto].
Qed.

Lemma inv_drop_db w d : Inv w -> Inv (step w (DropDB d)).
Proof.
  intros I. start I.
  intros d0 H. unfold upd in H. destruct (Nat.eqb d0 d); [discriminate|auto].
Qed.

Lemma inv_cancel w c : Inv w -> Inv (step w (Cancel c)).
Proof. intros I. start I. Qed.

Lemma inv_new_stmt w : Inv w -> Inv (step w NewStmt).
Proof.
  intros I. start I.
  - intros s d ds H. destruct (inv_cache0 s d ds H) as [A [B [C [D [E [F G]]]]]].
    repeat split; auto. unfold upd. destruct (Nat.eqb s (w_ns w)); auto.
  - intros s H. unfold upd in H. destruct (Nat.eqb_spec s (w_ns w)); [lia|]. apply inv_sbound0 in H. lia.
  - intros s H. unfold upd in *. destruct (Nat.eqb s (w_ns w)); auto.
  - intros t Ht Hc. destruct (inv_closure0 t Ht Hc) as [A B]. split; auto.
    unfold upd. destruct (Nat.eqb _ (w_ns w)); auto.
Qed.

Lemma inv_new_db w : Inv w -> Inv (step w NewDB).
Proof.
  intros I. start I.
  - intros s d ds H. destruct (inv_cache0 s d ds H) as [A [B [C [D [E [F G]]]]]].
    repeat split; auto. unfold upd. destruct (Nat.eqb d (w_nd w)); auto.
  - intros d H. unfold upd in H. destruct (Nat.eqb_spec d (w_nd w)); [lia|]. apply inv_dbound0 in H. lia.
  - intros d H. unfold upd in *. destruct (Nat.eqb d (w_nd w)); auto.
  - intros t Ht Hc. destruct (inv_closure0 t Ht Hc) as [A B]. split; auto.
    unfold upd. destruct (Nat.eqb _ (w_nd w)); auto.
Qed.

Lemma inv_with_log w e : (forall n, e <> EvPanic n) -> Inv w -> Inv (with_log w e).
Proof.
  intros He I. start I. intros n H. apply in_app_or in H. destruct H as [H|[H|[]]].
  - eapply inv_no_panic0; eauto.
  - eapply He; eauto.
Qed.

(* replacing the record of thread t by one that holds no more than before *)
Lemma inv_thread_weaken w t th' :
  t < length (w_threads w) ->
  th_s th' = th_s (tget w t) -> th_d th' = th_d (tget w t) -> th_q th' = th_q (tget w t) ->
  (holds_closure th' = true -> holds_closure (tget w t) = true) ->
  (forall ds, held_ds th' = Some ds -> held_ds (tget w t) = Some ds) ->
  (forall ds, th_phase th' = PHit ds \/ th_phase th' = PPrepared ds \/ th_phase th' = PStored ds ->
              th_phase (tget w t) = PHit ds \/ th_phase (tget w t) = PPrepared ds \/ th_phase (tget w t) = PStored ds) ->
  (forall ds, th_phase th' = PPrepared ds <-> th_phase (tget w t) = PPrepared ds) ->
  Inv w -> Inv (with_threads w (set_nth (w_threads w) t th')).
Proof.
  intros Ht Es Ed Eq Hc Hd Ha Hp I.
  assert (Hlt : (t <? length (w_threads w)) = true) by (apply Nat.ltb_lt; exact Ht).
  start I; rewrite ?set_nth_length.
  - intros t' Ht' C. rewrite nth_set_nth in *. rewrite Hlt in *.
    destruct (Nat.eqb_spec t' t); simpl in *.
    + subst. rewrite Es, Ed. apply inv_closure0; auto.
    + apply inv_closure0; assumption.
  - intros t' ds' Ht' D. rewrite nth_set_nth in *. rewrite Hlt in *.
    destruct (Nat.eqb_spec t' t); simpl in *.
    + subst. rewrite Es, Ed, Eq. apply inv_thread_ds0; auto.
    + apply inv_thread_ds0; assumption.
  - intros t' ds' Ht' A. rewrite nth_set_nth in *. rewrite Hlt in *.
    destruct (Nat.eqb_spec t' t); simpl in *.
    + subst. eapply inv_active_open0; [exact Ht|]. apply Ha. exact A.
    + eapply inv_active_open0; eauto.
  - intros t' ds' Ht' P. rewrite nth_set_nth in P. rewrite Hlt in P.
    assert (P' : th_phase (nth t' (w_threads w) th_default) = PPrepared ds').
    { destruct (Nat.eqb_spec t' t); simpl in P; [subst; apply Hp; exact P|exact P]. }
    destruct (inv_prepared0 t' ds' Ht' P') as [A [B C]]. repeat split; auto.
    intros t'' Ht'' Hne. rewrite nth_set_nth. rewrite Hlt.
    destruct (Nat.eqb_spec t'' t); simpl.
    + subst. intros D. apply Hd in D. revert D. apply C; auto.
    + apply C; assumption.
  - intros ds' D. destruct (inv_heap0 ds' D) as [A [B [C E]]]. repeat split; auto.
    intros F G. destruct (E F G) as [K|[t' [Ht' P]]]; [left; exact K|right].
    exists t'. split; [exact Ht'|]. rewrite nth_set_nth, Hlt.
    destruct (Nat.eqb_spec t' t); simpl; [|exact P]. subst. apply Hp. exact P.
Qed.

Lemma inv_finish w t : Inv w -> Inv (step w (Finish t)).
Proof.
  intros I. unfold step. destruct (th_phase (tget w t)) eqn:P; auto.
  pose proof (phase_bound w t ltac:(rewrite P; discriminate)) as Ht.
  unfold set_phase. apply inv_thread_weaken; simpl; auto; try discriminate.
  - intros ds' [A|[A|A]]; discriminate.
  - intros ds'. split; intros H; [discriminate|congruence].
Qed.

Lemma inv_drop_query w t : Inv w -> Inv (step w (DropQuery t)).
Proof.
  intros I. unfold step. destruct (th_phase (tget w t)) eqn:P; auto.
  pose proof (phase_bound w t ltac:(rewrite P; discriminate)) as Ht.
  apply inv_thread_weaken; simpl; auto.
  - unfold holds_closure. simpl. rewrite P. discriminate.
  - unfold held_ds. simpl. rewrite P. auto.
  - intros ds' H. rewrite P. exact H.
  - intros ds'. rewrite P. tauto.
Qed.

Lemma tget_with_log w e t : tget (with_log w e) t = tget w t.
Proof. reflexivity. Qed.

Lemma inv_exec w t : Inv w -> Inv (step w (Exec t)).
Proof.
  intros I. unfold step.
  destruct (th_phase (tget w t)) eqn:P; auto;
  pose proof (phase_bound w t ltac:(rewrite P; discriminate)) as Ht;
  (destruct (w_cancelled w (th_ctx (tget w t)));
   [ unfold set_phase; apply inv_thread_weaken; simpl; auto; try discriminate;
     [intros ds' [A|[A|A]]; discriminate | intros ds'; split; intros H; [discriminate|congruence]]
   | unfold set_phase; apply inv_thread_weaken; rewrite ?tget_with_log; simpl; auto;
     [ unfold holds_closure; simpl; rewrite P; auto
     | unfold held_ds; simpl; rewrite P; auto
     | intros ds' [A|[A|A]]; discriminate
     | intros ds'; split; intros H; [discriminate|congruence]
     | apply inv_with_log; [discriminate|exact I] ] ]).
Qed.

Lemma held_lt w t ds : Inv w -> t < length (w_threads w) -> held_ds (tget w t) = Some ds -> ds < length (w_heap w).
Proof. intros I Ht H. destruct I. destruct (inv_thread_ds0 t ds Ht H) as [A _]. exact A. Qed.

Lemma inv_prepare w t ok : Inv w -> Inv (step w (Prepare t ok)).
Proof.
  intros I. unfold step. destruct (th_phase (tget w t)) eqn:P; auto.
  pose proof (phase_bound w t ltac:(rewrite P; discriminate)) as Ht.
  destruct (ok && negb (w_cancelled w (th_ctx (tget w t)))).
  2:{ unfold set_phase. apply inv_thread_weaken; simpl; auto; try discriminate.
      - intros ds' [A|[A|A]]; discriminate.
      - intros ds'. split; intros H; [discriminate|congruence]. }
  assert (Hlt : (t <? length (w_threads w)) = true) by (apply Nat.ltb_lt; exact Ht).
  pose proof (held_lt w) as HL.
  set (n := length (w_heap w)).
  set (x := {| ds_stmt := th_s (tget w t); ds_db := th_d (tget w t); ds_sql := th_q (tget w t);
               ds_closes := 0; ds_evicted := false; ds_finalized := false |}).
  assert (Hold : forall ds', ds' < n -> nth ds' (w_heap w ++ [x]) ds_default = nth ds' (w_heap w) ds_default).
  { intros ds' H. rewrite nth_app_one. apply Nat.ltb_lt in H. fold n. rewrite H. reflexivity. }
  assert (Hnew : nth n (w_heap w ++ [x]) ds_default = x).
  { rewrite nth_app_one. fold n. rewrite Nat.ltb_irrefl, Nat.eqb_refl. reflexivity. }
  unfold set_phase. destruct I. constructor; unfold active, tget, hget in *; simpl in *;
    rewrite ?app_length, ?set_nth_length; simpl; auto.
  - (* cache *) intros s d ds' H. destruct (inv_cache0 s d ds' H) as [A [B [C [D [E [F G]]]]]].
    rewrite Hold by exact A. repeat split; auto. lia.
  - (* closure *) intros t' Ht' C. rewrite nth_set_nth in *. rewrite Hlt in *.
    destruct (Nat.eqb_spec t' t); simpl in *.
    + subst. apply inv_closure0; auto. unfold holds_closure. rewrite P. reflexivity.
    + apply inv_closure0; assumption.
  - (* thread_ds *) intros t' ds' Ht' D. rewrite nth_set_nth in *. rewrite Hlt in *.
    destruct (Nat.eqb_spec t' t); simpl in *.
    + subst. unfold held_ds in D. simpl in D. inversion D; subst. fold n. rewrite Hnew. simpl.
      repeat split; auto. lia.
    + assert (L : ds' < n) by (eapply HL; [constructor; assumption|exact Ht'|exact D]).
      rewrite Hold by exact L. destruct (inv_thread_ds0 t' ds' Ht' D) as [A [B [C E]]].
      repeat split; auto. lia.
  - (* active_open *) intros t' ds' Ht' A. rewrite nth_set_nth in *. rewrite Hlt in *.
    destruct (Nat.eqb_spec t' t); simpl in *.
    + subst. destruct A as [A|[A|A]]; try discriminate. inversion A; subst. fold n. rewrite Hnew. reflexivity.
    + assert (L : ds' < n).
      { eapply HL; [constructor; assumption|exact Ht'|]. unfold held_ds, tget.
        destruct A as [A|[A|A]]; rewrite A; reflexivity. }
      rewrite Hold by exact L. eapply inv_active_open0; eauto.
  - (* prepared *) intros t' ds' Ht' Pp. rewrite nth_set_nth in Pp. rewrite Hlt in Pp.
    destruct (Nat.eqb_spec t' t); simpl in Pp.
    + subst. inversion Pp; subst. fold n. rewrite Hnew. simpl. split; [reflexivity|]. split.
      * intros s d H. destruct (inv_cache0 s d n H) as [A _]. unfold n in A. lia.
      * intros t'' Ht'' Hne. rewrite nth_set_nth, Hlt.
        destruct (Nat.eqb_spec t'' t); [congruence|]. simpl. intros D.
        assert (L : n < n) by (eapply HL; [constructor; assumption|exact Ht''|exact D]). lia.
    + destruct (inv_prepared0 t' ds' Ht' Pp) as [A [B C]].
      assert (L : ds' < n).
      { eapply HL; [constructor; assumption|exact Ht'|]. unfold held_ds, tget. rewrite Pp. reflexivity. }
      rewrite Hold by exact L. repeat split; auto.
      intros t'' Ht'' Hne. rewrite nth_set_nth, Hlt.
      destruct (Nat.eqb_spec t'' t); simpl.
      * unfold held_ds. simpl. intros D. inversion D. lia.
      * apply C; assumption.
  - (* heap *) intros ds' D.
    destruct (Nat.lt_ge_cases ds' n) as [L|L].
    + rewrite Hold by exact L. destruct (inv_heap0 ds' L) as [A [B [C E]]]. repeat split; auto.
      intros F G. destruct (E F G) as [K|[t' [Ht' Pp]]]; [left; exact K|right].
      exists t'. split; [exact Ht'|]. rewrite nth_set_nth, Hlt.
      destruct (Nat.eqb_spec t' t); simpl; [|exact Pp]. subst. unfold tget in P. congruence.
    + assert (ds' = n) by (unfold n in *; lia). subst ds'. rewrite Hnew. simpl.
      repeat split; auto; try discriminate. intros _ _. right. exists t. split; [exact Ht|].
      rewrite nth_set_nth, Hlt, Nat.eqb_refl. reflexivity.
  - (* no panic *) intros k H. apply in_app_or in H. destruct H as [H|[H|[]]]; [|discriminate].
    eapply inv_no_panic0; eauto.
Qed.

Definition ds_evict (x : dstmt) : dstmt :=
  {| ds_stmt := ds_stmt x; ds_db := ds_db x; ds_sql := ds_sql x; ds_closes := ds_closes x;
     ds_evicted := true; ds_finalized := ds_finalized x |}.

Lemma inv_store w t : Inv w -> Inv (step w (Store t)).
Proof.
  intros I. unfold step. destruct (th_phase (tget w t)) as [| |ds| | |] eqn:P; auto.
  pose proof (phase_bound w t ltac:(rewrite P; discriminate)) as Ht.
  assert (Hlt : (t <? length (w_threads w)) = true) by (apply Nat.ltb_lt; exact Ht).
  set (s := th_s (tget w t)). set (d := th_d (tget w t)).
  assert (Hc : holds_closure (tget w t) = true) by (unfold holds_closure; rewrite P; reflexivity).
  assert (Hh : held_ds (tget w t) = Some ds) by (unfold held_ds; rewrite P; reflexivity).
  pose proof I as I0. destruct I.
  destruct (inv_closure0 t Ht Hc) as [Se De]. fold s in Se. fold d in De. rewrite Se, De. cbn [andb].
  destruct (inv_thread_ds0 t ds Ht Hh) as [Dlt [Dst [Ddb Dsql]]]. fold s in Dst. fold d in Ddb.
  assert (Dcl : ds_closes (hget w ds) = 0) by (eapply inv_active_open0; [exact Ht|right; left; exact P]).
  destruct (inv_prepared0 t ds Ht P) as [Dev [Dnc Dun]].
  (* the heap after the eviction *)
  set (heap' := match w_cache w s d with
                | Some old => set_nth (w_heap w) old (ds_evict (hget w old))
                | None => w_heap w
                end).
  assert (Hw1 : (match w_cache w s d with
                 | Some old => with_heap w (set_nth (w_heap w) old
                     {| ds_stmt := ds_stmt (hget w old); ds_db := ds_db (hget w old); ds_sql := ds_sql (hget w old);
                        ds_closes := ds_closes (hget w old); ds_evicted := true; ds_finalized := ds_finalized (hget w old) |})
                 | None => w
                 end) = with_heap w heap').
  { unfold heap'. destruct (w_cache w s d); [reflexivity|]. destruct w; reflexivity. }
  rewrite Hw1. clear Hw1.
  assert (Hlen : length heap' = length (w_heap w)).
  { unfold heap'. destruct (w_cache w s d); [apply set_nth_length|reflexivity]. }
  assert (Hget : forall ds', nth ds' heap' ds_default =
             if (match w_cache w s d with Some old => Nat.eqb ds' old | None => false end)
             then ds_evict (hget w ds') else hget w ds').
  { intros ds'. unfold heap'. destruct (w_cache w s d) as [old|] eqn:Co; [|reflexivity].
    rewrite nth_set_nth. destruct (inv_cache0 s d old Co) as [A _]. apply Nat.ltb_lt in A. rewrite A, andb_true_r.
    destruct (Nat.eqb_spec ds' old); [subst; reflexivity|reflexivity]. }
  assert (Hsame : forall ds', w_cache w s d <> Some ds' -> nth ds' heap' ds_default = hget w ds').
  { intros ds' H. rewrite Hget. destruct (w_cache w s d) as [old|]; [|reflexivity].
    destruct (Nat.eqb_spec ds' old); [subst; congruence|reflexivity]. }
  assert (Hfields : forall ds', ds_stmt (nth ds' heap' ds_default) = ds_stmt (hget w ds') /\
                                ds_db (nth ds' heap' ds_default) = ds_db (hget w ds') /\
                                ds_sql (nth ds' heap' ds_default) = ds_sql (hget w ds') /\
                                ds_closes (nth ds' heap' ds_default) = ds_closes (hget w ds') /\
                                ds_finalized (nth ds' heap' ds_default) = ds_finalized (hget w ds')).
  { intros ds'. rewrite Hget. destruct (match w_cache w s d with Some old => ds' =? old | None => false end); simpl; auto. }
  unfold set_phase. constructor; unfold active, tget, hget in *; simpl in *; rewrite ?set_nth_length, ?Hlen; auto.
  - (* cache *) intros s' d' ds' H. unfold upd2 in *.
    destruct (Nat.eqb_spec s' s); destruct (Nat.eqb_spec d' d); simpl in H; subst.
    + inversion H; subst ds'. rewrite Hsame by (apply Dnc). repeat split; auto.
    + destruct (inv_cache0 _ _ _ H) as [A [B [C [D0 [E [F G]]]]]].
      rewrite Hsame. { repeat split; auto. }
      intros K. destruct (inv_cache0 _ _ _ K) as [_ [_ [K2 _]]]. unfold hget in *. congruence.
    + destruct (inv_cache0 _ _ _ H) as [A [B [C [D0 [E [F G]]]]]].
      rewrite Hsame. { repeat split; auto. }
      intros K. destruct (inv_cache0 _ _ _ K) as [_ [K2 _]]. unfold hget in *. congruence.
    + destruct (inv_cache0 _ _ _ H) as [A [B [C [D0 [E [F G]]]]]].
      rewrite Hsame. { repeat split; auto. }
      intros K. destruct (inv_cache0 _ _ _ K) as [_ [K2 _]]. unfold hget in *. congruence.
  - (* index *) intros s' d'. unfold upd2.
    destruct (Nat.eqb s' s) eqn:E1, (Nat.eqb d' d) eqn:E2; simpl; try apply inv_index0.
    split; [discriminate|reflexivity].
  - (* closure *) intros t' Ht' C. rewrite nth_set_nth in *. rewrite Hlt in *.
    destruct (Nat.eqb_spec t' t); simpl in *; [subst; auto|apply inv_closure0; assumption].
  - (* thread_ds *) intros t' ds' Ht' D. destruct (Hfields ds') as [F1 [F2 [F3 _]]]. rewrite F1, F2, F3.
    rewrite nth_set_nth in *. rewrite Hlt in *.
    destruct (Nat.eqb_spec t' t); simpl in *.
    + subst. unfold held_ds in D. simpl in D. inversion D; subst. repeat split; auto.
    + apply inv_thread_ds0; assumption.
  - (* active_open *) intros t' ds' Ht' A. destruct (Hfields ds') as [_ [_ [_ [F4 _]]]]. rewrite F4.
    rewrite nth_set_nth in *. rewrite Hlt in *.
    destruct (Nat.eqb_spec t' t); simpl in *.
    + subst. destruct A as [A|[A|A]]; try discriminate. inversion A; subst. exact Dcl.
    + eapply inv_active_open0; eauto.
  - (* prepared *) intros t' ds' Ht' Pp. rewrite nth_set_nth in Pp. rewrite Hlt in Pp.
    destruct (Nat.eqb_spec t' t); simpl in Pp; [discriminate|].
    destruct (inv_prepared0 t' ds' Ht' Pp) as [A [B C]].
    assert (Nd : ds' <> ds).
    { intros E. subst ds'. apply (C t Ht); [congruence|]. exact Hh. }
    split; [rewrite Hsame by (apply B); exact A|]. split.
    + intros s' d'. unfold upd2. destruct (Nat.eqb s' s && Nat.eqb d' d); [congruence|apply B].
    + intros t'' Ht'' Hne. rewrite nth_set_nth, Hlt.
      destruct (Nat.eqb_spec t'' t); simpl.
      * unfold held_ds. simpl. congruence.
      * apply C; assumption.
  - (* heap *) intros ds' D. destruct (Hfields ds') as [F1 [F2 [F3 [F4 F5]]]]. rewrite F1, F2, F4, F5.
    destruct (inv_heap0 ds' D) as [A [B [C E]]].
    rewrite Hget. destruct (w_cache w s d) as [old|] eqn:Co.
    + destruct (Nat.eqb_spec ds' old).
      * subst ds'. simpl. destruct (inv_cache0 s d old Co) as [_ [_ [_ [K1 [K2 _]]]]].
        split; [exact A|]. split; [intros _; rewrite (C K2); exact K1|].
        split; intros; discriminate.
      * split; [exact A|]. split; [exact B|]. split; [exact C|].
        intros F G. unfold upd2. destruct (E F G) as [K|[t' [Ht' Pp]]].
        -- left. destruct (Nat.eqb_spec (ds_stmt (nth ds' (w_heap w) ds_default)) s);
             destruct (Nat.eqb_spec (ds_db (nth ds' (w_heap w) ds_default)) d); simpl; auto.
           exfalso. rewrite e, e0 in K. congruence.
        -- destruct (Nat.eqb_spec t' t).
           ++ subst t'. unfold tget in P. rewrite P in Pp. inversion Pp; subst ds'.
              left. rewrite Dst, Ddb, !Nat.eqb_refl. reflexivity.
           ++ right. exists t'. split; [exact Ht'|]. rewrite nth_set_nth, Hlt.
              destruct (Nat.eqb_spec t' t); [congruence|exact Pp].
    + split; [exact A|]. split; [exact B|]. split; [exact C|].
      intros F G. unfold upd2. destruct (E F G) as [K|[t' [Ht' Pp]]].
      * left. destruct (Nat.eqb_spec (ds_stmt (nth ds' (w_heap w) ds_default)) s);
          destruct (Nat.eqb_spec (ds_db (nth ds' (w_heap w) ds_default)) d); simpl; auto.
        exfalso. rewrite e, e0 in K. congruence.
      * destruct (Nat.eqb_spec t' t).
        -- subst t'. unfold tget in P. rewrite P in Pp. inversion Pp; subst ds'.
           left. rewrite Dst, Ddb, !Nat.eqb_refl. reflexivity.
        -- right. exists t'. split; [exact Ht'|]. rewrite nth_set_nth, Hlt.
           destruct (Nat.eqb_spec t' t); [congruence|exact Pp].
Qed.

(* a new thread joins *)
Lemma inv_add_thread w th :
  Inv w ->
  w_sentry w (th_s th) = true -> w_dentry w (th_d th) = true ->
  (forall ds, held_ds th = Some ds ->
     w_cache w (th_s th) (th_d th) = Some ds /\ ds_sql (hget w ds) = th_q th /\ th_phase th = PHit ds) ->
  (forall ds, th_phase th <> PPrepared ds) ->
  Inv (with_threads w (w_threads w ++ [th])).
Proof.
  intros I Se De Hd Hp. destruct I.
  constructor; unfold active, tget, hget in *; simpl in *; rewrite ?app_length; simpl; auto.
  - intros t' Ht' C. rewrite nth_app_one in *.
    destruct (Nat.ltb_spec t' (length (w_threads w))); [apply inv_closure0; assumption|].
    destruct (Nat.eqb_spec t' (length (w_threads w))); [auto|lia].
  - intros t' ds' Ht' D. rewrite nth_app_one in *.
    destruct (Nat.ltb_spec t' (length (w_threads w))); [apply inv_thread_ds0; assumption|].
    destruct (Nat.eqb_spec t' (length (w_threads w))); [|lia].
    destruct (Hd ds' D) as [A [B _]]. destruct (inv_cache0 _ _ _ A) as [K1 [K2 [K3 _]]]. auto.
  - intros t' ds' Ht' A. rewrite nth_app_one in *.
    destruct (Nat.ltb_spec t' (length (w_threads w))); [eapply inv_active_open0; eauto|].
    destruct (Nat.eqb_spec t' (length (w_threads w))); [|lia].
    assert (D : held_ds th = Some ds') by (unfold held_ds; destruct A as [A|[A|A]]; rewrite A; reflexivity).
    destruct (Hd ds' D) as [C _]. destruct (inv_cache0 _ _ _ C) as [_ [_ [_ [K _]]]]. exact K.
  - intros t' ds' Ht' Pp. rewrite nth_app_one in Pp.
    destruct (Nat.ltb_spec t' (length (w_threads w))) as [L|L].
    + destruct (inv_prepared0 t' ds' L Pp) as [A [B C]]. repeat split; auto.
      intros t'' Ht'' Hne. rewrite nth_app_one.
      destruct (Nat.ltb_spec t'' (length (w_threads w))); [apply C; assumption|].
      destruct (Nat.eqb_spec t'' (length (w_threads w))); [|lia].
      intros D. destruct (Hd ds' D) as [K _]. apply (B _ _ K).
    + destruct (Nat.eqb_spec t' (length (w_threads w))); [|lia]. exfalso. apply (Hp ds'). exact Pp.
  - intros ds' D. destruct (inv_heap0 ds' D) as [A [B [C E]]]. repeat split; auto.
    intros F G. destruct (E F G) as [K|[t' [Ht' Pp]]]; [left; exact K|right].
    exists t'. split; [lia|]. rewrite nth_app_one. apply Nat.ltb_lt in Ht'. rewrite Ht'. exact Pp.
Qed.

Lemma inv_begin w s d q tx ctx : Inv w -> Inv (step w (Begin s d q tx ctx)).
Proof.
  intros I. unfold step. destruct (w_sref w s && w_dref w d) eqn:R; auto.
  apply andb_prop in R. destruct R as [Rs Rd].
  pose proof I as I0. destruct I0.
  pose proof (inv_sref0 s Rs) as Se. pose proof (inv_dref0 d Rd) as De.
  unfold lookup. destruct (w_cache w s d) as [ds|] eqn:C.
  - destruct (Nat.eqb_spec (ds_sql (hget w ds)) q).
    + apply inv_add_thread; simpl; auto; try discriminate.
      intros ds' H. unfold held_ds in H. simpl in H. inversion H; subst. auto.
    + destruct tx.
      * assert (I1 : Inv (with_threads w (w_threads w ++
                     [{| th_s := s; th_d := d; th_q := q; th_tx := true; th_ctx := ctx;
                         th_query_held := true; th_phase := PFinished |}]))).
        { apply inv_add_thread; simpl; auto; try discriminate. }
        destruct (w_cancelled w ctx); [exact I1|]. apply inv_with_log; [discriminate|exact I1].
      * apply inv_add_thread; simpl; auto; try discriminate.
  - destruct tx.
    + assert (I1 : Inv (with_threads w (w_threads w ++
                   [{| th_s := s; th_d := d; th_q := q; th_tx := true; th_ctx := ctx;
                       th_query_held := true; th_phase := PFinished |}]))).
      { apply inv_add_thread; simpl; auto; try discriminate. }
      destruct (w_cancelled w ctx); [exact I1|]. apply inv_with_log; [discriminate|exact I1].
    + apply inv_add_thread; simpl; auto; try discriminate.
Qed.

(* ------------------------------------------------ garbage collection -- *)

Lemma existsb_nth_false {A} (f : A -> bool) (l : list A) d t :
  existsb f l = false -> t < length l -> f (nth t l d) = false.
Proof.
  intros H Ht. destruct (f (nth t l d)) eqn:E; [|reflexivity].
  assert (existsb f l = true); [|congruence].
  apply existsb_exists. exists (nth t l d). split; [apply nth_In; exact Ht|exact E].
Qed.

(* closing and unlinking one cached statement that no active thread holds *)
Lemma inv_release w s d ds :
  Inv w -> w_cache w s d = Some ds ->
  (forall t ds', t < length (w_threads w) -> active w t ds' -> ds' <> ds) ->
  Inv (release w s d ds).
Proof.
  intros I C Hact. pose proof I as I0. destruct I.
  destruct (inv_cache0 s d ds C) as [Dlt [Dst [Ddb [Dcl [Dev [Se De]]]]]].
  assert (Hlt : (ds <? length (w_heap w)) = true) by (apply Nat.ltb_lt; exact Dlt).
  assert (Hget : forall ds', nth ds' (set_nth (w_heap w) ds (ds_closed_once (hget w ds))) ds_default =
                             if Nat.eqb ds' ds then ds_closed_once (hget w ds) else hget w ds').
  { intros ds'. rewrite nth_set_nth, Hlt, andb_true_r. reflexivity. }
  unfold release, close_ds. fold (ds_closed_once (hget w ds)).
  constructor; unfold active, tget, hget in *; simpl in *; rewrite ?set_nth_length; auto.
  - (* cache *) intros s' d' ds' H. unfold upd2 in *.
    destruct (Nat.eqb s' s && Nat.eqb d' d) eqn:E; [discriminate|].
    destruct (inv_cache0 s' d' ds' H) as [A [B [C' [D0 [E0 [F G]]]]]].
    rewrite Hget. destruct (Nat.eqb_spec ds' ds).
    + subst ds'. exfalso. unfold hget in *. rewrite Dst in B. rewrite Ddb in C'. subst.
      rewrite !Nat.eqb_refl in E. discriminate.
    + repeat split; auto.
  - (* index *) intros s' d'. unfold upd2.
    destruct (Nat.eqb s' s) eqn:E1, (Nat.eqb d' d) eqn:E2; simpl; try apply inv_index0.
    split; [discriminate|congruence].
  - (* thread_ds *) intros t' ds' Ht' D. rewrite Hget.
    destruct (inv_thread_ds0 t' ds' Ht' D) as [A [B [C' E]]].
    destruct (Nat.eqb_spec ds' ds); [subst; simpl; auto|auto].
  - (* active_open *) intros t' ds' Ht' A. rewrite Hget.
    destruct (Nat.eqb_spec ds' ds); [exfalso; eapply Hact; eauto|eapply inv_active_open0; eauto].
  - (* prepared *) intros t' ds' Ht' Pp. destruct (inv_prepared0 t' ds' Ht' Pp) as [A [B C']].
    rewrite Hget. split; [destruct (Nat.eqb_spec ds' ds); [subst; simpl; exact A|exact A]|].
    split; [|exact C']. intros s' d'. unfold upd2. destruct (Nat.eqb s' s && Nat.eqb d' d); [discriminate|apply B].
  - (* heap *) intros ds' D. rewrite Hget. destruct (Nat.eqb_spec ds' ds).
    + subst ds'. simpl. unfold hget in *. rewrite Dcl, Dev.
      destruct (inv_heap0 ds Dlt) as [A [B [C' E]]]. split; [lia|]. split; [discriminate|].
      split; [intros _; apply C'; exact Dev|]. intros _ H. discriminate.
    + destruct (inv_heap0 ds' D) as [A [B [C' E]]]. split; [exact A|]. split; [exact B|]. split; [exact C'|].
      intros F G. destruct (E F G) as [K|K]; [left|right; exact K].
      unfold upd2. destruct (Nat.eqb_spec (ds_stmt (nth ds' (w_heap w) ds_default)) s);
        destruct (Nat.eqb_spec (ds_db (nth ds' (w_heap w) ds_default)) d); simpl; auto.
      exfalso. rewrite e, e0 in K. congruence.
  - (* no panic *) intros k H. apply in_app_or in H. destruct H as [H|[H|[]]]; [|discriminate].
    eapply inv_no_panic0; eauto.
Qed.

Lemma release_frame w s d ds :
  w_threads (release w s d ds) = w_threads w /\ w_sref (release w s d ds) = w_sref w /\
  w_dref (release w s d ds) = w_dref w /\ w_sentry (release w s d ds) = w_sentry w /\
  w_dentry (release w s d ds) = w_dentry w /\ w_ns (release w s d ds) = w_ns w /\
  w_nd (release w s d ds) = w_nd w.
Proof. repeat split. Qed.

Lemma active_release w s d ds t ds' : active (release w s d ds) t ds' <-> active w t ds'.
Proof. reflexivity. Qed.

(* no active thread works for Statement s / on DB d *)
Definition stmt_idle (w : world) (s : nat) : Prop :=
  forall t, t < length (w_threads w) -> holds_stmt s (tget w t) = false.
Definition db_idle (w : world) (d : nat) : Prop :=
  forall t, t < length (w_threads w) -> holds_db d (tget w t) = false.

Lemma active_holds w t ds : active w t ds -> holds_closure (tget w t) = true /\ held_ds (tget w t) = Some ds.
Proof.
  unfold active, holds_closure, held_ds. intros [A|[A|A]]; rewrite A; auto.
Qed.

Lemma gc_stmt_loop_inv s : forall dbs w,
  Inv w -> stmt_idle w s ->
  Inv (gc_stmt_loop w s dbs) /\ stmt_idle (gc_stmt_loop w s dbs) s /\
  w_sref (gc_stmt_loop w s dbs) = w_sref w /\ w_sentry (gc_stmt_loop w s dbs) = w_sentry w /\
  w_threads (gc_stmt_loop w s dbs) = w_threads w /\ w_nd (gc_stmt_loop w s dbs) = w_nd w /\
  (forall d, (In d dbs \/ w_cache w s d = None) -> w_cache (gc_stmt_loop w s dbs) s d = None).
Proof.
  induction dbs as [|d rest IH]; intros w I Idle; simpl.
  - split; [exact I|]. split; [exact Idle|]. repeat (split; [reflexivity|]). intros d0 [[]|Hx]; exact Hx.
  - destruct (w_cache w s d) as [ds|] eqn:C.
    + assert (I1 : Inv (release w s d ds)).
      { apply inv_release; auto. intros t ds' Ht A E. subst ds'.
        destruct (active_holds _ _ _ A) as [Hc Hd].
        pose proof I as I0. destruct I0.
        destruct (inv_thread_ds0 t ds Ht Hd) as [_ [St _]].
        destruct (inv_cache0 s d ds C) as [_ [St' _]].
        specialize (Idle t Ht). unfold holds_stmt in Idle. rewrite Hc in Idle. simpl in Idle.
        apply Nat.eqb_neq in Idle. congruence. }
      destruct (IH (release w s d ds) I1 Idle) as [A [B [C1 [C2 [C3 [C4 C5]]]]]].
      split; [exact A|]. split; [exact B|]. split; [exact C1|]. split; [exact C2|].
      split; [exact C3|]. split; [exact C4|].
      intros d' [[E|H]|H].
      * subst d'. apply C5. right. unfold release. simpl. unfold upd2. rewrite !Nat.eqb_refl. reflexivity.
      * apply C5. left. exact H.
      * apply C5. right. unfold release. simpl. unfold upd2.
        destruct (Nat.eqb s s && Nat.eqb d' d); [reflexivity|exact H].
    + destruct (IH w I Idle) as [A [B [C1 [C2 [C3 [C4 C5]]]]]].
      split; [exact A|]. split; [exact B|]. split; [exact C1|]. split; [exact C2|].
      split; [exact C3|]. split; [exact C4|].
      intros d' [[E|H]|H]; [subst; apply C5; right; exact C|apply C5; left; exact H|apply C5; right; exact H].
Qed.

Lemma inv_gc_stmt w s : Inv w -> Inv (step w (GCStmt s)).
Proof.
  intros I. unfold step.
  destruct (w_sentry w s && negb (w_sref w s) && negb (existsb (holds_stmt s) (w_threads w))) eqn:G; auto.
  apply andb_prop in G. destruct G as [G G3]. apply andb_prop in G. destruct G as [G1 G2].
  apply negb_true_iff in G2, G3.
  assert (Idle : stmt_idle w s).
  { intros t Ht. unfold tget. apply existsb_nth_false; assumption. }
  destruct (gc_stmt_loop_inv s (seq 0 (w_nd w)) w I Idle) as [I1 [Idle1 [R1 [S1 [T1 [N1 C1]]]]]].
  set (w1 := gc_stmt_loop w s (seq 0 (w_nd w))) in *.
  assert (Cnone : forall d, w_cache w1 s d = None).
  { intros d. destruct (w_cache w1 s d) as [ds|] eqn:E; [|reflexivity].
    pose proof I1 as I1'. destruct I1'. destruct (inv_cache0 s d ds E) as [_ [_ [_ [_ [_ [_ De]]]]]].
    apply inv_dbound0 in De. rewrite N1 in De.
    rewrite C1 in E; [discriminate|]. left. apply in_seq. lia. }
  pose proof I1 as I1'. destruct I1'.
  constructor; unfold active, tget, hget in *; simpl in *; auto.
  - intros s' d' ds' H. destruct (Nat.eqb_spec s' s); [discriminate|].
    destruct (inv_cache0 s' d' ds' H) as [A [B [C [D0 [E [F G]]]]]]. repeat split; auto.
    unfold upd. destruct (Nat.eqb_spec s' s); [congruence|exact F].
  - intros s' d'. destruct (Nat.eqb_spec s' s).
    + subst s'. rewrite inv_index0. rewrite Cnone. tauto.
    + apply inv_index0.
  - intros s' H. unfold upd in H. destruct (Nat.eqb s' s); [discriminate|auto].
  - intros s' H. unfold upd. destruct (Nat.eqb_spec s' s); [|auto].
    subst. rewrite R1 in H. congruence.
  - intros t Ht Hc. destruct (inv_closure0 t Ht Hc) as [A B]. split; [|exact B].
    unfold upd. destruct (Nat.eqb_spec (th_s (nth t (w_threads w1) th_default)) s); [|exact A].
    exfalso. specialize (Idle1 t Ht). unfold holds_stmt, tget in Idle1. rewrite Hc, e, Nat.eqb_refl in Idle1.
    discriminate.
  - intros t ds' Ht Pp. destruct (inv_prepared0 t ds' Ht Pp) as [A [B C]]. repeat split; auto.
    intros s' d'. destruct (Nat.eqb s' s); [discriminate|apply B].
  - intros ds' D. destruct (inv_heap0 ds' D) as [A [B [C E]]]. repeat split; auto.
    intros F G. destruct (E F G) as [K|K]; [left|right; exact K].
    destruct (Nat.eqb_spec (ds_stmt (nth ds' (w_heap w1) ds_default)) s); [|exact K].
    rewrite e in K. rewrite Cnone in K. discriminate.
Qed.

Lemma gc_db_loop_inv d : forall stmts w,
  Inv w -> db_idle w d ->
  Inv (gc_db_loop w d stmts) /\ db_idle (gc_db_loop w d stmts) d /\
  w_dref (gc_db_loop w d stmts) = w_dref w /\ w_dentry (gc_db_loop w d stmts) = w_dentry w /\
  w_threads (gc_db_loop w d stmts) = w_threads w /\ w_ns (gc_db_loop w d stmts) = w_ns w /\
  (forall s, (In s stmts \/ w_cache w s d = None) -> w_cache (gc_db_loop w d stmts) s d = None).
Proof.
  induction stmts as [|s rest IH]; intros w I Idle; simpl.
  - split; [exact I|]. split; [exact Idle|]. repeat (split; [reflexivity|]). intros s0 [[]|Hx]; exact Hx.
  - destruct (w_index w d s) eqn:Ix.
    + destruct (w_cache w s d) as [ds|] eqn:C.
      * assert (I1 : Inv (release w s d ds)).
        { apply inv_release; auto. intros t ds' Ht A E. subst ds'.
          destruct (active_holds _ _ _ A) as [Hc Hd].
          pose proof I as I0. destruct I0.
          destruct (inv_thread_ds0 t ds Ht Hd) as [_ [_ [Db _]]].
          destruct (inv_cache0 s d ds C) as [_ [_ [Db' _]]].
          specialize (Idle t Ht). unfold holds_db in Idle. rewrite Hc in Idle. simpl in Idle.
          apply Nat.eqb_neq in Idle. congruence. }
        destruct (IH (release w s d ds) I1 Idle) as [A [B [C1 [C2 [C3 [C4 C5]]]]]].
        split; [exact A|]. split; [exact B|]. split; [exact C1|]. split; [exact C2|].
        split; [exact C3|]. split; [exact C4|].
        intros s' [[E|H]|H].
        -- subst s'. apply C5. right. unfold release. simpl. unfold upd2. rewrite !Nat.eqb_refl. reflexivity.
        -- apply C5. left. exact H.
        -- apply C5. right. unfold release. simpl. unfold upd2.
           destruct (Nat.eqb s' s && Nat.eqb d d); [reflexivity|exact H].
      * exfalso. destruct I. apply inv_index0 in Ix. congruence.
    + assert (C : w_cache w s d = None).
      { destruct (w_cache w s d) eqn:C; [|reflexivity]. exfalso. destruct I.
        assert (w_index w d s = true) by (apply inv_index0; congruence). congruence. }
      destruct (IH w I Idle) as [A [B [C1 [C2 [C3 [C4 C5]]]]]].
      split; [exact A|]. split; [exact B|]. split; [exact C1|]. split; [exact C2|].
      split; [exact C3|]. split; [exact C4|].
      intros s' [[E|H]|H]; [subst; apply C5; right; exact C|apply C5; left; exact H|apply C5; right; exact H].
Qed.

Lemma inv_gc_db w d : Inv w -> Inv (step w (GCDB d)).
Proof.
  intros I. unfold step.
  destruct (w_dentry w d && negb (w_dref w d) && negb (existsb (holds_db d) (w_threads w))) eqn:G; auto.
  apply andb_prop in G. destruct G as [G G3]. apply andb_prop in G. destruct G as [G1 G2].
  apply negb_true_iff in G2, G3.
  assert (Idle : db_idle w d).
  { intros t Ht. unfold tget. apply existsb_nth_false; assumption. }
  destruct (gc_db_loop_inv d (seq 0 (w_ns w)) w I Idle) as [I1 [Idle1 [R1 [S1 [T1 [N1 C1]]]]]].
  set (w1 := gc_db_loop w d (seq 0 (w_ns w))) in *.
  assert (Cnone : forall s, w_cache w1 s d = None).
  { intros s. destruct (w_cache w1 s d) as [ds|] eqn:E; [|reflexivity].
    pose proof I1 as I1'. destruct I1'. destruct (inv_cache0 s d ds E) as [_ [_ [_ [_ [_ [Se _]]]]]].
    apply inv_sbound0 in Se. rewrite N1 in Se.
    rewrite C1 in E; [discriminate|]. left. apply in_seq. lia. }
  pose proof I1 as I1'. destruct I1'.
  constructor; unfold active, tget, hget in *; simpl in *; auto.
  - intros s' d' ds' H.
    destruct (inv_cache0 s' d' ds' H) as [A [B [C [D0 [E [F G]]]]]]. repeat split; auto.
    unfold upd. destruct (Nat.eqb_spec d' d); [|exact G]. subst d'. pose proof (Cnone s') as K. unfold w1 in *. congruence.
  - intros s' d'. destruct (Nat.eqb_spec d' d).
    + subst d'. rewrite Cnone. split; [discriminate|congruence].
    + apply inv_index0.
  - intros d' H. unfold upd in H. destruct (Nat.eqb d' d); [discriminate|auto].
  - intros d' H. unfold upd. destruct (Nat.eqb_spec d' d); [|auto].
    subst. rewrite R1 in H. congruence.
  - intros t Ht Hc. destruct (inv_closure0 t Ht Hc) as [A B]. split; [exact A|].
    unfold upd. destruct (Nat.eqb_spec (th_d (nth t (w_threads w1) th_default)) d); [|exact B].
    exfalso. specialize (Idle1 t Ht). unfold holds_db, tget in Idle1. rewrite Hc, e, Nat.eqb_refl in Idle1.
    discriminate.
Qed.

Definition ds_finalize (x : dstmt) : dstmt :=
  {| ds_stmt := ds_stmt x; ds_db := ds_db x; ds_sql := ds_sql x; ds_closes := ds_closes x;
     ds_evicted := ds_evicted x; ds_finalized := true |}.

Lemma set_nth_twice {A} (l : list A) n a b : set_nth (set_nth l n a) n b = set_nth l n b.
Proof. revert n. induction l as [|x l IH]; intros [|n]; simpl; auto. rewrite IH. reflexivity. Qed.

Lemma inv_gc_ds w ds : Inv w -> Inv (step w (GCDs ds)).
Proof.
  intros I. unfold step.
  destruct ((ds <? length (w_heap w)) && ds_evicted (hget w ds) && negb (ds_finalized (hget w ds)) &&
            negb (existsb (holds_ds ds) (w_threads w))) eqn:G; auto.
  apply andb_prop in G. destruct G as [G G4]. apply andb_prop in G. destruct G as [G G3].
  apply andb_prop in G. destruct G as [G1 G2]. apply negb_true_iff in G3, G4.
  assert (Hlt := G1). apply Nat.ltb_lt in G1.
  assert (Free : forall t, t < length (w_threads w) -> held_ds (tget w t) <> Some ds).
  { intros t Ht H. pose proof (existsb_nth_false _ _ th_default t G4 Ht) as F.
    unfold holds_ds, tget in *. rewrite H, Nat.eqb_refl in F. discriminate. }
  set (y := ds_finalize (ds_closed_once (hget w ds))).
  assert (Hw : with_heap (close_ds w ds)
                 (set_nth (w_heap (close_ds w ds)) ds
                    {| ds_stmt := ds_stmt (hget (close_ds w ds) ds); ds_db := ds_db (hget (close_ds w ds) ds);
                       ds_sql := ds_sql (hget (close_ds w ds) ds); ds_closes := ds_closes (hget (close_ds w ds) ds);
                       ds_evicted := ds_evicted (hget (close_ds w ds) ds); ds_finalized := true |}) =
               with_log (with_heap w (set_nth (w_heap w) ds y)) (EvClose ds)).
  { rewrite hget_close_ds, Nat.eqb_refl, Hlt. cbn [andb]. unfold close_ds, with_heap, with_log. simpl.
    rewrite set_nth_twice. reflexivity. }
  rewrite Hw. clear Hw.
  apply inv_with_log; [discriminate|].
  pose proof I as I0. destruct I.
  destruct (inv_heap0 ds G1) as [A0 [B0 [C0 E0]]]. rewrite G3 in B0. specialize (B0 G2).
  assert (Hget : forall ds', nth ds' (set_nth (w_heap w) ds y) ds_default =
                             if Nat.eqb ds' ds then y else hget w ds').
  { intros ds'. rewrite nth_set_nth, Hlt, andb_true_r. reflexivity. }
  constructor; unfold active, tget, hget in *; simpl in *; rewrite ?set_nth_length; auto.
  - intros s d ds' H. destruct (inv_cache0 s d ds' H) as [A [B [C [D0 [E [F G]]]]]].
    rewrite Hget. destruct (Nat.eqb_spec ds' ds); [subst; congruence|]. repeat split; auto.
  - intros t ds' Ht H. destruct (inv_thread_ds0 t ds' Ht H) as [A [B [C D0]]].
    rewrite Hget. destruct (Nat.eqb_spec ds' ds); [subst; simpl; auto|auto].
  - intros t ds' Ht H. rewrite Hget. destruct (Nat.eqb_spec ds' ds).
    + subst. exfalso. apply (Free t Ht). apply (active_holds w t ds). exact H.
    + eapply inv_active_open0; eauto.
  - intros t ds' Ht H. destruct (inv_prepared0 t ds' Ht H) as [A [B C]].
    rewrite Hget. destruct (Nat.eqb_spec ds' ds).
    + subst. exfalso. apply (Free t Ht). unfold held_ds, tget. rewrite H. reflexivity.
    + repeat split; auto.
  - intros ds' H. rewrite Hget. destruct (Nat.eqb_spec ds' ds).
    + subst. simpl. rewrite B0, G2. repeat split; auto; try discriminate.
    + destruct (inv_heap0 ds' H) as [A [B [C E]]]. repeat split; auto.
Qed.

(* ------------------------------------------------------ every history -- *)

Theorem inv_step w o : Inv w -> Inv (step w o).
Proof.
  destruct o.
  - apply inv_new_stmt.
  - apply inv_new_db.
  - apply inv_begin.
  - apply inv_prepare.
  - apply inv_store.
  - apply inv_exec.
  - apply inv_drop_query.
  - apply inv_finish.
  - apply inv_drop_stmt.
  - apply inv_drop_db.
  - apply inv_cancel.
  - apply inv_gc_stmt.
  - apply inv_gc_db.
  - apply inv_gc_ds.
Qed.

Theorem inv_run ops : forall w, Inv w -> Inv (run w ops).
Proof.
  induction ops as [|o ops IH]; intros w I; simpl; [exact I|]. apply IH. apply inv_step. exact I.
Qed.

Theorem inv_reachable ops : Inv (run w0 ops).
Proof. apply inv_run. apply inv_w0. Qed.

(* ------------------------------------ what never changes (stability) -- *)

Definition th_id (th : thread) := (th_s th, th_d th, th_q th, th_tx th, th_ctx th).
Definition ds_id (x : dstmt) := (ds_stmt x, ds_db x, ds_sql x).

Definition stable (w w' : world) : Prop :=
  length (w_threads w) <= length (w_threads w') /\
  length (w_heap w) <= length (w_heap w') /\
  (forall t, t < length (w_threads w) -> th_id (tget w' t) = th_id (tget w t)) /\
  (forall ds, ds < length (w_heap w) -> ds_id (hget w' ds) = ds_id (hget w ds)) /\
  (forall c, w_cancelled w c = true -> w_cancelled w' c = true).

Lemma stable_refl w : stable w w.
Proof. unfold stable. repeat split; auto. Qed.

Lemma stable_trans a b c : stable a b -> stable b c -> stable a c.
Proof.
  intros [A1 [A2 [A3 [A4 A5]]]] [B1 [B2 [B3 [B4 B5]]]]. unfold stable. repeat split; try lia; auto.
  - intros t H. rewrite B3 by lia. apply A3. exact H.
  - intros ds H. rewrite B4 by lia. apply A4. exact H.
Qed.

Lemma stable_set_phase w t p : stable w (set_phase w t p).
Proof.
  unfold stable. rewrite threads_set_phase. repeat split; auto.
  intros t' H. rewrite tget_set_phase. destruct (Nat.eqb_spec t' t); simpl; [|reflexivity].
  subst. destruct (t <? length (w_threads w)); reflexivity.
Qed.

Lemma stable_close_ds w ds : stable w (close_ds w ds).
Proof.
  unfold stable. rewrite heap_close_ds. repeat split; auto.
  intros ds' H. rewrite hget_close_ds. destruct (Nat.eqb ds' ds && (ds <? length (w_heap w))) eqn:E; [|reflexivity].
  apply andb_prop in E. destruct E as [E _]. apply Nat.eqb_eq in E. subst. reflexivity.
Qed.

Lemma stable_heap_update w ds y :
  ds_id y = ds_id (hget w ds) -> stable w (with_heap w (set_nth (w_heap w) ds y)).
Proof.
  intros E. unfold stable. simpl. rewrite set_nth_length. repeat split; auto.
  intros ds' H. unfold hget at 1. simpl. rewrite nth_set_nth.
  destruct (Nat.eqb ds' ds && (ds <? length (w_heap w))) eqn:K; [|reflexivity].
  apply andb_prop in K. destruct K as [K _]. apply Nat.eqb_eq in K. subst. exact E.
Qed.

Lemma stable_with_log w e : stable w (with_log w e).
Proof. unfold stable. simpl. repeat split; auto. Qed.

Lemma stable_with_maps w a b c d : stable w (with_maps w a b c d).
Proof. unfold stable. simpl. repeat split; auto. Qed.

Lemma stable_release w s d ds : stable w (release w s d ds).
Proof. unfold release. eapply stable_trans; [apply (stable_close_ds w ds)|apply stable_with_maps]. Qed.

Lemma stable_gc_stmt_loop s : forall dbs w, stable w (gc_stmt_loop w s dbs).
Proof.
  induction dbs as [|d rest IH]; intros w; simpl; [apply stable_refl|].
  destruct (w_cache w s d); [|apply IH]. eapply stable_trans; [apply stable_release|apply IH].
Qed.

Lemma stable_gc_db_loop d : forall stmts w, stable w (gc_db_loop w d stmts).
Proof.
  induction stmts as [|s rest IH]; intros w; simpl; [apply stable_refl|].
  destruct (w_index w d s); [|apply IH]. destruct (w_cache w s d).
  - eapply stable_trans; [apply stable_release|apply IH].
  - eapply stable_trans; [|apply IH]. apply stable_with_log.
Qed.

Lemma stable_step w o : stable w (step w o).
Proof.
  destruct o as [ | | s d q tx ctx | t ok | t | t | t | t | s | d | ctx | s | d | ds]; simpl.
  - unfold stable; simpl; repeat split; auto.
  - unfold stable; simpl; repeat split; auto.
  - (* Begin *) destruct (w_sref w s && w_dref w d); [|apply stable_refl].
    assert (K : forall th, stable w (with_threads w (w_threads w ++ [th]))).
    { intros th. unfold stable. simpl. rewrite app_length. simpl. repeat split; auto; try lia.
      intros t H. unfold tget. simpl. rewrite nth_app_one. apply Nat.ltb_lt in H. rewrite H. reflexivity. }
    destruct (lookup w s d q); [apply K|]. destruct tx; [|apply K].
    destruct (w_cancelled w ctx); [apply K|]. eapply stable_trans; [apply K|apply stable_with_log].
  - (* Prepare *) destruct (th_phase (tget w t)); try apply stable_refl.
    destruct (ok && negb (w_cancelled w (th_ctx (tget w t)))); [|apply stable_set_phase].
    eapply stable_trans; [|apply stable_set_phase]. eapply stable_trans; [|apply stable_with_log].
    unfold stable. simpl. rewrite app_length. simpl. repeat split; auto; try lia.
    intros ds H. unfold hget. simpl. rewrite nth_app_one. apply Nat.ltb_lt in H. rewrite H. reflexivity.
  - (* Store *) destruct (th_phase (tget w t)); try apply stable_refl.
    destruct (w_sentry w (th_s (tget w t)) && w_dentry w (th_d (tget w t))).
    + eapply stable_trans; [|apply stable_set_phase]. eapply stable_trans; [|apply stable_with_maps].
      destruct (w_cache w (th_s (tget w t)) (th_d (tget w t))) as [old|]; [|apply stable_refl].
      apply stable_heap_update. reflexivity.
    + eapply stable_trans; [|apply stable_set_phase]. apply stable_with_log.
  - (* Exec *) destruct (th_phase (tget w t)); try apply stable_refl;
      (destruct (w_cancelled w (th_ctx (tget w t))); [apply stable_set_phase|];
       eapply stable_trans; [|apply stable_set_phase]; apply stable_with_log).
  - (* DropQuery *) destruct (th_phase (tget w t)); try apply stable_refl.
    unfold stable. simpl. rewrite set_nth_length. repeat split; auto.
    intros t' H. unfold tget. simpl. rewrite nth_set_nth.
    destruct (Nat.eqb t' t && (t <? length (w_threads w))) eqn:E; [|reflexivity].
    apply andb_prop in E. destruct E as [E _]. apply Nat.eqb_eq in E. subst. reflexivity.
  - (* Finish *) destruct (th_phase (tget w t)); try apply stable_refl. apply stable_set_phase.
  - unfold stable; simpl; repeat split; auto.
  - unfold stable; simpl; repeat split; auto.
  - (* Cancel *) unfold stable. simpl. repeat split; auto. intros c H. unfold upd. destruct (Nat.eqb c ctx); auto.
  - (* GCStmt *) destruct (w_sentry w s && negb (w_sref w s) && negb (existsb (holds_stmt s) (w_threads w)));
      [|apply stable_refl]. eapply stable_trans; [apply stable_gc_stmt_loop|apply stable_with_maps].
  - (* GCDB *) destruct (w_dentry w d && negb (w_dref w d) && negb (existsb (holds_db d) (w_threads w)));
      [|apply stable_refl]. eapply stable_trans; [apply stable_gc_db_loop|apply stable_with_maps].
  - (* GCDs *)
    destruct ((ds <? length (w_heap w)) && ds_evicted (hget w ds) && negb (ds_finalized (hget w ds)) &&
              negb (existsb (holds_ds ds) (w_threads w))); [|apply stable_refl].
    eapply stable_trans; [apply stable_close_ds|]. apply stable_heap_update. reflexivity.
Qed.

Lemma stable_run ops : forall w, stable w (run w ops).
Proof.
  induction ops as [|o ops IH]; intros w; simpl; [apply stable_refl|].
  eapply stable_trans; [apply stable_step|apply IH].
Qed.

(* ------------------------------------------------------------ events -- *)

(* what the log says about an event, in terms of the (immutable) identity of
   the thread that caused it and of the driver statement it used *)
Definition ev_ok (w : world) (e : event) : Prop :=
  match e with
  | EvExec t ds ctx tx closed =>
      t < length (w_threads w) /\ ds < length (w_heap w) /\
      ds_id (hget w ds) = (th_s (tget w t), th_d (tget w t), th_q (tget w t)) /\
      closed = false /\ ctx = th_ctx (tget w t) /\ tx = th_tx (tget w t)
  | EvPrepare t d q ctx ds =>
      t < length (w_threads w) /\ ds < length (w_heap w) /\
      ds_id (hget w ds) = (th_s (tget w t), d, q) /\
      d = th_d (tget w t) /\ q = th_q (tget w t) /\ ctx = th_ctx (tget w t)
  | EvTxDirect t d q ctx =>
      t < length (w_threads w) /\ d = th_d (tget w t) /\ q = th_q (tget w t) /\
      ctx = th_ctx (tget w t) /\ th_tx (tget w t) = true
  | EvClose ds => True
  | EvPanic _ => False
  end.

Lemma ev_ok_stable w w' e : stable w w' -> ev_ok w e -> ev_ok w' e.
Proof.
  intros [A1 [A2 [A3 [A4 A5]]]] H. destruct e; simpl in *.
  - destruct H as [H1 [H2 [H3 [H4 [H5 H6]]]]].
    pose proof (A3 t H1) as T. unfold th_id in T. inversion T as [[T1 T2 T3 T4 T5]].
    pose proof (A4 ds H2) as D. rewrite D, T1, T2, T3, T5. repeat split; auto; lia.
  - destruct H as [H1 [H2 [H3 [H4 [H5 H6]]]]].
    pose proof (A3 t H1) as T. unfold th_id in T. inversion T as [[T1 T2 T3 T4 T5]].
    pose proof (A4 ds H2) as D. rewrite D, T1, T2, T3, T4, T5. repeat split; auto; lia.
  - destruct H as [H1 [H2 [H3 [H4 H5]]]].
    pose proof (A3 t H1) as T. unfold th_id in T. inversion T as [[T1 T2 T3 T4 T5]].
    rewrite T2, T3, T4, T5. repeat split; auto; lia.
  - exact I.
  - exact H.
Qed.

Definition LogOk (w : world) : Prop := forall e, In e (w_log w) -> ev_ok w e.

Lemma logok_app w w' evs :
  stable w w' -> LogOk w -> w_log w' = w_log w ++ evs -> (forall e, In e evs -> ev_ok w' e) -> LogOk w'.
Proof.
  intros S L E H e In'. rewrite E in In'. apply in_app_or in In'. destruct In' as [K|K].
  - eapply ev_ok_stable; [exact S|]. apply L. exact K.
  - apply H. exact K.
Qed.

Lemma logok_same w w' : stable w w' -> LogOk w -> w_log w' = w_log w -> LogOk w'.
Proof.
  intros S L E. eapply logok_app; [exact S|exact L|rewrite app_nil_r; exact E|]. intros e [].
Qed.

Definition close_or_panic (e : event) : Prop :=
  match e with EvClose _ | EvPanic _ => True | _ => False end.

Lemma release_log w s d ds : w_log (release w s d ds) = w_log w ++ [EvClose ds].
Proof. reflexivity. Qed.

Lemma gc_stmt_loop_log s : forall dbs w,
  exists evs, w_log (gc_stmt_loop w s dbs) = w_log w ++ evs /\ Forall close_or_panic evs.
Proof.
  induction dbs as [|d rest IH]; intros w; simpl.
  - exists []. rewrite app_nil_r. split; [reflexivity|constructor].
  - destruct (w_cache w s d) as [ds|]; [|apply IH].
    destruct (IH (release w s d ds)) as [evs [E F]]. exists (EvClose ds :: evs).
    rewrite E, release_log, <- app_assoc. split; [reflexivity|]. constructor; [exact I|exact F].
Qed.

Lemma gc_db_loop_log d : forall stmts w,
  exists evs, w_log (gc_db_loop w d stmts) = w_log w ++ evs /\ Forall close_or_panic evs.
Proof.
  induction stmts as [|s rest IH]; intros w; simpl.
  - exists []. rewrite app_nil_r. split; [reflexivity|constructor].
  - destruct (w_index w d s); [|apply IH]. destruct (w_cache w s d) as [ds|].
    + destruct (IH (release w s d ds)) as [evs [E F]]. exists (EvClose ds :: evs).
      rewrite E, release_log, <- app_assoc. split; [reflexivity|]. constructor; [exact I|exact F].
    + destruct (IH (with_log w (EvPanic 2))) as [evs [E F]]. exists (EvPanic 2 :: evs).
      rewrite E. simpl. rewrite <- app_assoc. split; [reflexivity|]. constructor; [exact I|exact F].
Qed.

(* events that are closes or panics are fine in a world that satisfies Inv *)
Lemma close_or_panic_ok w' evs :
  Inv w' -> (forall e, In e evs -> In e (w_log w')) -> Forall close_or_panic evs ->
  forall e, In e evs -> ev_ok w' e.
Proof.
  intros I Sub F e H. rewrite Forall_forall in F. specialize (F e H).
  destruct e; simpl in *; try tauto. destruct I. eapply inv_no_panic0. apply Sub. exact H.
Qed.

Lemma logok_step w o : Inv w -> LogOk w -> LogOk (step w o).
Proof.
  intros I L. pose proof (stable_step w o) as S. pose proof (inv_step w o I) as I'.
  destruct o as [ | | s d q tx ctx | t ok | t | t | t | t | s | d | ctx | s | d | ds].
  - apply (logok_same w); auto.
  - apply (logok_same w); auto.
  - (* Begin *) simpl in *. destruct (w_sref w s && w_dref w d); [|exact L].
    destruct (lookup w s d q); [apply (logok_same w); auto|].
    destruct tx; [|apply (logok_same w); auto].
    destruct (w_cancelled w ctx); [apply (logok_same w); auto|].
    eapply logok_app; [exact S|exact L|reflexivity|]. intros e [E|[]]. subst e. simpl.
    unfold tget. simpl. rewrite app_length, nth_app_one, Nat.ltb_irrefl, Nat.eqb_refl. simpl.
    repeat split; auto. lia.
  - (* Prepare *) simpl in *. destruct (th_phase (tget w t)) eqn:P; try exact L.
    destruct (ok && negb (w_cancelled w (th_ctx (tget w t)))); [|apply (logok_same w); auto].
    pose proof (phase_bound w t ltac:(rewrite P; discriminate)) as Ht.
    eapply logok_app; [exact S|exact L|unfold set_phase; simpl; reflexivity|]. intros e [E|[]]. subst e.
    unfold ev_ok, set_phase, hget, tget. simpl.
    rewrite set_nth_length, app_length, nth_app_one, Nat.ltb_irrefl, Nat.eqb_refl.
    rewrite nth_set_nth, Nat.eqb_refl. pose proof Ht as Ht'. apply Nat.ltb_lt in Ht'. rewrite Ht'. simpl.
    repeat split; auto. lia.
  - (* Store *) simpl in *. destruct (th_phase (tget w t)) eqn:P; try exact L.
    destruct (w_sentry w (th_s (tget w t)) && w_dentry w (th_d (tget w t))) eqn:G.
    + apply (logok_same w); auto. unfold set_phase. simpl.
      destruct (w_cache w (th_s (tget w t)) (th_d (tget w t))); reflexivity.
    + exfalso. pose proof (phase_bound w t ltac:(rewrite P; discriminate)) as Ht.
      destruct I. destruct (inv_closure0 t Ht) as [A B]; [unfold holds_closure; rewrite P; reflexivity|].
      rewrite A, B in G. discriminate.
  - (* Exec *) simpl in *.
    destruct (th_phase (tget w t)) eqn:P; try exact L;
    (destruct (w_cancelled w (th_ctx (tget w t))) eqn:Cn; [apply (logok_same w); auto|];
     pose proof (phase_bound w t ltac:(rewrite P; discriminate)) as Ht;
     eapply logok_app; [exact S|exact L|unfold set_phase; simpl; reflexivity|]; intros e [E|[]]; subst e;
     unfold ev_ok, set_phase, hget, tget; simpl; rewrite set_nth_length;
     rewrite nth_set_nth, Nat.eqb_refl; pose proof Ht as Ht'; apply Nat.ltb_lt in Ht'; rewrite Ht'; simpl;
     destruct I;
     destruct (inv_thread_ds0 t ds Ht) as [A [B [C D]]]; [unfold held_ds; rewrite P; reflexivity|];
     assert (Cl : ds_closes (hget w ds) = 0) by (eapply inv_active_open0; [exact Ht|unfold active; rewrite P; auto]);
     unfold hget, tget in *; rewrite Cl; unfold ds_id; rewrite B, C, D; repeat split; auto).
  - (* DropQuery *) apply (logok_same w); auto. simpl. destruct (th_phase (tget w t)); reflexivity.
  - (* Finish *) apply (logok_same w); auto. simpl. destruct (th_phase (tget w t)); reflexivity.
  - apply (logok_same w); auto.
  - apply (logok_same w); auto.
  - apply (logok_same w); auto.
  - (* GCStmt *) simpl in *.
    destruct (w_sentry w s && negb (w_sref w s) && negb (existsb (holds_stmt s) (w_threads w))); [|exact L].
    destruct (gc_stmt_loop_log s (seq 0 (w_nd w)) w) as [evs [E F]].
    eapply logok_app; [exact S|exact L|simpl; exact E|].
    apply close_or_panic_ok; [exact I'| |exact F]. intros e H. simpl. rewrite E. apply in_or_app. right. exact H.
  - (* GCDB *) simpl in *.
    destruct (w_dentry w d && negb (w_dref w d) && negb (existsb (holds_db d) (w_threads w))); [|exact L].
    destruct (gc_db_loop_log d (seq 0 (w_ns w)) w) as [evs [E F]].
    eapply logok_app; [exact S|exact L|simpl; exact E|].
    apply close_or_panic_ok; [exact I'| |exact F]. intros e H. simpl. rewrite E. apply in_or_app. right. exact H.
  - (* GCDs *) simpl in *.
    destruct ((ds <? length (w_heap w)) && ds_evicted (hget w ds) && negb (ds_finalized (hget w ds)) &&
              negb (existsb (holds_ds ds) (w_threads w))); [|exact L].
    eapply logok_app; [exact S|exact L|simpl; reflexivity|]. intros e [E|[]]. subst e. exact Logic.I.
Qed.

Theorem logok_run ops : forall w, Inv w -> LogOk w -> LogOk (run w ops).
Proof.
  induction ops as [|o ops IH]; intros w I L; simpl; [exact L|].
  apply IH; [apply inv_step; exact I|apply logok_step; assumption].
Qed.

Theorem logok_reachable ops : LogOk (run w0 ops).
Proof. apply logok_run; [apply inv_w0|]. intros e []. Qed.

(* ------------------------------------------------ property theorems -- *)

(* C09 + C10 + C20 in one statement about every execution event of every
   history: it went through a driver statement prepared for exactly this
   call's Statement, DB and SQL, that statement was not closed, and the driver
   saw the caller's context. *)
Theorem exec_coherent ops t ds ctx tx closed :
  In (EvExec t ds ctx tx closed) (w_log (run w0 ops)) ->
  let w := run w0 ops in
  ds_stmt (hget w ds) = th_s (tget w t) /\ ds_db (hget w ds) = th_d (tget w t) /\
  ds_sql (hget w ds) = th_q (tget w t) /\ closed = false /\ ctx = th_ctx (tget w t) /\ tx = th_tx (tget w t).
Proof.
  intros H w. pose proof (logok_reachable ops _ H) as K. simpl in K.
  destruct K as [_ [_ [K1 [K2 [K3 K4]]]]]. unfold ds_id in K1. inversion K1. subst w. repeat split; auto.
Qed.

(* every driver-level prepare is for the SQL and DB of the call that issued it
   and carries that call's context *)
Theorem prepare_coherent ops t d q ctx ds :
  In (EvPrepare t d q ctx ds) (w_log (run w0 ops)) ->
  let w := run w0 ops in
  d = th_d (tget w t) /\ q = th_q (tget w t) /\ ctx = th_ctx (tget w t) /\
  ds_stmt (hget w ds) = th_s (tget w t) /\ ds_db (hget w ds) = d /\ ds_sql (hget w ds) = q.
Proof.
  intros H w. pose proof (logok_reachable ops _ H) as K. simpl in K.
  destruct K as [_ [_ [K1 [K2 [K3 K4]]]]]. unfold ds_id in K1. inversion K1. subst w. repeat split; auto; congruence.
Qed.

Theorem no_panic ops n : ~ In (EvPanic n) (w_log (run w0 ops)).
Proof. destruct (inv_reachable ops). auto. Qed.

(* C11: both index maps describe the same set of pairs *)
Theorem index_consistent ops s d :
  w_index (run w0 ops) d s = true <-> w_cache (run w0 ops) s d <> None.
Proof. destruct (inv_reachable ops). auto. Qed.

(* C11: no driver statement is ever closed twice *)
Theorem close_at_most_once ops ds :
  ds < length (w_heap (run w0 ops)) -> ds_closes (hget (run w0 ops) ds) <= 1.
Proof. intros H. destruct (inv_reachable ops). destruct (inv_heap0 ds H) as [A _]. exact A. Qed.

(* C09: a cached statement is found again: after a Store for (s, d, q) the next
   lookup for the same SQL hits as long as nothing replaced or collected it *)
Theorem lookup_after_store w t ds :
  Inv w -> th_phase (tget w t) = PPrepared ds ->
  lookup (step w (Store t)) (th_s (tget w t)) (th_d (tget w t)) (th_q (tget w t)) = Some ds.
Proof.
  intros I P. pose proof (phase_bound w t ltac:(rewrite P; discriminate)) as Ht.
  pose proof I as I0. destruct I0.
  destruct (inv_closure0 t Ht) as [A B]; [unfold holds_closure; rewrite P; reflexivity|].
  destruct (inv_thread_ds0 t ds Ht) as [Dl [Ds [Dd Dq]]]; [unfold held_ds; rewrite P; reflexivity|].
  assert (C : w_cache (step w (Store t)) (th_s (tget w t)) (th_d (tget w t)) = Some ds).
  { unfold step. rewrite P, A, B. cbn [andb]. unfold set_phase. simpl. unfold upd2.
    rewrite !Nat.eqb_refl. reflexivity. }
  pose proof (stable_step w (Store t)) as S. remember (step w (Store t)) as w' eqn:Ew.
  destruct S as [_ [_ [_ [S4 _]]]]. specialize (S4 ds Dl).
  unfold ds_id in S4. assert (E3 : ds_sql (hget w' ds) = ds_sql (hget w ds)) by congruence.
  unfold lookup. rewrite C, E3, Dq, Nat.eqb_refl. reflexivity.
Qed.

(* C20: once a context is done, no driver event carries it *)
Definition ev_ctx (e : event) : option nat :=
  match e with
  | EvPrepare _ _ _ c _ | EvExec _ _ c _ _ | EvTxDirect _ _ _ c => Some c
  | _ => None
  end.

Lemma cancelled_step w o c :
  w_cancelled w c = true ->
  forall e, In e (skipn (length (w_log w)) (w_log (step w o))) -> ev_ctx e <> Some c.
Proof.
  intros Cn.
  assert (Same : forall l, l = w_log w -> forall e, In e (skipn (length (w_log w)) l) -> ev_ctx e <> Some c).
  { intros l E e H. rewrite E, skipn_all in H. destruct H. }
  assert (One : forall l e0, l = w_log w ++ [e0] -> ev_ctx e0 <> Some c ->
                forall e, In e (skipn (length (w_log w)) l) -> ev_ctx e <> Some c).
  { intros l e0 E N e H. rewrite E, skipn_app, skipn_all, Nat.sub_diag in H. simpl in H.
    destruct H as [H|[]]. subst. exact N. }
  destruct o as [ | | s d q tx ctx | t ok | t | t | t | t | s | d | ctx | s | d | ds]; simpl;
    try (apply Same; reflexivity).
  - destruct (w_sref w s && w_dref w d); [|apply Same; reflexivity].
    destruct (lookup w s d q); [apply Same; reflexivity|]. destruct tx; [|apply Same; reflexivity].
    destruct (w_cancelled w ctx) eqn:E; [apply Same; reflexivity|].
    eapply One; [reflexivity|]. simpl. intros K. inversion K. congruence.
  - destruct (th_phase (tget w t)); try (apply Same; reflexivity).
    destruct ok; simpl; [|apply Same; reflexivity].
    destruct (w_cancelled w (th_ctx (tget w t))) eqn:E; simpl; [apply Same; reflexivity|].
    eapply One; [unfold set_phase; simpl; reflexivity|]. simpl. intros K. inversion K. congruence.
  - destruct (th_phase (tget w t)); try (apply Same; reflexivity).
    destruct (w_sentry w (th_s (tget w t)) && w_dentry w (th_d (tget w t))).
    + apply Same. unfold set_phase. simpl. destruct (w_cache w (th_s (tget w t)) (th_d (tget w t))); reflexivity.
    + eapply One; [unfold set_phase; simpl; reflexivity|]. discriminate.
  - destruct (th_phase (tget w t)); try (apply Same; reflexivity);
      (destruct (w_cancelled w (th_ctx (tget w t))) eqn:E; [apply Same; reflexivity|];
       eapply One; [unfold set_phase; simpl; reflexivity|]; simpl; intros K; inversion K; congruence).
  - destruct (th_phase (tget w t)); apply Same; reflexivity.
  - destruct (th_phase (tget w t)); apply Same; reflexivity.
  - destruct (w_sentry w s && negb (w_sref w s) && negb (existsb (holds_stmt s) (w_threads w)));
      [|apply Same; reflexivity].
    destruct (gc_stmt_loop_log s (seq 0 (w_nd w)) w) as [evs [E F]]. intros e H. simpl in H.
    rewrite E, skipn_app, skipn_all, Nat.sub_diag in H. simpl in H. rewrite Forall_forall in F.
    specialize (F e H). destruct e; simpl in *; try tauto; discriminate.
  - destruct (w_dentry w d && negb (w_dref w d) && negb (existsb (holds_db d) (w_threads w)));
      [|apply Same; reflexivity].
    destruct (gc_db_loop_log d (seq 0 (w_ns w)) w) as [evs [E F]]. intros e H. simpl in H.
    rewrite E, skipn_app, skipn_all, Nat.sub_diag in H. simpl in H. rewrite Forall_forall in F.
    specialize (F e H). destruct e; simpl in *; try tauto; discriminate.
  - destruct ((ds <? length (w_heap w)) && ds_evicted (hget w ds) && negb (ds_finalized (hget w ds)) &&
              negb (existsb (holds_ds ds) (w_threads w))); [|apply Same; reflexivity].
    eapply One; [simpl; reflexivity|]. discriminate.
Qed.

Lemma step_log_extends w o : exists evs, w_log (step w o) = w_log w ++ evs.
Proof.
  destruct o as [ | | s d q tx ctx | t ok | t | t | t | t | s | d | ctx | s | d | ds]; simpl;
    try (exists []; rewrite app_nil_r; reflexivity).
  - destruct (w_sref w s && w_dref w d); [|exists []; rewrite app_nil_r; reflexivity].
    destruct (lookup w s d q); [exists []; rewrite app_nil_r; reflexivity|].
    destruct tx; [|exists []; rewrite app_nil_r; reflexivity].
    destruct (w_cancelled w ctx); [exists []; rewrite app_nil_r; reflexivity|]. eexists. reflexivity.
  - destruct (th_phase (tget w t)); try (exists []; rewrite app_nil_r; reflexivity).
    destruct (ok && negb (w_cancelled w (th_ctx (tget w t)))); [|exists []; rewrite app_nil_r; reflexivity].
    eexists. unfold set_phase. simpl. reflexivity.
  - destruct (th_phase (tget w t)); try (exists []; rewrite app_nil_r; reflexivity).
    destruct (w_sentry w (th_s (tget w t)) && w_dentry w (th_d (tget w t))).
    + exists []. rewrite app_nil_r. unfold set_phase. simpl.
      destruct (w_cache w (th_s (tget w t)) (th_d (tget w t))); reflexivity.
    + eexists. unfold set_phase. simpl. reflexivity.
  - destruct (th_phase (tget w t)); try (exists []; rewrite app_nil_r; reflexivity);
      (destruct (w_cancelled w (th_ctx (tget w t))); [exists []; rewrite app_nil_r; reflexivity|];
       eexists; unfold set_phase; simpl; reflexivity).
  - destruct (th_phase (tget w t)); exists []; rewrite app_nil_r; reflexivity.
  - destruct (th_phase (tget w t)); exists []; rewrite app_nil_r; reflexivity.
  - destruct (w_sentry w s && negb (w_sref w s) && negb (existsb (holds_stmt s) (w_threads w)));
      [|exists []; rewrite app_nil_r; reflexivity].
    destruct (gc_stmt_loop_log s (seq 0 (w_nd w)) w) as [evs [E F]]. exists evs. exact E.
  - destruct (w_dentry w d && negb (w_dref w d) && negb (existsb (holds_db d) (w_threads w)));
      [|exists []; rewrite app_nil_r; reflexivity].
    destruct (gc_db_loop_log d (seq 0 (w_ns w)) w) as [evs [E F]]. exists evs. exact E.
  - destruct ((ds <? length (w_heap w)) && ds_evicted (hget w ds) && negb (ds_finalized (hget w ds)) &&
              negb (existsb (holds_ds ds) (w_threads w))); [|exists []; rewrite app_nil_r; reflexivity].
    eexists. simpl. reflexivity.
Qed.

(* C20: if the context is already done, whatever happens afterwards (any
   history) sends nothing to the driver under that context *)
Theorem cancelled_runs_nothing ops : forall w c,
  w_cancelled w c = true ->
  forall e, In e (skipn (length (w_log w)) (w_log (run w ops))) -> ev_ctx e <> Some c.
Proof.
  induction ops as [|o ops IH]; intros w c Cn e H; simpl in H.
  - rewrite skipn_all in H. destruct H.
  - destruct (step_log_extends w o) as [evs E].
    assert (Cn' : w_cancelled (step w o) c = true) by (apply (stable_step w o); exact Cn).
    destruct (stable_run ops (step w o)) as [_ _].
    assert (Hlog : exists rest, w_log (run (step w o) ops) = w_log (step w o) ++ rest).
    { clear. revert w o. induction ops as [|o' ops IH']; intros w o; simpl.
      - exists []. rewrite app_nil_r. reflexivity.
      - destruct (IH' (step w o) o') as [r R]. destruct (step_log_extends (step w o) o') as [ev Ev].
        exists (ev ++ r). rewrite R, Ev, <- app_assoc. reflexivity. }
    destruct Hlog as [rest R]. rewrite R, E in H. rewrite <- app_assoc, skipn_app, skipn_all, Nat.sub_diag in H.
    simpl in H. apply in_app_or in H. destruct H as [H|H].
    + apply (cancelled_step w o c Cn). rewrite E, skipn_app, skipn_all, Nat.sub_diag. simpl. exact H.
    + apply (IH (step w o) c Cn'). rewrite R, skipn_app, skipn_all, Nat.sub_diag. simpl. exact H.
Qed.

(* ------------------------------------------------- C11: quiescence -- *)

(* nothing is in flight and the collector has nothing left to do *)
Definition quiescent (w : world) : Prop :=
  (forall t, t < length (w_threads w) -> th_phase (tget w t) = PFinished) /\
  (forall s, w_sentry w s = true -> w_sref w s = true) /\
  (forall d, w_dentry w d = true -> w_dref w d = true) /\
  (forall ds, ds < length (w_heap w) -> ds_evicted (hget w ds) = true -> ds_finalized (hget w ds) = true).

(* C11: in a quiescent state a Statement (DB) that was dropped has no cache
   entry left in either map, and every driver statement ever prepared is either
   cached for a Statement and a DB that are both still referenced, or has been
   closed exactly once. *)
Theorem quiescent_released w :
  Inv w -> quiescent w ->
  (forall s d, w_sref w s = false -> w_cache w s d = None /\ w_index w d s = false /\ w_sentry w s = false) /\
  (forall s d, w_dref w d = false -> w_cache w s d = None /\ w_index w d s = false /\ w_dentry w d = false) /\
  (forall ds, ds < length (w_heap w) ->
     (w_cache w (ds_stmt (hget w ds)) (ds_db (hget w ds)) = Some ds /\
      w_sref w (ds_stmt (hget w ds)) = true /\ w_dref w (ds_db (hget w ds)) = true /\
      ds_closes (hget w ds) = 0) \/
     ds_closes (hget w ds) = 1).
Proof.
  intros I [Q1 [Q2 [Q3 Q4]]]. pose proof I as I0. destruct I0.
  assert (Sn : forall s, w_sref w s = false -> w_sentry w s = false).
  { intros s H. destruct (w_sentry w s) eqn:E; [|reflexivity]. apply Q2 in E. congruence. }
  assert (Dn : forall d, w_dref w d = false -> w_dentry w d = false).
  { intros d H. destruct (w_dentry w d) eqn:E; [|reflexivity]. apply Q3 in E. congruence. }
  split; [|split].
  - intros s d H. pose proof (Sn s H) as S0.
    assert (C : w_cache w s d = None).
    { destruct (w_cache w s d) as [ds|] eqn:C; [|reflexivity].
      destruct (inv_cache0 s d ds C) as [_ [_ [_ [_ [_ [K _]]]]]]. congruence. }
    repeat split; auto. destruct (w_index w d s) eqn:E; [|reflexivity]. apply inv_index0 in E. congruence.
  - intros s d H. pose proof (Dn d H) as D0.
    assert (C : w_cache w s d = None).
    { destruct (w_cache w s d) as [ds|] eqn:C; [|reflexivity].
      destruct (inv_cache0 s d ds C) as [_ [_ [_ [_ [_ [_ K]]]]]]. congruence. }
    repeat split; auto. destruct (w_index w d s) eqn:E; [|reflexivity]. apply inv_index0 in E. congruence.
  - intros ds H. destruct (inv_heap0 ds H) as [A [B [C E]]].
    destruct (ds_evicted (hget w ds)) eqn:Ev.
    + right. rewrite (B eq_refl), (Q4 ds H Ev). reflexivity.
    + destruct (ds_closes (hget w ds)) as [|[|k]] eqn:Cl; [|right; reflexivity|lia].
      left. destruct (E eq_refl eq_refl) as [K|[t [Ht P]]].
      * destruct (inv_cache0 _ _ _ K) as [_ [_ [_ [_ [_ [S1 D1]]]]]].
        repeat split; auto.
      * rewrite (Q1 t Ht) in P. discriminate.
Qed.
