(* C12: transactions.  Invariants of the TX model of Tx.v over every
   interleaving of Query / run / Commit / Rollback steps of any number of
   threads on one transaction. *)
From SQLair.Base Require Import Bytes.
From SQLair.Model Require Import Tx.

Lemma xset_length {A} (l : list A) n v : length (xset l n v) = length l.
Proof. revert n. induction l as [|x l IH]; intros [|n]; simpl; auto. Qed.

Lemma nth_xset {A} (l : list A) n m v d :
  nth m (xset l n v) d = if Nat.eqb m n && Nat.ltb n (length l) then v else nth m l d.
Proof.
  revert n m. induction l as [|x l IH]; intros n m.
  - destruct n; simpl; rewrite andb_false_r; reflexivity.
  - destruct n as [|n]; destruct m as [|m]; simpl; auto.
    rewrite IH. replace (S n <? S (length l)) with (n <? length l); [reflexivity|].
    destruct (Nat.ltb_spec n (length l)); destruct (Nat.ltb_spec (S n) (S (length l))); auto; lia.
Qed.

Definition claimed (p : tphase) : bool := match p with TClaimed _ => true | _ => false end.
Definition succeeded (p : tphase) : bool := match p with TReturned _ None => true | _ => false end.
Definition count {A} (f : A -> bool) (l : list A) : nat := length (filter f l).

Definition ev_conn (e : tevent) : nat :=
  match e with TEvExec _ c | TEvCommit _ c | TEvRollback _ c => c end.

Record J (w : txw) : Prop := {
  j_fin_done : x_finished w = true -> x_done w = true;
  j_claimed : count claimed (x_threads w) = (if x_done w && negb (x_finished w) then 1 else 0);
  j_finishes : count is_finish (x_log w) = (if x_finished w then 1 else 0);
  j_success : count succeeded (x_threads w) = count is_finish (x_log w);
  j_conn : forall e, In e (x_log w) -> ev_conn e = x_conn w;
  j_last : forall l1 e l2, x_log w = l1 ++ e :: l2 -> is_finish e = true -> l2 = []
}.

Lemma j_x0 c : J (x0 c).
Proof.
  constructor; simpl; auto; try discriminate; try tauto.
  intros l1 e l2 H. destruct l1; discriminate.
Qed.

Lemma count_app {A} (f : A -> bool) l1 l2 : count f (l1 ++ l2) = count f l1 + count f l2.
Proof. unfold count. rewrite filter_app, app_length. reflexivity. Qed.

Lemma count_xset {A} (f : A -> bool) (l : list A) n v d :
  n < length l ->
  count f (xset l n v) + (if f (nth n l d) then 1 else 0) = count f l + (if f v then 1 else 0).
Proof.
  revert n. induction l as [|x l IH]; intros n H; simpl in H; [lia|].
  destruct n as [|n]; unfold count in *; simpl.
  - destruct (f v), (f x); simpl; lia.
  - specialize (IH n ltac:(lia)). destruct (f x); simpl; lia.
Qed.

Lemma xget_bound w t : xget w t <> TIdle -> t < length (x_threads w).
Proof.
  intros H. destruct (Nat.lt_ge_cases t (length (x_threads w))); [assumption|].
  exfalso. apply H. unfold xget. apply nth_overflow. assumption.
Qed.

Lemma last_app_finish (l : list tevent) e :
  (forall l1 e' l2, l = l1 ++ e' :: l2 -> is_finish e' = true -> l2 = []) ->
  count is_finish l = 0 ->
  forall l1 e' l2, l ++ [e] = l1 ++ e' :: l2 -> is_finish e' = true -> l2 = [].
Proof.
  intros HL C l1 e' l2 E F.
  destruct l2 as [|x l2]; [reflexivity|exfalso].
  (* e' lies inside l: then l has a finish event *)
  assert (exists l2', l = l1 ++ e' :: l2').
  { pose proof (@app_removelast_last _ (x :: l2) e ltac:(discriminate)) as R.
    rewrite R in E. rewrite app_comm_cons, app_assoc in E. apply app_inj_tail in E.
    destruct E as [E _]. eexists. exact E. }
  destruct H as [l2' H]. subst l. rewrite count_app in C. unfold count in C. simpl in C. rewrite F in C.
  simpl in C. lia.
Qed.

Lemma count_zero_no_finish l : count is_finish l = 0 ->
  forall l1 e l2, l = l1 ++ e :: l2 -> is_finish e = true -> l2 = [].
Proof.
  intros C l1 e l2 E F. subst. rewrite count_app in C. unfold count in C. simpl in C. rewrite F in C.
  simpl in C. lia.
Qed.

Lemma j_step_raw w o : (forall t, top_thread o = Some t -> t < length (x_threads w)) -> J w -> J (xstep_raw w o).
Proof.
  intros Hb Jw. destruct Jw. destruct o as [ |t|t|t|t|t]; simpl; try (pose proof (Hb t eq_refl) as Ht).
  - (* spawn *) constructor; simpl; auto. 
    + rewrite count_app. unfold count at 2. simpl. lia.
    + rewrite count_app. unfold count at 2. simpl. lia.
  - (* build *) destruct (xget w t) eqn:P; try (constructor; assumption).
    constructor; simpl; auto.
    + pose proof (count_xset claimed (x_threads w) t (TBuilt (negb (x_done w))) TIdle Ht) as C.
      unfold xget in P. rewrite P in C. simpl in C. lia.
    + pose proof (count_xset succeeded (x_threads w) t (TBuilt (negb (x_done w))) TIdle Ht) as C.
      unfold xget in P. rewrite P in C. simpl in C. lia.
  - (* run *) destruct (xget w t) as [|ok| | |] eqn:P; try (constructor; assumption).
    assert (Cc : forall v, claimed v = false -> count claimed (xset (x_threads w) t v) = count claimed (x_threads w)).
    { intros v Hv. pose proof (count_xset claimed (x_threads w) t v TIdle Ht) as C.
      unfold xget in P. rewrite P, Hv in C. simpl in C. lia. }
    assert (Cs : forall v, succeeded v = false -> count succeeded (xset (x_threads w) t v) = count succeeded (x_threads w)).
    { intros v Hv. pose proof (count_xset succeeded (x_threads w) t v TIdle Ht) as C.
      unfold xget in P. rewrite P, Hv in C. simpl in C. lia. }
    destruct ok.
    + destruct (x_finished w) eqn:F.
      * constructor; simpl; auto; rewrite ?Cc, ?Cs; auto.
      * constructor; simpl; auto; rewrite ?Cc, ?Cs, ?count_app; auto.
        -- unfold count at 2. simpl. rewrite ?F in *. lia.
        -- unfold count at 3. simpl. lia.
        -- intros e H. apply in_app_or in H. destruct H as [H|[H|[]]]; [auto|subst; reflexivity].
        -- apply last_app_finish; [exact j_last0|]. rewrite ?F in j_finishes0. exact j_finishes0.
    + constructor; simpl; auto; rewrite ?Cc, ?Cs; auto.
  - (* commit CAS *) destruct (xget w t) eqn:P; try (constructor; assumption).
    pose proof (count_xset claimed (x_threads w) t) as Cc. pose proof (count_xset succeeded (x_threads w) t) as Cs.
    unfold xget in P.
    destruct (x_done w) eqn:D.
    + constructor; simpl; auto.
      * specialize (Cc (TReturned true (Some TxDone)) TIdle Ht). rewrite P in Cc. simpl in *. lia.
      * specialize (Cs (TReturned true (Some TxDone)) TIdle Ht). rewrite P in Cs. simpl in *. lia.
    + assert (F : x_finished w = false).
      { destruct (x_finished w) eqn:F; [|reflexivity]. exfalso. specialize (j_fin_done0 eq_refl). discriminate. }
      constructor; simpl; auto.
      * specialize (Cc (TClaimed true) TIdle Ht). rewrite P in Cc. simpl in Cc. rewrite ?F in *. simpl in *. lia.
      * specialize (Cs (TClaimed true) TIdle Ht). rewrite P in Cs. simpl in *. lia.
  - (* rollback CAS *) destruct (xget w t) eqn:P; try (constructor; assumption).
    pose proof (count_xset claimed (x_threads w) t) as Cc. pose proof (count_xset succeeded (x_threads w) t) as Cs.
    unfold xget in P.
    destruct (x_done w) eqn:D.
    + constructor; simpl; auto.
      * specialize (Cc (TReturned false (Some TxDone)) TIdle Ht). rewrite P in Cc. simpl in *. lia.
      * specialize (Cs (TReturned false (Some TxDone)) TIdle Ht). rewrite P in Cs. simpl in *. lia.
    + assert (F : x_finished w = false).
      { destruct (x_finished w) eqn:F; [|reflexivity]. exfalso. specialize (j_fin_done0 eq_refl). discriminate. }
      constructor; simpl; auto.
      * specialize (Cc (TClaimed false) TIdle Ht). rewrite P in Cc. simpl in Cc. rewrite ?F in *. simpl in *. lia.
      * specialize (Cs (TClaimed false) TIdle Ht). rewrite P in Cs. simpl in *. lia.
  - (* the database/sql Commit / Rollback call *)
    destruct (xget w t) as [| | |commit|] eqn:P; try (constructor; assumption).
    pose proof (count_xset claimed (x_threads w) t) as Cc. pose proof (count_xset succeeded (x_threads w) t) as Cs.
    unfold xget in P.
    assert (D : x_done w = true /\ x_finished w = false).
    { specialize (Cc TIdle TIdle Ht). rewrite P in Cc. simpl in Cc.
      destruct (x_done w), (x_finished w); simpl in *; auto; lia. }
    destruct D as [D F]. rewrite F.
    constructor; simpl; auto; rewrite ?count_app.
    + specialize (Cc (TReturned commit None) TIdle Ht). rewrite P in Cc. simpl in Cc.
      rewrite ?D, ?F in *. simpl in *. rewrite ?andb_false_r. lia.
    + unfold count at 2. rewrite ?F in j_finishes0. destruct commit; simpl; lia.
    + specialize (Cs (TReturned commit None) TIdle Ht). rewrite P in Cs. simpl in Cs.
      unfold count at 3. destruct commit; simpl; lia.
    + intros e H. apply in_app_or in H. destruct H as [H|[H|[]]]; [auto|subst; destruct commit; reflexivity].
    + apply last_app_finish; [exact j_last0|]. rewrite ?F in j_finishes0. exact j_finishes0.
Qed.

Theorem j_step w o : J w -> J (xstep w o).
Proof.
  intros Jw. unfold xstep. destruct (top_thread o) as [t|] eqn:T.
  - destruct (Nat.ltb_spec t (length (x_threads w))); [|exact Jw].
    apply j_step_raw; [|exact Jw]. intros t' E. congruence.
  - apply j_step_raw; [|exact Jw]. intros t' E. congruence.
Qed.

Theorem j_run ops : forall w, J w -> J (xrun w ops).
Proof.
  induction ops as [|o ops IH]; intros w Jw; simpl; [exact Jw|]. apply IH. apply j_step. exact Jw.
Qed.

Lemma conn_step w o : x_conn (xstep w o) = x_conn w.
Proof.
  unfold xstep. destruct (top_thread o) as [t|]; [destruct (t <? length (x_threads w)); [|reflexivity]|];
    destruct o as [ |t'|t'|t'|t'|t']; simpl; try reflexivity;
    repeat match goal with |- context [match ?x with _ => _ end] => destruct x; simpl; try reflexivity end.
Qed.

Lemma conn_run ops : forall w, x_conn (xrun w ops) = x_conn w.
Proof.
  induction ops as [|o ops IH]; intros w; simpl; [reflexivity|]. rewrite IH. apply conn_step.
Qed.

(* C12: of any number of concurrent Commit / Rollback calls at most one reaches
   the driver, exactly as many calls report success as finish events exist,
   every event of the transaction is on its connection, and nothing is sent
   after the finish event. *)
Theorem tx_discipline conn ops :
  let w := xrun (x0 conn) ops in
  count is_finish (x_log w) <= 1 /\
  count succeeded (x_threads w) = count is_finish (x_log w) /\
  (forall e, In e (x_log w) -> ev_conn e = conn) /\
  (forall l1 e l2, x_log w = l1 ++ e :: l2 -> is_finish e = true -> l2 = []).
Proof.
  intros w. pose proof (j_run ops (x0 conn) (j_x0 conn)) as Jw. fold w in Jw. destruct Jw.
  split; [rewrite j_finishes0; destruct (x_finished w); lia|].
  split; [exact j_success0|].
  split; [|exact j_last0].
  intros e H. rewrite (j_conn0 e H). unfold w. rewrite conn_run. reflexivity.
Qed.

(* C12: once the transaction has ended (a finisher came back from database/sql)
   no operation sends anything to the driver, and every operation that starts
   afterwards fails with ErrTXDone. *)
Theorem tx_after_done w o :
  J w -> x_finished w = true ->
  x_log (xstep w o) = x_log w /\ x_finished (xstep w o) = true /\
  match o with
  | TBuild t => xget w t = TIdle -> t < length (x_threads w) -> xget (xstep w o) t = TBuilt false
  | TRun t => forall ok, xget w t = TBuilt ok -> xget (xstep w o) t = TRan (Some TxDone)
  | TCommitCAS t => xget w t = TIdle -> t < length (x_threads w) ->
                    xget (xstep w o) t = TReturned true (Some TxDone)
  | TRollbackCAS t => xget w t = TIdle -> t < length (x_threads w) ->
                      xget (xstep w o) t = TReturned false (Some TxDone)
  | _ => True
  end.
Proof.
  intros Jw F. destruct Jw. pose proof (j_fin_done0 F) as D.
  unfold xstep. destruct o as [ |t|t|t|t|t]; simpl.
  - auto.
  - destruct (Nat.ltb_spec t (length (x_threads w))) as [Ht|Ht].
    + destruct (xget w t) eqn:P; simpl; repeat split; auto; try (intros; discriminate).
      intros _ _. unfold xget. simpl. rewrite nth_xset, Nat.eqb_refl.
      apply Nat.ltb_lt in Ht. rewrite Ht, D. reflexivity.
    + repeat split; auto. intros _ H. lia.
  - destruct (Nat.ltb_spec t (length (x_threads w))) as [Ht|Ht].
    + destruct (xget w t) as [|ok| | |] eqn:P; simpl; try (repeat split; auto; intros; discriminate).
      apply Nat.ltb_lt in Ht.
      destruct ok; rewrite ?F; simpl; repeat split; auto;
        intros ok' _; unfold xget; simpl; rewrite nth_xset, Nat.eqb_refl, Ht; reflexivity.
    + repeat split; auto. intros ok H. exfalso.
      assert (K : xget w t <> TIdle) by (rewrite H; discriminate). apply xget_bound in K. lia.
  - destruct (Nat.ltb_spec t (length (x_threads w))) as [Ht|Ht].
    + destruct (xget w t) eqn:P; simpl; try (repeat split; auto; intros; discriminate).
      rewrite D. simpl. repeat split; auto.
      intros _ _. unfold xget. simpl. rewrite nth_xset, Nat.eqb_refl.
      apply Nat.ltb_lt in Ht. rewrite Ht. reflexivity.
    + repeat split; auto. intros _ H. lia.
  - destruct (Nat.ltb_spec t (length (x_threads w))) as [Ht|Ht].
    + destruct (xget w t) eqn:P; simpl; try (repeat split; auto; intros; discriminate).
      rewrite D. simpl. repeat split; auto.
      intros _ _. unfold xget. simpl. rewrite nth_xset, Nat.eqb_refl.
      apply Nat.ltb_lt in Ht. rewrite Ht. reflexivity.
    + repeat split; auto. intros _ H. lia.
  - destruct (Nat.ltb_spec t (length (x_threads w))) as [Ht|Ht]; [|auto].
    destruct (xget w t) eqn:P; simpl; auto. rewrite F. simpl. auto.
Qed.
