(* C01: the segments produced by the parser tile the input.

   - restore law: the top-level expression parsers leave the parser where it
     was when they answer "not this construct";
   - raw law: an expression remembers exactly the text between the position
     the main loop called its parser at and the position it returned at;
   - main loop invariant: the segments so far concatenate to the consumed
     prefix. *)
From SQLair.Base Require Import Bytes Utf8.
From SQLair.Model Require Import GenUnicode GenConsts Parser.
From SQLair.Proofs Require Import Utf8Facts ParserExt.

Lemma skipChar_false c st st' : skipChar c st = (st', false) -> st' = st.
Proof. unfold skipChar. destruct (negb (at_end st) && N.eqb (cur st) c); intros H; inversion H; reflexivity. Qed.

Ltac skipchar_false :=
  repeat match goal with
         | H : negb ?b = true |- _ => apply negb_true_iff in H; subst b
         | H : negb ?b = false |- _ => apply negb_false_iff in H; subst b
         end;
  repeat match goal with
         | E : skipChar _ ?s = (?s1, false) |- _ => apply skipChar_false in E; subst s1
         end.

Ltac case_go H :=
  norm_in H; repeat (destruct_scrut H); try discriminate;
  try (match goal with
       | H : (_, _) = (_, _) |- _ => inversion H; subst; clear H
       end).

(* what a top-level expression parser guarantees *)
Definition expr_spec (st st' : pstate) (r : res expr) : Prop :=
  match r with
  | Ok e => raw_of e = slice st st' /\ is_bypass e = false
  | No => st' = st
  | Err _ => True
  end.

Lemma parseTargetType_no st st' : parseTargetType st = (st', No) -> st' = st.
Proof. intros H. unfold parseTargetType in H. case_go H; skipchar_false; reflexivity. Qed.

Lemma parseOutputExpr_spec st st' r : parseOutputExpr st = (st', r) -> expr_spec st st' r.
Proof.
  intros H. unfold parseOutputExpr in H. unfold expr_spec.
  destruct (parseTargetType st) as [s1 r1] eqn:E1.
  destruct r1 as [t| |e].
  - inversion H; subst. simpl. auto.
  - apply parseTargetType_no in E1. subst s1.
    case_go H; simpl; auto.
  - inversion H; subst. exact I.
Qed.

Lemma parseSliceInputExpr_spec st st' r : parseSliceInputExpr st = (st', r) -> expr_spec st st' r.
Proof.
  intros H. unfold parseSliceInputExpr in H. unfold expr_spec.
  case_go H; skipchar_false; simpl; auto.
Qed.

Lemma parseMemberInputExpr_spec st st' r : parseMemberInputExpr st = (st', r) -> expr_spec st st' r.
Proof.
  intros H. unfold parseMemberInputExpr in H. unfold expr_spec.
  case_go H; simpl; auto.
Qed.

Lemma parseAsteriskInsertExpr_spec st st' r :
  parseAsteriskInsertExpr st = (st', r) -> expr_spec st st' r.
Proof.
  intros H. unfold parseAsteriskInsertExpr in H. unfold expr_spec.
  case_go H; skipchar_false; simpl; auto.
Qed.

Lemma parseInsertExpr_spec st st' r : parseInsertExpr st = (st', r) -> expr_spec st st' r.
Proof.
  intros H. unfold parseInsertExpr in H. unfold expr_spec.
  destruct (parseAsteriskInsertExpr st) as [s1 r1] eqn:E1.
  apply parseAsteriskInsertExpr_spec in E1. unfold expr_spec in E1.
  destruct r1 as [e| |e].
  - inversion H; subst. exact E1.
  - subst s1. unfold is_fuel_err in H. case_go H; simpl; auto.
  - inversion H; subst. exact I.
Qed.

Lemma parseInputExpr_spec st st' r : parseInputExpr st = (st', r) -> expr_spec st st' r.
Proof.
  intros H. unfold parseInputExpr in H.
  destruct (parseSliceInputExpr st) as [s1 r1] eqn:E1.
  apply parseSliceInputExpr_spec in E1.
  destruct r1 as [e| |e]; [inversion H; subst; exact E1| |inversion H; subst; exact I].
  simpl in E1. subst s1.
  destruct (parseMemberInputExpr st) as [s2 r2] eqn:E2.
  apply parseMemberInputExpr_spec in E2.
  destruct r2 as [e| |e]; [inversion H; subst; exact E2| |inversion H; subst; exact I].
  simpl in E2. subst s2.
  apply parseInsertExpr_spec in H. exact H.
Qed.

(* ------------------------------------------------------------ main loop -- *)

Definition flat (es : list expr) : str := concat (map raw_of es).

Lemma flat_app a b : flat (a ++ b) = flat a ++ flat b.
Proof. unfold flat. rewrite map_app, concat_app. reflexivity. Qed.

Lemma add_bypass_flat prev cstart acc :
  ext prev cstart -> flat (add_bypass prev cstart acc) ++ rest cstart = flat acc ++ rest prev.
Proof.
  intros E. unfold add_bypass. destruct (Nat.eqb (pos prev) (pos cstart)) eqn:P.
  - apply Nat.eqb_eq in P. rewrite (ext_same_pos _ _ E P). reflexivity.
  - rewrite flat_app. unfold flat at 2. simpl. rewrite app_nil_r, <- app_assoc.
    rewrite <- (slice_ext _ _ E). reflexivity.
Qed.

Lemma parse_loop_tiling fuel : forall inp prev acc st segs,
  ext prev st ->
  inp = flat acc ++ rest prev ->
  parse_loop fuel prev acc st = Ok segs ->
  flat segs = inp.
Proof.
  induction fuel as [|f IH]; intros inp prev acc st segs E I H; simpl in H; [discriminate|].
  destruct (advanceToNextExpression st) as [st1 r1] eqn:A.
  assert (E1 : ext prev st1) by (exact (ext_prf (f:=advanceToNextExpression) _ _ _ _ E A)).
  assert (H' : (if at_end st1 then Ok (add_bypass prev st1 acc)
          else match parseOutputExpr st1 with
               | (_, Err e) => Err e
               | (st2, Ok out) => parse_loop f st2 (add_bypass prev st1 acc ++ [out]) st2
               | (st2, No) =>
                   match parseInputExpr st2 with
                   | (_, Err e) => Err e
                   | (st3, Ok inp) => parse_loop f st3 (add_bypass prev st1 acc ++ [inp]) st3
                   | (st3, No) => parse_loop f prev acc (advance st3)
                   end
               end) = Ok segs).
  { destruct r1; try exact H. discriminate. }
  clear H. rename H' into H.
  destruct (at_end st1) eqn:AE.
  - inversion H; subst. pose proof (add_bypass_flat prev st1 acc E1) as F.
    unfold at_end in AE. destruct (rest st1); [|discriminate]. rewrite app_nil_r in F. exact F.
  - destruct (parseOutputExpr st1) as [st2 r2] eqn:O.
    pose proof (parseOutputExpr_spec _ _ _ O) as SO.
    assert (E2 : ext st1 st2) by (exact (ext_prf (f:=parseOutputExpr) _ _ _ _ (ext_refl _) O)).
    destruct r2 as [out| |e]; [| |discriminate].
    + destruct SO as [Raw _].
      eapply IH; [apply ext_refl| |exact H].
      rewrite flat_app. unfold flat at 2. simpl. rewrite app_nil_r, Raw, <- app_assoc.
      rewrite <- (slice_ext _ _ E2). rewrite add_bypass_flat by exact E1. exact I.
    + simpl in SO. subst st2.
      destruct (parseInputExpr st1) as [st3 r3] eqn:P.
      pose proof (parseInputExpr_spec _ _ _ P) as SP.
      assert (E3 : ext st1 st3) by (exact (ext_prf (f:=parseInputExpr) _ _ _ _ (ext_refl _) P)).
      destruct r3 as [ie| |e]; [| |discriminate].
      * destruct SP as [Raw _].
        eapply IH; [apply ext_refl| |exact H].
        rewrite flat_app. unfold flat at 2. simpl. rewrite app_nil_r, Raw, <- app_assoc.
        rewrite <- (slice_ext _ _ E3). rewrite add_bypass_flat by exact E1. exact I.
      * simpl in SP. subst st3.
        eapply IH; [|exact I|exact H].
        eapply ext_trans; [exact E1|apply advance_ext].
Qed.

Theorem parse_tiling inp segs : parse inp = Ok segs -> concat (map raw_of segs) = inp.
Proof.
  unfold parse. intros H. eapply parse_loop_tiling in H; [exact H|apply ext_refl|reflexivity].
Qed.
