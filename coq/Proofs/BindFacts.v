(* First facts about the binding model (C03, C04, C05, C07, C08). *)
From SQLair.Base Require Import Bytes.
From SQLair.Model Require Import GenConsts Reflect TypeInfo Parser Bind.
From SQLair.Proofs Require Import ItoaFacts.

(* ---------------------------------------------------------- names (C03) -- *)

(* the three places that build argument / placeholder names use one prefix *)
Lemma prefixes_agree :
  sql_param_prefix = sql_arg_prefix /\ sql_param_prefix_bulk = sql_arg_prefix /\
  sql_input_prefix = sql_param_at ++ sql_arg_prefix /\ sql_param_at_bulk = sql_param_at.
Proof. repeat split; reflexivity. Qed.

Definition arg_name (n : nat) : str := sql_arg_prefix ++ itoa_nat n.

Lemma arg_name_inj a b : arg_name a = arg_name b -> a = b.
Proof. unfold arg_name. intros H. apply app_inv_head in H. apply itoa_nat_inj. exact H. Qed.

(* the placeholder a token stands for *)
Definition tok_num (t : sqltok) : option nat :=
  match t with
  | TIn n | TParam n | TParamBulk n => Some n
  | _ => None
  end.

Lemma render_placeholder t n :
  tok_num t = Some n -> render_tok t = sql_param_at ++ arg_name n.
Proof.
  destruct prefixes_agree as [P1 [P2 [P3 P4]]].
  destruct t; cbn [tok_num render_tok]; intros H; inversion H; subst; unfold arg_name.
  - rewrite P3, <- app_assoc. reflexivity.
  - rewrite P1. reflexivity.
  - rewrite P2, P4. reflexivity.
Qed.

(* ----------------------------------------------------- addInputs (C03) -- *)

Lemma tok_sep_nums sep items :
  flat_map (fun t => match tok_num t with Some n => [n] | None => [] end) (tok_sep sep items) =
  flat_map (flat_map (fun t => match tok_num t with Some n => [n] | None => [] end)) items.
Proof.
  induction items as [|x rest IH]; [reflexivity|].
  destruct rest as [|y rest'].
  - simpl. rewrite app_nil_r. reflexivity.
  - change (tok_sep sep (x :: y :: rest')) with (x ++ [TText sep] ++ tok_sep sep (y :: rest')).
    rewrite !flat_map_app, IH. simpl. reflexivity.
Qed.

Definition nums (ts : list sqltok) : list nat :=
  flat_map (fun t => match tok_num t with Some n => [n] | None => [] end) ts.

Lemma nums_app a b : nums (a ++ b) = nums a ++ nums b.
Proof. apply flat_map_app. Qed.

(* A standalone input with k values writes k fresh placeholders, numbered from
   the current count, in order, and appends the k values under those names, in
   order; nothing else changes. *)
Lemma add_inputs_spec q vals :
  let q' := add_inputs q vals in
  q_inputCount q' = q_inputCount q + length vals /\
  nums (q_sql q') = nums (q_sql q) ++ seq (q_inputCount q) (length vals) /\
  q_named q' = q_named q ++ map (fun '(i, v) => (arg_name i, v))
                               (combine (seq (q_inputCount q) (length vals)) vals) /\
  q_outputs q' = q_outputs q /\ q_argUsed q' = q_argUsed q.
Proof.
  unfold add_inputs, qb_with. simpl. repeat split.
  rewrite nums_app. f_equal. unfold comma_list, nums. rewrite tok_sep_nums.
  generalize (seq (q_inputCount q) (length vals)). induction l as [|i l IH]; [reflexivity|].
  simpl. f_equal. exact IH.
Qed.

(* ------------------------------------------------- rectangular (C04) -- *)

Definition live (bcs : list bcol) : list bcol := filter (fun bc => negb (bc_omit bc)) bcs.

Lemma insert_row_length bcs : forall row sqls named sqls' named',
  insert_row bcs row sqls named = BOk (sqls', named') ->
  length sqls' = length sqls + length (live bcs).
Proof.
  induction bcs as [|bc rest IH]; intros row sqls named sqls' named' H; simpl in H.
  - inversion H; subst. simpl. lia.
  - unfold live. simpl. destruct (bc_omit bc) eqn:O; simpl.
    + apply IH in H. exact H.
    + destruct (parameter bc row) as [[s n]|e] eqn:P; simpl in H; [|discriminate].
      apply IH in H. rewrite app_length in H. simpl in H. unfold live in H. lia.
Qed.

Lemma insert_rows_rect bcs : forall rows acc named acc' named',
  Forall (fun r => length r = length (live bcs)) acc ->
  insert_rows bcs rows acc named = BOk (acc', named') ->
  Forall (fun r => length r = length (live bcs)) acc' /\ length acc' = length acc + length rows.
Proof.
  induction rows as [|r rows IH]; intros acc named acc' named' F H; simpl in H.
  - inversion H; subst. split; [exact F|simpl; lia].
  - destruct (insert_row bcs r [] named) as [[sqls nm]|e] eqn:R; simpl in H; [|discriminate].
    apply insert_row_length in R. simpl in R.
    apply IH in H.
    + destruct H as [F' L]. split; [exact F'|]. rewrite app_length in L. simpl in L. simpl. lia.
    + apply Forall_app. split; [exact F|]. constructor; [exact R|constructor].
Qed.

(* ------------------------------------------------------ aliases (C05) -- *)

Lemma has_prefix_app p x : has_prefix p (p ++ x) = true.
Proof. induction p as [|c p IH]; simpl; [reflexivity|]. rewrite N.eqb_refl. exact IH. Qed.

Lemma skipn_app_exact {A} (p x : list A) : skipn (length p) (p ++ x) = x.
Proof. induction p; simpl; auto. Qed.

Lemma atoi_itoa_full n : atoi (itoa n) = Some (false, n).
Proof.
  pose proof (atoi_itoa n) as A. pose proof (itoa_digits n) as D.
  unfold atoi. destruct (itoa n) as [|c l] eqn:E; [exfalso; eapply itoa_nonempty; exact E|].
  simpl in D. apply andb_prop in D. destruct D as [Dc _].
  assert (c <> 43%N /\ c <> 45%N) as [N1 N2].
  { unfold is_dec in Dc. apply andb_prop in Dc. destruct Dc as [L _]. apply N.leb_le in L. lia. }
  destruct c as [|p]; [simpl in Dc; discriminate|].
  repeat (destruct p as [p|p|]; try (rewrite A; reflexivity); try congruence).
Qed.

(* markerIndex (markerName n) = n: an alias identifies its output *)
Lemma marker_roundtrip n : (N.of_nat n <= max_int)%N -> marker_index (marker_name n) = Some n.
Proof.
  intros B. unfold marker_index, marker_name. rewrite has_prefix_app, skipn_app_exact.
  unfold itoa_nat. rewrite atoi_itoa_full.
  apply N.leb_le in B. rewrite B. f_equal. lia.
Qed.

(* above the largest int the name is not a marker (strconv.Atoi: value out of range) *)
Lemma marker_overflow n : (max_int < N.of_nat n)%N -> marker_index (marker_name n) = None.
Proof.
  intros B. unfold marker_index, marker_name. rewrite has_prefix_app, skipn_app_exact.
  unfold itoa_nat. rewrite atoi_itoa_full.
  apply N.leb_gt in B. rewrite B. reflexivity.
Qed.

Lemma marker_name_inj a b : marker_name a = marker_name b -> a = b.
Proof.
  unfold marker_name. intros H. apply app_inv_head in H. unfold itoa_nat in H.
  apply itoa_inj in H. lia.
Qed.

(* --------------------------------------------------- samples (C07) -- *)

Lemma assoc_str_app_none {A} k (l : list (str * A)) k' v :
  assoc_str k l = None -> str_eqb k k' = false -> assoc_str k (l ++ [(k', v)]) = None.
Proof.
  induction l as [|[k0 v0] l IH]; simpl; intros H E.
  - rewrite E. reflexivity.
  - destruct (str_eqb k k0); [discriminate|]. apply IH; assumption.
Qed.

Lemma str_eqb_refl s : str_eqb s s = true.
Proof. induction s as [|c s IH]; simpl; [reflexivity|]. rewrite N.eqb_refl. exact IH. Qed.

Lemma str_eqb_eq a b : str_eqb a b = true -> a = b.
Proof.
  revert b. induction a as [|x a IH]; intros [|y b] H; simpl in H; try discriminate; [reflexivity|].
  apply andb_prop in H. destruct H as [H1 H2]. apply N.eqb_eq in H1. apply IH in H2. congruence.
Qed.

Lemma assoc_str_in {A} k (l : list (str * A)) v : assoc_str k l = Some v -> In k (map fst l).
Proof.
  induction l as [|[k0 v0] l IH]; simpl; [discriminate|].
  destruct (str_eqb k k0) eqn:E; intros H.
  - left. symmetry. apply str_eqb_eq. exact E.
  - right. apply IH. exact H.
Qed.

Lemma assoc_str_none_notin {A} k (l : list (str * A)) : assoc_str k l = None -> ~ In k (map fst l).
Proof.
  induction l as [|[k0 v0] l IH]; simpl; [tauto|].
  destruct (str_eqb k k0) eqn:E; intros H; [discriminate|].
  intros [H1|H1].
  - subst. rewrite str_eqb_refl in E. discriminate.
  - apply IH in H. tauto.
Qed.

Lemma NoDup_app_single {A} (l : list A) x : NoDup l -> ~ In x l -> NoDup (l ++ [x]).
Proof.
  induction l as [|y l IH]; simpl; intros ND NI.
  - constructor; [tauto|constructor].
  - inversion ND; subst. constructor.
    + rewrite in_app_iff. simpl. intros [H|[H|[]]]; [tauto|subst; tauto].
    + apply IH; [assumption|tauto].
Qed.

(* the type names of accepted samples are pairwise distinct: no two samples
   share a name (the same type twice, or two types with one name) *)
Lemma generate_arg_info_nodup env samples : forall acc infos,
  NoDup (map fst acc) ->
  generate_arg_info env samples acc = BOk infos -> NoDup (map fst infos).
Proof.
  induction samples as [|s rest IH]; intros acc infos ND H; simpl in H.
  - inversion H; subst. exact ND.
  - destruct s as [t|]; [|discriminate].
    destruct (t_kind (tget env t)); try discriminate;
    (destruct (t_name (tget env t)) as [|c name] eqn:Nm; [discriminate|];
     destruct (get_arg_info env t) as [info|e]; simpl in H; [|discriminate];
     destruct (assoc_str (c :: name) acc) as [d|] eqn:A;
     [destruct (Nat.eqb (ai_type d) t); discriminate|];
     eapply IH; [|exact H];
     rewrite map_app; simpl; apply NoDup_app_single;
     [exact ND|apply assoc_str_none_notin; exact A]).
Qed.
