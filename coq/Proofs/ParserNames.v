(* C05: the names the parser puts into an output expression never end in '*'
   unless they are the asterisk itself.

   - an identifier is a quoted literal (ends with its quote), or a run of name
     characters ('*' is not a name character, and the bytes of a non-ASCII
     rune are >= 128);
   - parseIdentifierAsterisk returns "*" or an identifier;
   - a function-call column ends with ')'.
   Hence every [Output] segment of an accepted query satisfies the hypotheses
   of [output_no_wildcard], and the typed output expressions of a prepared
   query contain no column that is "*" or ends in '*'. *)
From SQLair.Base Require Import Bytes Utf8.
From SQLair.Model Require Import GenUnicode GenConsts Reflect TypeInfo Parser Bind.
From SQLair.Proofs Require Import Utf8Facts ParserExt ParserTiling ParserFuel ParserLex
  BindFacts TotalityProofs BindTypesFacts BindTypesProofs ParserSigil SqlShape.

(* ----------------------------------------------- the last consumed byte -- *)

(* b is reached from a and the last byte in between is x *)
Definition endsw (a b : pstate) (x : N) : Prop := ext a b /\ exists p, slice a b = p ++ [x].

Lemma endsw_l a b c x : ext a b -> endsw b c x -> endsw a c x.
Proof.
  intros E [E2 [p S]]. split; [eapply ext_trans; eassumption|].
  exists (slice a b ++ p). rewrite (slice_app a b c E E2), S, app_assoc. reflexivity.
Qed.

Lemma endsw_last a b x : endsw a b x -> last (slice a b) 0%N = x.
Proof. intros [_ [p S]]. rewrite S. rewrite last_app_ne by discriminate. reflexivity. Qed.

Lemma endsw_no_star a b x : endsw a b x -> x <> 42%N -> no_star_end (slice a b).
Proof. intros H N. unfold no_star_end. rewrite (endsw_last _ _ _ H). exact N. Qed.

(* the bytes [advance] steps over *)
Lemma slice_advance s : at_end s = false ->
  ((cur s < 128)%N /\ slice s (advance s) = [cur s]) \/
  ((128 <= cur s)%N /\ slice s (advance s) <> [] /\
   forall b, In b (slice s (advance s)) -> (128 <= b)%N).
Proof.
  intros AE. destruct (advance_split s AE) as [bs [R C]].
  pose proof (slice_ext _ _ (advance_ext s)) as R2. rewrite R in R2. apply app_inv_tail in R2.
  subst bs. destruct C as [[L E]|[L [NE Hb]]].
  - left. split; [apply N.ltb_lt; exact L|exact E].
  - right. split; [apply N.ltb_ge; exact L|]. split; assumption.
Qed.

Lemma advance_endsw s c : at_end s = false -> cur s = c -> (c < 128)%N -> endsw s (advance s) c.
Proof.
  intros AE C L. split; [apply advance_ext|]. exists [].
  destruct (slice_advance s AE) as [[_ E]|[G _]].
  - rewrite E, C. reflexivity.
  - exfalso. rewrite C in G. lia.
Qed.

Lemma skipChar_endsw c s s' : skipChar c s = (s', true) -> (c < 128)%N -> endsw s s' c.
Proof.
  intros H L. apply skipChar_true in H. destruct H as [AE [C E]]. subst s'.
  apply advance_endsw; assumption.
Qed.

(* ------------------------------------------------------ quoted literals -- *)

Lemma skipCharFind_loop_endsw fuel : forall c s s', (c < 128)%N ->
  skipCharFind_loop fuel c s = Some (Some s') -> endsw s s' c.
Proof.
  induction fuel as [|f IH]; intros c s s' L H; simpl in H; [discriminate|].
  destruct (at_end s) eqn:AE; [discriminate|].
  destruct (N.eqb (cur s) c) eqn:C.
  - inversion H; subst. apply N.eqb_eq in C. apply advance_endsw; assumption.
  - eapply endsw_l; [apply advance_ext|]. eapply IH; eassumption.
Qed.

Lemma skipCharFind_endsw c s s' u : (c < 128)%N -> skipCharFind c s = (s', Ok u) -> endsw s s' c.
Proof.
  intros L H. unfold skipCharFind in H.
  destruct (skipCharFind_loop (fuel_of s) c s) as [[s1|]|] eqn:E; inversion H; subst.
  eapply skipCharFind_loop_endsw; eassumption.
Qed.

Lemma strlit_loop_endsw fuel : forall c m s s', (c < 128)%N ->
  strlit_loop fuel c m s = Some (Some s') -> endsw s s' c.
Proof.
  induction fuel as [|f IH]; intros c m s s' L H; simpl in H; [discriminate|].
  destruct (skipCharFind c s) as [s1 [u| |e]] eqn:E; try discriminate.
  pose proof (skipCharFind_endsw _ _ _ _ L E) as E1.
  destruct (m && negb (peekChar c s1)).
  - inversion H; subst. exact E1.
  - eapply endsw_l; [exact (proj1 E1)|]. eapply IH; eassumption.
Qed.

(* a string literal ends with its closing quote *)
Lemma skipStringLiteral_endsw s s' u :
  skipStringLiteral s = (s', Ok u) -> exists c, (c = 34%N \/ c = 39%N) /\ endsw s s' c.
Proof.
  intros H. unfold skipStringLiteral in H.
  destruct (skipChar ch_dquote s) as [s1 ok1] eqn:E1.
  assert (Fin : forall c s2, (c = 34%N \/ c = 39%N) -> ext s s2 ->
            match strlit_loop (fuel_of s2) c true s2 with
            | None => (s2, Err (efuel s2))
            | Some (Some st3) => (st3, Ok tt)
            | Some None => (s, Err (errorAt EMissingQuote [] (line s) (colNum s)))
            end = (s', Ok u) -> exists c, (c = 34%N \/ c = 39%N) /\ endsw s s' c).
  { intros c s2 Hc E2 HL. destruct (strlit_loop (fuel_of s2) c true s2) as [[s3|]|] eqn:SL; try discriminate.
    inversion HL; subst. exists c. split; [exact Hc|]. eapply endsw_l; [exact E2|].
    eapply strlit_loop_endsw; [|exact SL]. destruct Hc; subst c; reflexivity. }
  destruct ok1.
  - pose proof (ext_prf (f:=skipChar ch_dquote) _ _ _ _ (ext_refl _) E1) as X1.
    apply skipChar_true in E1. destruct E1 as [_ [C _]]. rewrite C in H.
    eapply (Fin 34%N); [left; reflexivity|exact X1|exact H].
  - apply skipChar_false in E1. subst s1.
    destruct (skipChar ch_squote s) as [s2 ok2] eqn:E2. destruct ok2; [|discriminate].
    pose proof (ext_prf (f:=skipChar ch_squote) _ _ _ _ (ext_refl _) E2) as X2.
    apply skipChar_true in E2. destruct E2 as [_ [C _]]. rewrite C in H.
    eapply (Fin 39%N); [right; reflexivity|exact X2|exact H].
Qed.

(* ------------------------------------------------------ name characters -- *)

Lemma star_not_namechar : isNameChar 42 = false.
Proof. vm_compute. reflexivity. Qed.

Lemma last_high (l : list N) : l <> [] -> (forall b, In b l -> (128 <= b)%N) -> last l 0%N <> 42%N.
Proof.
  intros NE H. assert (G : (128 <= last l 0)%N).
  { apply last_ge; [exact NE|]. apply Forall_forall. exact H. }
  lia.
Qed.

Lemma advance_name_last s : at_end s = false -> isNameChar (cur s) = true ->
  slice s (advance s) <> [] /\ last (slice s (advance s)) 0%N <> 42%N.
Proof.
  intros AE NC. destruct (slice_advance s AE) as [[_ E]|[_ [NE Hb]]].
  - rewrite E. split; [discriminate|]. cbn. intros C. rewrite C, star_not_namechar in NC. discriminate.
  - split; [exact NE|]. apply last_high; assumption.
Qed.

Lemma slice_same s : slice s s = [].
Proof. unfold slice. rewrite Nat.sub_diag. reflexivity. Qed.

Lemma namechars_loop_last fuel : forall s s',
  namechars_loop fuel s = Some s' ->
  ext s s' /\ (slice s s' <> [] -> last (slice s s') 0%N <> 42%N).
Proof.
  induction fuel as [|f IH]; intros s s' H; simpl in H; [discriminate|].
  destruct (negb (at_end s) && isNameChar (cur s)) eqn:C.
  - apply andb_prop in C. destruct C as [AE NC]. apply negb_true_iff in AE.
    apply IH in H. destruct H as [E L].
    pose proof (advance_ext s) as E1. split; [eapply ext_trans; eassumption|].
    rewrite (slice_app _ _ _ E1 E). intros _.
    destruct (advance_name_last s AE NC) as [NE L1].
    destruct (slice (advance s) s') as [|b t] eqn:S.
    + rewrite app_nil_r. exact L1.
    + rewrite last_app_ne by discriminate. apply L. discriminate.
  - inversion H; subst. split; [apply ext_refl|]. rewrite slice_same. congruence.
Qed.

(* an identifier does not end in '*' *)
Lemma parseIdentifier_name s s' id : parseIdentifier s = (s', Ok id) -> no_star_end id.
Proof.
  intros H. unfold parseIdentifier in H.
  destruct (skipStringLiteral s) as [s1 [u| |e]] eqn:E; [| |discriminate].
  - inversion H; subst. destruct (skipStringLiteral_endsw _ _ _ E) as [c [Hc En]].
    apply (endsw_no_star _ _ _ En). destruct Hc; subst c; discriminate.
  - apply skipStringLiteral_no in E. destruct E as [E _]. subst s1.
    destruct (namechars_loop (fuel_of s) s) as [s2|] eqn:NL; [|discriminate].
    destruct (Nat.ltb (pos s) (pos s2)) eqn:Lt; [|discriminate]. inversion H; subst.
    apply Nat.ltb_lt in Lt. apply namechars_loop_last in NL. destruct NL as [X L].
    apply L. intros Z. pose proof (slice_ext_length _ _ X) as Len. rewrite Z in Len. cbn in Len. lia.
Qed.

Definition name_ok (id : str) : Prop := id = star \/ no_star_end id.

Lemma parseIdentifierAsterisk_name s s' id : parseIdentifierAsterisk s = (s', Ok id) -> name_ok id.
Proof.
  intros H. unfold parseIdentifierAsterisk in H.
  destruct (skipChar ch_star s) as [s1 ok] eqn:E. destruct ok.
  - inversion H; subst. left. reflexivity.
  - right. eapply parseIdentifier_name. exact H.
Qed.

(* ----------------------------------------------------------- parentheses -- *)

Lemma parens_loop_endsw fuel : forall n s s',
  parens_loop fuel n s = (s', Ok 0) -> (n = 0 /\ s' = s) \/ endsw s s' 41.
Proof.
  induction fuel as [|f IH]; intros n s s' H; simpl in H; [discriminate|].
  pose proof (ext_refl s) as E0.
  walk H.
  all: try (inv_pair; left; split; reflexivity).
  all: apply IH in H; destruct H as [[K Es]|En];
    [|right; ext_record s; (eapply endsw_l; [|exact En]); eauto 3 with extdb].
  all: try discriminate K.
  all: subst; right; ext_record s.
  all: match goal with
       | E : skipChar ch_rparen ?a = (?b, true) |- endsw _ ?b _ =>
           eapply endsw_l; [|eapply skipChar_endsw; [exact E|reflexivity]]; eauto 3 with extdb
       end.
Qed.

(* a parenthesised group ends with ')' *)
Lemma skipEnclosedParentheses_endsw s s' u :
  skipEnclosedParentheses s = (s', Ok u) -> endsw s s' 41.
Proof.
  intros H. unfold skipEnclosedParentheses in H.
  pose proof (ext_refl s) as E0.
  walk H; try inv_pair. ext_record s.
  match goal with
  | E : parens_loop _ 1 ?a = (?b, Ok 0) |- _ =>
      apply parens_loop_endsw in E; destruct E as [[K _]|En]; [discriminate K|]
  end.
  eapply endsw_l; [|exact En]. eauto 3 with extdb.
Qed.

(* --------------------------------------------------- columns and targets -- *)

Definition col_ok (c : column) : Prop := columnName c = star \/ no_star_end (columnName c).
Definition macc_ok (t : macc) : Prop := mname t = star \/ no_star_end (mname t).

Lemma parseColumnAccessor_ok s s' c : parseColumnAccessor s = (s', Ok c) -> col_ok c.
Proof.
  intros H. unfold parseColumnAccessor in H. pose proof (ext_refl s) as E0.
  walk H; inv_pair; unfold col_ok; cbn [columnName].
  - left. reflexivity.
  - eapply parseIdentifierAsterisk_name. eassumption.
  - right. ext_record s.
    match goal with
    | E : skipEnclosedParentheses ?a = (?b, Ok _) |- _ =>
        apply skipEnclosedParentheses_endsw in E;
        apply (endsw_no_star s b 41%N); [eapply endsw_l; [|exact E]; eauto 3 with extdb|discriminate]
    end.
  - right. eapply parseIdentifier_name. eassumption.
Qed.

Lemma parseTypeAndMember_ok s s' t : parseTypeAndMember s = (s', Ok t) -> macc_ok t.
Proof.
  intros H. unfold parseTypeAndMember in H. walk H; inv_pair. unfold macc_ok. cbn [mname].
  eapply parseIdentifierAsterisk_name. eassumption.
Qed.

Lemma parseTargetType_ok s s' t : parseTargetType s = (s', Ok t) -> macc_ok t.
Proof.
  intros H. unfold parseTargetType in H. walk H; inv_pair.
  eapply parseTypeAndMember_ok. eassumption.
Qed.

Section ParseListAll.
  Context {T : Type} (parseFn : pstate -> pstate * res T) (P : T -> Prop).
  Context (HP : forall s s' v, parseFn s = (s', Ok v) -> P v).

  Lemma parseList_loop_all fuel : forall cp first acc s s' v,
    Forall P acc -> parseList_loop parseFn fuel cp first acc s = (s', Ok v) -> Forall P v.
  Proof using HP.
    induction fuel as [|f IH]; intros cp first acc s s' v F H; simpl in H; [discriminate|].
    assert (F' : forall s0 s1 x, parseFn s0 = (s1, Ok x) -> Forall P (acc ++ [x])).
    { intros s0 s1 x E. apply Forall_app. split; [exact F|]. constructor; [|constructor].
      eapply HP. exact E. }
    walk H.
    all: try (inv_pair; eapply F'; eassumption).
    all: eapply IH; [|exact H]; eapply F'; eassumption.
  Qed.

  Lemma parseList_all s s' v : parseList parseFn s = (s', Ok v) -> Forall P v.
  Proof using HP.
    intros H. unfold parseList in H. walk H.
    eapply parseList_loop_all; [|exact H]. constructor.
  Qed.
End ParseListAll.

Lemma parseColumns_ok s s' cols par : parseColumns s = (s', Ok (cols, par)) -> Forall col_ok cols.
Proof.
  intros H. unfold parseColumns, is_fuel_err in H. walk H; inv_pair.
  all: try (constructor; [eapply parseColumnAccessor_ok; eassumption|constructor]).
  all: eapply (parseList_all parseColumnAccessor col_ok parseColumnAccessor_ok); eassumption.
Qed.

Lemma parseTargetTypes_ok s s' ts par : parseTargetTypes s = (s', Ok (ts, par)) -> Forall macc_ok ts.
Proof.
  intros H. unfold parseTargetTypes in H. walk H; inv_pair.
  - constructor; [eapply parseTargetType_ok; eassumption|constructor].
  - eapply (parseList_all parseTargetType macc_ok parseTargetType_ok); eassumption.
Qed.

(* ------------------------------------------------------------ expressions -- *)

(* an output segment whose column and member names are "*" or do not end in '*' *)
Definition out_ok (e : expr) : Prop :=
  match e with
  | Output _ cols targets => Forall col_ok cols /\ Forall macc_ok targets
  | _ => True
  end.

Class OutOkFn (f : pstate -> pstate * res expr) : Prop :=
  out_ok_prf : forall s s' e, f s = (s', Ok e) -> out_ok e.

#[export] Instance parseOutputExpr_ok : OutOkFn parseOutputExpr.
Proof.
  intros s s' e H. unfold parseOutputExpr in H. walk H; inv_pair; cbn [out_ok].
  all: first
    [ split; [constructor|]; constructor; [eapply parseTargetType_ok; eassumption|constructor]
    | split; [eapply parseColumns_ok; eassumption|eapply parseTargetTypes_ok; eassumption] ].
Qed.

#[export] Instance parseSliceInputExpr_ok : OutOkFn parseSliceInputExpr.
Proof. intros s s' e H. unfold parseSliceInputExpr in H. walk H; inv_pair; exact I. Qed.

#[export] Instance parseMemberInputExpr_ok : OutOkFn parseMemberInputExpr.
Proof. intros s s' e H. unfold parseMemberInputExpr in H. walk H; inv_pair; exact I. Qed.

#[export] Instance parseAsteriskInsertExpr_ok : OutOkFn parseAsteriskInsertExpr.
Proof. intros s s' e H. unfold parseAsteriskInsertExpr in H. walk H; inv_pair; exact I. Qed.

Ltac out_ok_leaf :=
  first [ exact I
        | match goal with
          | E : ?g ?s = (_, Ok ?e) |- out_ok ?e =>
              let inst := constr:(_ : OutOkFn g) in exact (@out_ok_prf g inst _ _ _ E)
          end ].

#[export] Instance parseInsertExpr_ok : OutOkFn parseInsertExpr.
Proof.
  intros s s' e H. unfold parseInsertExpr, is_fuel_err in H. walk H; inv_pair; out_ok_leaf.
Qed.

#[export] Instance parseInputExpr_ok : OutOkFn parseInputExpr.
Proof.
  intros s s' e H. unfold parseInputExpr in H. walk H; try inv_pair; try out_ok_leaf.
  all: eapply (out_ok_prf (f:=parseInsertExpr)); exact H.
Qed.

(* ------------------------------------------------------------- main loop -- *)

(* a property of every segment: true of bypasses and of whatever the two
   top-level expression parsers return *)
Lemma parse_loop_forall (P : expr -> Prop) :
  (forall c, P (Bypass c)) ->
  (forall s s' e, parseOutputExpr s = (s', Ok e) -> P e) ->
  (forall s s' e, parseInputExpr s = (s', Ok e) -> P e) ->
  forall fuel prev acc st segs,
    Forall P acc -> parse_loop fuel prev acc st = Ok segs -> Forall P segs.
Proof.
  intros PB PO PI. induction fuel as [|f IH]; intros prev acc st segs F H; simpl in H; [discriminate|].
  destruct (advanceToNextExpression st) as [st1 r1] eqn:A.
  assert (FB : Forall P (add_bypass prev st1 acc)).
  { unfold add_bypass. destruct (Nat.eqb (pos prev) (pos st1)); [exact F|].
    apply Forall_app. split; [exact F|]. constructor; [apply PB|constructor]. }
  assert (H' : (if at_end st1 then Ok (add_bypass prev st1 acc)
          else match parseOutputExpr st1 with
               | (_, Err e) => Err e
               | (st2, Ok out) => parse_loop f st2 (add_bypass prev st1 acc ++ [out]) st2
               | (st2, No) =>
                   match parseInputExpr st2 with
                   | (_, Err e) => Err e
                   | (st3, Ok inp) => parse_loop f st3 (add_bypass prev st1 acc ++ [inp]) st3
                   | (st3, No) => parse_loop f prev acc (advance st3)
                   end
               end) = Ok segs).
  { destruct r1; try exact H. discriminate. }
  clear H. rename H' into H.
  destruct (at_end st1); [inversion H; subst; exact FB|].
  destruct (parseOutputExpr st1) as [st2 [out| |e]] eqn:O; [| |discriminate].
  - eapply IH; [|exact H]. apply Forall_app. split; [exact FB|].
    constructor; [eapply PO; exact O|constructor].
  - destruct (parseInputExpr st2) as [st3 [ie| |e]] eqn:Pin; [| |discriminate].
    + eapply IH; [|exact H]. apply Forall_app. split; [exact FB|].
      constructor; [eapply PI; exact Pin|constructor].
    + eapply IH; [exact F|exact H].
Qed.

(* every output segment of an accepted query satisfies the name hypotheses of
   [output_no_wildcard] *)
Theorem parser_names_no_star inp segs :
  parse inp = Ok segs ->
  forall raw cols targets, In (Output raw cols targets) segs ->
    Forall (fun c => columnName c = star \/ no_star_end (columnName c)) cols /\
    Forall (fun t => mname t = star \/ no_star_end (mname t)) targets.
Proof.
  intros H raw cols targets Hin. unfold parse in H.
  assert (F : Forall out_ok segs).
  { eapply (parse_loop_forall out_ok); [intros c; exact I| | |constructor|exact H].
    - intros s s' e. apply (out_ok_prf (f:=parseOutputExpr)).
    - intros s s' e. apply (out_ok_prf (f:=parseInputExpr)). }
  rewrite Forall_forall in F. exact (F _ Hin).
Qed.

(* ------------------------------------------------- no wildcard, end to end -- *)

Definition clean_te (te : texpr) : Prop :=
  match te with TOutput ocs => Forall clean_oc ocs | _ => True end.

Lemma bind_exprs_clean env : forall es b b1,
  Forall out_ok es -> wf_infos (b_infos b) -> Forall clean_te (b_exprs b) ->
  bind_exprs env b es = BOk b1 -> Forall clean_te (b_exprs b1).
Proof.
  induction es as [|e es IH]; intros b b1 FO W FC H; cbn [bind_exprs] in H.
  - bok H. exact FC.
  - binv H. inversion FO as [|e' es' Oe Oes]; subst.
    eapply IH; [exact Oes| | |exact H].
    + apply bind_expr_inv in E. destruct E as [Ei _]. rewrite Ei. exact W.
    + destruct e.
      1-6: (apply bind_expr_kind in E; destruct E as [te [Ee K]]; rewrite Ee;
            apply Forall_app; split; [exact FC|]; constructor; [|constructor];
            cbn in K; first [subst te|destruct K as [x K]; subst te]; exact I).
      destruct Oe as [Oc Ot].
      destruct (output_no_wildcard _ _ _ _ _ _ W Oc Ot E) as [ocs [_ [Ee Cl]]].
      rewrite Ee. apply Forall_app. split; [exact FC|]. constructor; [exact Cl|constructor].
Qed.

(* For a parsed and prepared query, no typed output expression has a column
   that is "*" or ends in '*'. *)
Theorem no_wildcard_parsed env inp segs samples tbe :
  parse inp = Ok segs ->
  bind_types env segs samples = BOk tbe ->
  forall ocs, In (TOutput ocs) tbe -> Forall clean_oc ocs.
Proof.
  intros P BT ocs Hin.
  assert (FO : Forall out_ok segs).
  { apply Forall_forall. intros e Ie. destruct e; try exact I.
    exact (parser_names_no_star _ _ P _ _ _ Ie). }
  apply bind_types_inv in BT. destruct BT as [infos [b [G [B [_ E]]]]]. subst tbe.
  assert (F : Forall clean_te (b_exprs b)).
  { eapply bind_exprs_clean; [exact FO| | |exact B]; cbn [b_infos b_exprs]; [|constructor].
    eapply generate_arg_info_wf; [|exact G]. constructor. }
  rewrite Forall_forall in F. exact (F _ Hin).
Qed.
