(* C01: every SQLair expression the parser recognises contains a sigil
   ('$' = 36 or '&' = 38) in its source text, so a query without sigils is a
   single bypass segment.

   Structure (same style as ParserExt.v / ParserFuel.v):
   - [sigb a b]: b is reached from a and the text between them has a sigil;
   - [SigFn f] : f s = (s', Ok _)  ->  the text f consumed has a sigil
     (transitive form: from any root state before s);
   - one lemma per loop that can only succeed after a sigil was read. *)
From SQLair.Base Require Import Bytes Utf8.
From SQLair.Model Require Import GenUnicode GenConsts Parser.
From SQLair.Proofs Require Import Utf8Facts ParserExt ParserTiling ParserFuel.

Definition is_sigil (b : N) : Prop := b = 36%N \/ b = 38%N.
Definition has_sigil (s : str) : Prop := exists b, In b s /\ is_sigil b.

Lemma has_sigil_app_l a b : has_sigil a -> has_sigil (a ++ b).
Proof. intros [x [I S]]. exists x. split; [apply in_or_app; left; exact I|exact S]. Qed.

Lemma has_sigil_app_r a b : has_sigil b -> has_sigil (a ++ b).
Proof. intros [x [I S]]. exists x. split; [apply in_or_app; right; exact I|exact S]. Qed.

(* ----------------------------------------------------- slice composition -- *)

Lemma slice_app a b c : ext a b -> ext b c -> slice a c = slice a b ++ slice b c.
Proof.
  intros Eab Ebc. pose proof (ext_trans _ _ _ Eab Ebc) as Eac.
  pose proof (slice_ext _ _ Eac) as H1. pose proof (slice_ext _ _ Eab) as H2.
  pose proof (slice_ext _ _ Ebc) as H3. rewrite H3, app_assoc in H2. rewrite H2 in H1.
  apply app_inv_tail in H1. symmetry. exact H1.
Qed.

Definition sigb (a b : pstate) : Prop := ext a b /\ has_sigil (slice a b).

Lemma sigb_l a b c : ext a b -> sigb b c -> sigb a c.
Proof.
  intros E [E2 S]. split; [eapply ext_trans; eassumption|].
  rewrite (slice_app a b c E E2). apply has_sigil_app_r. exact S.
Qed.

Lemma sigb_r a b c : sigb a b -> ext b c -> sigb a c.
Proof.
  intros [E S] E2. split; [eapply ext_trans; eassumption|].
  rewrite (slice_app a b c E E2). apply has_sigil_app_l. exact S.
Qed.

(* skipping a sigil *)
Lemma skipChar_sig c s s' : skipChar c s = (s', true) -> is_sigil c -> sigb s s'.
Proof.
  unfold skipChar. destruct (negb (at_end s) && N.eqb (cur s) c) eqn:B; intros H Sc; inversion H; subst.
  split; [apply advance_ext|].
  apply andb_prop in B. destruct B as [AE C]. apply negb_true_iff in AE. apply N.eqb_eq in C.
  unfold at_end in AE. unfold cur in C. unfold slice, advance.
  destruct (rest s) as [|b t] eqn:R; [discriminate|].
  destruct (decode_rune (b :: t)) as [r size] eqn:D. cbn [fst] in C. subst r.
  assert (Lt : (c < 128)%N) by (destruct Sc; subst c; reflexivity).
  destruct (decode_rune_small _ _ _ D Lt) as [t' [E Sz]]. subst size.
  exists c. split; [|exact Sc].
  destruct (N.eqb c 10); cbn [pos rest]; replace (pos s + 1 - pos s) with 1 by lia;
    rewrite E; left; reflexivity.
Qed.

(* ----------------------------------------------------- proof machinery -- *)

Class SigFn {A} (f : pstate -> pstate * res A) : Prop :=
  sig_prf : forall st0 s s' v, ext st0 s -> f s = (s', Ok v) -> sigb st0 s'.

(* Records, for the calls in the context: the state after a skipped sigil, the
   state after a successful call of a [SigFn], and every state reached from a
   state already known to be after a sigil. *)
Ltac sig_record st0 :=
  ext_record st0;
  repeat match goal with
  | E : skipChar ?c ?s = (?s1, true) |- _ =>
      lazymatch goal with
      | _ : sigb st0 s1 |- _ => fail
      | _ => assert (sigb st0 s1)
               by (eapply sigb_l;
                   [|eapply skipChar_sig; [exact E|first [left; reflexivity|right; reflexivity]]];
                   eauto 3 with extdb)
      end
  | E : ?g ?s = (?s1, Ok _) |- _ =>
      lazymatch goal with
      | _ : sigb st0 s1 |- _ => fail
      | _ => let inst := constr:(_ : SigFn g) in
             assert (sigb st0 s1) by (eapply (@sig_prf _ g inst); [|exact E]; eauto 3 with extdb)
      end
  | E : ?g ?s = (?s1, _), S : sigb st0 ?s |- _ =>
      lazymatch goal with
      | _ : sigb st0 s1 |- _ => fail
      | _ => let inst := constr:(_ : ExtFn g) in
             assert (sigb st0 s1)
               by (eapply sigb_r; [exact S|eapply (@ext_prf _ g inst); [apply ext_refl|exact E]])
      end
  end.

Ltac sig_go st0 H :=
  walk H; fix_negb; try discriminate; try inv_pair; sig_record st0; try assumption.

(* ------------------------------------------------------------ accessors -- *)

#[export] Instance parseInputMemberAccessor_sig : SigFn parseInputMemberAccessor.
Proof. intros st0 s s' v E0 H. unfold parseInputMemberAccessor in H. sig_go st0 H. Qed.

#[export] Instance parseTargetType_sig : SigFn parseTargetType.
Proof. intros st0 s s' v E0 H. unfold parseTargetType in H. sig_go st0 H. Qed.

Section ParseListSig.
  Context {T : Type} (parseFn : pstate -> pstate * res T).
  Context (parseFn_ext : ExtFn parseFn).
  Context (parseFn_sig : SigFn parseFn).

  (* after the first element a sigil has been read *)
  Lemma parseList_loop_sig fuel : forall cp first acc st0 s s' v,
    ext st0 s -> (first = false -> sigb st0 s) ->
    parseList_loop parseFn fuel cp first acc s = (s', Ok v) -> sigb st0 s'.
  Proof using parseFn_ext parseFn_sig.
    induction fuel as [|f IH]; intros cp first acc st0 s s' v E0 Hs H; simpl in H; [discriminate|].
    sig_go st0 H.
    all: refine (IH _ _ _ _ _ _ _ _ _ H); [eauto 3 with extdb|intros _; assumption].
  Qed.

  #[export] Instance parseList_sig : SigFn (parseList parseFn).
  Proof using parseFn_ext parseFn_sig.
    intros st0 s s' v E0 H. unfold parseList in H. sig_go st0 H.
    refine (parseList_loop_sig _ _ _ _ _ _ _ _ _ _ H); [eauto 3 with extdb|discriminate].
  Qed.
End ParseListSig.

#[export] Instance parseTargetTypes_sig : SigFn parseTargetTypes.
Proof. intros st0 s s' v E0 H. unfold parseTargetTypes in H. sig_go st0 H. Qed.

#[export] Instance parseOutputExpr_sig : SigFn parseOutputExpr.
Proof. intros st0 s s' v E0 H. unfold parseOutputExpr in H. sig_go st0 H. Qed.

#[export] Instance parseSliceInputExpr_sig : SigFn parseSliceInputExpr.
Proof. intros st0 s s' v E0 H. unfold parseSliceInputExpr in H. sig_go st0 H. Qed.

#[export] Instance parseMemberInputExpr_sig : SigFn parseMemberInputExpr.
Proof. intros st0 s s' v E0 H. unfold parseMemberInputExpr in H. sig_go st0 H. Qed.

#[export] Instance parseComplexInsertValues_sig : SigFn parseComplexInsertValues.
Proof.
  intros st0 s s' v E0 H. unfold parseComplexInsertValues, is_fuel_err in H. sig_go st0 H.
Qed.

#[export] Instance parseAsteriskInsertExpr_sig : SigFn parseAsteriskInsertExpr.
Proof. intros st0 s s' v E0 H. unfold parseAsteriskInsertExpr in H. sig_go st0 H. Qed.

(* the loop answers Ok only once an input has been parsed *)
Lemma basicvals_loop_sig fuel : forall cp ip acc st0 s s' v,
  ext st0 s -> (ip = true -> sigb st0 s) ->
  basicvals_loop fuel cp ip acc s = (s', Ok v) -> sigb st0 s'.
Proof.
  induction fuel as [|f IH]; intros cp ip acc st0 s s' v E0 Hs H; simpl in H; [discriminate|].
  walk H; fix_negb; try discriminate; try inv_pair.
  all: try (specialize (Hs eq_refl)).
  all: sig_record st0; try assumption.
  all: refine (IH _ _ _ _ _ _ _ _ _ H); [eauto 3 with extdb|].
  all: try (intros _; assumption).
  all: intros Hip; specialize (Hs Hip); sig_record st0; assumption.
Qed.

#[export] Instance parseBasicInsertValues_sig : SigFn parseBasicInsertValues.
Proof.
  intros st0 s s' v E0 H. unfold parseBasicInsertValues, is_fuel_err in H. sig_go st0 H.
  refine (basicvals_loop_sig _ _ _ _ _ _ _ _ _ _ H); [eauto 3 with extdb|discriminate].
Qed.

#[export] Instance parseInsertExpr_sig : SigFn parseInsertExpr.
Proof. intros st0 s s' v E0 H. unfold parseInsertExpr, is_fuel_err in H. sig_go st0 H. Qed.

#[export] Instance parseInputExpr_sig : SigFn parseInputExpr.
Proof. intros st0 s s' v E0 H. unfold parseInputExpr in H. sig_go st0 H. Qed.

(* ------------------------------------------------------------ main loop -- *)

(* a segment is a bypass or its source text has a sigil *)
Definition seg_sigil (e : expr) : Prop := is_bypass e = false -> has_sigil (raw_of e).

Lemma expr_sigil (f : pstate -> pstate * res expr) (Hs : SigFn f) st st' e :
  f st = (st', Ok e) -> expr_spec st st' (Ok e) -> seg_sigil e /\ is_bypass e = false.
Proof.
  intros H [Raw NB]. split; [|exact NB]. intros _. rewrite Raw.
  exact (proj2 (sig_prf (f:=f) st st st' e (ext_refl _) H)).
Qed.

Lemma add_bypass_tail prev cstart acc :
  exists tl, add_bypass prev cstart acc = acc ++ tl /\ Forall seg_sigil tl /\
             length tl <= 1 /\ forallb is_bypass tl = true.
Proof.
  unfold add_bypass. destruct (Nat.eqb (pos prev) (pos cstart)).
  - exists []. rewrite app_nil_r. repeat split; [constructor|cbn; lia].
  - eexists. split; [reflexivity|]. repeat split; [|cbn; lia].
    constructor; [|constructor]. intros NB. discriminate NB.
Qed.

(* What the main loop adds to the segments found so far: every added segment
   that is not a bypass has a sigil; and when nothing but bypasses is added, at
   most one is. *)
Lemma parse_loop_tail fuel : forall prev acc st segs,
  parse_loop fuel prev acc st = Ok segs ->
  exists tl, segs = acc ++ tl /\ Forall seg_sigil tl /\
             (forallb is_bypass tl = true -> length tl <= 1).
Proof.
  induction fuel as [|f IH]; intros prev acc st segs H; simpl in H; [discriminate|].
  destruct (advanceToNextExpression st) as [st1 r1] eqn:A.
  assert (H' : (if at_end st1 then Ok (add_bypass prev st1 acc)
          else match parseOutputExpr st1 with
               | (_, Err e) => Err e
               | (st2, Ok out) => parse_loop f st2 (add_bypass prev st1 acc ++ [out]) st2
               | (st2, No) =>
                   match parseInputExpr st2 with
                   | (_, Err e) => Err e
                   | (st3, Ok inp) => parse_loop f st3 (add_bypass prev st1 acc ++ [inp]) st3
                   | (st3, No) => parse_loop f prev acc (advance st3)
                   end
               end) = Ok segs).
  { destruct r1; try exact H. discriminate. }
  clear H. rename H' into H.
  destruct (add_bypass_tail prev st1 acc) as [bt [Eb [Fb [Lb Bb]]]].
  assert (Step : forall e st2, seg_sigil e /\ is_bypass e = false ->
            parse_loop f st2 (add_bypass prev st1 acc ++ [e]) st2 = Ok segs ->
            exists tl, segs = acc ++ tl /\ Forall seg_sigil tl /\
                       (forallb is_bypass tl = true -> length tl <= 1)).
  { intros e st2 [Se NB] HL. apply IH in HL. destruct HL as [tl [E [F _]]].
    exists (bt ++ [e] ++ tl). rewrite E, Eb, <- !app_assoc. split; [reflexivity|]. split.
    - apply Forall_app. split; [exact Fb|]. apply Forall_app. split; [|exact F].
      constructor; [exact Se|constructor].
    - intros B. rewrite !forallb_app in B. apply andb_prop in B. destruct B as [_ B].
      apply andb_prop in B. destruct B as [B _]. cbn in B. rewrite NB in B. discriminate B. }
  destruct (at_end st1) eqn:AE.
  - inversion H; subst. exists bt. split; [exact Eb|]. split; [exact Fb|]. intros _. exact Lb.
  - destruct (parseOutputExpr st1) as [st2 r2] eqn:O.
    pose proof (parseOutputExpr_spec _ _ _ O) as SO.
    destruct r2 as [out| |e]; [| |discriminate].
    + eapply Step; [|exact H]. eapply (expr_sigil parseOutputExpr _); eassumption.
    + simpl in SO. subst st2.
      destruct (parseInputExpr st1) as [st3 r3] eqn:P.
      pose proof (parseInputExpr_spec _ _ _ P) as SP.
      destruct r3 as [ie| |e]; [| |discriminate].
      * eapply Step; [|exact H]. eapply (expr_sigil parseInputExpr _); eassumption.
      * eapply IH. exact H.
Qed.

(* every expression segment of an accepted query contains '$' or '&' *)
Theorem expr_has_sigil inp segs :
  parse inp = Ok segs -> Forall seg_sigil segs.
Proof.
  unfold parse. intros H. apply parse_loop_tail in H. destruct H as [tl [E [F _]]].
  cbn [app] in E. subst segs. exact F.
Qed.

Lemma in_flat_raw e segs b : In e segs -> In b (raw_of e) -> In b (concat (map raw_of segs)).
Proof.
  intros Ie Ib. apply in_concat. exists (raw_of e). split; [|exact Ib].
  apply in_map. exact Ie.
Qed.

(* a query without '$' and '&' is one bypass segment (none if it is empty) *)
Theorem no_sigil_no_expression inp segs :
  (forall b, In b inp -> b <> 36%N /\ b <> 38%N) ->
  parse inp = Ok segs ->
  segs = [Bypass inp] \/ (inp = [] /\ segs = []).
Proof.
  intros NS P. pose proof (parse_tiling _ _ P) as T.
  unfold parse in P. apply parse_loop_tail in P. destruct P as [tl [E [F L]]].
  cbn [app] in E. subst tl.
  assert (B : forallb is_bypass segs = true).
  { apply forallb_forall. intros e Ie. destruct (is_bypass e) eqn:Be; [reflexivity|exfalso].
    rewrite Forall_forall in F. destruct (F e Ie Be) as [b [Ib Sb]].
    assert (Ii : In b inp) by (rewrite <- T; eapply in_flat_raw; eassumption).
    destruct (NS b Ii) as [N1 N2]. destruct Sb; contradiction. }
  specialize (L B). destruct segs as [|e [|e2 segs]]; cbn [length] in L; [| |lia].
  - right. cbn in T. split; [symmetry; exact T|reflexivity].
  - left. cbn [forallb] in B. apply andb_prop in B. destruct B as [Be _].
    destruct e; try discriminate Be. cbn in T. rewrite app_nil_r in T. subst chunk. reflexivity.
Qed.

(* the same, with the definitions unfolded *)
Theorem expr_has_sigil_in inp segs :
  parse inp = Ok segs ->
  forall e, In e segs -> is_bypass e = false ->
    exists b, In b (raw_of e) /\ (b = 36%N \/ b = 38%N).
Proof.
  intros P e Ie NB. pose proof (expr_has_sigil _ _ P) as F. rewrite Forall_forall in F.
  exact (F e Ie NB).
Qed.

(* ------------------------------------------------- canonical segmentation -- *)

(* The segments alternate: a bypass chunk is never empty and is always
   followed by an expression or by the end of the query (so two bypass chunks
   are never adjacent). *)
Inductive segs_canon : list expr -> Prop :=
| sc_nil : segs_canon []
| sc_byp c : c <> [] -> segs_canon [Bypass c]
| sc_expr e tl : is_bypass e = false -> segs_canon tl -> segs_canon (e :: tl)
| sc_byp_expr c e tl : c <> [] -> is_bypass e = false -> segs_canon tl ->
    segs_canon (Bypass c :: e :: tl).

Lemma add_bypass_cases prev cstart acc : ext prev cstart ->
  add_bypass prev cstart acc = acc \/
  exists c, c <> [] /\ add_bypass prev cstart acc = acc ++ [Bypass c].
Proof.
  intros E. unfold add_bypass. destruct (Nat.eqb (pos prev) (pos cstart)) eqn:P; [left; reflexivity|].
  right. exists (slice prev cstart). split; [|reflexivity].
  apply Nat.eqb_neq in P. pose proof (ext_pos _ _ E) as Le.
  intros Z. pose proof (slice_ext_length _ _ E) as L. rewrite Z in L. cbn in L. lia.
Qed.

Lemma parse_loop_canon fuel : forall prev acc st segs,
  ext prev st ->
  parse_loop fuel prev acc st = Ok segs ->
  exists tl, segs = acc ++ tl /\ segs_canon tl.
Proof.
  induction fuel as [|f IH]; intros prev acc st segs E H; simpl in H; [discriminate|].
  destruct (advanceToNextExpression st) as [st1 r1] eqn:A.
  assert (E1 : ext prev st1) by (exact (ext_prf (f:=advanceToNextExpression) _ _ _ _ E A)).
  assert (H' : (if at_end st1 then Ok (add_bypass prev st1 acc)
          else match parseOutputExpr st1 with
               | (_, Err e) => Err e
               | (st2, Ok out) => parse_loop f st2 (add_bypass prev st1 acc ++ [out]) st2
               | (st2, No) =>
                   match parseInputExpr st2 with
                   | (_, Err e) => Err e
                   | (st3, Ok inp) => parse_loop f st3 (add_bypass prev st1 acc ++ [inp]) st3
                   | (st3, No) => parse_loop f prev acc (advance st3)
                   end
               end) = Ok segs).
  { destruct r1; try exact H. discriminate. }
  clear H. rename H' into H.
  assert (Step : forall e st2, is_bypass e = false ->
            parse_loop f st2 (add_bypass prev st1 acc ++ [e]) st2 = Ok segs ->
            exists tl, segs = acc ++ tl /\ segs_canon tl).
  { intros e st2 NB HL. apply IH in HL; [|apply ext_refl]. destruct HL as [tl [Es C]].
    destruct (add_bypass_cases prev st1 acc E1) as [Eb|[c [NE Eb]]]; rewrite Eb in Es.
    - exists (e :: tl). rewrite Es, <- app_assoc. split; [reflexivity|]. apply sc_expr; assumption.
    - exists (Bypass c :: e :: tl). rewrite Es, <- !app_assoc. split; [reflexivity|].
      apply sc_byp_expr; assumption. }
  destruct (at_end st1) eqn:AE.
  - inversion H; subst.
    destruct (add_bypass_cases prev st1 acc E1) as [Eb|[c [NE Eb]]]; rewrite Eb.
    + exists []. rewrite app_nil_r. split; [reflexivity|constructor].
    + exists [Bypass c]. split; [reflexivity|]. apply sc_byp. exact NE.
  - destruct (parseOutputExpr st1) as [st2 r2] eqn:O.
    pose proof (parseOutputExpr_spec _ _ _ O) as SO.
    destruct r2 as [out| |e]; [| |discriminate].
    + eapply Step; [exact (proj2 SO)|exact H].
    + simpl in SO. subst st2.
      destruct (parseInputExpr st1) as [st3 r3] eqn:P.
      pose proof (parseInputExpr_spec _ _ _ P) as SP.
      destruct r3 as [ie| |e]; [| |discriminate].
      * eapply Step; [exact (proj2 SP)|exact H].
      * simpl in SP. subst st3. eapply IH; [|exact H].
        eapply ext_trans; [exact E1|apply advance_ext].
Qed.

Theorem parse_canonical inp segs : parse inp = Ok segs -> segs_canon segs.
Proof.
  unfold parse. intros H. apply parse_loop_canon in H; [|apply ext_refl].
  destruct H as [tl [E C]]. cbn [app] in E. subst segs. exact C.
Qed.

(* the same without the inductive definition: no empty bypass, and the segment
   after a bypass is an expression *)
Theorem parse_canonical_nth inp segs :
  parse inp = Ok segs ->
  (forall i c, nth_error segs i = Some (Bypass c) -> c <> []) /\
  (forall i c e, nth_error segs i = Some (Bypass c) -> nth_error segs (S i) = Some e ->
     is_bypass e = false).
Proof.
  intros H. apply parse_canonical in H. induction H as [|c NE|e tl NB C IH|c e tl NE NB C IH].
  - split; intros i; destruct i; discriminate.
  - split.
    + intros [|[|i]] c0 Hn; cbn in Hn; try discriminate. inversion Hn; subst. exact NE.
    + intros [|[|i]] c0 e Hn Hs; cbn in Hn, Hs; discriminate.
  - destruct IH as [I1 I2]. split.
    + intros [|i] c0 Hn; cbn [nth_error] in Hn.
      * inversion Hn; subst. discriminate NB.
      * eapply I1. exact Hn.
    + intros [|i] c0 e0 Hn Hs; cbn [nth_error] in Hn.
      * inversion Hn; subst. discriminate NB.
      * eapply I2; [exact Hn|exact Hs].
  - destruct IH as [I1 I2]. split.
    + intros [|[|i]] c0 Hn; cbn [nth_error] in Hn.
      * inversion Hn; subst. exact NE.
      * inversion Hn; subst. discriminate NB.
      * eapply I1. exact Hn.
    + intros [|[|i]] c0 e0 Hn Hs; cbn [nth_error] in Hn, Hs.
      * inversion Hs; subst. exact NB.
      * inversion Hn; subst. discriminate NB.
      * eapply I2; [exact Hn|exact Hs].
Qed.
